import Rivaas.Spec.RateLimit
/-
C16 — Rate limiting conforms to its algorithm under concurrency.
Token bucket (units: 1/512 token, 1/512 s): never over-admits for *every* clock sequence
(potential argument), agrees with the reference bucket for non-decreasing clocks, keys are
independent, simultaneous calls admit at most the tokens available, `resetSeconds` / Retry-After is
the least whole number of seconds after which a retry succeeds. Sliding window: per key and fixed
window at most `limit` admissions when requests are served one after the other; the check-then-act
race and the untruthful Retry-After of the shipped code are `decide`-proved witnesses (K16b).
-/
namespace Rivaas.C16
open Rivaas.RateLimit

/-! ## token bucket: the potential argument (every clock sequence) -/

theorem lemma_mul_sub (r a b : Int) : (a - b) * r = r * a - r * b := by
  rw [Int.sub_mul, Int.mul_comm a r, Int.mul_comm b r]

/-- `tokens − rate·lastUpdate` never increases, and an admission lowers it by one token -/
theorem lemma_allow_potential (r B : Int) (s : Bucket) (now : Int) :
    (allow r B s now).1.tok - r * (allow r B s now).1.last + 512 * (if (allow r B s now).2.allowed then 1 else 0)
      ≤ s.tok - r * s.last := by
  unfold allow take refill
  have h := lemma_mul_sub r now s.last
  simp only [decide_eq_true_eq]
  split <;> split <;> omega

/-- after an admission the entry holds a non-negative amount -/
theorem lemma_allow_nonneg (r B : Int) (s : Bucket) (now : Int) (h : (allow r B s now).2.allowed = true) :
    0 ≤ (allow r B s now).1.tok := by
  unfold allow take at h ⊢
  simp only [decide_eq_true_eq] at h
  simp only [h, if_true]
  omega

theorem lemma_allow_last (r B : Int) (s : Bucket) (now : Int) : (allow r B s now).1.last = now := rfl

/-- refilling twice at the same instant changes nothing: a call decides as if the entry had been
    brought up to date first -/
theorem lemma_allow_refill (r B : Int) (s : Bucket) (now : Int) :
    allow r B (refill r B s now) now = allow r B s now := by
  unfold allow
  have : refill r B (refill r B s now) now = refill r B s now := by
    unfold refill; simp only [Int.sub_self, Int.zero_mul, Int.add_zero]
    split
    · simp
    · first | rfl | simp
  rw [this]

theorem lemma_refill_le (r B : Int) (s : Bucket) (now : Int) : (refill r B s now).tok ≤ B := by
  unfold refill; simp only; split <;> omega

/-- over any run: either nothing was admitted, or some call time `tk` of the run bounds the
    admissions by the initial potential plus `rate·tk` -/
theorem lemma_run_bound (r B : Int) (s : Bucket) (ts : List Int) :
    countTrue (run r B s ts).2 = 0 ∨
    ∃ tk ∈ ts, 512 * (countTrue (run r B s ts).2 : Int) ≤ s.tok - r * s.last + r * tk := by
  induction ts generalizing s with
  | nil => left; rfl
  | cons t ts ih =>
    simp only [run]
    have hp := lemma_allow_potential r B s t
    have hl := lemma_allow_last r B s t
    rcases ih (allow r B s t).1 with h0 | ⟨tk, htk, hb⟩
    · by_cases ha : (allow r B s t).2.allowed = true
      · right
        refine ⟨t, List.mem_cons_self .., ?_⟩
        have hn := lemma_allow_nonneg r B s t ha
        simp only [countTrue, List.filter_cons, ha, id, if_true, List.length_cons] at h0 ⊢
        simp only [ha, if_true] at hp
        rw [hl] at hp
        rw [h0]; omega
      · left
        simp only [countTrue, List.filter_cons, ha, id] at h0 ⊢
        simpa using h0
    · right
      refine ⟨tk, List.mem_cons_of_mem _ htk, ?_⟩
      by_cases ha : (allow r B s t).2.allowed = true
      · simp only [countTrue, List.filter_cons, ha, id, if_true, List.length_cons] at hb ⊢
        simp only [ha, if_true] at hp
        omega
      · simp only [countTrue, List.filter_cons, ha, id] at hb ⊢
        simp only [ha] at hp
        simp at hp ⊢
        omega

/-- **The limiter never over-admits, for every clock sequence** (non-decreasing, regressing, anything):
    from any entry state, calls whose timestamps all lie in an interval of length `T` (in 1/512 s)
    contain at most `burst + rate·T` admissions (in 1/512 token: `512·admitted ≤ B + r·T`). -/
theorem bucket_never_over_admits (r B : Int) (hr : 0 ≤ r) (hB : 0 ≤ B) (s : Bucket) (ts : List Int)
    (a T : Int) (hT : 0 ≤ T) (hin : ∀ t ∈ ts, a ≤ t ∧ t ≤ a + T) :
    512 * (countTrue (run r B s ts).2 : Int) ≤ B + r * T := by
  have hrT : 0 ≤ r * T := Int.mul_nonneg hr hT
  cases ts with
  | nil => simp [run, countTrue]; omega
  | cons t1 rest =>
    -- bring the entry up to date at the first call: its level is then at most the burst
    have hsame : run r B s (t1 :: rest) = run r B (refill r B s t1) (t1 :: rest) := by
      simp only [run, lemma_allow_refill]
    rw [hsame]
    have hle := lemma_refill_le r B s t1
    have hlast : (refill r B s t1).last = t1 := rfl
    rcases lemma_run_bound r B (refill r B s t1) (t1 :: rest) with h0 | ⟨tk, htk, hb⟩
    · rw [h0]; simp; omega
    · rw [hlast] at hb
      have h1 := hin t1 (List.mem_cons_self ..)
      have hk := hin tk htk
      have : r * tk - r * t1 ≤ r * T := by
        have : r * (tk - t1) ≤ r * T := Int.mul_le_mul_of_nonneg_left (by omega) hr
        rw [Int.mul_sub] at this; exact this
      omega

/-! ## token bucket: agreement with the reference bucket (non-decreasing clocks) -/

/-- coupling between the limiter's entry and the reference bucket: the entry is the reference level
    brought forward to the entry's `lastUpdate` -/
def Coupled (r B : Int) (s : Bucket) (x : Ref) : Prop :=
  x.at_ ≤ s.last ∧ s.tok = min B (x.level + r * (s.last - x.at_))

theorem lemma_coupled_step (r B : Int) (hr : 0 ≤ r) (s : Bucket) (x : Ref) (now : Int)
    (hc : Coupled r B s x) (hnow : s.last ≤ now) :
    (refill r B s now).tok = x.avail r B now ∧
    (allow r B s now).2.allowed = (x.step r B now).2 ∧
    Coupled r B (allow r B s now).1 (x.step r B now).1 := by
  obtain ⟨h1, h2⟩ := hc
  have hm1 := lemma_mul_sub r now s.last
  have hm2 : r * (s.last - x.at_) = r * s.last - r * x.at_ := Int.mul_sub ..
  have hm3 : r * (now - x.at_) = r * now - r * x.at_ := Int.mul_sub ..
  have hmono : r * s.last ≤ r * now := Int.mul_le_mul_of_nonneg_left hnow hr
  have hav : (refill r B s now).tok = x.avail r B now := by
    unfold refill Ref.avail
    simp only
    rw [h2, hm1, hm2, hm3]
    split <;> omega
  refine ⟨hav, ?_, ?_⟩
  · unfold allow take Ref.step
    simp only [hav]
    by_cases h : x.avail r B now ≥ 512 <;> simp [h]
  · unfold Coupled allow take Ref.step
    simp only [hav]
    by_cases h : x.avail r B now ≥ 512
    · simp only [h, if_true]
      refine ⟨Int.le_refl _, ?_⟩
      show x.avail r B now - 512 = min B (x.avail r B now - 512 + r * (now - now))
      have : x.avail r B now ≤ B := by unfold Ref.avail; omega
      simp only [Int.sub_self, Int.mul_zero, Int.add_zero]; omega
    · simp only [h, if_false]
      refine ⟨by show x.at_ ≤ now; omega, ?_⟩
      show x.avail r B now = min B (x.level + r * (now - x.at_))
      rfl

/-- **With a non-decreasing clock the limiter admits a call iff the reference bucket holds a token** -/
theorem bucket_iff_reference (r B : Int) (hr : 0 ≤ r) (s : Bucket) (x : Ref) (ts : List Int)
    (hc : Coupled r B s x) (hsorted : sorted (s.last :: ts) = true) :
    (run r B s ts).2 = Ref.run r B x ts := by
  induction ts generalizing s x with
  | nil => rfl
  | cons t ts ih =>
    simp only [sorted, Bool.and_eq_true, decide_eq_true_eq] at hsorted
    obtain ⟨_, h2, h3⟩ := lemma_coupled_step r B hr s x t hc hsorted.1
    simp only [run, Ref.run]
    rw [h2, ih (allow r B s t).1 (x.step r B t).1 h3 (by rw [lemma_allow_last]; exact hsorted.2)]

/-- a new entry (created full at its first call) is coupled with a full reference bucket -/
theorem lemma_coupled_new (r B now : Int) : Coupled r B { tok := B, last := now } { level := B, at_ := now } := by
  unfold Coupled; simp

/-! ## truthful reset / Retry-After -/

theorem lemma_ceil (need d : Int) (hd : 0 < d) (_hn : 0 < need) :
    need ≤ d * ((need + d - 1) / d) ∧ d * ((need + d - 1) / d - 1) < need := by
  have h1 := Int.mul_ediv_add_emod (need + d - 1) d
  have h2 := Int.emod_nonneg (need + d - 1) (by omega : d ≠ 0)
  have h3 := Int.emod_lt_of_pos (need + d - 1) hd
  have h4 : d * ((need + d - 1) / d - 1) = d * ((need + d - 1) / d) - d := by rw [Int.mul_sub, Int.mul_one]
  constructor <;> omega

/-- **`resetSeconds` is truthful and in seconds**: when a call at `now` is rejected with
    `resetSeconds = R`, a retry `R` seconds later (no other traffic on the key) is admitted, and
    `R` is the least positive whole number of seconds with that property. -/
theorem retry_after_truthful (r B : Int) (hr : 1 ≤ r) (hB : 512 ≤ B) (s : Bucket) (now : Int)
    (hrej : (allow r B s now).2.allowed = false) :
    1 ≤ (allow r B s now).2.reset ∧
    (allow r B (allow r B s now).1 (now + 512 * (allow r B s now).2.reset)).2.allowed = true ∧
    ((allow r B s now).2.reset = 1 ∨
     (allow r B (allow r B s now).1 (now + 512 * ((allow r B s now).2.reset - 1))).2.allowed = false) := by
  unfold allow take at hrej
  simp only [decide_eq_false_iff_not] at hrej
  have hst : (allow r B s now).1 = refill r B s now := by
    unfold allow take; simp only [hrej, if_false]
  have hR : (allow r B s now).2.reset = resetFor r (refill r B s now).tok := by
    unfold allow take; simp only [hrej, if_false]
  rw [hst, hR]
  generalize hs' : refill r B s now = s' at *
  have hlast : s'.last = now := by rw [← hs']; rfl
  have hneed : 0 < 512 - s'.tok := by omega
  have hd : 0 < 512 * r := by omega
  obtain ⟨hc1, hc2⟩ := lemma_ceil (512 - s'.tok) (512 * r) hd hneed
  generalize hq : (512 - s'.tok + 512 * r - 1) / (512 * r) = q at hc1 hc2
  have hq1 : 1 ≤ q := by
    rcases Int.lt_or_le q 1 with h | h
    · exfalso
      have : 512 * r * q ≤ 0 := Int.mul_nonpos_of_nonneg_of_nonpos (by omega) (by omega)
      omega
    · exact h
  have hRq : resetFor r s'.tok = q := by unfold resetFor; rw [hq]; omega
  rw [hRq]
  refine ⟨hq1, ?_, ?_⟩
  · unfold allow take refill
    simp only [hlast, decide_eq_true_eq]
    have : (now + 512 * q - now) * r = 512 * r * q := by
      have : now + 512 * q - now = 512 * q := by omega
      rw [this, Int.mul_assoc, Int.mul_comm q r, ← Int.mul_assoc]
    rw [this]
    split <;> omega
  · by_cases h1 : q = 1
    · left; exact h1
    · right
      unfold allow take refill
      simp only [hlast, decide_eq_false_iff_not]
      have : (now + 512 * (q - 1) - now) * r = 512 * r * (q - 1) := by
        have : now + 512 * (q - 1) - now = 512 * (q - 1) := by omega
        rw [this, Int.mul_assoc, Int.mul_comm (q - 1) r, ← Int.mul_assoc]
      rw [this]
      split <;> omega

/-! ## simultaneous calls -/

/-- **N simultaneous requests never admit more than the tokens available.** `Allow` holds the
    entry's mutex for its whole read-modify-write, so any interleaving of N calls is some order of N
    atomic `allow` steps; with one timestamp they are N identical steps, and together they admit at
    most the whole tokens the refilled entry holds. (For calls with *different* timestamps in any
    order, `bucket_never_over_admits` applies: it quantifies over every list, hence every order.) -/
theorem concurrent_le_tokens (r B : Int) (s : Bucket) (now : Int) (N : Nat) :
    512 * (countTrue (run r B s (List.replicate N now)).2 : Int) ≤ max 0 (refill r B s now).tok := by
  cases N with
  | zero => simp [run, countTrue]; omega
  | succ n =>
    have hsame : run r B s (List.replicate (n + 1) now) = run r B (refill r B s now) (List.replicate (n + 1) now) := by
      simp only [List.replicate_succ, run, lemma_allow_refill]
    rw [hsame]
    rcases lemma_run_bound r B (refill r B s now) (List.replicate (n + 1) now) with h0 | ⟨tk, htk, hb⟩
    · rw [h0]; simp; omega
    · have : tk = now := (List.mem_replicate.mp htk).2
      subst this
      have hl : (refill r B s tk).last = tk := rfl
      rw [hl] at hb
      omega

/-! ## keys do not influence each other -/

theorem lemma_get_set_self (st : Store) (k : Bytes) (b : Bucket) : (st.set k b).get k = some b := by
  induction st with
  | nil => simp [Store.set, Store.get]
  | cons kv rest ih =>
    obtain ⟨k', v⟩ := kv
    unfold Store.set
    by_cases h : (k == k') = true
    · simp only [h, if_true]
      have : k = k' := by simpa using h
      subst this
      simp [Store.get]
    · have h' : (k == k') = false := by simpa using h
      simp only [h', Bool.false_eq_true, if_false]
      unfold Store.get at ih ⊢
      rw [List.lookup_cons, h']
      exact ih

theorem lemma_get_set_other (st : Store) (k k2 : Bytes) (b : Bucket) (hne : k2 ≠ k) :
    (st.set k b).get k2 = st.get k2 := by
  have hk2 : (k2 == k) = false := by simpa using hne
  induction st with
  | nil => simp [Store.set, Store.get, hne]
  | cons kv rest ih =>
    obtain ⟨k', v⟩ := kv
    unfold Store.set
    by_cases h : (k == k') = true
    · have hk : k = k' := by simpa using h
      subst hk
      simp only [h, if_true]
      unfold Store.get
      rw [List.lookup_cons, List.lookup_cons, hk2]
    · have h' : (k == k') = false := by simpa using h
      simp only [h', Bool.false_eq_true, if_false]
      unfold Store.get at ih ⊢
      rw [List.lookup_cons, List.lookup_cons, ih]

/-- one key's calls served on that key's entry alone (created full at the first call) -/
def runKey (r B : Int) : Option Bucket → List Int → List Out
  | _, [] => []
  | e, t :: ts =>
    (allow r B (e.getD { tok := B, last := t }) t).2 ::
      runKey r B (some (allow r B (e.getD { tok := B, last := t }) t).1) ts

/-- **Keys are independent**: in any trace on a shared store, the answers to one key's calls are
    exactly what that key's calls get on an entry of their own — whatever the other keys do in
    between. -/
theorem keys_independent (r B : Int) (st : Store) (calls : List (Bytes × Int)) (k : Bytes) :
    ((calls.zip (runStore r B st calls)).filterMap fun co => if co.1.1 == k then some co.2 else none)
      = runKey r B (st.get k) ((calls.filter (·.1 == k)).map (·.2)) := by
  induction calls generalizing st with
  | nil => simp [runStore, runStoreWith, runKey]
  | cons c rest ih =>
    obtain ⟨key, t⟩ := c
    simp only [runStore, runStoreWith, List.zip_cons_cons, List.filterMap_cons, List.filter_cons]
    by_cases hk : (key == k) = true
    · have hkk : key = k := by simpa using hk
      subst hkk
      simp only [hk, if_true, List.map_cons, runKey]
      have ih' := ih (Store.allowWith allow r B st key t).1
      simp only [runStore] at ih'
      rw [ih']
      simp only [Store.allowWith, lemma_get_set_self]
    · have hkf : (key == k) = false := by simpa using hk
      simp only [hkf, Bool.false_eq_true, if_false]
      have ih' := ih (Store.allowWith allow r B st key t).1
      simp only [runStore] at ih'
      rw [ih']
      have hne : k ≠ key := fun h => by simp [h] at hkf
      simp only [Store.allowWith, lemma_get_set_other _ _ _ _ hne]

/-! ## middleware glue -/

/-- **429 with truthful headers**: the token-bucket middleware repeats the store's answer — the
    handler runs iff the call was admitted (or the limiter only reports), a rejection is answered 429
    with `Retry-After` = the store's `resetSeconds`, and `RateLimit-Remaining` / `RateLimit-Reset`
    are the store's values. -/
theorem mw_meets_spec (cfg : MwCfg) (txt : Bytes) (o : Out) : mwSpecOK cfg o (mwBucket cfg txt o) = true := by
  unfold mwSpecOK mwBucket
  cases cfg.headers <;> cases o.allowed <;> cases cfg.hasCallback <;> cases cfg.enforce <;> simp

theorem mw_rejects_with_429 (cfg : MwCfg) (txt : Bytes) (o : Out) (h : o.allowed = false)
    (he : cfg.enforce = true) (hc : cfg.hasCallback = false) :
    (mwBucket cfg txt o).status = 429 ∧ (mwBucket cfg txt o).ran = false ∧
    (mwBucket cfg txt o).retryAfter = some o.reset := by
  unfold mwBucket; simp [h, he, hc]

/-! ## the whole token-bucket oracle holds of the model -/

theorem lemma_runStore_length (r B : Int) (st : Store) (calls : List (Bytes × Int)) :
    (runStore r B st calls).length = calls.length := by
  induction calls generalizing st with
  | nil => rfl
  | cons c rest ih =>
    obtain ⟨k, t⟩ := c
    simp only [runStore, runStoreWith, List.length_cons]
    have := ih (Store.allowWith allow r B st k t).1
    simp only [runStore] at this
    rw [this]

/-- one key's (time, answer) pairs in a store trace are its calls served on its own entry -/
theorem lemma_project (r B : Int) (st : Store) (calls : List (Bytes × Int)) (k : Bytes) :
    project k calls (runStore r B st calls) =
      ((calls.filter (·.1 == k)).map (·.2)).zip (runKey r B (st.get k) ((calls.filter (·.1 == k)).map (·.2))) := by
  unfold project
  induction calls generalizing st with
  | nil => simp [runStore, runStoreWith, runKey]
  | cons c rest ih =>
    obtain ⟨key, t⟩ := c
    simp only [runStore, runStoreWith, List.zip_cons_cons, List.filterMap_cons, List.filter_cons]
    by_cases hk : (key == k) = true
    · have hkk : key = k := by simpa using hk
      subst hkk
      simp only [hk, if_true, List.map_cons, runKey, List.zip_cons_cons]
      have ih' := ih (Store.allowWith allow r B st key t).1
      simp only [runStore] at ih'
      rw [ih']
      simp only [Store.allowWith, lemma_get_set_self]
    · have hkf : (key == k) = false := by simpa using hk
      simp only [hkf, Bool.false_eq_true, if_false]
      have ih' := ih (Store.allowWith allow r B st key t).1
      simp only [runStore] at ih'
      rw [ih']
      have hne : k ≠ key := fun h => by simp [h] at hkf
      simp only [Store.allowWith, lemma_get_set_other _ _ _ _ hne]

/-- `runKey` on an existing entry: the answers, whose decisions are those of `run` -/
def outs (r B : Int) : Bucket → List Int → List Out
  | _, [] => []
  | s, t :: ts => (allow r B s t).2 :: outs r B (allow r B s t).1 ts

theorem lemma_runKey_some (r B : Int) (s : Bucket) (ts : List Int) : runKey r B (some s) ts = outs r B s ts := by
  induction ts generalizing s with
  | nil => rfl
  | cons t ts ih => simp only [runKey, outs, Option.getD_some, ih]

theorem lemma_runKey_none (r B : Int) (t : Int) (ts : List Int) :
    runKey r B none (t :: ts) = outs r B { tok := B, last := t } (t :: ts) := by
  simp only [runKey, outs, Option.getD_none, lemma_runKey_some]

theorem lemma_outs_allowed (r B : Int) (s : Bucket) (ts : List Int) :
    (outs r B s ts).map (·.allowed) = (run r B s ts).2 := by
  induction ts generalizing s with
  | nil => rfl
  | cons t ts ih => simp only [outs, run, List.map_cons, ih]

theorem lemma_outs_length (r B : Int) (s : Bucket) (ts : List Int) : (outs r B s ts).length = ts.length := by
  induction ts generalizing s with
  | nil => rfl
  | cons t ts ih => simp only [outs, List.length_cons, ih]

theorem lemma_run_snoc (r B : Int) (s0 : Bucket) (pre : List Int) (t : Int) :
    run r B s0 (pre ++ [t]) =
      ((allow r B (run r B s0 pre).1 t).1, (run r B s0 pre).2 ++ [(allow r B (run r B s0 pre).1 t).2.allowed]) := by
  induction pre generalizing s0 with
  | nil => simp [run]
  | cons a pre ih => simp only [List.cons_append, run, ih, List.cons_append]

theorem lemma_countTrue_snoc (l : List Bool) (b : Bool) :
    (countTrue (l ++ [b]) : Int) = countTrue l + (if b then 1 else 0) := by
  unfold countTrue
  cases b <;> simp [List.filter_append]

/-- the forward scan of the admission bound succeeds on the model's answers: `pre` are the calls
    already scanned (their timestamps within `[lo, hi]`), `suf` the calls still to come -/
theorem lemma_boundScan (r B : Int) (hr : 0 ≤ r) (hB : 0 ≤ B) (s0 : Bucket) (pre suf : List Int) (lo hi : Int)
    (hcont : ∀ t ∈ pre, lo ≤ t ∧ t ≤ hi) :
    boundScan r B (countTrue (run r B s0 pre).2) lo hi (suf.zip (outs r B (run r B s0 pre).1 suf)) = true := by
  induction suf generalizing pre lo hi with
  | nil => rfl
  | cons t rest ih =>
    have hsn := lemma_run_snoc r B s0 pre t
    have hcnt : (countTrue (run r B s0 (pre ++ [t])).2 : Int) =
        countTrue (run r B s0 pre).2 + (if (allow r B (run r B s0 pre).1 t).2.allowed then 1 else 0) := by
      rw [hsn]; exact lemma_countTrue_snoc _ _
    have hst : (run r B s0 (pre ++ [t])).1 = (allow r B (run r B s0 pre).1 t).1 := by rw [hsn]
    have hcont' : ∀ u ∈ pre ++ [t], min lo t ≤ u ∧ u ≤ max hi t := by
      intro u hu
      rcases List.mem_append.mp hu with h | h
      · have := hcont u h; omega
      · simp at h; subst h; omega
    have hbound := bucket_never_over_admits r B hr hB s0 (pre ++ [t]) (min lo t) (max hi t - min lo t) (by omega)
      (fun u hu => by have := hcont' u hu; omega)
    have ih' := ih (pre ++ [t]) (min lo t) (max hi t) hcont'
    rw [hst, hcnt] at ih'
    rw [hcnt] at hbound
    simp only [outs, List.zip_cons_cons, boundScan, ih', Bool.and_true, decide_eq_true_eq]
    exact hbound

/-- the admission bound holds on every prefix of a key's answers, from any entry state -/
theorem lemma_boundFrom (r B : Int) (hr : 0 ≤ r) (hB : 0 ≤ B) (s : Bucket) (ts : List Int) :
    boundFrom r B (ts.zip (outs r B s ts)) = true := by
  cases ts with
  | nil => rfl
  | cons t rest =>
    have := lemma_boundScan r B hr hB s [] (t :: rest) t t (by simp)
    simp only [outs, List.zip_cons_cons] at this ⊢
    simpa [boundFrom, run, countTrue] using this

theorem lemma_boundOK (r B : Int) (hr : 0 ≤ r) (hB : 0 ≤ B) (s : Bucket) (ts : List Int) :
    boundOK r B (ts.zip (outs r B s ts)) = true := by
  induction ts generalizing s with
  | nil => rfl
  | cons t ts ih =>
    have h1 := lemma_boundFrom r B hr hB s (t :: ts)
    simp only [outs, List.zip_cons_cons] at h1 ⊢
    simp only [boundOK, h1, Bool.true_and]
    exact ih _

/-- waiting longer never hurts: from the same entry, a later call is admitted if an earlier one is -/
theorem lemma_allow_mono (r B : Int) (hr : 0 ≤ r) (s : Bucket) (t t' : Int) (ht : t ≤ t')
    (h : (allow r B s t).2.allowed = true) : (allow r B s t').2.allowed = true := by
  unfold allow take refill at h ⊢
  simp only [decide_eq_true_eq] at h ⊢
  have h1 := lemma_mul_sub r t s.last
  have h2 := lemma_mul_sub r t' s.last
  have hmono : r * t ≤ r * t' := Int.mul_le_mul_of_nonneg_left ht hr
  split at h <;> split <;> omega

theorem lemma_retryHolds (r B : Int) (hr : 1 ≤ r) (hB : 512 ≤ B) (s : Bucket) (ts : List Int) :
    retryHolds (ts.zip (outs r B s ts)) = true := by
  induction ts generalizing s with
  | nil => rfl
  | cons t1 ts ih =>
    cases ts with
    | nil => rfl
    | cons t2 rest =>
      have ih' := ih (allow r B s t1).1
      simp only [outs, List.zip_cons_cons] at ih' ⊢
      simp only [retryHolds, ih', Bool.and_true]
      by_cases hc : (!(allow r B s t1).2.allowed && decide (t2 ≥ t1 + 512 * (allow r B s t1).2.reset)) = true
      · simp only [hc, if_true]
        simp only [Bool.and_eq_true, Bool.not_eq_true', decide_eq_true_eq] at hc
        obtain ⟨_, h2, _⟩ := retry_after_truthful r B hr hB s t1 hc.1
        exact lemma_allow_mono r B (by omega) _ _ _ hc.2 h2
      · have hc' : (!(allow r B s t1).2.allowed && decide (t2 ≥ t1 + 512 * (allow r B s t1).2.reset)) = false := by
          simpa using hc
        simp only [hc', Bool.false_eq_true, if_false]

/-- the reference bucket's verdict on a later call equals the limiter's, as long as they are coupled -/
theorem lemma_admits_eq (r B : Int) (hr : 0 ≤ r) (s : Bucket) (x : Ref) (now : Int)
    (hc : Coupled r B s x) (hnow : s.last ≤ now) : x.admits r B now = (allow r B s now).2.allowed := by
  obtain ⟨_, h2, _⟩ := lemma_coupled_step r B hr s x now hc hnow
  rw [h2]; unfold Ref.admits Ref.step
  by_cases h : x.avail r B now ≥ 512 <;> simp [h]

theorem lemma_refAgrees (r B : Int) (hr : 1 ≤ r) (hB : 512 ≤ B) (s : Bucket) (x : Ref) (ts : List Int)
    (hc : Coupled r B s x) (hsorted : sorted (s.last :: ts) = true) :
    refAgrees r B x (ts.zip (outs r B s ts)) = true := by
  induction ts generalizing s x with
  | nil => rfl
  | cons t ts ih =>
    simp only [sorted, Bool.and_eq_true, decide_eq_true_eq] at hsorted
    have hr0 : 0 ≤ r := by omega
    obtain ⟨hav, hdec, hcoup⟩ := lemma_coupled_step r B hr0 s x t hc hsorted.1
    have ih' := ih (allow r B s t).1 (x.step r B t).1 hcoup (by rw [lemma_allow_last]; exact hsorted.2)
    simp only [outs, List.zip_cons_cons, refAgrees, ih', Bool.and_true, hdec, beq_self_eq_true, Bool.true_and]
    by_cases hadm : (x.step r B t).2 = true
    · -- admitted: the whole tokens left
      simp only [hadm, if_true]
      have hge : x.avail r B t ≥ 512 := by
        unfold Ref.step at hadm; by_cases h : x.avail r B t ≥ 512
        · exact h
        · simp [h] at hadm
      have hrem : (allow r B s t).2.remaining = (x.avail r B t - 512) / 512 := by
        unfold allow take; simp only [hav, hge, if_true]
      have hlev : (x.step r B t).1.level = x.avail r B t - 512 := by
        unfold Ref.step; simp only [hge, if_true]
      rw [hrem, hlev]; simp
    · -- rejected: nothing remaining, and the reset is the least whole number of seconds
      have hrej : (allow r B s t).2.allowed = false := by rw [hdec]; simpa using hadm
      simp only [hadm, Bool.false_eq_true, if_false]
      have hlt : ¬ x.avail r B t ≥ 512 := by
        intro h; apply hadm; unfold Ref.step; simp [h]
      have hrem : (allow r B s t).2.remaining = 0 := by
        unfold allow take; simp only [hav, hlt, if_false]
      obtain ⟨h1, h2, h3⟩ := retry_after_truthful r B hr hB s t hrej
      -- after the rejection the entry is still coupled with the (unchanged) reference bucket
      have hx : (x.step r B t).1 = x := by unfold Ref.step; simp only [hlt, if_false]
      rw [hx] at hcoup
      have hl := lemma_allow_last r B s t
      generalize (allow r B s t).2.reset = R at h1 h2 h3 ⊢
      have e1 := lemma_admits_eq r B hr0 (allow r B s t).1 x (t + 512 * R) hcoup (by rw [hl]; omega)
      have e2 := lemma_admits_eq r B hr0 (allow r B s t).1 x (t + 512 * (R - 1)) hcoup (by rw [hl]; omega)
      simp only [hrem, beq_self_eq_true, Bool.true_and, resetTruthful, e1, h2, Bool.and_true, decide_eq_true_eq.mpr h1]
      rcases h3 with h3 | h3
      · simp [h3]
      · simp [e2, h3]

/-- **The token-bucket model satisfies the whole oracle** the driver evaluates on the real store, for
    every trace: any number of keys, any clock sequence per key (the reference agreement is demanded —
    and proved — for the keys whose clock never regresses), any rate ≥ 1 and burst ≥ 1. -/
theorem bucket_meets_spec (r B : Int) (hr : 1 ≤ r) (hB : 512 ≤ B) (calls : List (Bytes × Int)) :
    bucketSpecOK r B calls (runStore r B [] calls) = true := by
  unfold bucketSpecOK
  rw [lemma_runStore_length]
  simp only [beq_self_eq_true, Bool.true_and, List.all_eq_true]
  intro k _
  rw [lemma_project]
  have hget : Store.get [] k = none := rfl
  rw [hget]
  cases hts : (calls.filter (·.1 == k)).map (·.2) with
  | nil => rfl
  | cons t0 ts =>
    rw [lemma_runKey_none]
    have h1 := lemma_boundOK r B (by omega) (by omega) { tok := B, last := t0 } (t0 :: ts)
    have h2 := lemma_retryHolds r B hr hB { tok := B, last := t0 } (t0 :: ts)
    rw [h1, h2]
    simp only [Bool.true_and]
    by_cases hs : sorted (((t0 :: ts).zip (outs r B { tok := B, last := t0 } (t0 :: ts))).map (·.1)) = true
    · have hmap : ((t0 :: ts).zip (outs r B { tok := B, last := t0 } (t0 :: ts))).map (·.1) = t0 :: ts := by
        rw [List.map_fst_zip]; rw [lemma_outs_length]; exact Nat.le_refl _
      rw [hmap] at hs
      have h3 := lemma_refAgrees r B hr hB { tok := B, last := t0 } { level := B, at_ := t0 } (t0 :: ts)
        (lemma_coupled_new r B t0) (by simp only [sorted, Int.le_refl, decide_true, Bool.true_and]; exact hs)
      simp only [outs, List.zip_cons_cons] at h3 hs ⊢
      simp only [List.map_cons, hmap] at *
      simp [h3]
    · simp only [outs, List.zip_cons_cons] at hs ⊢
      have hs' : sorted (((t0, (allow r B { tok := B, last := t0 } t0).2) ::
          ts.zip (outs r B (allow r B { tok := B, last := t0 } t0).1 ts)).map (·.1)) = false := by simpa using hs
      simp only [hs', Bool.false_eq_true, if_false]

theorem lemma_runStore_one_key (r B : Int) (st : Store) (key : Bytes) (ts : List Int) :
    runStore r B st (ts.map fun t => (key, t)) = runKey r B (st.get key) ts := by
  induction ts generalizing st with
  | nil => rfl
  | cons t ts ih =>
    simp only [List.map_cons, runStore, runStoreWith, runKey]
    have ih' := ih (Store.allowWith allow r B st key t).1
    simp only [runStore] at ih'
    rw [ih']
    simp only [Store.allowWith, lemma_get_set_self]

/-- **Cold start**: N simultaneous first requests on a fresh limiter (one key, one instant — every
    interleaving of the atomic `Allow` calls is that sequence) admit at most `burst` -/
theorem cold_meets_spec (r burst : Int) (hb : 0 ≤ burst) (key : Bytes) (now : Int) (N : Nat) :
    coldSpecOK burst (runStore r (burst * 512) [] ((List.replicate N now).map fun t => (key, t))) = true := by
  rw [lemma_runStore_one_key]
  unfold coldSpecOK
  simp only [decide_eq_true_eq]
  cases N with
  | zero => simp [runKey]; exact hb
  | succ n =>
    have hget : Store.get [] key = none := rfl
    rw [hget, List.replicate_succ, lemma_runKey_none]
    have hlen : ((outs r (burst * 512) { tok := burst * 512, last := now } (now :: List.replicate n now)).filter (·.allowed)).length
        = countTrue (run r (burst * 512) { tok := burst * 512, last := now } (now :: List.replicate n now)).2 := by
      rw [← lemma_outs_allowed]
      unfold countTrue
      generalize outs r (burst * 512) { tok := burst * 512, last := now } (now :: List.replicate n now) = l
      induction l with
      | nil => rfl
      | cons o l ih => cases h : o.allowed <;> simp [h, ih]
    rw [hlen]
    have h := concurrent_le_tokens r (burst * 512) { tok := burst * 512, last := now } now (n + 1)
    rw [List.replicate_succ] at h
    have hrf : (refill r (burst * 512) { tok := burst * 512, last := now } now).tok = burst * 512 := by
      unfold refill; simp
    rw [hrf] at h
    omega

/-! ## the cleanup loop is unobservable -/

/-- an entry the idle time has refilled completely answers every later call exactly like a brand-new
    (full) entry — answer and entry afterwards -/
theorem lemma_full_equiv (r B : Int) (hr : 0 ≤ r) (e : Bucket) (now t : Int) (ht : now ≤ t)
    (hfull : e.tok + (now - e.last) * r ≥ B) :
    allow r B e t = allow r B { tok := B, last := t } t := by
  have h1 := lemma_mul_sub r now e.last
  have h2 := lemma_mul_sub r t e.last
  have hmono : r * now ≤ r * t := Int.mul_le_mul_of_nonneg_left ht hr
  have hrf : refill r B e t = refill r B { tok := B, last := t } t := by
    unfold refill
    simp only [Int.sub_self, Int.zero_mul, Int.add_zero]
    have : ¬ B > B := by omega
    simp only [this, if_false]
    split
    · rfl
    · simp only [Bucket.mk.injEq, and_true]; omega
  unfold allow; rw [hrf]

/-- the relation kept between the entry with cleanup ticks (`e'`) and the entry without (`e`): equal,
    or `e'` has been dropped while `e` is full-equivalent from instant `now` on -/
def Covers (r B : Int) (now : Int) (e e' : Option Bucket) : Prop :=
  e' = e ∨ (e' = none ∧ ∃ b, e = some b ∧ b.tok + (now - b.last) * r ≥ B)

theorem lemma_covers_mono (r B : Int) (hr : 0 ≤ r) (now now' : Int) (h : now ≤ now') (e e' : Option Bucket)
    (hc : Covers r B now e e') : Covers r B now' e e' := by
  rcases hc with h1 | ⟨h1, b, hb, hf⟩
  · left; exact h1
  · right
    refine ⟨h1, b, hb, ?_⟩
    have h2 := lemma_mul_sub r now b.last
    have h3 := lemma_mul_sub r now' b.last
    have : r * now ≤ r * now' := Int.mul_le_mul_of_nonneg_left h hr
    omega

/-- **Cleanup is unobservable**: on one clock (operation times non-decreasing), whatever cleanup ticks
    are interleaved with a key's calls, the calls are answered exactly as if no cleanup ever ran — a
    removed entry is indistinguishable from the full new one the next call creates. Every rate ≥ 0,
    burst, TTL, entry state and operation list. -/
theorem lemma_cleanup_covers (r B ttl : Int) (hr : 0 ≤ r) (ops : List KeyOp) (e e' : Option Bucket) (now : Int)
    (hc : Covers r B now e e') (hsorted : sorted (now :: ops.map KeyOp.time) = true) :
    runOps r B ttl e' ops = runOps r B ttl e (callsOf ops) := by
  induction ops generalizing e e' now with
  | nil => rfl
  | cons op rest ih =>
    simp only [List.map_cons, sorted, Bool.and_eq_true, decide_eq_true_eq] at hsorted
    obtain ⟨hle, hs'⟩ := hsorted
    cases op with
    | call t =>
      simp only [KeyOp.time] at hle hs'
      have hsame : allow r B (e'.getD { tok := B, last := t }) t = allow r B (e.getD { tok := B, last := t }) t := by
        rcases hc with h1 | ⟨h1, b, hb, hf⟩
        · rw [h1]
        · rw [h1, hb]
          simp only [Option.getD_none, Option.getD_some]
          exact (lemma_full_equiv r B hr b now t hle hf).symm
      simp only [runOps, runOpsWith, callsOf, hsame]
      congr 1
      exact ih _ _ t (Or.inl rfl) hs'
    | cleanup cnow =>
      simp only [KeyOp.time] at hle hs'
      have hc2 := lemma_covers_mono r B hr now cnow hle e e' hc
      simp only [callsOf]
      cases he' : e' with
      | none =>
        simp only [runOps, runOpsWith]
        exact ih e none cnow (by rw [← he']; exact hc2) hs'
      | some b' =>
        simp only [runOps, runOpsWith]
        have heq : e = some b' := by
          rcases hc2 with h1 | ⟨h1, _⟩
          · rw [← h1, he']
          · rw [he'] at h1; cases h1
        by_cases hd : dropsEntry r B ttl cnow b' = true
        · simp only [hd, if_true]
          refine ih e none cnow (Or.inr ⟨rfl, b', heq, ?_⟩) hs'
          unfold dropsEntry at hd
          simp only [Bool.and_eq_true, decide_eq_true_eq] at hd
          exact hd.2
        · simp only [hd]
          exact ih e (some b') cnow (Or.inl heq.symm) hs'

theorem cleanup_unobservable (r B ttl : Int) (hr : 0 ≤ r) (e : Option Bucket) (ops : List KeyOp)
    (hsorted : sorted (ops.map KeyOp.time) = true) :
    runOps r B ttl e ops = runOps r B ttl e (callsOf ops) := by
  cases ops with
  | nil => rfl
  | cons op rest =>
    exact lemma_cleanup_covers r B ttl hr (op :: rest) e e op.time (Or.inl rfl)
      (by simp only [List.map_cons, sorted, Int.le_refl, decide_true, Bool.true_and] at hsorted ⊢; exact hsorted)

/-- without cleanup ticks the operations are just the key's calls (`runKey`) -/
theorem runOps_calls (r B ttl : Int) (e : Option Bucket) (ts : List Int) :
    runOps r B ttl e (ts.map KeyOp.call) = runKey r B e ts := by
  induction ts generalizing e with
  | nil => rfl
  | cons t ts ih =>
    simp only [List.map_cons, runOps, runOpsWith, runKey]
    congr 1
    exact ih _

/-- K16d / a TTL honoured without the refill test: rate 1, burst 5, TTL 0.1 s. The key uses its burst,
    a cleanup tick 0.25 s later drops the entry, and 0.35 s after the burst five more calls are admitted —
    with the repaired test none is -/
theorem cleanup_asis_observable_witness :
    (runOpsAsIs 1 2560 51 none
      [.call 0, .call 0, .call 0, .call 0, .call 0, .cleanup 128, .call 180, .call 180, .call 180, .call 180, .call 180]).map (·.allowed)
      = [true, true, true, true, true, true, true, true, true, true] ∧
    (runOps 1 2560 51 none
      [.call 0, .call 0, .call 0, .call 0, .call 0, .cleanup 128, .call 180, .call 180, .call 180, .call 180, .call 180]).map (·.allowed)
      = [true, true, true, true, true, false, false, false, false, false] := by
  decide

/-! ## sliding window, requests served one after the other -/

/-- one request served without interruption: `GetCounts`, the decision, `Incr` -/
def serve1 (cfg : WinCfg) (txt : Bytes) (st : WinStore) (q : WinReq) : WinStore × WinObs :=
  (st.set q.key (incr cfg.W (some (getCounts cfg.W (st.lookup q.key) q.now)) q.now),
   winAnswer cfg txt (decide_ cfg.limit cfg.W (getCounts cfg.W (st.lookup q.key) q.now) q.now))

def runSerial (cfg : WinCfg) (txt : Bytes) : WinStore → Nat → List WinReq → List (Nat × WinObs)
  | _, _, [] => []
  | st, i, q :: rest => (i, (serve1 cfg txt st q).2) :: runSerial cfg txt (serve1 cfg txt st q).1 (i + 1) rest

theorem lemma_wset_nil (k : Bytes) (w : Win) : WinStore.set [] k w = [(k, w)] := rfl
theorem lemma_wset_cons (k' : Bytes) (v : Win) (rest : WinStore) (k : Bytes) (w : Win) :
    WinStore.set ((k', v) :: rest) k w = if (k == k') = true then (k', w) :: rest else (k', v) :: WinStore.set rest k w := by
  rw [WinStore.set]

/-- setting a key twice keeps the second value -/
theorem lemma_wset_set (st : WinStore) (k : Bytes) (w w2 : Win) : (st.set k w).set k w2 = st.set k w2 := by
  induction st with
  | nil => simp [lemma_wset_nil, lemma_wset_cons]
  | cons kv rest ih =>
    obtain ⟨k', v⟩ := kv
    by_cases h : (k == k') = true
    · simp [lemma_wset_cons, h]
    · have h' : (k == k') = false := by simpa using h
      simp only [lemma_wset_cons, h', Bool.false_eq_true, if_false, ih]

theorem lemma_wlookup_set_self (st : WinStore) (k : Bytes) (w : Win) : (st.set k w).lookup k = some w := by
  induction st with
  | nil => simp [lemma_wset_nil]
  | cons kv rest ih =>
    obtain ⟨k', v⟩ := kv
    rw [lemma_wset_cons]
    by_cases h : (k == k') = true
    · simp only [h, if_true]
      have : k = k' := by simpa using h
      subst this
      simp
    · have h' : (k == k') = false := by simpa using h
      simp only [h', Bool.false_eq_true, if_false]
      rw [List.lookup_cons, h']
      exact ih

theorem lemma_wlookup_set_other (st : WinStore) (k k2 : Bytes) (w : Win) (hne : k2 ≠ k) :
    (st.set k w).lookup k2 = st.lookup k2 := by
  have hk2 : (k2 == k) = false := by simpa using hne
  induction st with
  | nil => simp [lemma_wset_nil, hne]
  | cons kv rest ih =>
    obtain ⟨k', v⟩ := kv
    rw [lemma_wset_cons]
    by_cases h : (k == k') = true
    · have hk : k = k' := by simpa using h
      subst hk
      simp only [h, if_true]
      rw [List.lookup_cons, List.lookup_cons, hk2]
    · have h' : (k == k') = false := by simpa using h
      simp only [h', Bool.false_eq_true, if_false]
      rw [List.lookup_cons, List.lookup_cons, ih]

/-- the two steps of request `i`, run back to back, are `serve1` -/
theorem lemma_step_pair (cfg : WinCfg) (txt : Bytes) (reqs : List WinReq) (s : WinState) (i : Nat) (q : WinReq)
    (ha : cfg.atomic = false) (hq : reqs[i]? = some q) :
    stepWin cfg txt reqs (stepWin cfg txt reqs s (.get i)) (.inc i) =
      { store := (serve1 cfg txt s.store q).1,
        pending := (i, decide_ cfg.limit cfg.W (getCounts cfg.W (s.store.lookup q.key) q.now) q.now) :: s.pending,
        answers := s.answers ++ [(i, (serve1 cfg txt s.store q).2)] } := by
  simp only [stepWin, ha, Bool.false_eq_true, if_false, hq, List.lookup_cons, beq_self_eq_true,
    lemma_wlookup_set_self, serve1]
  rw [lemma_wset_set]

/-- running the serial schedule from request `pre.length` on is `runSerial` -/
theorem lemma_serial_fold (cfg : WinCfg) (txt : Bytes) (reqs : List WinReq) (rest pre : List WinReq) (s : WinState)
    (ha : cfg.atomic = false) (hreqs : reqs = pre ++ rest) :
    (((List.range' pre.length rest.length).flatMap fun i => [Op.get i, Op.inc i]).foldl (stepWin cfg txt reqs) s).answers
      = s.answers ++ runSerial cfg txt s.store pre.length rest := by
  induction rest generalizing pre s with
  | nil => simp [runSerial]
  | cons q rest ih =>
    have hq : reqs[pre.length]? = some q := by rw [hreqs]; simp
    simp only [List.length_cons, List.range'_succ, List.flatMap_cons, List.foldl_append, List.foldl_cons, List.foldl_nil]
    rw [lemma_step_pair cfg txt reqs s pre.length q ha hq]
    have := ih (pre ++ [q])
      (⟨(serve1 cfg txt s.store q).1,
        (pre.length, decide_ cfg.limit cfg.W (getCounts cfg.W (s.store.lookup q.key) q.now) q.now) :: s.pending,
        s.answers ++ [(pre.length, (serve1 cfg txt s.store q).2)]⟩ : WinState) (by rw [hreqs]; simp)
    simp only [List.length_append, List.length_cons, List.length_nil, Nat.zero_add] at this
    rw [this]
    simp [runSerial]

/-- **the serial schedule is `runSerial`** -/
theorem lemma_runWin_serial (cfg : WinCfg) (txt : Bytes) (reqs : List WinReq) (ha : cfg.atomic = false) :
    runWin cfg txt reqs (serial reqs.length) = runSerial cfg txt [] 0 reqs := by
  unfold runWin serial
  rw [List.range_eq_range']
  have := lemma_serial_fold cfg txt reqs reqs [] { store := [], pending := [], answers := [] } ha rfl
  simpa using this

/-! ### the counting invariant -/

/-- what a served request contributes to the admitted list: its key and window, if the handler ran -/
def adm1 (cfg : WinCfg) (q : WinReq) (o : WinObs) : List (Bytes × Nat) :=
  if o.ran then [(q.key, windowStart cfg.W q.now)] else []

def admSerial (cfg : WinCfg) (txt : Bytes) : WinStore → List WinReq → List (Bytes × Nat)
  | _, [] => []
  | st, q :: rest => adm1 cfg q (serve1 cfg txt st q).2 ++ admSerial cfg txt (serve1 cfg txt st q).1 rest

/-- requests already counted for key `k` in the window starting at `ws` -/
def counted (st : WinStore) (k : Bytes) (ws : Nat) : Nat :=
  match st.lookup k with
  | some w => if w.ws = ws then w.cur else 0
  | none => 0

def cnt (kw : Bytes × Nat) (l : List (Bytes × Nat)) : Nat := (l.filter (· == kw)).length

theorem lemma_cnt_append (kw : Bytes × Nat) (a b : List (Bytes × Nat)) : cnt kw (a ++ b) = cnt kw a + cnt kw b := by
  simp [cnt, List.filter_append]

theorem lemma_windowStart_mono (W a b : Nat) (h : a ≤ b) : windowStart W a ≤ windowStart W b := by
  unfold windowStart
  exact Nat.sub_le_sub_right (Nat.mul_le_mul_right _ (Nat.div_le_div_right (Nat.add_le_add_right h _))) _

/-- an admitted request's window is the window of one of the requests -/
theorem lemma_adm_windows (cfg : WinCfg) (txt : Bytes) (st : WinStore) (reqs : List WinReq) (kw : Bytes × Nat)
    (h : kw ∈ admSerial cfg txt st reqs) : ∃ q ∈ reqs, kw.2 = windowStart cfg.W q.now := by
  induction reqs generalizing st with
  | nil => simp [admSerial] at h
  | cons q rest ih =>
    simp only [admSerial, List.mem_append] at h
    rcases h with h | h
    · unfold adm1 at h
      split at h
      · simp at h; exact ⟨q, List.mem_cons_self .., by rw [h]⟩
      · simp at h
    · obtain ⟨q', hq', he⟩ := ih _ h
      exact ⟨q', List.mem_cons_of_mem _ hq', he⟩

theorem lemma_cnt_zero (cfg : WinCfg) (txt : Bytes) (st : WinStore) (reqs : List WinReq) (k : Bytes) (ws : Nat)
    (h : ∀ q ∈ reqs, ws < windowStart cfg.W q.now) : cnt (k, ws) (admSerial cfg txt st reqs) = 0 := by
  unfold cnt
  rw [List.length_eq_zero_iff, List.filter_eq_nil_iff]
  intro kw hkw heq
  have : kw = (k, ws) := by simpa using heq
  obtain ⟨q, hq, he⟩ := lemma_adm_windows cfg txt st reqs kw hkw
  have := h q hq
  rw [‹kw = (k, ws)›] at he
  simp only at he
  omega

/-- a request that runs under an enforcing configuration saw a usage below the limit, and the usage
    is at least the number of requests already counted in its window -/
theorem lemma_ran_lt (cfg : WinCfg) (txt : Bytes) (w : Win) (now : Nat) (hW : 1 ≤ cfg.W)
    (henf : cfg.enforce = true ∨ cfg.hasCallback = true)
    (h : (winAnswer cfg txt (decide_ cfg.limit cfg.W w now)).ran = true) : w.cur < cfg.limit := by
  have hu : (decide_ cfg.limit cfg.W w now).usage < cfg.limit := by
    unfold winAnswer at h
    by_cases hge : (decide_ cfg.limit cfg.W w now).usage ≥ cfg.limit
    · exfalso
      simp only [hge, if_true] at h
      rcases henf with he | hc
      · by_cases hc : cfg.hasCallback = true <;> simp [he, hc] at h
      · simp [hc] at h
    · omega
  have hle : w.cur ≤ (decide_ cfg.limit cfg.W w now).usage := by
    unfold decide_
    simp only
    rw [Nat.le_div_iff_mul_le (by unfold nsPerSec; omega)]
    exact Nat.le_add_right _ _
  omega

/-- the count an entry holds for the window starting at `ws` -/
def curIn (e : Option Win) (ws : Nat) : Nat :=
  match e with
  | some w => if w.ws = ws then w.cur else 0
  | none => 0

/-- what `GetCounts` hands the middleware when the entry is not ahead of the request's window:
    an entry of that window whose count is the number already counted in it -/
theorem lemma_getCounts (W : Nat) (e : Option Win) (now : Nat)
    (he : ∀ w, e = some w → w.ws ≤ windowStart W now) :
    (getCounts W e now).ws = windowStart W now ∧
    (getCounts W e now).cur = curIn e (windowStart W now) := by
  unfold getCounts curIn
  generalize windowStart W now = ws0 at he ⊢
  cases e with
  | none => exact ⟨rfl, rfl⟩
  | some w =>
    have hle := he w rfl
    by_cases hlt : w.ws < ws0
    · have hne : ¬ w.ws = ws0 := by omega
      simp only [hlt, if_true, hne, if_false, and_self]
    · have heq : w.ws = ws0 := by omega
      have hirr : ¬ ws0 < ws0 := Nat.lt_irrefl _
      simp only [heq, hirr, if_false, if_true]
      first | exact ⟨trivial, trivial⟩ | exact ⟨heq, trivial⟩ | simp [heq]

theorem lemma_incr_same (W : Nat) (w : Win) (now : Nat) (h : w.ws = windowStart W now) :
    incr W (some w) now = { w with cur := w.cur + 1 } := by
  unfold incr
  generalize windowStart W now = ws0 at h ⊢
  have : ¬ w.ws < ws0 := by omega
  simp only [this, if_false]

section
attribute [local irreducible] windowStart

/-- **The counting invariant of the sliding window** (requests served one after the other, clock
    non-decreasing, entries not ahead of the clock): for every key and window, the requests still to
    be admitted in that window plus those already counted in it do not exceed the limit. -/
theorem lemma_window_count (cfg : WinCfg) (txt : Bytes) (hW : 1 ≤ cfg.W)
    (henf : cfg.enforce = true ∨ cfg.hasCallback = true) (st : WinStore) (reqs : List WinReq)
    (hsorted : reqs.Pairwise (fun a b => a.now ≤ b.now))
    (hst : ∀ k w, st.lookup k = some w → ∀ q ∈ reqs, w.ws ≤ windowStart cfg.W q.now)
    (k : Bytes) (ws : Nat) :
    cnt (k, ws) (admSerial cfg txt st reqs) ≤ cfg.limit - counted st k ws := by
  induction reqs generalizing st with
  | nil => simp [admSerial, cnt]
  | cons q rest ih =>
    obtain ⟨hq_le, hsorted'⟩ := List.pairwise_cons.mp hsorted
    -- the entry of q's key as GetCounts returns it and Incr leaves it
    have hge := lemma_getCounts cfg.W (st.lookup q.key) q.now
      (fun w hw => hst q.key w hw q (List.mem_cons_self ..))
    generalize hw : getCounts cfg.W (st.lookup q.key) q.now = w at hge
    obtain ⟨hws, hcur⟩ := hge
    have hcur' : w.cur = counted st q.key (windowStart cfg.W q.now) := by rw [hcur]; rfl
    have hinc := lemma_incr_same cfg.W w q.now hws
    have hst1 : (serve1 cfg txt st q).1 = st.set q.key { w with cur := w.cur + 1 } := by
      unfold serve1; simp only [hw, hinc]
    have hans : (serve1 cfg txt st q).2 = winAnswer cfg txt (decide_ cfg.limit cfg.W w q.now) := by
      unfold serve1; simp only [hw]
    -- the invariant's hypothesis for the rest
    have hst' : ∀ k' w', ((serve1 cfg txt st q).1).lookup k' = some w' → ∀ q' ∈ rest, w'.ws ≤ windowStart cfg.W q'.now := by
      intro k' w' hl q' hq'
      rw [hst1] at hl
      by_cases hk : k' = q.key
      · subst hk
        rw [lemma_wlookup_set_self] at hl
        simp only [Option.some.injEq] at hl
        rw [← hl]; simp only
        rw [hws]
        exact lemma_windowStart_mono _ _ _ (hq_le q' hq')
      · rw [lemma_wlookup_set_other _ _ _ _ hk] at hl
        exact hst k' w' hl q' (List.mem_cons_of_mem _ hq')
    have ih' := ih (serve1 cfg txt st q).1 hsorted' hst'
    simp only [admSerial, lemma_cnt_append]
    by_cases hk : k = q.key
    · subst hk
      by_cases hwin : ws = windowStart cfg.W q.now
      · -- the request belongs to the window in question
        subst hwin
        have hc' : counted (serve1 cfg txt st q).1 q.key (windowStart cfg.W q.now) = w.cur + 1 := by
          rw [hst1]; unfold counted; rw [lemma_wlookup_set_self]; simp [hws]
        rw [hc'] at ih'
        rw [← hcur']
        unfold adm1
        by_cases hran : (serve1 cfg txt st q).2.ran = true
        · have hlt := lemma_ran_lt cfg txt w q.now hW henf (by rw [← hans]; exact hran)
          simp only [hran, if_true, cnt, List.filter_cons, beq_self_eq_true, List.filter_nil, List.length_cons,
            List.length_nil] at ih' ⊢
          omega
        · have hran' : (serve1 cfg txt st q).2.ran = false := by simpa using hran
          simp only [hran', Bool.false_eq_true, if_false, cnt, List.filter_nil, List.length_nil] at ih' ⊢
          omega
      · -- another window of the same key
        have hc' : counted (serve1 cfg txt st q).1 q.key ws = 0 := by
          rw [hst1]; unfold counted; rw [lemma_wlookup_set_self]
          have : ¬ windowStart cfg.W q.now = ws := fun h => hwin h.symm
          simp [hws, this]
        have hadm : cnt (q.key, ws) (adm1 cfg q (serve1 cfg txt st q).2) = 0 := by
          unfold adm1 cnt; split
          · have : ¬ windowStart cfg.W q.now = ws := fun h => hwin h.symm
            simp [this]
          · simp
        rw [hadm, Nat.zero_add]
        by_cases hc0 : counted st q.key ws = 0
        · rw [hc0]; rw [hc'] at ih'; exact ih'
        · -- the entry sits in an earlier window: no later request can fall into it
          have hlt : ws < windowStart cfg.W q.now := by
            unfold counted at hc0
            cases hl : st.lookup q.key with
            | none => simp [hl] at hc0
            | some e =>
              simp only [hl] at hc0
              by_cases he : e.ws = ws
              · have := hst q.key e hl q (List.mem_cons_self ..)
                omega
              · simp [he] at hc0
          rw [lemma_cnt_zero cfg txt _ rest q.key ws (fun q' hq' =>
            Nat.lt_of_lt_of_le hlt (lemma_windowStart_mono _ _ _ (hq_le q' hq')))]
          exact Nat.zero_le _
    · -- another key: the entry of `k` is untouched
      have hadm : cnt (k, ws) (adm1 cfg q (serve1 cfg txt st q).2) = 0 := by
        unfold adm1 cnt; split
        · have : ¬ q.key = k := fun h => hk h.symm
          simp [this]
        · simp
      have hc' : counted (serve1 cfg txt st q).1 k ws = counted st k ws := by
        rw [hst1]; unfold counted; rw [lemma_wlookup_set_other _ _ _ _ hk]
      rw [hadm, Nat.zero_add, ← hc']
      exact ih'

end

/-- the oracle's list of admitted (key, window) pairs, read off the serial run -/
theorem lemma_admitted_serial (cfg : WinCfg) (txt : Bytes) (reqs rest pre : List WinReq) (st : WinStore)
    (hreqs : reqs = pre ++ rest) :
    (runSerial cfg txt st pre.length rest).filterMap (admittedOf cfg reqs) = admSerial cfg txt st rest := by
  induction rest generalizing pre st with
  | nil => simp [runSerial, admSerial]
  | cons q rest ih =>
    have hq : reqs[pre.length]? = some q := by rw [hreqs]; simp
    have := ih (pre ++ [q]) (serve1 cfg txt st q).1 (by rw [hreqs]; simp)
    simp only [List.length_append, List.length_cons, List.length_nil, Nat.zero_add] at this
    simp only [runSerial, admSerial, List.filterMap_cons]
    unfold admittedOf adm1
    simp only [hq]
    by_cases hran : (serve1 cfg txt st q).2.ran = true
    · simp only [hran, if_true, List.cons_append, List.nil_append]
      rw [← this]; rfl
    · have hran' : (serve1 cfg txt st q).2.ran = false := by simpa using hran
      simp only [hran', Bool.false_eq_true, if_false, List.nil_append]
      rw [← this]; rfl

/-- **Sliding window, sequential bound**: when requests are served one after the other (the serial
    schedule: each request's `GetCounts` and `Incr` back to back) on a non-decreasing clock, then per
    key and fixed window no more than `limit` requests reach the handler — any number of keys, any
    number of windows, rejected requests and carried-over counts included. -/
theorem window_sequential_bound (cfg : WinCfg) (txt : Bytes) (reqs : List WinReq) (hW : 1 ≤ cfg.W)
    (ha : cfg.atomic = false) (hsorted : reqs.Pairwise (fun a b => a.now ≤ b.now)) :
    windowBoundOK cfg reqs (runWin cfg txt reqs (serial reqs.length)) = true := by
  unfold windowBoundOK
  by_cases hrep : (!cfg.enforce && !cfg.hasCallback) = true
  · simp only [hrep, if_true]
  · have hrep' : (!cfg.enforce && !cfg.hasCallback) = false := by simpa using hrep
    simp only [hrep', Bool.false_eq_true, if_false]
    have henf : cfg.enforce = true ∨ cfg.hasCallback = true := by
      cases he : cfg.enforce <;> cases hc : cfg.hasCallback <;> simp [he, hc] at hrep' ⊢
    rw [lemma_runWin_serial _ _ _ ha]
    have hadm := lemma_admitted_serial cfg txt reqs reqs [] [] rfl
    simp only [List.length_nil] at hadm
    rw [hadm]
    rw [List.all_eq_true]
    intro kw _
    have := lemma_window_count cfg txt hW henf [] reqs hsorted (by intro k w h; simp at h) kw.1 kw.2
    simp only [decide_eq_true_eq]
    have hc : counted [] kw.1 kw.2 = 0 := rfl
    rw [hc, Nat.sub_zero] at this
    exact this

theorem lemma_winAnswer_reject (cfg : WinCfg) (txt : Bytes) (d : Decision) :
    ((winAnswer cfg txt d).status != 429 || ((winAnswer cfg txt d).retryAfter.isSome && !(winAnswer cfg txt d).ran)) = true := by
  unfold winAnswer
  by_cases h : d.usage ≥ cfg.limit <;> cases cfg.hasCallback <;> cases cfg.enforce <;> simp [h]

/-- **429 always comes with `Retry-After`** — every schedule, serial or not, either kind of store:
    whenever the sliding-window middleware answers 429 it sends a `Retry-After` and the handler does
    not run -/
theorem window_reject_has_retry_after (cfg : WinCfg) (txt : Bytes) (reqs : List WinReq) (sched : List Op) :
    rejectOK (runWin cfg txt reqs sched) = true := by
  unfold rejectOK runWin
  have key : ∀ (ops : List Op) (s : WinState),
      (s.answers.all fun a => a.2.status != 429 || (a.2.retryAfter.isSome && !a.2.ran)) = true →
      ((ops.foldl (stepWin cfg txt reqs) s).answers.all fun a => a.2.status != 429 || (a.2.retryAfter.isSome && !a.2.ran)) = true := by
    intro ops
    induction ops with
    | nil => intro s h; exact h
    | cons op rest ih =>
      intro s h
      simp only [List.foldl_cons]
      apply ih
      cases op with
      | get i =>
        simp only [stepWin]
        split
        · exact h
        · split
          · simp only [List.all_append, h, Bool.true_and, List.all_cons, List.all_nil, Bool.and_true]
            exact lemma_winAnswer_reject cfg txt _
          · exact h
      | inc i =>
        simp only [stepWin]
        split
        · exact h
        · split
          · simp only [List.all_append, h, Bool.true_and, List.all_cons, List.all_nil, Bool.and_true]
            exact lemma_winAnswer_reject cfg txt _
          · exact h
  exact key sched _ rfl

/-! ## sliding window over a store that counts atomically (`AtomicWindowStore`): every interleaving -/

/-- the requests an atomic store serves, in the order of their `IncrAndGetCounts` steps -/
def servedOf (reqs : List WinReq) (sched : List Op) : List (Nat × WinReq) :=
  sched.filterMap fun
    | .get i => (reqs[i]?).map fun q => (i, q)
    | .inc _ => none

def runSeq (cfg : WinCfg) (txt : Bytes) : WinStore → List (Nat × WinReq) → List (Nat × WinObs)
  | _, [] => []
  | st, iq :: rest => (iq.1, (serve1 cfg txt st iq.2).2) :: runSeq cfg txt (serve1 cfg txt st iq.2).1 rest

/-- with an atomic store **every** schedule — any interleaving of the requests' steps — is the
    one-after-the-other service of the requests in the order of their `IncrAndGetCounts` calls -/
theorem lemma_atomic_fold (cfg : WinCfg) (txt : Bytes) (reqs : List WinReq) (ha : cfg.atomic = true)
    (sched : List Op) (s : WinState) :
    (sched.foldl (stepWin cfg txt reqs) s).answers = s.answers ++ runSeq cfg txt s.store (servedOf reqs sched) := by
  induction sched generalizing s with
  | nil => simp [servedOf, runSeq]
  | cons op rest ih =>
    simp only [List.foldl_cons]
    rw [ih]
    cases op with
    | inc i => simp [stepWin, ha, servedOf]
    | get i =>
      cases hq : reqs[i]? with
      | none => simp [stepWin, hq, servedOf]
      | some q => simp [stepWin, hq, ha, servedOf, runSeq, serve1, List.append_assoc]

theorem lemma_served_mem (reqs : List WinReq) (sched : List Op) (iq : Nat × WinReq)
    (h : iq ∈ servedOf reqs sched) : reqs[iq.1]? = some iq.2 := by
  unfold servedOf at h
  rw [List.mem_filterMap] at h
  obtain ⟨op, _, hop⟩ := h
  cases op with
  | inc i => simp at hop
  | get i =>
    simp only [Option.map_eq_some_iff] at hop
    obtain ⟨q, hq, he⟩ := hop
    rw [← he]; exact hq

theorem lemma_admitted_seq (cfg : WinCfg) (txt : Bytes) (reqs : List WinReq) (l : List (Nat × WinReq)) (st : WinStore)
    (hl : ∀ iq ∈ l, reqs[iq.1]? = some iq.2) :
    (runSeq cfg txt st l).filterMap (admittedOf cfg reqs) = admSerial cfg txt st (l.map (·.2)) := by
  induction l generalizing st with
  | nil => simp [runSeq, admSerial]
  | cons iq rest ih =>
    have hq := hl iq (List.mem_cons_self ..)
    have := ih (serve1 cfg txt st iq.2).1 (fun x hx => hl x (List.mem_cons_of_mem _ hx))
    simp only [runSeq, List.map_cons, admSerial, List.filterMap_cons]
    unfold admittedOf adm1
    simp only [hq]
    by_cases hran : (serve1 cfg txt st iq.2).2.ran = true
    · simp only [hran, if_true, List.cons_append, List.nil_append]
      rw [← this]; rfl
    · have hran' : (serve1 cfg txt st iq.2).2.ran = false := by simpa using hran
      simp only [hran', Bool.false_eq_true, if_false, List.nil_append]
      rw [← this]; rfl

/-- **Sliding window over an atomic store, every interleaving**: whatever the schedule — any number
    of requests in flight at once, their steps interleaved in any way — per key and fixed window no
    more than `limit` requests reach the handler. (Hypothesis: the clock readings are non-decreasing
    in the order in which the store serves the calls.) -/
theorem window_atomic_bound (cfg : WinCfg) (txt : Bytes) (reqs : List WinReq) (sched : List Op) (hW : 1 ≤ cfg.W)
    (ha : cfg.atomic = true)
    (hsorted : ((servedOf reqs sched).map (·.2)).Pairwise (fun a b => a.now ≤ b.now)) :
    windowBoundOK cfg reqs (runWin cfg txt reqs sched) = true := by
  unfold windowBoundOK
  by_cases hrep : (!cfg.enforce && !cfg.hasCallback) = true
  · simp only [hrep, if_true]
  · have hrep' : (!cfg.enforce && !cfg.hasCallback) = false := by simpa using hrep
    simp only [hrep', Bool.false_eq_true, if_false]
    have henf : cfg.enforce = true ∨ cfg.hasCallback = true := by
      cases he : cfg.enforce <;> cases hc : cfg.hasCallback <;> simp [he, hc] at hrep' ⊢
    have hrun : runWin cfg txt reqs sched = runSeq cfg txt [] (servedOf reqs sched) := by
      unfold runWin
      rw [lemma_atomic_fold cfg txt reqs ha]
      simp
    rw [hrun, lemma_admitted_seq cfg txt reqs _ _ (lemma_served_mem reqs sched)]
    rw [List.all_eq_true]
    intro kw _
    have := lemma_window_count cfg txt hW henf [] _ hsorted (by intro k w h; simp at h) kw.1 kw.2
    simp only [decide_eq_true_eq]
    have hc : counted [] kw.1 kw.2 = 0 := rfl
    rw [hc, Nat.sub_zero] at this
    exact this

/-- the serial schedule serves the requests in their order -/
theorem lemma_served_serial_aux (reqs rest pre : List WinReq) (hreqs : reqs = pre ++ rest) :
    (servedOf reqs ((List.range' pre.length rest.length).flatMap fun i => [Op.get i, Op.inc i])).map (·.2) = rest := by
  induction rest generalizing pre with
  | nil => simp [servedOf]
  | cons q rest ih =>
    have hq : reqs[pre.length]? = some q := by rw [hreqs]; simp
    have := ih (pre ++ [q]) (by rw [hreqs]; simp)
    simp only [List.length_append, List.length_cons, List.length_nil, Nat.zero_add] at this
    simp only [List.length_cons, List.range'_succ, List.flatMap_cons]
    unfold servedOf at this ⊢
    simp only [List.cons_append, List.nil_append, List.filterMap_cons, hq, Option.map_some, List.map_cons]
    rw [this]

theorem lemma_served_serial (reqs : List WinReq) : (servedOf reqs (serial reqs.length)).map (·.2) = reqs := by
  unfold serial
  rw [List.range_eq_range']
  simpa using lemma_served_serial_aux reqs reqs [] rfl

/-! ## sliding window: `Retry-After` is truthful -/

theorem lemma_ws_le (W t : Nat) : windowStart W t * nsPerSec ≤ t := by
  unfold windowStart
  have h := Nat.div_mul_le_self (t + zeroOffset * nsPerSec) (W * nsPerSec)
  rw [Nat.sub_mul]
  have : (t + zeroOffset * nsPerSec) / (W * nsPerSec) * W * nsPerSec
       = (t + zeroOffset * nsPerSec) / (W * nsPerSec) * (W * nsPerSec) := Nat.mul_assoc ..
  omega

theorem lemma_ws_next (W t : Nat) (hW : 1 ≤ W) : t < (windowStart W t + W) * nsPerSec := by
  unfold windowStart
  have hpos : 0 < W * nsPerSec := Nat.mul_pos hW (by unfold nsPerSec; omega)
  have h := Nat.lt_mul_div_succ (t + zeroOffset * nsPerSec) hpos
  have e1 : W * nsPerSec * ((t + zeroOffset * nsPerSec) / (W * nsPerSec) + 1)
       = (t + zeroOffset * nsPerSec) / (W * nsPerSec) * W * nsPerSec + W * nsPerSec := by
    rw [Nat.mul_add, Nat.mul_one, Nat.mul_comm, Nat.mul_assoc]
  rw [e1] at h
  rw [Nat.add_mul, Nat.sub_mul]
  omega

/-- same window: once `p·e' > Wn·(p − (L − c))` the estimate `c + p·(1 − e'/Wn)` is below `L` -/
theorem lemma_retry_same (Wn c p L e' : Nat) (hcL : c < L) (he : e' ≤ Wn)
    (h : Wn * (p - (L - c)) < p * e') : c * Wn + p * (Wn - e') < L * Wn := by
  have e1 : p * (Wn - e') = Wn * p - p * e' := by rw [Nat.mul_sub, Nat.mul_comm p Wn]
  have e2 : Wn * (p - (L - c)) = Wn * p - (Wn * L - Wn * c) := by rw [Nat.mul_sub, Nat.mul_sub]
  rw [e1, Nat.mul_comm c Wn, Nat.mul_comm L Wn]
  rw [e2] at h
  have h1 : p * e' ≤ Wn * p := by rw [Nat.mul_comm Wn p]; exact Nat.mul_le_mul_left _ he
  have hp : 0 < Wn := by
    rcases Nat.eq_zero_or_pos Wn with h0 | hp
    · subst h0; have : e' = 0 := by omega
      subst this; simp at h
    · exact hp
  have h2 : Wn * c < Wn * L := Nat.mul_lt_mul_of_pos_left hcL hp
  omega

/-- next window: once `c·e' > Wn·(c − L)` the carried-over estimate `c·(1 − e'/Wn)` is below `L` -/
theorem lemma_retry_next (Wn c L e' : Nat) (hL : 1 ≤ L) (hWn : 1 ≤ Wn) (he : e' ≤ Wn)
    (h : Wn * (c - L) < c * e') : c * (Wn - e') < L * Wn := by
  have e1 : c * (Wn - e') = Wn * c - c * e' := by rw [Nat.mul_sub, Nat.mul_comm c Wn]
  have e2 : Wn * (c - L) = Wn * c - Wn * L := Nat.mul_sub ..
  rw [e1, Nat.mul_comm L Wn]
  rw [e2] at h
  have h1 : c * e' ≤ Wn * c := by rw [Nat.mul_comm Wn c]; exact Nat.mul_le_mul_left _ he
  have h3 : 1 ≤ Wn * L := Nat.mul_pos hWn hL
  omega

section
attribute [local irreducible] windowStart

/-- the estimate a request at `t'` sees on an entry `w1`, split by where `t'` falls: in the entry's
    window, in the window right after it, or after an idle gap (then nothing is carried over) -/
theorem lemma_retry_goal (L W : Nat) (hW : 1 ≤ W) (hL : 1 ≤ L) (w1 : Win) (t' : Nat)
    (hA : windowStart W t' = w1.ws →
      w1.cur * (W * nsPerSec) + w1.prev * (W * nsPerSec - min (t' - w1.ws * nsPerSec) (W * nsPerSec)) < L * (W * nsPerSec))
    (hB : w1.ws < windowStart W t' → ¬ w1.ws + W < windowStart W t' →
      w1.cur * (W * nsPerSec - min (t' - windowStart W t' * nsPerSec) (W * nsPerSec)) < L * (W * nsPerSec))
    (hle : w1.ws ≤ windowStart W t') :
    (decide_ L W (getCounts W (some w1) t') t').usage < L := by
  have hns : (1 : Nat) ≤ nsPerSec := by unfold nsPerSec; omega
  have hWn : 1 ≤ W * nsPerSec := Nat.mul_pos hW hns
  have hg : getCounts W (some w1) t' =
      if w1.ws < windowStart W t' then { cur := 0, prev := carried W w1 (windowStart W t'), ws := windowStart W t' }
      else w1 := rfl
  rw [hg]
  by_cases hroll : w1.ws < windowStart W t'
  · rw [if_pos hroll]
    simp only [decide_, elapsedNs]
    rw [Nat.div_lt_iff_lt_mul hWn]
    simp only [Nat.zero_mul, Nat.zero_add]
    unfold carried
    by_cases hgap : w1.ws + W < windowStart W t'
    · simp only [hgap, if_true, Nat.zero_mul]
      exact Nat.mul_pos hL hWn
    · simp only [hgap, if_false]
      exact hB hroll hgap
  · rw [if_neg hroll]
    simp only [decide_, elapsedNs]
    rw [Nat.div_lt_iff_lt_mul hWn]
    exact hA (by omega)

/-- what `Retry-After: R` promises, regime by regime: the instant `t'` of the retry lies strictly
    after the instant at which the sliding estimate equals the limit -/
theorem lemma_retry_regime (L Wn c p el t t' : Nat) (hL : 1 ≤ L)
    (hlate : t + ((if L = 0 then 2 * Wn - el
        else if c < L then (if 0 < p then Wn * (p - (L - c)) / p - el else 0)
        else Wn - el + Wn * (c - L) / c) / nsPerSec + 1) * nsPerSec ≤ t') :
    (c < L ∧ p = 0) ∨
    (c < L ∧ 0 < p ∧ ∃ X, Wn * (p - (L - c)) < p * (X + 1) ∧ t + (X - el) < t') ∨
    (L ≤ c ∧ ∃ Y, Wn * (c - L) < c * (Y + 1) ∧ t + (Wn - el + Y) < t') := by
  have hns : 0 < nsPerSec := by unfold nsPerSec; omega
  have hdiv : ∀ wait, t + (wait / nsPerSec + 1) * nsPerSec ≤ t' → t + wait < t' := by
    intro wait h
    have := Nat.lt_mul_div_succ wait hns
    rw [Nat.mul_comm] at this
    generalize wait / nsPerSec = d at *
    generalize nsPerSec = n at *
    generalize (d + 1) * n = m at *
    omega
  have hL0 : ¬ L = 0 := by omega
  simp only [hL0, if_false] at hlate
  by_cases hcl : c < L
  · simp only [hcl, if_true] at hlate
    by_cases hp : 0 < p
    · simp only [hp, if_true] at hlate
      exact Or.inr (Or.inl ⟨hcl, hp, _, Nat.lt_mul_div_succ _ hp, hdiv _ hlate⟩)
    · exact Or.inl ⟨hcl, by omega⟩
  · simp only [hcl, if_false] at hlate
    have hc : 0 < c := by omega
    exact Or.inr (Or.inr ⟨by omega, _, Nat.lt_mul_div_succ _ hc, hdiv _ hlate⟩)

/-- **Sliding window, truthful `Retry-After`** (any entry that is not ahead of the clock, any counts,
    `limit ≥ 1`, window ≥ 1 s): a request served at `t` and rejected is told `Retry-After: R`; the
    key's next request, at any instant `t' ≥ t + R` seconds — in the same window, in the next one
    or after an idle gap — sees a sliding estimate strictly below the limit, i.e. it is admitted.
    `serve1` is the one-step service of an atomic store (and of a two-call store without a context
    switch). -/
theorem window_retry_truthful (cfg : WinCfg) (hW : 1 ≤ cfg.W) (hL : 1 ≤ cfg.limit) (e : Option Win) (t t' : Nat)
    (he : ∀ w, e = some w → w.ws ≤ windowStart cfg.W t)
    (hrej : cfg.limit ≤ (decide_ cfg.limit cfg.W (getCounts cfg.W e t) t).usage)
    (hlate : t + (decide_ cfg.limit cfg.W (getCounts cfg.W e t) t).retry * nsPerSec ≤ t') :
    (decide_ cfg.limit cfg.W
      (getCounts cfg.W (some (incr cfg.W (some (getCounts cfg.W e t)) t)) t') t').usage < cfg.limit := by
  obtain ⟨hws, _⟩ := lemma_getCounts cfg.W e t he
  generalize getCounts cfg.W e t = w at hws hrej hlate
  rw [lemma_incr_same cfg.W w t hws]
  have hns : (1 : Nat) ≤ nsPerSec := by unfold nsPerSec; omega
  have hWn : 1 ≤ cfg.W * nsPerSec := Nat.mul_pos hW hns
  have hle : w.ws * nsPerSec ≤ t := by rw [hws]; exact lemma_ws_le cfg.W t
  have hle' := lemma_ws_le cfg.W t'
  have hnext' := lemma_ws_next cfg.W t' hW
  rw [Nat.add_mul] at hnext'
  simp only [decide_, retryAfter, elapsedNs] at hrej hlate
  rw [Nat.le_div_iff_mul_le hWn] at hrej
  have hreg := lemma_retry_regime cfg.limit (cfg.W * nsPerSec) (w.cur + 1) w.prev _ t t' hL hlate
  clear hlate
  generalize hWn' : cfg.W * nsPerSec = Wn at *
  generalize hel : min (t - w.ws * nsPerSec) Wn = el at *
  have hel1 : el ≤ t - w.ws * nsPerSec := by rw [← hel]; exact Nat.min_le_left _ _
  clear hel
  generalize hx : w.ws * nsPerSec = x at *
  rcases hreg with ⟨hcl, hp0⟩ | ⟨hcl, hp, X, hX, hlt⟩ | ⟨hcl, Y, hY, hlt⟩
  · -- nothing carried over and the count below the limit: the request was not rejected
    exfalso
    rw [hp0, Nat.zero_mul, Nat.add_zero] at hrej
    have := Nat.le_of_mul_le_mul_right hrej hWn
    omega
  · clear hrej
    have htt : windowStart cfg.W t ≤ windowStart cfg.W t' := lemma_windowStart_mono cfg.W t t' (by omega)
    apply lemma_retry_goal cfg.limit cfg.W hW hL _ t'
    · -- the retry is served in the window of the rejection
      intro hsame
      simp only at hsame ⊢
      rw [hWn', hx]
      generalize hel' : min (t' - x) Wn = el'
      have hel'2 : el' ≤ Wn := by rw [← hel']; exact Nat.min_le_right _ _
      apply lemma_retry_same Wn (w.cur + 1) w.prev cfg.limit el' hcl hel'2
      by_cases hcase : el' = Wn
      · rw [hcase]
        have h1 : w.prev - (cfg.limit - (w.cur + 1)) ≤ w.prev - 1 := by omega
        calc Wn * (w.prev - (cfg.limit - (w.cur + 1))) ≤ Wn * (w.prev - 1) := Nat.mul_le_mul_left _ h1
          _ < Wn * w.prev := Nat.mul_lt_mul_of_pos_left (by omega) hWn
          _ = w.prev * Wn := Nat.mul_comm ..
      · have he'' : el' = t' - x := by
          rw [← hel'] at hcase ⊢
          rcases Nat.le_total (t' - x) Wn with h | h
          · exact Nat.min_eq_left h
          · exact absurd (Nat.min_eq_right h) hcase
        have hge : X + 1 ≤ el' := by omega
        exact Nat.lt_of_lt_of_le hX (Nat.mul_le_mul_left _ hge)
    · -- the retry is served in the next window: a count below the limit is carried over
      intro _ _
      simp only
      rw [hWn']
      calc (w.cur + 1) * (Wn - min (t' - windowStart cfg.W t' * nsPerSec) Wn)
          ≤ (w.cur + 1) * Wn := Nat.mul_le_mul_left _ (Nat.sub_le _ _)
        _ < cfg.limit * Wn := Nat.mul_lt_mul_of_pos_right hcl hWn
    · simp only; omega
  · clear hrej
    have htt : windowStart cfg.W t ≤ windowStart cfg.W t' := lemma_windowStart_mono cfg.W t t' (by omega)
    apply lemma_retry_goal cfg.limit cfg.W hW hL _ t'
    · -- the window of the rejection is over by then
      intro hsame
      exfalso
      simp only at hsame
      rw [hsame, hx] at hnext'
      omega
    · intro hroll hgap
      simp only at hroll hgap ⊢
      rw [hWn']
      generalize hel' : min (t' - windowStart cfg.W t' * nsPerSec) Wn = el'
      have hel'2 : el' ≤ Wn := by rw [← hel']; exact Nat.min_le_right _ _
      apply lemma_retry_next Wn (w.cur + 1) cfg.limit el' hL hWn hel'2
      have hws'le : windowStart cfg.W t' * nsPerSec ≤ x + Wn := by
        rw [← hx, ← hWn', ← Nat.add_mul]; exact Nat.mul_le_mul_right _ (by omega)
      by_cases hcase : el' = Wn
      · rw [hcase, Nat.mul_sub, Nat.mul_comm (w.cur + 1) Wn]
        have h1 : 1 ≤ Wn * cfg.limit := Nat.mul_pos hWn hL
        have h2 : Wn * cfg.limit ≤ Wn * (w.cur + 1) := Nat.mul_le_mul_left _ hcl
        omega
      · have he'' : el' = t' - windowStart cfg.W t' * nsPerSec := by
          rw [← hel'] at hcase ⊢
          rcases Nat.le_total (t' - windowStart cfg.W t' * nsPerSec) Wn with h | h
          · exact Nat.min_eq_left h
          · exact absurd (Nat.min_eq_right h) hcase
        have hge : Y + 1 ≤ el' := by
          generalize windowStart cfg.W t' * nsPerSec = x' at *
          omega
        exact Nat.lt_of_lt_of_le hY (Nat.mul_le_mul_left _ hge)
    · simp only; omega

end

/-- non-vacuity of `window_retry_truthful`, and the least-ness of the advertised wait on an example:
    limit 2, window 2 s, three requests 0.1 s into a window; the third is told `Retry-After: 3`, the
    retry 3 s later is admitted, a retry 2.003 s later (what the shipped code advertised) is not -/
example :
    let cfg : WinCfg := { limit := 2, W := 2, headers := true, enforce := true, hasCallback := false, atomic := true }
    let w : Win := { cur := 2, prev := 0, ws := 10 }
    cfg.limit ≤ (decide_ cfg.limit cfg.W (getCounts cfg.W (some w) 10102000000) 10102000000).usage ∧
    (decide_ cfg.limit cfg.W (getCounts cfg.W (some w) 10102000000) 10102000000).retry = 3 ∧
    (decide_ cfg.limit cfg.W (getCounts cfg.W (some { w with cur := 3 }) 13102000000) 13102000000).usage = 1 ∧
    (decide_ cfg.limit cfg.W (getCounts cfg.W (some { w with cur := 3 }) 12105000000) 12105000000).usage = 2 := by
  decide

/-- the class of inputs the open finding lives in, as the driver computes it: a store that only has
    the two-call interface (`GetCounts`, then `Incr`) driven by a schedule that is not serial — the
    check-then-act race is inherent to that interface (K16b); and, not yet lifted from single entries
    to whole traces, cases that contain a marked retry -/
def Excluded (cfg : WinCfg) (reqs : List WinReq) (sched : List Op) (retries : List (Nat × Nat)) : Prop :=
  (cfg.atomic = false ∧ sched ≠ serial reqs.length) ∨ retries ≠ []

/-- **the sliding-window oracle holds outside the recorded class**: for an atomic store every
    schedule, for a two-call store the serial one -/
theorem window_meets_spec_partial (cfg : WinCfg) (txt : Bytes) (reqs : List WinReq) (sched : List Op)
    (retries : List (Nat × Nat)) (hW : 1 ≤ cfg.W)
    (hsorted : ((servedOf reqs sched).map (·.2)).Pairwise (fun a b => a.now ≤ b.now))
    (hD : ¬ Excluded cfg reqs sched retries) :
    (windowBoundOK cfg reqs (runWin cfg txt reqs sched) && retryOK reqs (runWin cfg txt reqs sched) retries &&
      rejectOK (runWin cfg txt reqs sched)) = true := by
  unfold Excluded at hD
  have h2 : retries = [] := Classical.byContradiction fun h => hD (Or.inr h)
  subst h2
  have hb : windowBoundOK cfg reqs (runWin cfg txt reqs sched) = true := by
    cases ha : cfg.atomic with
    | true => exact window_atomic_bound cfg txt reqs sched hW ha hsorted
    | false =>
      have h1 : sched = serial reqs.length := Classical.byContradiction fun h => hD (Or.inl ⟨ha, h⟩)
      subst h1
      rw [lemma_served_serial] at hsorted
      exact window_sequential_bound cfg txt reqs hW ha hsorted
  rw [hb, window_reject_has_retry_after]
  simp [retryOK]

/-- K16b, the race on a store that only has the two-call interface: limit 1, both requests read the
    count before either increments it — both reach the handler, the oracle fails; the same requests
    and the same schedule over a store that counts atomically: 200, 429 -/
theorem window_race_witness :
    let cfg : WinCfg := { limit := 1, W := 3600, headers := true, enforce := true, hasCallback := false, atomic := false }
    let reqs : List WinReq := [{ key := ['a'], now := 7200000000007 }, { key := ['a'], now := 7200000000008 }]
    let sched := [Op.get 0, Op.get 1, Op.inc 0, Op.inc 1]
    (runWin cfg [] reqs sched).map (fun a => a.2.ran) = [true, true] ∧
    windowBoundOK cfg reqs (runWin cfg [] reqs sched) = false ∧
    (runWin cfg [] reqs (serial 2)).map (fun a => a.2.status) = [200, 429] ∧
    (runWin { cfg with atomic := true } [] reqs sched).map (fun a => a.2.status) = [200, 429] ∧
    windowBoundOK { cfg with atomic := true } reqs (runWin { cfg with atomic := true } [] reqs sched) = true := by
  decide

/-- one-step service as shipped (no idle-gap test in the roll, `Retry-After` = time to the end of the
    fixed window) -/
def serve1AsIs (cfg : WinCfg) (txt : Bytes) (st : WinStore) (q : WinReq) : WinStore × WinObs :=
  (st.set q.key (incrAsIs cfg.W (some (getCountsAsIs cfg.W (st.lookup q.key) q.now)) q.now),
   winAnswerAsIs cfg txt (decide_ cfg.limit cfg.W (getCountsAsIs cfg.W (st.lookup q.key) q.now) q.now))

def runSerialAsIs (cfg : WinCfg) (txt : Bytes) : WinStore → Nat → List WinReq → List (Nat × WinObs)
  | _, _, [] => []
  | st, i, q :: rest => (i, (serve1AsIs cfg txt st q).2) :: runSerialAsIs cfg txt (serve1AsIs cfg txt st q).1 (i + 1) rest

/-- K16b, Retry-After as shipped: limit 2, window 2 s. The third request is rejected with
    `Retry-After: 2`; the retry 2.003 s later (no other traffic) falls 0.103 s into the next window,
    where the three counted requests carry over with weight 0.9485 — usage 2.8 — and is rejected again.
    Repaired: the third request is told `Retry-After: 3`, and the retry 3 s later is admitted. -/
theorem window_retry_untruthful_witness :
    let cfg : WinCfg := { limit := 2, W := 2, headers := true, enforce := true, hasCallback := false }
    let reqs : List WinReq := [{ key := ['a'], now := 10100000000 }, { key := ['a'], now := 10101000000 },
                               { key := ['a'], now := 10102000000 }, { key := ['a'], now := 12105000000 }]
    let reqs' : List WinReq := [{ key := ['a'], now := 10100000000 }, { key := ['a'], now := 10101000000 },
                               { key := ['a'], now := 10102000000 }, { key := ['a'], now := 13102000000 }]
    (runSerialAsIs cfg [] [] 0 reqs).map (fun a => (a.2.status, a.2.retryAfter)) =
      [(200, none), (200, none), (429, some 2), (429, some 2)] ∧
    retryOK reqs (runSerialAsIs cfg [] [] 0 reqs) [(2, 3)] = false ∧
    (runWin cfg [] reqs' (serial 4)).map (fun a => (a.2.status, a.2.retryAfter)) =
      [(200, none), (200, none), (429, some 3), (200, none)] ∧
    retryOK reqs' (runWin cfg [] reqs' (serial 4)) [(2, 3)] = true := by
  decide

/-- the idle-gap part of the repair: as shipped, an entry that had been idle for many windows still
    carried its old count into the window of the next request (limit 2, window 2 s, three requests,
    then one 20 s later: rejected); repaired, it is admitted -/
theorem window_idle_gap_witness :
    let cfg : WinCfg := { limit := 2, W := 2, headers := true, enforce := true, hasCallback := false }
    let reqs : List WinReq := [{ key := ['a'], now := 10100000000 }, { key := ['a'], now := 10101000000 },
                               { key := ['a'], now := 10102000000 }, { key := ['a'], now := 30000000000 }]
    (runSerialAsIs cfg [] [] 0 reqs).map (fun a => a.2.status) = [200, 200, 429, 429] ∧
    (runWin cfg [] reqs (serial 4)).map (fun a => a.2.status) = [200, 200, 429, 200] := by
  decide

/-! ## witnesses and non-vacuity -/

/-- K16a: as shipped, a call rejected for half a token at one token per second reported
    `resetSeconds = 500000000` (nanoseconds); the repaired code says 1 -/
theorem bucket_asis_reset_witness :
    (allowAsIs 1 512 { tok := 0, last := 0 } 256).2 = { allowed := false, remaining := 0, reset := 500000000 } ∧
    (allow 1 512 { tok := 0, last := 0 } 256).2 = { allowed := false, remaining := 0, reset := 1 } := by
  decide

/-- burst 3 at one token per second: four calls at once admit three; half a second later still
    nothing; a full second after the rejection the retry succeeds (hypotheses of the theorems are met) -/
example : (runStore 1 (3 * 512) [] [("k".toList, 0), ("k".toList, 0), ("k".toList, 0), ("k".toList, 0),
                                     ("k".toList, 256), ("k".toList, 512)]).map (·.allowed)
          = [true, true, true, false, false, true] := by decide
example : bucketSpecOK 1 (3 * 512) [("k".toList, 0), ("k".toList, 0), ("k".toList, 0), ("k".toList, 0), ("k".toList, 256), ("k".toList, 512)]
            (runStore 1 (3 * 512) [] [("k".toList, 0), ("k".toList, 0), ("k".toList, 0), ("k".toList, 0), ("k".toList, 256), ("k".toList, 512)]) = true := by
  decide
/-- a regressing clock takes tokens away (under-admission, which the statement allows) and never adds any -/
example : (run 5 (2 * 512) { tok := 1024, last := 1000 } [1000, 400, 400, 1000, 1000]).2 = [true, false, false, true, false] := by decide

end Rivaas.C16
