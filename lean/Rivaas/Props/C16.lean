import Rivaas.Spec.RateLimit
/-
C16 — Rate limiting conforms to its algorithm under concurrency.
Token bucket (units: 1/512 token, 1/512 s): never over-admits for *every* clock sequence
(potential argument), agrees with the reference bucket for non-decreasing clocks, keys are
independent, simultaneous calls admit at most the tokens available, `resetSeconds` / Retry-After is
the least whole number of seconds after which a retry succeeds. Sliding window: per key and fixed
window at most `limit` admissions when requests are served one after the other; the check-then-act
race and the untruthful Retry-After of the shipped code are `decide`-proved witnesses (K16b).
-/
namespace Rivaas.C16
open Rivaas.RateLimit

/-! ## token bucket: the potential argument (every clock sequence) -/

theorem lemma_mul_sub (r a b : Int) : (a - b) * r = r * a - r * b := by
  rw [Int.sub_mul, Int.mul_comm a r, Int.mul_comm b r]

/-- `tokens − rate·lastUpdate` never increases, and an admission lowers it by one token -/
theorem lemma_allow_potential (r B : Int) (s : Bucket) (now : Int) :
    (allow r B s now).1.tok - r * (allow r B s now).1.last + 512 * (if (allow r B s now).2.allowed then 1 else 0)
      ≤ s.tok - r * s.last := by
  unfold allow take refill
  have h := lemma_mul_sub r now s.last
  simp only [decide_eq_true_eq]
  split <;> split <;> omega

/-- after an admission the entry holds a non-negative amount -/
theorem lemma_allow_nonneg (r B : Int) (s : Bucket) (now : Int) (h : (allow r B s now).2.allowed = true) :
    0 ≤ (allow r B s now).1.tok := by
  unfold allow take at h ⊢
  simp only [decide_eq_true_eq] at h
  simp only [h, if_true]
  omega

theorem lemma_allow_last (r B : Int) (s : Bucket) (now : Int) : (allow r B s now).1.last = now := rfl

/-- refilling twice at the same instant changes nothing: a call decides as if the entry had been
    brought up to date first -/
theorem lemma_allow_refill (r B : Int) (s : Bucket) (now : Int) :
    allow r B (refill r B s now) now = allow r B s now := by
  unfold allow
  have : refill r B (refill r B s now) now = refill r B s now := by
    unfold refill; simp only [Int.sub_self, Int.zero_mul, Int.add_zero]
    split
    · simp
    · first | rfl | simp
  rw [this]

theorem lemma_refill_le (r B : Int) (s : Bucket) (now : Int) : (refill r B s now).tok ≤ B := by
  unfold refill; simp only; split <;> omega

/-- over any run: either nothing was admitted, or some call time `tk` of the run bounds the
    admissions by the initial potential plus `rate·tk` -/
theorem lemma_run_bound (r B : Int) (s : Bucket) (ts : List Int) :
    countTrue (run r B s ts).2 = 0 ∨
    ∃ tk ∈ ts, 512 * (countTrue (run r B s ts).2 : Int) ≤ s.tok - r * s.last + r * tk := by
  induction ts generalizing s with
  | nil => left; rfl
  | cons t ts ih =>
    simp only [run]
    have hp := lemma_allow_potential r B s t
    have hl := lemma_allow_last r B s t
    rcases ih (allow r B s t).1 with h0 | ⟨tk, htk, hb⟩
    · by_cases ha : (allow r B s t).2.allowed = true
      · right
        refine ⟨t, List.mem_cons_self .., ?_⟩
        have hn := lemma_allow_nonneg r B s t ha
        simp only [countTrue, List.filter_cons, ha, id, if_true, List.length_cons] at h0 ⊢
        simp only [ha, if_true] at hp
        rw [hl] at hp
        rw [h0]; omega
      · left
        simp only [countTrue, List.filter_cons, ha, id] at h0 ⊢
        simpa using h0
    · right
      refine ⟨tk, List.mem_cons_of_mem _ htk, ?_⟩
      by_cases ha : (allow r B s t).2.allowed = true
      · simp only [countTrue, List.filter_cons, ha, id, if_true, List.length_cons] at hb ⊢
        simp only [ha, if_true] at hp
        omega
      · simp only [countTrue, List.filter_cons, ha, id] at hb ⊢
        simp only [ha] at hp
        simp at hp ⊢
        omega

/-- **The limiter never over-admits, for every clock sequence** (non-decreasing, regressing, anything):
    from any entry state, calls whose timestamps all lie in an interval of length `T` (in 1/512 s)
    contain at most `burst + rate·T` admissions (in 1/512 token: `512·admitted ≤ B + r·T`). -/
theorem bucket_never_over_admits (r B : Int) (hr : 0 ≤ r) (hB : 0 ≤ B) (s : Bucket) (ts : List Int)
    (a T : Int) (hT : 0 ≤ T) (hin : ∀ t ∈ ts, a ≤ t ∧ t ≤ a + T) :
    512 * (countTrue (run r B s ts).2 : Int) ≤ B + r * T := by
  have hrT : 0 ≤ r * T := Int.mul_nonneg hr hT
  cases ts with
  | nil => simp [run, countTrue]; omega
  | cons t1 rest =>
    -- bring the entry up to date at the first call: its level is then at most the burst
    have hsame : run r B s (t1 :: rest) = run r B (refill r B s t1) (t1 :: rest) := by
      simp only [run, lemma_allow_refill]
    rw [hsame]
    have hle := lemma_refill_le r B s t1
    have hlast : (refill r B s t1).last = t1 := rfl
    rcases lemma_run_bound r B (refill r B s t1) (t1 :: rest) with h0 | ⟨tk, htk, hb⟩
    · rw [h0]; simp; omega
    · rw [hlast] at hb
      have h1 := hin t1 (List.mem_cons_self ..)
      have hk := hin tk htk
      have : r * tk - r * t1 ≤ r * T := by
        have : r * (tk - t1) ≤ r * T := Int.mul_le_mul_of_nonneg_left (by omega) hr
        rw [Int.mul_sub] at this; exact this
      omega

/-! ## token bucket: agreement with the reference bucket (non-decreasing clocks) -/

/-- coupling between the limiter's entry and the reference bucket: the entry is the reference level
    brought forward to the entry's `lastUpdate` -/
def Coupled (r B : Int) (s : Bucket) (x : Ref) : Prop :=
  x.at_ ≤ s.last ∧ s.tok = min B (x.level + r * (s.last - x.at_))

theorem lemma_coupled_step (r B : Int) (hr : 0 ≤ r) (s : Bucket) (x : Ref) (now : Int)
    (hc : Coupled r B s x) (hnow : s.last ≤ now) :
    (refill r B s now).tok = x.avail r B now ∧
    (allow r B s now).2.allowed = (x.step r B now).2 ∧
    Coupled r B (allow r B s now).1 (x.step r B now).1 := by
  obtain ⟨h1, h2⟩ := hc
  have hm1 := lemma_mul_sub r now s.last
  have hm2 : r * (s.last - x.at_) = r * s.last - r * x.at_ := Int.mul_sub ..
  have hm3 : r * (now - x.at_) = r * now - r * x.at_ := Int.mul_sub ..
  have hmono : r * s.last ≤ r * now := Int.mul_le_mul_of_nonneg_left hnow hr
  have hav : (refill r B s now).tok = x.avail r B now := by
    unfold refill Ref.avail
    simp only
    rw [h2, hm1, hm2, hm3]
    split <;> omega
  refine ⟨hav, ?_, ?_⟩
  · unfold allow take Ref.step
    simp only [hav]
    by_cases h : x.avail r B now ≥ 512 <;> simp [h]
  · unfold Coupled allow take Ref.step
    simp only [hav]
    by_cases h : x.avail r B now ≥ 512
    · simp only [h, if_true]
      refine ⟨Int.le_refl _, ?_⟩
      show x.avail r B now - 512 = min B (x.avail r B now - 512 + r * (now - now))
      have : x.avail r B now ≤ B := by unfold Ref.avail; omega
      simp only [Int.sub_self, Int.mul_zero, Int.add_zero]; omega
    · simp only [h, if_false]
      refine ⟨by show x.at_ ≤ now; omega, ?_⟩
      show x.avail r B now = min B (x.level + r * (now - x.at_))
      rfl

/-- **With a non-decreasing clock the limiter admits a call iff the reference bucket holds a token** -/
theorem bucket_iff_reference (r B : Int) (hr : 0 ≤ r) (s : Bucket) (x : Ref) (ts : List Int)
    (hc : Coupled r B s x) (hsorted : sorted (s.last :: ts) = true) :
    (run r B s ts).2 = Ref.run r B x ts := by
  induction ts generalizing s x with
  | nil => rfl
  | cons t ts ih =>
    simp only [sorted, Bool.and_eq_true, decide_eq_true_eq] at hsorted
    obtain ⟨_, h2, h3⟩ := lemma_coupled_step r B hr s x t hc hsorted.1
    simp only [run, Ref.run]
    rw [h2, ih (allow r B s t).1 (x.step r B t).1 h3 (by rw [lemma_allow_last]; exact hsorted.2)]

/-- a new entry (created full at its first call) is coupled with a full reference bucket -/
theorem lemma_coupled_new (r B now : Int) : Coupled r B { tok := B, last := now } { level := B, at_ := now } := by
  unfold Coupled; simp

/-! ## truthful reset / Retry-After -/

theorem lemma_ceil (need d : Int) (hd : 0 < d) (_hn : 0 < need) :
    need ≤ d * ((need + d - 1) / d) ∧ d * ((need + d - 1) / d - 1) < need := by
  have h1 := Int.mul_ediv_add_emod (need + d - 1) d
  have h2 := Int.emod_nonneg (need + d - 1) (by omega : d ≠ 0)
  have h3 := Int.emod_lt_of_pos (need + d - 1) hd
  have h4 : d * ((need + d - 1) / d - 1) = d * ((need + d - 1) / d) - d := by rw [Int.mul_sub, Int.mul_one]
  constructor <;> omega

/-- **`resetSeconds` is truthful and in seconds**: when a call at `now` is rejected with
    `resetSeconds = R`, a retry `R` seconds later (no other traffic on the key) is admitted, and
    `R` is the least positive whole number of seconds with that property. -/
theorem retry_after_truthful (r B : Int) (hr : 1 ≤ r) (hB : 512 ≤ B) (s : Bucket) (now : Int)
    (hrej : (allow r B s now).2.allowed = false) :
    1 ≤ (allow r B s now).2.reset ∧
    (allow r B (allow r B s now).1 (now + 512 * (allow r B s now).2.reset)).2.allowed = true ∧
    ((allow r B s now).2.reset = 1 ∨
     (allow r B (allow r B s now).1 (now + 512 * ((allow r B s now).2.reset - 1))).2.allowed = false) := by
  unfold allow take at hrej
  simp only [decide_eq_false_iff_not] at hrej
  have hst : (allow r B s now).1 = refill r B s now := by
    unfold allow take; simp only [hrej, if_false]
  have hR : (allow r B s now).2.reset = resetFor r (refill r B s now).tok := by
    unfold allow take; simp only [hrej, if_false]
  rw [hst, hR]
  generalize hs' : refill r B s now = s' at *
  have hlast : s'.last = now := by rw [← hs']; rfl
  have hneed : 0 < 512 - s'.tok := by omega
  have hd : 0 < 512 * r := by omega
  obtain ⟨hc1, hc2⟩ := lemma_ceil (512 - s'.tok) (512 * r) hd hneed
  generalize hq : (512 - s'.tok + 512 * r - 1) / (512 * r) = q at hc1 hc2
  have hq1 : 1 ≤ q := by
    rcases Int.lt_or_le q 1 with h | h
    · exfalso
      have : 512 * r * q ≤ 0 := Int.mul_nonpos_of_nonneg_of_nonpos (by omega) (by omega)
      omega
    · exact h
  have hRq : resetFor r s'.tok = q := by unfold resetFor; rw [hq]; omega
  rw [hRq]
  refine ⟨hq1, ?_, ?_⟩
  · unfold allow take refill
    simp only [hlast, decide_eq_true_eq]
    have : (now + 512 * q - now) * r = 512 * r * q := by
      have : now + 512 * q - now = 512 * q := by omega
      rw [this, Int.mul_assoc, Int.mul_comm q r, ← Int.mul_assoc]
    rw [this]
    split <;> omega
  · by_cases h1 : q = 1
    · left; exact h1
    · right
      unfold allow take refill
      simp only [hlast, decide_eq_false_iff_not]
      have : (now + 512 * (q - 1) - now) * r = 512 * r * (q - 1) := by
        have : now + 512 * (q - 1) - now = 512 * (q - 1) := by omega
        rw [this, Int.mul_assoc, Int.mul_comm (q - 1) r, ← Int.mul_assoc]
      rw [this]
      split <;> omega

/-! ## simultaneous calls -/

/-- **N simultaneous requests never admit more than the tokens available.** `Allow` holds the
    entry's mutex for its whole read-modify-write, so any interleaving of N calls is some order of N
    atomic `allow` steps; with one timestamp they are N identical steps, and together they admit at
    most the whole tokens the refilled entry holds. (For calls with *different* timestamps in any
    order, `bucket_never_over_admits` applies: it quantifies over every list, hence every order.) -/
theorem concurrent_le_tokens (r B : Int) (s : Bucket) (now : Int) (N : Nat) :
    512 * (countTrue (run r B s (List.replicate N now)).2 : Int) ≤ max 0 (refill r B s now).tok := by
  cases N with
  | zero => simp [run, countTrue]; omega
  | succ n =>
    have hsame : run r B s (List.replicate (n + 1) now) = run r B (refill r B s now) (List.replicate (n + 1) now) := by
      simp only [List.replicate_succ, run, lemma_allow_refill]
    rw [hsame]
    rcases lemma_run_bound r B (refill r B s now) (List.replicate (n + 1) now) with h0 | ⟨tk, htk, hb⟩
    · rw [h0]; simp; omega
    · have : tk = now := (List.mem_replicate.mp htk).2
      subst this
      have hl : (refill r B s tk).last = tk := rfl
      rw [hl] at hb
      omega

/-! ## keys do not influence each other -/

theorem lemma_get_set_self (st : Store) (k : Bytes) (b : Bucket) : (st.set k b).get k = some b := by
  induction st with
  | nil => simp [Store.set, Store.get]
  | cons kv rest ih =>
    obtain ⟨k', v⟩ := kv
    unfold Store.set
    by_cases h : (k == k') = true
    · simp only [h, if_true]
      have : k = k' := by simpa using h
      subst this
      simp [Store.get]
    · have h' : (k == k') = false := by simpa using h
      simp only [h', Bool.false_eq_true, if_false]
      unfold Store.get at ih ⊢
      rw [List.lookup_cons, h']
      exact ih

theorem lemma_get_set_other (st : Store) (k k2 : Bytes) (b : Bucket) (hne : k2 ≠ k) :
    (st.set k b).get k2 = st.get k2 := by
  have hk2 : (k2 == k) = false := by simpa using hne
  induction st with
  | nil => simp [Store.set, Store.get, hne]
  | cons kv rest ih =>
    obtain ⟨k', v⟩ := kv
    unfold Store.set
    by_cases h : (k == k') = true
    · have hk : k = k' := by simpa using h
      subst hk
      simp only [h, if_true]
      unfold Store.get
      rw [List.lookup_cons, List.lookup_cons, hk2]
    · have h' : (k == k') = false := by simpa using h
      simp only [h', Bool.false_eq_true, if_false]
      unfold Store.get at ih ⊢
      rw [List.lookup_cons, List.lookup_cons, ih]

/-- one key's calls served on that key's entry alone (created full at the first call) -/
def runKey (r B : Int) : Option Bucket → List Int → List Out
  | _, [] => []
  | e, t :: ts =>
    (allow r B (e.getD { tok := B, last := t }) t).2 ::
      runKey r B (some (allow r B (e.getD { tok := B, last := t }) t).1) ts

/-- **Keys are independent**: in any trace on a shared store, the answers to one key's calls are
    exactly what that key's calls get on an entry of their own — whatever the other keys do in
    between. -/
theorem keys_independent (r B : Int) (st : Store) (calls : List (Bytes × Int)) (k : Bytes) :
    ((calls.zip (runStore r B st calls)).filterMap fun co => if co.1.1 == k then some co.2 else none)
      = runKey r B (st.get k) ((calls.filter (·.1 == k)).map (·.2)) := by
  induction calls generalizing st with
  | nil => simp [runStore, runStoreWith, runKey]
  | cons c rest ih =>
    obtain ⟨key, t⟩ := c
    simp only [runStore, runStoreWith, List.zip_cons_cons, List.filterMap_cons, List.filter_cons]
    by_cases hk : (key == k) = true
    · have hkk : key = k := by simpa using hk
      subst hkk
      simp only [hk, if_true, List.map_cons, runKey]
      have ih' := ih (Store.allowWith allow r B st key t).1
      simp only [runStore] at ih'
      rw [ih']
      simp only [Store.allowWith, lemma_get_set_self]
    · have hkf : (key == k) = false := by simpa using hk
      simp only [hkf, Bool.false_eq_true, if_false]
      have ih' := ih (Store.allowWith allow r B st key t).1
      simp only [runStore] at ih'
      rw [ih']
      have hne : k ≠ key := fun h => by simp [h] at hkf
      simp only [Store.allowWith, lemma_get_set_other _ _ _ _ hne]

/-! ## middleware glue -/

/-- **429 with truthful headers**: the token-bucket middleware repeats the store's answer — the
    handler runs iff the call was admitted (or the limiter only reports), a rejection is answered 429
    with `Retry-After` = the store's `resetSeconds`, and `RateLimit-Remaining` / `RateLimit-Reset`
    are the store's values. -/
theorem mw_meets_spec (cfg : MwCfg) (txt : Bytes) (o : Out) : mwSpecOK cfg o (mwBucket cfg txt o) = true := by
  unfold mwSpecOK mwBucket
  cases cfg.headers <;> cases o.allowed <;> cases cfg.hasCallback <;> cases cfg.enforce <;> simp

theorem mw_rejects_with_429 (cfg : MwCfg) (txt : Bytes) (o : Out) (h : o.allowed = false)
    (he : cfg.enforce = true) (hc : cfg.hasCallback = false) :
    (mwBucket cfg txt o).status = 429 ∧ (mwBucket cfg txt o).ran = false ∧
    (mwBucket cfg txt o).retryAfter = some o.reset := by
  unfold mwBucket; simp [h, he, hc]

/-! ## witnesses and non-vacuity -/

/-- K16a: as shipped, a call rejected for half a token at one token per second reported
    `resetSeconds = 500000000` (nanoseconds); the repaired code says 1 -/
theorem bucket_asis_reset_witness :
    (allowAsIs 1 512 { tok := 0, last := 0 } 256).2 = { allowed := false, remaining := 0, reset := 500000000 } ∧
    (allow 1 512 { tok := 0, last := 0 } 256).2 = { allowed := false, remaining := 0, reset := 1 } := by
  decide

/-- burst 3 at one token per second: four calls at once admit three; half a second later still
    nothing; a full second after the rejection the retry succeeds (hypotheses of the theorems are met) -/
example : (runStore 1 (3 * 512) [] [("k".toList, 0), ("k".toList, 0), ("k".toList, 0), ("k".toList, 0),
                                     ("k".toList, 256), ("k".toList, 512)]).map (·.allowed)
          = [true, true, true, false, false, true] := by decide
example : bucketSpecOK 1 (3 * 512) [("k".toList, 0), ("k".toList, 0), ("k".toList, 0), ("k".toList, 0), ("k".toList, 256), ("k".toList, 512)]
            (runStore 1 (3 * 512) [] [("k".toList, 0), ("k".toList, 0), ("k".toList, 0), ("k".toList, 0), ("k".toList, 256), ("k".toList, 512)]) = true := by
  decide
/-- a regressing clock takes tokens away (under-admission, which the statement allows) and never adds any -/
example : (run 5 (2 * 512) { tok := 1024, last := 1000 } [1000, 400, 400, 1000, 1000]).2 = [true, false, false, true, false] := by decide

end Rivaas.C16
