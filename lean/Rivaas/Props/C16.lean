/- C16 — property theorems (stub: not built yet) -/
