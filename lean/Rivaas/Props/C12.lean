import Rivaas.Lemmas.PhasesSim
import Rivaas.Lemmas.PhasesLive
import Rivaas.Lemmas.ReverseRT
/-
C12 — Configuration and serving are separate phases.

Quantifiers: every list of goroutines (requests, Freeze, Warmup, registrations through router / group /
mount / version router, WhereInt, SetName, URLFor) and **every schedule** — a list of goroutine indices,
each entry releasing that goroutine until its next yield point. `sync.Once` is modelled by its contract.
Helper lemmas: `Lemmas/PhasesCore.lean` (invariant of the shared state), `Lemmas/PhasesSim.lean`
(simulation against the trace monitor), `Lemmas/ReverseRT.lean`.
-/
namespace Rivaas.C12
open Rivaas Rivaas.Phases Rivaas.Phases.Spec

/-! ### the shared state, for every sequence of atomic operations -/

/-- The invariant holds after every sequence of operations (any interleaving of any number of
    goroutines is such a sequence). -/
theorem inv_all_schedules (ops : List Op) : Inv (ops.foldl Core.step Core.init) :=
  lemma_inv_run ops Core.init lemma_inv_init

/-- **No request observes a partially registered table.** Once `freezeOnce` is done — and a request
    consults the tree only after its `Freeze()` returned — a lookup answers exactly as the set of all
    accepted registrations and accepted constraints says, whatever the interleaving was: routes registered
    before `Warmup()`, between `Warmup()` and the freeze, while `doWarmup` was half-way. -/
theorem requests_see_full_table (ops : List Op) (t : RouteId) (valInt : Bool)
    (hd : (ops.foldl Core.step Core.init).fpc = .done) :
    lookup (ops.foldl Core.step Core.init) t valInt =
      (if (ops.foldl Core.step Core.init).objs.contains t &&
          (!(ops.foldl Core.step Core.init).cons.contains t || valInt) then some t else none) :=
  lemma_lookup_done _ (inv_all_schedules ops) hd t valInt

/-- **A late mutation is rejected and changes nothing**: once the flags are set, a registration
    (through any registrar), a constraint change and a naming attempt leave the whole shared state as it
    was. -/
theorem late_mutation_rejected (c : Core) (h : c.frozen = true) (r : RouteId) :
    c.step (.register r) = c ∧ c.step (.whereInt r) = c ∧ c.step (.setName r) = c ∧
    (¬ c.objs.contains r → registerRes c r = .rejected) ∧
    (c.objs.contains r → mutateRes c r = .rejected) := by
  refine ⟨?_, ?_, ?_, ?_, ?_⟩
  · simp only [Core.step, h, Bool.or_true, ↓reduceIte]; split <;> rfl
  · simp only [Core.step, h, ↓reduceIte]; split <;> rfl
  · simp only [Core.step, h, ↓reduceIte]; split <;> rfl
  · intro hn
    have : c.objs.contains r = false := by simpa using hn
    simp only [registerRes, this, h, Bool.or_true, ↓reduceIte, Bool.false_eq_true]
  · intro hn
    simp only [mutateRes, hn, h, Bool.not_true, ↓reduceIte, Bool.false_eq_true]

/-- the freeze is for ever: no operation clears the flag -/
theorem frozen_forever (c : Core) (op : Op) (h : c.frozen = true) : (c.step op).frozen = true := by
  by_cases he : op = .enterFreeze
  · subst he
    simp only [Core.step]
    split
    · rfl
    · exact h
  · rw [lemma_frozen_step c op he]; exact h

/-- **Freeze is idempotent**: once `freezeOnce` is done, every operation of the two `Once` bodies is a
    no-op on the shared state (a second `Freeze()` or `Warmup()` does not even enter them). -/
theorem freeze_idempotent (c : Core) (h : Inv c) (hd : c.fpc = .done) (op : Op) (hb : op.isBody = true) :
    c.step op = c := by
  have hw : c.wpc = .done := h.tail_done (Or.inr hd)
  cases op with
  | enterFreeze => simp [Core.step, hd]
  | freezeCallWarmup => simp [Core.step, hd]
  | enterWarmup => simp [Core.step, hw]
  | warmupStep => simp [Core.step, hw]
  | freezeFinish => simp [Core.step, hd]
  | register r => simp [Op.isBody] at hb
  | whereInt r => simp [Op.isBody] at hb
  | setName r => simp [Op.isBody] at hb

/-- **Warmup is idempotent**: once `warmupOnce` is done its body cannot be entered or advanced again -/
theorem warmup_idempotent (c : Core) (hw : c.wpc = .done) :
    c.step .enterWarmup = c ∧ c.step .warmupStep = c := by
  constructor <;> simp [Core.step, hw]

/-! ### goroutines and schedules -/

/-- **For every schedule** the observable trace of the model — where each released goroutine is
    afterwards, what it reported — is accepted by the oracle: mutations are accepted exactly before
    serving began and rejected afterwards, every request answers as the accepted registrations and
    constraints say, `URLFor` succeeds exactly for accepted names once serving began. -/
theorem trace_accepted (kinds : List Kind) (sched : List Nat) (hv : ∀ i ∈ sched, i < kinds.length) :
    ∃ m, monitor kinds Mon.init (run kinds sched).2 = some m ∧ Rel (run kinds sched).1 m := by
  obtain ⟨m, h1, h2, _⟩ := lemma_run_rel kinds sched (St.init kinds.length) Mon.init
    (lemma_rel_init _) (by simp [St.init]) hv
  exact ⟨m, h1, h2⟩

/-- **C12 (phases).** For every schedule after which every goroutine has finished, the whole observation
    of the model — trace, final positions, probe requests for every route id — satisfies the oracle. -/
theorem run_meets_spec (kinds : List Kind) (sched ids : List Nat) (hv : ∀ i ∈ sched, i < kinds.length)
    (hfin : ∀ st ∈ (run kinds sched).1.status, st = .finished) :
    specOK kinds ids (run kinds sched).2 ((run kinds sched).1.status.map (vis (run kinds sched).1))
      (probes (run kinds sched).1.core ids) = true := by
  obtain ⟨m, h1, h2⟩ := trace_accepted kinds sched hv
  unfold specOK
  rw [h1]
  unfold finalOK
  rw [lemma_probes _ m h2 ids]
  simp only [beq_self_eq_true, Bool.and_true, List.all_eq_true, List.mem_map, decide_eq_true_eq]
  rintro v ⟨st, hst, rfl⟩
  rw [hfin st hst]
  rfl

/-- **Freeze and Warmup are safe to call from many goroutines: no deadlock.** After every schedule, if some
    goroutine has not finished, some goroutine can be released and changes the state (it reaches its next
    yield point, finishes, or — the first time — blocks). A `Once` body that has been entered is owned by
    exactly one live goroutine (`Own`), goroutines blocked on a `Once` exist only while it is running. -/
theorem no_deadlock (kinds : List Kind) (sched : List Nat) (hv : ∀ i ∈ sched, i < kinds.length)
    (h : ∃ (i : Nat) (st : Status), (run kinds sched).1.status[i]? = some st ∧ st ≠ .finished) :
    ∃ i, Effective kinds (run kinds sched).1 i := by
  obtain ⟨hW, hO, hI⟩ := lemma_run_live kinds sched (St.init kinds.length) Mon.init (lemma_rel_init _)
    (lemma_wt_init kinds) (lemma_own_init _) hv
  exact lemma_progress kinds _ hW hO hI h

/-- `no_deadlock` is not vacuous: a Freeze owner blocked on an explicit Warmup, a request blocked on the
    Freeze owner, and the explicit Warmup owner is the one that can go on -/
example : let s := (run [.register 1, .warmup, .freeze, .request 1 true] [0, 0, 1, 2, 2, 3, 3, 2, 3]).1
    s.status = [.finished, .inWarmup, .inFreeze, .blockedF] ∧ s.core.fpc = .inWarmup ∧ s.wByFreeze = false ∧
    (step [.register 1, .warmup, .freeze, .request 1 true] s 2).1 = s ∧
    (step [.register 1, .warmup, .freeze, .request 1 true] s 1).1 ≠ s := by decide

/-- **A request whose context is already done is a request all the same** (seeded change C12-14): in every
    reachable state, when `ServeHTTP` returns for it (`Out.gone`) the router is frozen and `freezeOnce` is done —
    so by `late_mutation_rejected` every registration / constraint / naming attempt from then on is rejected. -/
theorem gone_request_begins_serving (kinds : List Kind) (sched : List Nat) (hv : ∀ i ∈ sched, i < kinds.length)
    (i : Nat) (h : (step kinds (run kinds sched).1 i).2 = .gone) :
    (run kinds sched).1.core.frozen = true ∧ (run kinds sched).1.core.fpc = .done := by
  obtain ⟨m, _, hR⟩ := trace_accepted kinds sched hv
  generalize (run kinds sched).1 = s at h hR
  unfold step at h
  cases hk : kinds[i]? with
  | none => simp [hk] at h
  | some k =>
    cases hs : s.status[i]? with
    | none => simp [hk, hs] at h
    | some st =>
      simp only [hk, hs] at h
      have hst : st = .atFrozen := by
        cases st <;> cases k <;> simp only [stepActor] at h <;> first | rfl | (exfalso; revert h; repeat' split) <;> simp
      subst hst
      have hd : s.core.fpc = .done := hR.frozenPt ⟨i, hs⟩
      exact ⟨hR.inv.frozen_iff.2 (by simp [hd]), hd⟩

/-- not vacuous: the first request arrives with its context done, goes through the whole freeze alone and returns;
    the registration and the constraint that follow are rejected, the name set before is reversible -/
example :
    ((run [.register 1, .setName 1, .request 1 true true, .register 2, .whereInt 1, .urlFor 1, .request 2 true]
        [0, 0, 1, 2, 2, 2, 2, 2, 2, 2, 2, 2, 3, 4, 5, 6, 6, 6]).2.filterMap
        fun e => match e.out with | .none => none | o => some (e.actor, o)) =
      [(0, .mut .accepted), (1, .mut .accepted), (2, .gone), (3, .mut .rejected), (4, .mut .rejected), (5, .url .ok),
       (6, .hit none)] := by decide

/-! ### reverse routing -/

open Rivaas.Reverse in
/-- **URLFor round trip (parameter routes).** For a pattern with parameters and values that are valid
    single path segments (non-empty, no `/`), the path the router sees when the URL is requested matches
    the route and binds every parameter to its value, left to right. -/
theorem urlfor_roundtrip (pattern : Bytes) (vals : Vals)
    (hp : (parseReversePattern pattern).any Seg.isParam = true)
    (hv : ∀ n, Seg.param n ∈ parseReversePattern pattern →
      ∃ v, valOf vals n = some v ∧ v.1 ≠ [] ∧ '/' ∉ v.1) :
    ∃ path, seenPath pattern vals = some path ∧
      matchRoute pattern path = some (boundParams vals (parseReversePattern pattern)) := by
  obtain ⟨parts, h1, h2, h3, h4⟩ := lemma_match_render vals (parseReversePattern pattern)
    (fun n hn => let ⟨v, hvn, _⟩ := hv n hn; ⟨v, hvn⟩)
  have hne : parts ≠ [] := by
    intro he
    rw [he] at h3
    have : parseReversePattern pattern = [] := List.length_eq_zero_iff.1 h3.symm
    rw [this] at hp
    simp at hp
  have hgood : ∀ x ∈ parts, x ≠ [] ∧ '/' ∉ x := by
    intro x hx
    rcases h4 x hx with ⟨t, ht, rfl⟩ | ⟨n, v, hn, hvn, rfl⟩
    · exact lemma_parse_static pattern x ht
    · obtain ⟨v', hv', hne', hs'⟩ := hv n hn
      rw [hvn] at hv'
      cases hv'
      exact ⟨hne', hs'⟩
  refine ⟨'/' :: joinSlash parts, ?_, ?_⟩
  · simp [seenPath, buildWith, hp, h1]
  · have hsplit := lemma_split_join parts hne (fun x hx => (hgood x hx).2)
    have hjoin_ne : joinSlash parts ≠ [] := by
      intro he
      rw [he] at hsplit
      simp only [splitSlash] at hsplit
      obtain ⟨x, rest, hxr⟩ := List.exists_cons_of_ne_nil hne
      rw [hxr] at hsplit
      have : x = [] := by
        have := List.cons.inj hsplit
        exact this.1.symm
      exact (hgood x (by rw [hxr]; simp)).1 this
    unfold matchRoute
    simp only [hp, Bool.not_true, Bool.false_eq_true, if_false]
    have h1' : ('/' :: joinSlash parts = ['/']) = False := by
      simp [hjoin_ne]
    simp only [h1', decide_false, Bool.false_or, List.cons_ne_nil, reqSegments, List.head?_cons,
      if_true, List.drop_succ_cons, List.drop_zero, hsplit]
    have hlast : parts.getLast? ≠ some [] := by
      intro hl
      exact (hgood [] (lemma_getLast_mem parts [] hl)).1 rfl
    simp only [hlast, if_false]
    exact h2

open Rivaas.Reverse in
/-- **URLFor round trip (routes without parameters).** The route reverses to its own path, which it
    matches (after the K12c repair; before it `"/docs/"` reversed to `"/docs"`). -/
theorem urlfor_static (pattern : Bytes) (vals : Vals)
    (hp : (parseReversePattern pattern).any Seg.isParam = false) :
    buildURL pattern vals = some pattern ∧ seenPath pattern vals = some pattern ∧
    matchRoute pattern pattern = some [] := by
  refine ⟨by simp [buildURL, buildWith, hp], by simp [seenPath, buildWith, hp], ?_⟩
  unfold matchRoute
  simp only [hp, Bool.not_false, if_true]
  split
  · rename_i h; simp [h]
  · simp

open Rivaas.Reverse in
/-- **C12 (URLFor).** For every pattern and every parameter assignment the model's round trip — `URLFor`,
    then the request for the URL it returned — satisfies the oracle: whenever the pattern is well-formed and
    every parameter has a value that is a valid single path segment, the route is reached again with the
    same parameters. -/
theorem roundtrip_meets_spec (pattern : Bytes) (vals : List (Bytes × Bytes × Bytes × Bool)) :
    Reverse.Spec.specOK pattern vals (roundTrip pattern (vals.map strip)) = true := by
  unfold Reverse.Spec.specOK
  simp only
  split
  · rename_i happ
    simp only [Bool.and_eq_true, List.all_eq_true] at happ
    obtain ⟨_, hvals⟩ := happ
    let vals' : Vals := vals.map strip
    let val : Bytes → Bytes := fun n =>
      match vals.find? (fun e => e.1 == n) with | some (_, v, _, _) => v | none => []
    -- the shipped assignment, read by the model and by the oracle
    have hfind : ∀ n, n ∈ Spec.paramNames pattern →
        ∃ v, valOf vals' n = some v ∧ v.1 = val n ∧ v.1 ≠ [] ∧ '/' ∉ v.1 := by
      intro n hn
      have h := hvals n hn
      cases hf : vals.find? (fun e => e.1 == n) with
      | none => rw [hf] at h; simp at h
      | some q =>
        obtain ⟨n', v, e, rt⟩ := q
        rw [hf] at h
        simp only [Bool.and_eq_true, Spec.validSegment, bne_iff_ne, ne_eq, Bool.not_eq_true',
          List.contains_eq_mem, decide_eq_false_iff_not] at h
        refine ⟨(v, e), ?_, ?_, h.1.1, h.1.2⟩
        · show valOf (vals.map strip) n = _
          rw [lemma_valOf_map, hf]
          rfl
        · simp only [val, hf]
    have hnames := lemma_paramNames_eq pattern
    have hseg : ∀ n, Seg.param n ∈ parseReversePattern pattern → n ∈ Spec.paramNames pattern := by
      intro n hn
      rw [hnames, List.mem_filterMap]
      exact ⟨_, hn, rfl⟩
    by_cases hp : (parseReversePattern pattern).any Seg.isParam = true
    · obtain ⟨path, hseen, hmatch⟩ := urlfor_roundtrip pattern vals' hp
        (fun n hn => let ⟨v, h1, _, h3, h4⟩ := hfind n (hseg n hn); ⟨v, h1, h3, h4⟩)
      obtain ⟨parts, hparts⟩ := lemma_render_some vals' true (parseReversePattern pattern)
        (fun n hn => let ⟨v, h1, _⟩ := hfind n (hseg n hn); ⟨v, h1⟩)
      have hurl : buildURL pattern vals' = some ('/' :: joinSlash parts) := by
        simp [buildURL, buildWith, hp, hparts]
      have hb := lemma_bound_eq vals' (parseReversePattern pattern) val
        (fun n hn => let ⟨v, h1, h2, _⟩ := hfind n (hseg n hn); ⟨v, h1, h2⟩)
      show (match roundTrip pattern vals' with
        | .routedBack _ ps => ps == (Spec.paramNames pattern).map fun n => (n, val n)
        | _ => false) = true
      simp only [roundTrip, hurl, hseen, hmatch, hb, hnames, beq_self_eq_true]
    · have hp' : (parseReversePattern pattern).any Seg.isParam = false := by simpa using hp
      obtain ⟨h1, h2, h3⟩ := urlfor_static pattern vals' hp'
      have hnil : Spec.paramNames pattern = [] := by
        rw [hnames]
        have := lemma_any_param (parseReversePattern pattern)
        rw [hp'] at this
        simpa using this
      show (match roundTrip pattern vals' with
        | .routedBack _ ps => ps == (Spec.paramNames pattern).map fun n => (n, val n)
        | _ => false) = true
      simp [roundTrip, h1, h2, h3, hnil]
  · rfl

/-! ### the code as shipped: witnesses of K12, K12b, K12c (replayed on the implementation, corpus/C12) -/

def servedOps : List Op :=
  [.register 1, .enterFreeze, .freezeCallWarmup, .warmupStep, .warmupStep, .warmupStep, .freezeFinish]

/-- K12: `WhereInt` on a served route after the freeze changed routing (200 → 404), no panic -/
theorem where_after_freeze_asis :
    let c := servedOps.foldl (Core.stepAsIs fun _ => false) Core.init
    lookup c 1 false = some 1 ∧ lookup (Core.stepAsIs (fun _ => false) c (.whereInt 1)) 1 false = none ∧
    lookup (c.step (.whereInt 1)) 1 false = some 1 := by decide

/-- K12b: a route registered through a `VersionRouter` after the freeze became routable -/
theorem late_version_route_asis :
    let c := servedOps.foldl (Core.stepAsIs fun r => r = 2) Core.init
    lookup c 2 true = none ∧ lookup (Core.stepAsIs (fun r => r = 2) c (.register 2)) 2 true = some 2 ∧
    lookup (c.step (.register 2)) 2 true = none := by decide

/-- K12e: a registration that had passed the unlocked flag test before the first request went on after it
    was served: as shipped it was written into the live tree (warm-up being over); now the flags are tested
    again under the mutex under which `Freeze` stores them -/
theorem late_enqueue_asis :
    let c := servedOps.foldl Core.step Core.init
    lookup c 2 true = none ∧ lookup (enqueueAsIs c 2) 2 true = some 2 ∧ c.step (.register 2) = c := by decide

/-- the same at goroutine level: registration 1 parks at `register.checked`, request 2 freezes the router and is
    served, the registration continues — and is rejected, the table stays as the request saw it -/
example :
    ((run [.register 1, .register 2, .request 1 true] [0, 0, 1, 2, 2, 2, 2, 2, 2, 2, 2, 1]).2.filterMap
        fun e => match e.out with | .none => none | o => some (e.actor, o)) =
      [(0, .mut .accepted), (2, .hit (some 1)), (1, .mut .rejected)] := by decide

/-- K12f (OPEN finding, recorded): a direct call of the exported registrar-bridge method `Router.AddRouteToTree` /
    `AddVersionRoute` after the first request is not rejected and the route is served. The goroutine kinds of the
    model (`Kind`) contain no such call — every theorem above is the `¬D` half: for cases without a direct bridge call the
    model meets the oracle. Witness of the as-is behaviour: -/
theorem late_bridge_call_asis :
    let c := servedOps.foldl Core.step Core.init
    c.frozen = true ∧ lookup c 2 true = none ∧ bridgeProbeAsIs c 2 = (false, true) ∧
    -- … whereas the guarded registration of the same route is rejected without effect
    c.step (.register 2) = c := by decide

open Rivaas.Reverse in
/-- K12c: a static route with a trailing slash reversed to a path it does not match -/
theorem urlfor_trailing_slash_asis :
    buildURLAsIs rb!"/api/" [] = some rb!"/api" ∧ matchRoute rb!"/api/" rb!"/api" = none ∧
    buildURL rb!"/api/" [] = some rb!"/api/" ∧ matchRoute rb!"/api/" rb!"/api/" = some [] := by decide

/-! ### non-vacuity -/

/-- two requests racing to freeze, a late registration, a late constraint, Warmup and Freeze from other
    goroutines, URLFor: a schedule with context switches inside both `Once` bodies -/
def kindsEx : List Kind :=
  [.register 1, .setName 1, .request 1 false, .request 1 true, .warmup, .freeze, .register 2, .whereInt 1,
   .urlFor 1, .request 2 true]

def schedEx : List Nat :=
  [0, 0, 1, 2, 3, 2, 3, 2, 4, 6, 7, 8, 2, 5, 2, 3, 2, 2, 3, 3, 9, 9, 9, 4, 5, 2]

example : ∀ i ∈ schedEx, i < kindsEx.length := by decide
example : ∀ st ∈ (run kindsEx schedEx).1.status, st = .finished := by decide

/-- the late registration and the late constraint are rejected, both racing requests are served -/
example : (run kindsEx schedEx).2.filterMap (fun e => match e.out with | .none => none | o => some (e.actor, o)) =
    [(0, .mut .accepted), (1, .mut .accepted), (6, .mut .rejected), (7, .mut .rejected), (8, .url .ok),
     (3, .hit (some 1)), (9, .hit none), (2, .hit (some 1))] := by decide

example : specOK kindsEx [1, 2] (run kindsEx schedEx).2
    ((run kindsEx schedEx).1.status.map (vis (run kindsEx schedEx).1)) (probes (run kindsEx schedEx).1.core [1, 2]) = true :=
  run_meets_spec kindsEx schedEx [1, 2] (by decide) (by decide)

open Rivaas.Reverse in
example : (parseReversePattern rb!"/users/:id/posts/:pid").any Seg.isParam = true ∧
    seenPath rb!"/users/:id/posts/:pid" [(rb!"id", rb!"a b", rb!"a%20b"), (rb!"pid", rb!"7", rb!"7")] =
      some rb!"/users/a b/posts/7" ∧
    matchRoute rb!"/users/:id/posts/:pid" rb!"/users/a b/posts/7" = some [(rb!"id", rb!"a b"), (rb!"pid", rb!"7")] := by
  decide

end Rivaas.C12
