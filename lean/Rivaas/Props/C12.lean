/- C12 — property theorems (stub: not built yet) -/
