import Rivaas.Lemmas.RadixDispatch
/-
C01 — Route dispatch is sound, complete and priority-respecting.

Model   : Model/Radix.lean   (`build`, `serve`: the tree engine of rivaas.dev/router, text level)
Oracle  : Spec/Match.lean    (`refMatch`, `specOK`: declarative segment-wise matcher)
Classes : Spec/MatchClass.lean (`dShadow`, `dCfall`, `dOverwrite`: recorded findings; `dNames`: K01a, repaired)

The theorems quantify over every constraint verdict table `sat`, every registration script whose
patterns are in the vocabulary of the property, and every request path that starts with `/`
(empty and trailing segments included).
-/
namespace Rivaas.C01
open Rivaas.Route Rivaas.Radix Rivaas.Match Rivaas.MatchL Rivaas.RadixL

/-- **C01, equality form.** For every script of the vocabulary, every constraint table and every
request whose path starts with `/`: unless the route the reference selects (for the request method or, for
the 405 answer, for one of the seven probed methods) was replaced by a later registration of exactly its
shape (`overwrite`, K01c — the one recorded class left; `names` K01a, `shadow` K01b and `cfall` K01f were
repaired), what the tree engine does is exactly the reference outcome: the route the declarative matcher
selects (static over parameter over wildcard, segment-wise, with backtracking, constraints part of matching,
last registration among equals) runs and reads its own bindings, or the answer is 405 with exactly the
matching methods, or 404 / the NoRoute handler. -/
theorem dispatch_eq_ref_partial (sat : Nat → Bytes → Bool) (noRoute : Bool) (script : List Reg) (R : List Route)
    (hR : specRoutes script = some R) (hN : normal R = true) (hstd : ∀ g ∈ script, g.method ∈ stdMethods)
    (req : Req) (hp : req.path.head? = some '/')
    (hOw : dReplaced sat R req (cutAny req.path) = false) :
    serve sat (build noRoute script) req = refMatch sat noRoute R req (cutAny req.path) := by
  have hOwM : dReplaced1 sat R req.method (cutAny req.path) = false := by
    unfold dReplaced at hOw
    cases h : dReplaced1 sat R req.method (cutAny req.path) with
    | false => rfl
    | true => simp [h] at hOw
  have hlookM : lookupM sat (build noRoute script) req.method req.path =
      (refRoute sat R req.method (cutAny req.path)).map fun r =>
        (leafOf r, pushAll Ctx.fresh ((routeMatch sat r (cutAny req.path)).getD [])) :=
    lemma_lookupM sat noRoute script R hR hN hstd req.method req.path hp hOwM
  -- the other method trees are consulted only when no route of the request method matches
  have hlook : refRoute sat R req.method (cutAny req.path) = none → ∀ m ∈ stdMethods,
      lookupM sat (build noRoute script) m req.path =
      (refRoute sat R m (cutAny req.path)).map fun r =>
        (leafOf r, pushAll Ctx.fresh ((routeMatch sat r (cutAny req.path)).getD [])) := by
    intro hnone m hm
    have hg : dReplaced1 sat R m (cutAny req.path) = false := by
      unfold dReplaced at hOw
      simp only [hOwM, Bool.false_or, hnone, Option.isNone_none, Bool.true_and] at hOw
      exact Bool.eq_false_iff.mpr ((List.any_eq_false.mp hOw) m hm)
    exact lemma_lookupM sat noRoute script R hR hN hstd m req.path hp hg
  rw [lemma_serve_lookup, hlookM]
  unfold refMatch
  cases href : refRoute sat R req.method (cutAny req.path) with
  | some ρ =>
    simp only [Option.map_some]
    -- the route that ran reads its own bindings
    have hρc : ρ ∈ cands sat R req.method (cutAny req.path) := lemma_pick_mem _ _ href
    have hρ := List.mem_filter.mp hρc
    simp only [decide_eq_true_eq] at hρ
    obtain ⟨hρR, _, hρm⟩ := hρ
    obtain ⟨b, hb⟩ : ∃ b, routeMatch sat ρ (cutAny req.path) = some b := by
      cases h : routeMatch sat ρ (cutAny req.path) with
      | none => rw [h] at hρm; simp at hρm
      | some b => exact ⟨b, rfl⟩
    have hmb : matchPat (cutAny req.path).trail ρ.pat (cutAny req.path).segs = some b := by
      unfold routeMatch at hb
      cases hm : matchPat (cutAny req.path).trail ρ.pat (cutAny req.path).segs with
      | none => simp [hm] at hb
      | some b' =>
        simp only [hm] at hb
        split at hb
        · injection hb with hb; rw [hb]
        · cases hb
    have hn := (lemma_normalR R hN ρ hρR).1
    have hkeys : distinct (b.map (·.1)) = true := by rw [matchPat_keys _ _ _ _ hmb]; exact hn.dist
    have htext : ρ.text ≠ [] := by rw [hn.text]; simp [render]
    simp only [hb, Option.getD_some, served, leafOf, htext, if_false, all_pushAll]
    congr 1
    unfold lookupAsk
    apply List.map_congr_left
    intro n _
    rw [param_pushAll n b hkeys]
  | none =>
    simp only [Option.map_none]
    unfold notFound
    have hal : allowedMethods sat (build noRoute script) req.path = allowedSet sat R (cutAny req.path) := by
      rw [lemma_allowed sat noRoute script R hR hN req.path hp]
      unfold allowedSet
      apply List.filter_congr
      intro m hm
      rw [hlook href m hm]
      unfold refRoute
      rw [Option.isSome_map, lemma_pick_isSome]
      cases cands sat R m (cutAny req.path) <;> simp
    rw [hal]
    have hnr : (build noRoute script).noRoute = noRoute := by
      unfold build
      rw [buildFrom_eq script 0 R hR, noRoute_fold]
    rw [hnr]
    by_cases ha : allowedSet sat R (cutAny req.path) ≠ []
    · simp only [ha, ne_eq, not_false_eq_true, if_true]
    · simp only [ha, if_false]
      by_cases hnr2 : noRoute = true
      · have h1 : Ctx.fresh.all = [] := rfl
        have h2 : ∀ n, Ctx.fresh.param n = [] := fun _ => rfl
        have h3 : notFoundPattern = "_not_found".toList := rfl
        simp only [hnr2, if_true]
        rw [h1, h3]
        simp only [h2, lookupAsk, bindGet, Option.getD_none]
      · simp only [hnr2, Bool.false_eq_true, if_false]


/-- **Every deviation is classified** (the form DESIGN.md §2.4 uses): if the tree engine does not
produce the reference outcome, the request is in the one recorded class. -/
theorem deviation_classified (sat : Nat → Bytes → Bool) (noRoute : Bool) (script : List Reg) (R : List Route)
    (hR : specRoutes script = some R) (hN : normal R = true) (hstd : ∀ g ∈ script, g.method ∈ stdMethods)
    (req : Req) (hp : req.path.head? = some '/')
    (hdev : serve sat (build noRoute script) req ≠ refMatch sat noRoute R req (cutAny req.path)) :
    dReplaced sat R req (cutAny req.path) = true := by
  cases hOw : dReplaced sat R req (cutAny req.path) with
  | true => rfl
  | false => exact absurd (dispatch_eq_ref_partial sat noRoute script R hR hN hstd req hp hOw) hdev

/-- the class token the driver prints is `-` only where the equality holds -/
theorem classify_dash (sat : Nat → Bytes → Bool) (noRoute : Bool) (script : List Reg) (R : List Route)
    (hR : specRoutes script = some R) (hN : normal R = true) (hstd : ∀ g ∈ script, g.method ∈ stdMethods)
    (req : Req) (hp : req.path.head? = some '/')
    (hcls : classify sat R req (cutAny req.path) = "-") :
    serve sat (build noRoute script) req = refMatch sat noRoute R req (cutAny req.path) := by
  unfold classify at hcls
  cases hOw : dReplaced sat R req (cutAny req.path) with
  | true => simp [hOw] at hcls
  | false => exact dispatch_eq_ref_partial sat noRoute script R hR hN hstd req hp hOw

/-- **Allow is exact**: outside the class a 405 lists exactly (sorted) the standard methods that have a
matching route, and a 405 is answered exactly when the request method has none but some method has. -/
theorem allow_exact (sat : Nat → Bytes → Bool) (noRoute : Bool) (script : List Reg) (R : List Route)
    (hR : specRoutes script = some R) (hN : normal R = true) (hstd : ∀ g ∈ script, g.method ∈ stdMethods)
    (req : Req) (hp : req.path.head? = some '/')
    (hOw : dReplaced sat R req (cutAny req.path) = false)
    (hnone : cands sat R req.method (cutAny req.path) = []) :
    (serve sat (build noRoute script) req).ran = none ∧
    ((allowedSet sat R (cutAny req.path) ≠ [] →
        (serve sat (build noRoute script) req).status = 405 ∧
        (serve sat (build noRoute script) req).allow = sortBytes (allowedSet sat R (cutAny req.path))) ∧
     (allowedSet sat R (cutAny req.path) = [] →
        (serve sat (build noRoute script) req).status = 404 ∧
        (serve sat (build noRoute script) req).noRoute = noRoute)) := by
  rw [dispatch_eq_ref_partial sat noRoute script R hR hN hstd req hp hOw]
  have href : refRoute sat R req.method (cutAny req.path) = none := by unfold refRoute; rw [hnone]; rfl
  unfold refMatch
  simp only [href]
  refine ⟨?_, ?_, ?_⟩
  · split
    · rfl
    · split <;> rfl
  · intro ha
    simp [ha]
  · intro ha
    simp only [ha, ne_eq, not_true_eq_false, if_false]
    cases noRoute <;> simp


/-- **Soundness, without any guard** (pattern, constraints and bindings): whenever a route handler runs, it
belongs to a registered route of the request method that matches the path segment-wise with its constraints
satisfied, and the handler reads — through `AllParams` and through `Param(name)` — exactly the bindings of its
own pattern (for a wildcard, the remaining path). For every script of the vocabulary, overwritten leaves
included. -/
theorem lookup_sound (sat : Nat → Bytes → Bool) (noRoute : Bool) (script : List Reg) (R : List Route)
    (hR : specRoutes script = some R) (hN : normal R = true)
    (req : Req) (hp : req.path.head? = some '/') (rid : Nat)
    (h : (serve sat (build noRoute script) req).ran = some rid) :
    ∃ r ∈ R, r.rid = rid ∧ r.method = req.method ∧
      ∃ b, routeMatch sat r (cutAny req.path) = some b ∧
        (serve sat (build noRoute script) req).params = SMap.ofList b ∧
        (serve sat (build noRoute script) req).lookups = lookupAsk b req.ask := by
  rw [lemma_serve_lookup] at h ⊢
  cases hl : lookupM sat (build noRoute script) req.method req.path with
  | none =>
    rw [hl] at h
    simp only [notFound] at h
    split at h
    · cases h
    · split at h <;> cases h
  | some res =>
    obtain ⟨lf, ctx⟩ := res
    rw [hl] at h
    simp only [served, Option.some.injEq] at h
    have hl0 := hl
    unfold lookupM at hl
    by_cases hm : req.method ∈ stdMethods
    · rw [treeOf_build noRoute script R hR req.method hm] at hl
      by_cases hf : R.filter (·.method = req.method) = []
      · simp [hf] at hl
      · simp only [hf, if_false, Option.bind_some] at hl
        obtain ⟨r, hr, hrm, hlf, b, hb, hctx⟩ := getRoute_sound sat R (lemma_normalR R hN) req.method req.path hp lf ctx hl
        refine ⟨r, hr, by rw [← h, hlf]; rfl, hrm, b, hb, ?_, ?_⟩
        · simp only [served, hctx, all_pushAll]
        · have hmb : matchPat (cutAny req.path).trail r.pat (cutAny req.path).segs = some b := by
            unfold routeMatch at hb
            cases hmm : matchPat (cutAny req.path).trail r.pat (cutAny req.path).segs with
            | none => simp [hmm] at hb
            | some b' =>
              simp only [hmm] at hb
              split at hb
              · injection hb with hb; rw [hb]
              · cases hb
          have hn := (lemma_normalR R hN r hr).1
          have hkeys : distinct (b.map (·.1)) = true := by rw [matchPat_keys _ _ _ _ hmb]; exact hn.dist
          simp only [served, hctx]
          unfold lookupAsk
          apply List.map_congr_left
          intro n _
          rw [param_pushAll n b hkeys]
    · have : treeOf (build noRoute script) req.method = none := by simp [treeOf, hm]
      rw [this] at hl
      simp at hl

/-- **No handler without a match, without any guard**: when no route registered for the request method
matches the path (constraints included), no route handler runs. -/
theorem no_match_no_handler (sat : Nat → Bytes → Bool) (noRoute : Bool) (script : List Reg) (R : List Route)
    (hR : specRoutes script = some R) (hN : normal R = true)
    (req : Req) (hp : req.path.head? = some '/')
    (hnone : cands sat R req.method (cutAny req.path) = []) :
    (serve sat (build noRoute script) req).ran = none := by
  cases hran : (serve sat (build noRoute script) req).ran with
  | none => rfl
  | some rid =>
    exfalso
    obtain ⟨r, hr, _, hrm, b, hb, _⟩ := lookup_sound sat noRoute script R hR hN req hp rid hran
    have : r ∈ cands sat R req.method (cutAny req.path) := by
      simp only [cands, List.mem_filter, decide_eq_true_eq]
      exact ⟨hr, hrm, by rw [hb]; rfl⟩
    rw [hnone] at this; simp at this

/-- **Priority, without any guard**: whenever a route handler runs, no registered route of the request method
that matches the path with its constraints satisfied — and that was not replaced by a later registration of
exactly its shape — beats it segment-wise (static over parameter over wildcard at the first differing
segment). -/
theorem lookup_priority (sat : Nat → Bytes → Bool) (noRoute : Bool) (script : List Reg) (R : List Route)
    (hR : specRoutes script = some R) (hN : normal R = true)
    (req : Req) (hp : req.path.head? = some '/') (rid : Nat)
    (h : (serve sat (build noRoute script) req).ran = some rid) :
    ∃ r ∈ R, r.rid = rid ∧ r.method = req.method ∧
      ∀ r' ∈ R, r'.method = req.method → (routeMatch sat r' (cutAny req.path)).isSome = true →
        ((laterThan r' R).any fun r1 => r1.method = req.method && shapeEq r1.pat r'.pat) = false →
        better r'.pat r.pat = false := by
  rw [lemma_serve_lookup] at h
  cases hl : lookupM sat (build noRoute script) req.method req.path with
  | none =>
    rw [hl] at h
    simp only [notFound] at h
    split at h
    · cases h
    · split at h <;> cases h
  | some res =>
    obtain ⟨lf, ctx⟩ := res
    rw [hl] at h
    simp only [served, Option.some.injEq] at h
    unfold lookupM at hl
    by_cases hm : req.method ∈ stdMethods
    · rw [treeOf_build noRoute script R hR req.method hm] at hl
      by_cases hf : R.filter (·.method = req.method) = []
      · simp [hf] at hl
      · simp only [hf, if_false, Option.bind_some] at hl
        obtain ⟨r, hr, hrm, hlf, hmax⟩ := getRoute_max sat R (lemma_normalR R hN) req.method req.path hp lf ctx hl
        exact ⟨r, hr, by rw [← h, hlf]; rfl, hrm, hmax⟩
    · have : treeOf (build noRoute script) req.method = none := by simp [treeOf, hm]
      rw [this] at hl
      simp at hl

/-- **Completeness with priority**: outside the class, a route runs whenever one matches, and it is not beaten
segment-wise (static over parameter over wildcard at the first differing segment) by any registered route of the
request method that matches the path with its constraints satisfied. -/
theorem lookup_best (sat : Nat → Bytes → Bool) (noRoute : Bool) (script : List Reg) (R : List Route)
    (hR : specRoutes script = some R) (hN : normal R = true) (hstd : ∀ g ∈ script, g.method ∈ stdMethods)
    (req : Req) (hp : req.path.head? = some '/')
    (hOw : dReplaced sat R req (cutAny req.path) = false)
    (hsome : cands sat R req.method (cutAny req.path) ≠ []) :
    ∃ r ∈ cands sat R req.method (cutAny req.path), (serve sat (build noRoute script) req).ran = some r.rid ∧
      ∀ r' ∈ cands sat R req.method (cutAny req.path), better r'.pat r.pat = false := by
  rw [dispatch_eq_ref_partial sat noRoute script R hR hN hstd req hp hOw]
  have hisSome : (refRoute sat R req.method (cutAny req.path)).isSome = true := by
    unfold refRoute
    rw [lemma_pick_isSome]
    cases hcs : cands sat R req.method (cutAny req.path) with
    | nil => exact absurd hcs hsome
    | cons a rest => rfl
  cases href : refRoute sat R req.method (cutAny req.path) with
  | none => rw [href] at hisSome; simp at hisSome
  | some ρ =>
    have hρc : ρ ∈ cands sat R req.method (cutAny req.path) := lemma_pick_mem _ _ href
    refine ⟨ρ, hρc, by simp [refMatch, href], ?_⟩
    have hmatchall : ∀ c ∈ cands sat R req.method (cutAny req.path),
        (matchPat (cutAny req.path).trail c.pat (cutAny req.path).segs).isSome = true := by
      intro c hcm
      have hcc := (List.mem_filter.mp hcm).2
      simp only [decide_eq_true_eq] at hcc
      exact routeMatch_isSome_match sat c _ hcc.2
    rcases pick_nec _ _ _ none ρ hmatchall (by intro c hcc; cases hcc) href with ⟨h, _⟩ | ⟨l1, l2, hl12, _, h1, h2⟩
    · cases h
    · intro c hcm
      rw [hl12] at hcm
      simp only [List.mem_append, List.mem_cons] at hcm
      rcases hcm with hcm | rfl | hcm
      · exact h1 c hcm
      · exact better_irrefl _
      · exact better_asymm _ _ (h2 c hcm)

/-- **`RouteExists` is exact**: outside the class, `RouteExists(method, path)` is true exactly when some
registered route of the method matches the path (constraints included). -/
theorem routeExists_exact (sat : Nat → Bytes → Bool) (noRoute : Bool) (script : List Reg) (R : List Route)
    (hR : specRoutes script = some R) (hN : normal R = true) (hstd : ∀ g ∈ script, g.method ∈ stdMethods)
    (m path : Bytes) (hm : m ∈ stdMethods) (hp : path.head? = some '/')
    (hOw : dReplaced1 sat R m (cutAny path) = false) :
    routeExists sat (build noRoute script) m path = !(cands sat R m (cutAny path)).isEmpty := by
  have hlook := lemma_lookupM sat noRoute script R hR hN hstd m path hp hOw
  have hT := treeOf_build noRoute script R hR m hm
  rw [treeOf_eq _ _ hm] at hT
  unfold getT at hT
  unfold routeExists
  rw [hT]
  unfold lookupM at hlook
  rw [treeOf_build noRoute script R hR m hm] at hlook
  by_cases hf : R.filter (·.method = m) = []
  · simp only [hf, if_true]
    rw [lemma_cands_method sat R m _ hf]; rfl
  · simp only [hf, if_false, Option.bind_some] at hlook ⊢
    have h1 : (getRoute sat (treeFor R m) path Ctx.fresh).1.isSome =
        (okOf (getRoute sat (treeFor R m) path Ctx.fresh)).isSome := by
      unfold okOf; rw [Option.isSome_map]
    have h2 : (okOf (getRoute sat (treeFor R m) path Ctx.fresh)).isSome = !(cands sat R m (cutAny path)).isEmpty := by
      rw [hlook, Option.isSome_map]
      unfold refRoute
      rw [lemma_pick_isSome]
    cases hg : (getRoute sat (treeFor R m) path Ctx.fresh).1.isSome with
    | true => rw [hg] at h1; rw [← h2, ← h1]; simp
    | false =>
      simp only [Bool.false_or]
      cases hc : compiledStatic (treeFor R m) path with
      | false => rw [← h2, ← h1, hg]
      | true =>
        have := lemma_compiledStatic_sub sat R (lemma_normalR R hN) m path hp hc
        rw [hg] at this; exact absurd this (by simp)

/-! ### the reference outcome meets the relational oracle the driver evaluates -/

theorem lemma_mem_insertSorted (x y : Bytes) (l : List Bytes) : y ∈ insertSorted x l ↔ y = x ∨ y ∈ l := by
  induction l with
  | nil => simp [insertSorted]
  | cons a rest ih =>
    simp only [insertSorted]
    split
    · simp only [List.mem_cons, ih]
      constructor
      · rintro (h | h | h)
        · right; left; exact h
        · left; exact h
        · right; right; exact h
      · rintro (h | h | h)
        · right; left; exact h
        · left; exact h
        · right; right; exact h
    · simp

theorem lemma_mem_sortBytes (y : Bytes) (l : List Bytes) : y ∈ sortBytes l ↔ y ∈ l := by
  unfold sortBytes
  induction l with
  | nil => simp
  | cons a rest ih => simp only [List.foldr_cons, lemma_mem_insertSorted, ih, List.mem_cons]

theorem lemma_sameSet_sort (l : List Bytes) : sameSet (sortBytes l) l = true := by
  unfold sameSet
  simp only [Bool.and_eq_true, List.all_eq_true, List.contains_iff_mem]
  exact ⟨fun x hx => (lemma_mem_sortBytes x l).mp hx, fun x hx => (lemma_mem_sortBytes x l).mpr hx⟩

theorem lemma_bindGet_mem (b : List (Bytes × Bytes)) (hd : distinct (b.map (·.1)) = true) (n v : Bytes)
    (h : (n, v) ∈ b) : bindGet n b = some v := by
  induction b with
  | nil => simp at h
  | cons a rest ih =>
    obtain ⟨k, w⟩ := a
    simp only [List.map_cons, distinct, Bool.and_eq_true, Bool.not_eq_true'] at hd
    simp only [List.mem_cons, Prod.mk.injEq] at h
    rcases h with ⟨rfl, rfl⟩ | h
    · simp [bindGet]
    · have hne : ¬ k = n := by
        intro e; subst e
        have : k ∈ rest.map (·.1) := List.mem_map.mpr ⟨(k, v), h, rfl⟩
        have := List.contains_iff_mem.mpr this
        rw [this] at hd; exact absurd hd.1 (by simp)
      simp only [bindGet, hne, if_false]
      exact ih hd.2 h

theorem lemma_bindGet_lookupAsk (b : List (Bytes × Bytes)) (ask : List Bytes) (n : Bytes) :
    bindGet n (lookupAsk b ask) = if n ∈ ask then some ((bindGet n b).getD []) else none := by
  unfold lookupAsk
  induction ask with
  | nil => simp [bindGet]
  | cons a rest ih =>
    simp only [List.map_cons, bindGet, ih, List.mem_cons]
    by_cases ha : a = n
    · subst ha; simp
    · have : ¬ n = a := fun e => ha e.symm
      simp [ha, this]

/-- the deterministic reference outcome is one of the outcomes the relational oracle admits -/
theorem ref_meets_oracle (sat : Nat → Bytes → Bool) (noRoute : Bool) (R : List Route) (hN : normal R = true)
    (req : Req) (p : RPath) : specOK sat R req p (refMatch sat noRoute R req p) = true := by
  unfold specOK refMatch
  by_cases hc : cands sat R req.method p ≠ []
  · simp only [hc, ne_eq, not_false_eq_true, if_true]
    have hsome : (refRoute sat R req.method p).isSome = true := by
      unfold refRoute
      rw [lemma_pick_isSome]
      cases hcs : cands sat R req.method p with
      | nil => exact absurd hcs hc
      | cons a rest => rfl
    cases href : refRoute sat R req.method p with
    | none => rw [href] at hsome; simp at hsome
    | some ρ =>
      simp only
      have hρc : ρ ∈ cands sat R req.method p := lemma_pick_mem _ _ href
      have hρ := List.mem_filter.mp hρc
      simp only [decide_eq_true_eq] at hρ
      obtain ⟨hρR, hρmeth, hρm⟩ := hρ
      obtain ⟨b, hb⟩ : ∃ b, routeMatch sat ρ p = some b := by
        cases h : routeMatch sat ρ p with
        | none => rw [h] at hρm; simp at hρm
        | some b => exact ⟨b, rfl⟩
      have hmb : matchPat p.trail ρ.pat p.segs = some b := by
        unfold routeMatch at hb
        cases hm : matchPat p.trail ρ.pat p.segs with
        | none => simp [hm] at hb
        | some b' =>
          simp only [hm] at hb
          split at hb
          · injection hb with hb; rw [hb]
          · cases hb
      have hn := (lemma_normalR R hN ρ hρR).1
      have hkeys : distinct (b.map (·.1)) = true := by rw [matchPat_keys _ _ _ _ hmb]; exact hn.dist
      simp only [List.any_eq_true, Bool.and_eq_true, decide_eq_true_eq]
      refine ⟨ρ, hρR, ⟨rfl, ?_⟩, ?_⟩
      · -- admissible
        unfold admissible
        simp only [Bool.and_eq_true, List.contains_iff_mem, List.all_eq_true, Bool.not_eq_true']
        refine ⟨hρc, ?_⟩
        have hmatchall : ∀ c ∈ cands sat R req.method p, (matchPat p.trail c.pat p.segs).isSome = true := by
          intro c hcm
          have hcc := (List.mem_filter.mp hcm).2
          simp only [decide_eq_true_eq] at hcc
          exact routeMatch_isSome_match sat c p hcc.2
        rcases pick_nec p.trail p.segs _ none ρ hmatchall (by intro c hcc; cases hcc) href with ⟨h, _⟩ | ⟨l1, l2, hl12, _, h1, h2⟩
        · cases h
        · intro c hcm
          rw [hl12] at hcm
          simp only [List.mem_append, List.mem_cons] at hcm
          rcases hcm with hcm | rfl | hcm
          · exact h1 c hcm
          · exact better_irrefl _
          · exact better_asymm _ _ (h2 c hcm)
      · -- reads its own bindings
        unfold readsOwn
        simp only [hb, Option.getD_some, List.all_eq_true, Bool.and_eq_true, decide_eq_true_eq]
        intro kv hkv
        obtain ⟨n, v⟩ := kv
        have hbg := lemma_bindGet_mem b hkeys n v hkv
        refine ⟨?_, ?_⟩
        · simp only
          unfold SMap.ofList
          rw [get_setAll, lastB_distinct n b hkeys, hbg]
          simp [SMap.get]
        · simp only
          rw [lemma_bindGet_lookupAsk]
          by_cases hask : n ∈ req.ask
          · simp [hask, hbg]
          · simp [hask]
  · have hc' : cands sat R req.method p = [] := by
      cases hcs : cands sat R req.method p with
      | nil => rfl
      | cons a rest => rw [hcs] at hc; simp at hc
    have href : refRoute sat R req.method p = none := by unfold refRoute; rw [hc']; rfl
    simp only [hc', ne_eq, not_true_eq_false, if_false, href]
    by_cases ha : allowedSet sat R p ≠ []
    · simp [ha, lemma_sameSet_sort]
    · simp only [ha, if_false]
      cases noRoute <;> simp

/-- **C01, oracle form**: outside the class the observation of the tree engine satisfies the relational
oracle (`specOK`) that the driver evaluates on the implementation's observation. -/
theorem C01_meets_oracle (sat : Nat → Bytes → Bool) (noRoute : Bool) (script : List Reg) (R : List Route)
    (hR : specRoutes script = some R) (hN : normal R = true) (hstd : ∀ g ∈ script, g.method ∈ stdMethods)
    (req : Req) (hp : req.path.head? = some '/')
    (hOw : dReplaced sat R req (cutAny req.path) = false) :
    specOK sat R req (cutAny req.path) (serve sat (build noRoute script) req) = true := by
  rw [dispatch_eq_ref_partial sat noRoute script R hR hN hstd req hp hOw]
  exact ref_meets_oracle sat noRoute R hN req _


/-! ### witnesses of the recorded findings (each replayed on the implementation: corpus/C01) and of the
repaired ones (the as-shipped definitions are kept in the model as `…AsIs` / `wildUnchecked`) -/

def B (s : String) : Bytes := s.toList
def anySat : Nat → Bytes → Bool := fun _ _ => true
def G : Bytes := B "GET"
def reg (m p : String) (cons : List (Bytes × Nat) := []) : Reg := ⟨B m, [], B p, cons, none⟩

/-- K01a (repaired) — as shipped, one parameter child per node kept the first registered name and the handler
of `/a/:y/c` read `x=1`, `y=""`; now the captured values are named after the matched route's own pattern:
the request is in the old class `names`, and the engine answers exactly like the reference -/
def k01aScript : List Reg := [reg "GET" "/a/:x/b", reg "GET" "/a/:y/c"]
def k01aReq : Req := ⟨G, B "/a/1/c", [B "x", B "y"]⟩

theorem K01a_asIs_witness : ∃ R, specRoutes k01aScript = some R ∧ normal R = true ∧
    dNames R k01aReq (cutAny k01aReq.path) = true ∧
    (let c := (getRouteGen false true true anySat ((treeOf (build false k01aScript) G).getD Tree.empty) k01aReq.path Ctx.fresh).2
     (c.param (B "x"), c.param (B "y")) = (B "1", [])) ∧
    (serve anySat (build false k01aScript) k01aReq).lookups = [(B "x", []), (B "y", B "1")] ∧
    serve anySat (build false k01aScript) k01aReq = refMatch anySat false R k01aReq (cutAny k01aReq.path) :=
  ⟨_, rfl, by decide, by decide, by decide, by decide, by decide⟩

/-- K01b (repaired) — as shipped, a static edge shadowed the parameter sibling and the descent did not
backtrack: `/users/admin/posts` was answered 404 although `/users/:id/posts` matches; now the first route
runs with `id=admin`, exactly the reference outcome -/
def k01bScript : List Reg := [reg "GET" "/users/:id/posts", reg "GET" "/users/admin/:x/y"]
def k01bReq : Req := ⟨G, B "/users/admin/posts", [B "id"]⟩

theorem K01b_asIs_witness : ∃ R, specRoutes k01bScript = some R ∧ normal R = true ∧
    dShadow R k01bReq (cutAny k01bReq.path) = true ∧
    (getRouteGen false false true anySat ((treeOf (build false k01bScript) G).getD Tree.empty) k01bReq.path Ctx.fresh).1 = none ∧
    (serve anySat (build false k01bScript) k01bReq).ran = some 0 ∧
    (serve anySat (build false k01bScript) k01bReq).lookups = [(B "id", B "admin")] ∧
    serve anySat (build false k01bScript) k01bReq = refMatch anySat false R k01bReq (cutAny k01bReq.path) :=
  ⟨_, rfl, by decide, by decide, by decide, by decide, by decide, by decide⟩

/-- K01c — routes of one shape overwrite each other (one leaf per shape holds the last registration):
constraint 0 accepts only digits, constraint 1 only letters; `/u/123` is answered 404 although `/u/:id` matches -/
def k01cSat : Nat → Bytes → Bool := fun cid v => (cid == 0 && v == B "123") || (cid == 1 && v == B "abc")
def k01cScript : List Reg := [reg "GET" "/u/:id" [(B "id", 0)], reg "GET" "/u/:name" [(B "name", 1)]]
def k01cReq1 : Req := ⟨G, B "/u/123", [B "id"]⟩
def k01cReq2 : Req := ⟨G, B "/u/abc", [B "name"]⟩

theorem K01c_witness : ∃ R, specRoutes k01cScript = some R ∧ normal R = true ∧
    (serve k01cSat (build false k01cScript) k01cReq1).status = 404 ∧
    (serve k01cSat (build false k01cScript) k01cReq2).ran = some 1 ∧
    (refMatch k01cSat false R k01cReq1 (cutAny k01cReq1.path)).ran = some 0 ∧
    (refMatch k01cSat false R k01cReq2 (cutAny k01cReq2.path)).ran = some 1 ∧
    classify k01cSat R k01cReq1 (cutAny k01cReq1.path) = "overwrite" :=
  ⟨_, rfl, by decide, by decide, by decide, by decide, by decide, by decide⟩

/-- K01f (repaired) — as shipped, constraints were checked only at the one leaf the descent reached:
`/u/abc` was answered 404 although `/u/*` matches; now the wildcard route runs, exactly the reference outcome -/
def k01fSat : Nat → Bytes → Bool := fun _ v => v == B "12"
def k01fScript : List Reg := [reg "GET" "/u/:id" [(B "id", 0)], reg "GET" "/u/*"]
def k01fReq : Req := ⟨G, B "/u/abc", [B "filepath"]⟩

theorem K01f_asIs_witness : ∃ R, specRoutes k01fScript = some R ∧ normal R = true ∧
    dCfall k01fSat R k01fReq (cutAny k01fReq.path) = true ∧
    (getRouteGen false false true k01fSat ((treeOf (build false k01fScript) G).getD Tree.empty) k01fReq.path Ctx.fresh).1 = none ∧
    (serve k01fSat (build false k01fScript) k01fReq).ran = some 1 ∧
    (serve k01fSat (build false k01fScript) k01fReq).lookups = [(B "filepath", B "abc")] ∧
    serve k01fSat (build false k01fScript) k01fReq = refMatch k01fSat false R k01fReq (cutAny k01fReq.path) :=
  ⟨_, rfl, by decide, by decide, by decide, by decide, by decide, by decide⟩

/-- K01d (repaired in e1ada5b) — as shipped, the parameter in a wildcard prefix was a literal edge -/
def k01dScript : List Reg := [reg "GET" "/users/:id/files/*"]
def k01dReq : Req := ⟨G, B "/users/42/files/a/b.txt", [B "id", B "filepath"]⟩

theorem K01d_asIs_witness :
    (serve anySat (buildAsIs false k01dScript) k01dReq).status = 404 ∧
    (serve anySat (build false k01dScript) k01dReq).ran = some 0 ∧
    (serve anySat (build false k01dScript) k01dReq).lookups = [(B "id", B "42"), (B "filepath", B "a/b.txt")] :=
  ⟨by decide, by decide, by decide⟩

/-- K01e (repaired in 14d2124) — as shipped, the constraints of a wildcard route were never validated -/
def k01eSat : Nat → Bytes → Bool := fun _ v => v == B "12"
def k01eScript : List Reg := [reg "GET" "/f/:id/*" [(B "id", 0)]]

theorem K01e_asIs_witness :
    ((getRouteGen true false false k01eSat ((treeOf (build false k01eScript) G).getD Tree.empty) (B "/f/abc/x") Ctx.fresh).1.map (·.rid)) = some 0 ∧
    (getRoute k01eSat ((treeOf (build false k01eScript) G).getD Tree.empty) (B "/f/abc/x") Ctx.fresh).1 = none ∧
    ((getRoute k01eSat ((treeOf (build false k01eScript) G).getD Tree.empty) (B "/f/12/x") Ctx.fresh).1.map (·.rid)) = some 0 :=
  ⟨by decide, by decide, by decide⟩

/-! ### non-vacuity: the hypotheses of the theorems are met by concrete non-trivial inputs -/

def exSat : Nat → Bytes → Bool := fun _ v => v == B "42"
def exScript : List Reg :=
  [reg "GET" "/users/:id" [(B "id", 0)], reg "GET" "/users/list", reg "POST" "/users/:id",
   ⟨B "GET", [B "/files", B "/v1"], B "/*", [], none⟩, reg "DELETE" "/",
   ⟨B "GET", [B "/items"], B "/:id", [], some (B "api/")⟩, ⟨B "GET", [], B "/", [], some (B "/api/")⟩]
def exReq : Req := ⟨G, B "/users/42", [B "id"]⟩
def exReq405 : Req := ⟨B "PUT", B "/users/7", []⟩

/-- the hypotheses of `dispatch_eq_ref_partial` hold for a script with a constrained parameter route, a
static sibling, a second method, a wildcard registered through two groups, a root route and two routes of a
mounted sub-router; the outcome is the constrained route with its binding -/
example : ∃ R, specRoutes exScript = some R ∧ normal R = true ∧ (∀ g ∈ exScript, g.method ∈ stdMethods) ∧
    exReq.path.head? = some '/' ∧ dReplaced exSat R exReq (cutAny exReq.path) = false ∧
    (serve exSat (build false exScript) exReq).ran = some 0 ∧
    (serve exSat (build false exScript) exReq).lookups = [(B "id", B "42")] :=
  ⟨_, rfl, by decide, by decide, by decide, by decide, by decide, by decide⟩

/-- … for a request that ends in 405 (the only other method with a matching route is POST) -/
example : ∃ R, specRoutes exScript = some R ∧ normal R = true ∧
    dReplaced exSat R exReq405 (cutAny exReq405.path) = false ∧
    cands exSat R exReq405.method (cutAny exReq405.path) = [] ∧
    (serve exSat (build false exScript) exReq405).status = 405 ∧
    (serve exSat (build false exScript) exReq405).allow = [B "POST"] :=
  ⟨_, rfl, by decide, by decide, by decide, by decide, by decide⟩

/-- … and for a route of the mounted sub-router (`Mount("api/", sub)`, `sub.Group("/items").GET("/:id")`) -/
example : ∃ R, specRoutes exScript = some R ∧
    dReplaced exSat R ⟨G, B "/api/items/7", [B "id"]⟩ (cutAny (B "/api/items/7")) = false ∧
    (serve exSat (build false exScript) ⟨G, B "/api/items/7", [B "id"]⟩).ran = some 5 ∧
    (serve exSat (build false exScript) ⟨G, B "/api", []⟩).ran = some 6 :=
  ⟨_, rfl, by decide, by decide, by decide⟩

/-- the class is per request: a replaced leaf in ANOTHER method's tree does not exclude a request that its own
method's tree answers (`GET /u/:id`, `POST /u/:id` (constraint 0), `POST /u/:name` (constraint 1); `GET /u/123`) -/
example : ∃ R, specRoutes [reg "GET" "/u/:id", reg "POST" "/u/:id" [(B "id", 0)], reg "POST" "/u/:name" [(B "name", 1)]] = some R ∧
    dReplaced k01cSat R ⟨G, B "/u/123", []⟩ (cutAny (B "/u/123")) = false ∧
    dReplaced1 k01cSat R (B "POST") (cutAny (B "/u/123")) = true :=
  ⟨_, rfl, by decide, by decide⟩

/-- `lookup_sound` / `lookup_priority` are not vacuous on a script that *is* in the recorded class (K01c): the last
registration of the shape runs and reads its own binding -/
example : (serve k01cSat (build false k01cScript) k01cReq2).ran = some 1 ∧
    (serve k01cSat (build false k01cScript) k01cReq2).lookups = [(B "name", B "abc")] := by decide

/-- the equality also covers requests of the repaired classes `names`, `shadow`, `cfall` (the as-shipped witnesses) -/
example : ∃ R, specRoutes k01aScript = some R ∧ dReplaced anySat R k01aReq (cutAny k01aReq.path) = false ∧
    dNames R k01aReq (cutAny k01aReq.path) = true :=
  ⟨_, rfl, by decide, by decide⟩

end Rivaas.C01
