/- C01 — property theorems (stub: not built yet) -/
