import Rivaas.Model.Radix
import Rivaas.Spec.MatchClass
/-
C01 — Route dispatch is sound, complete and priority-respecting.
(first stage: witnesses of the recorded and repaired findings; the refinement theorems follow)
-/
namespace Rivaas.C01
open Rivaas.Route Rivaas.Radix Rivaas.Match

def B (s : String) : Bytes := s.toList
def anySat : Nat → Bytes → Bool := fun _ _ => true

/-! ### K01a — one parameter child per node keeps the first registered name -/
def k01aScript : List Reg := [⟨B "GET", [], B "/a/:x/b", []⟩, ⟨B "GET", [], B "/a/:y/c", []⟩]
def k01aRoutes : List Route :=
  [⟨B "GET", B "/a/:x/b", [.lit (B "a"), .par (B "x"), .lit (B "b")], [], 0⟩,
   ⟨B "GET", B "/a/:y/c", [.lit (B "a"), .par (B "y"), .lit (B "c")], [], 1⟩]
def k01aReq : Req := ⟨B "GET", B "/a/1/c", [B "x", B "y"]⟩

theorem K01a_witness :
    serve anySat (build false k01aScript) k01aReq ≠ refMatch anySat false k01aRoutes k01aReq ⟨[B "a", B "1", B "c"], false⟩
    ∧ dNames k01aRoutes k01aReq ⟨[B "a", B "1", B "c"], false⟩ = true := by
  decide

end Rivaas.C01
