import Rivaas.Props.C16Retry
/-
C16, sliding window over a store with the one-call interface: the per-window bound WITHOUT the hypothesis that the
clock readings are non-decreasing in service order (review item C16-1). Go reads the clock before it takes the
entry lock, so a call can be served with a reading older than the entry's window. Here the readings may regress, as
long as no call is served more than one window behind a call served before it (`ws a ≤ ws b + W` for `a` served
before `b`) — any regression shorter than a window. (A regression over two windows genuinely breaks the bound.)
-/
namespace Rivaas.C16
open Rivaas.RateLimit

/-- window starts lie on a grid of step `W` (anchored at Go's zero time) -/
def OnGrid (W x : Nat) : Prop := (x + zeroOffset) % W = 0

theorem lemma_ws_onGrid (W t : Nat) (hW : 1 ≤ W) (ht : W * nsPerSec ≤ t) : OnGrid W (windowStart W t) := by
  unfold OnGrid windowStart
  have hns : 0 < nsPerSec := by unfold nsPerSec; omega
  have hpos : 0 < W * nsPerSec := Nat.mul_pos hW hns
  have h := Nat.lt_mul_div_succ (t + zeroOffset * nsPerSec) hpos
  generalize hk : (t + zeroOffset * nsPerSec) / (W * nsPerSec) = k at *
  -- k·W ≥ zeroOffset
  have hge : zeroOffset ≤ k * W := by
    have h1 : W * nsPerSec * (k + 1) = k * W * nsPerSec + W * nsPerSec := by
      rw [Nat.mul_add, Nat.mul_one, Nat.mul_comm (W * nsPerSec) k, Nat.mul_assoc]
    rw [h1] at h
    have h2 : zeroOffset * nsPerSec < k * W * nsPerSec + 1 := by omega
    have h3 : zeroOffset * nsPerSec ≤ k * W * nsPerSec := by omega
    exact Nat.le_of_mul_le_mul_right h3 hns
  rw [Nat.sub_add_cancel hge]
  exact Nat.mul_mod_left k W

theorem lemma_grid_sep (W a b : Nat) (ha : OnGrid W a) (hb : OnGrid W b) (hlt : a < b) : a + W ≤ b := by
  unfold OnGrid at ha hb
  obtain ⟨m, hm⟩ := Nat.dvd_of_mod_eq_zero ha
  obtain ⟨n, hn⟩ := Nat.dvd_of_mod_eq_zero hb
  have hmn : W * m < W * n := by omega
  have hlt' : m < n := Nat.lt_of_mul_lt_mul_left hmn
  have : W * (m + 1) ≤ W * n := Nat.mul_le_mul_left W hlt'
  rw [Nat.mul_add, Nat.mul_one] at this
  omega

/-- what the entry of key `k` has already counted towards the window starting at `s`: the count of its own window,
    or — for the window right before it — everything a stale call adds up (`prev + cur`) -/
def used (W : Nat) (st : WinStore) (k : Bytes) (s : Nat) : Nat :=
  match st.lookup k with
  | some w => if w.ws = s then w.cur else if s + W = w.ws then w.prev + w.cur else 0
  | none => 0

theorem lemma_ran_usage_lt (cfg : WinCfg) (txt : Bytes) (d : Decision)
    (henf : cfg.enforce = true ∨ cfg.hasCallback = true) (h : (winAnswer cfg txt d).ran = true) : d.usage < cfg.limit := by
  unfold winAnswer at h
  by_cases hge : d.usage ≥ cfg.limit
  · exfalso
    simp only [hge, if_true] at h
    rcases henf with he | hc
    · by_cases hc : cfg.hasCallback = true <;> simp [he, hc] at h
    · simp [hc] at h
  · omega

/-- the store after serving `q`: the key's entry as `GetCounts` rolled it, counted once more -/
theorem lemma_serve1_entry (cfg : WinCfg) (txt : Bytes) (st : WinStore) (q : WinReq) :
    ((serve1 cfg txt st q).1).lookup q.key = some (incr cfg.W (some (getCounts cfg.W (st.lookup q.key) q.now)) q.now) := by
  rw [lemma_serve1_store, lemma_wlookup_set_self]

section
attribute [local irreducible] windowStart

/-- the window of the key's entry after a call: the call's own window, or — a stale call — the entry's -/
theorem lemma_new_ws (W : Nat) (e : Option Win) (t : Nat) :
    (incr W (some (getCounts W e t)) t).ws = windowStart W t ∨
    ∃ w, e = some w ∧ (incr W (some (getCounts W e t)) t).ws = w.ws := by
  cases e with
  | none =>
    left
    have hg : getCounts W none t = { cur := 0, prev := 0, ws := windowStart W t } := rfl
    rw [hg, lemma_incr_same W _ t rfl]
  | some w =>
    by_cases h : w.ws < windowStart W t
    · left
      have hg : getCounts W (some w) t = { cur := 0, prev := carried W w (windowStart W t), ws := windowStart W t } := by
        unfold getCounts; simp [h]
      rw [hg, lemma_incr_same W _ t rfl]
    · right
      refine ⟨w, rfl, ?_⟩
      have hg : getCounts W (some w) t = w := by unfold getCounts; simp [h]
      have hi : incr W (some w) t = { w with cur := w.cur + 1 } := by unfold incr; simp [h]
      rw [hg, hi]

/-- one served request: `used` never decreases for the windows a later call can still fall into, it grows by one
    for the request's own window when the request is admitted, and an admission means that window was not used up -/
theorem lemma_step_used (cfg : WinCfg) (txt : Bytes) (hW : 1 ≤ cfg.W)
    (henf : cfg.enforce = true ∨ cfg.hasCallback = true) (st : WinStore) (q : WinReq)
    (hq : cfg.W * nsPerSec ≤ q.now)
    (hgrid : ∀ w, st.lookup q.key = some w → OnGrid cfg.W w.ws)
    (hahead : ∀ w, st.lookup q.key = some w → w.ws ≤ windowStart cfg.W q.now + cfg.W) (s : Nat)
    (hs : windowStart cfg.W q.now ≤ s + cfg.W) :
    used cfg.W st q.key s + (if (serve1 cfg txt st q).2.ran = true ∧ s = windowStart cfg.W q.now then 1 else 0)
        ≤ used cfg.W (serve1 cfg txt st q).1 q.key s ∧
    ((serve1 cfg txt st q).2.ran = true → used cfg.W st q.key (windowStart cfg.W q.now) < cfg.limit) := by
  have hgq := lemma_ws_onGrid cfg.W q.now hW hq
  have hans : (serve1 cfg txt st q).2 =
      winAnswer cfg txt (decide_ cfg.limit cfg.W (getCounts cfg.W (st.lookup q.key) q.now) q.now) := rfl
  unfold used
  rw [lemma_serve1_entry, hans]
  generalize hws : windowStart cfg.W q.now = wsq at *
  cases he : st.lookup q.key with
  | none =>
    have hg : getCounts cfg.W none q.now = { cur := 0, prev := 0, ws := wsq } := by unfold getCounts; simp [hws]
    have hi : incr cfg.W (some { cur := 0, prev := 0, ws := wsq }) q.now = { cur := 1, prev := 0, ws := wsq } := by
      rw [lemma_incr_same cfg.W _ q.now (by simp [hws])]
    simp only [hg, hi]
    refine ⟨?_, ?_⟩
    · by_cases h1 : wsq = s
      · simp [h1]; split <;> omega
      · have : ¬ s = wsq := fun h => h1 h.symm
        simp [h1, this]
    · intro hran
      have := lemma_ran_lt cfg txt _ q.now hW henf hran
      simpa using this
  | some w =>
    have hgw := hgrid w he
    have hah := hahead w he
    by_cases hlt : w.ws < wsq
    · -- the entry rolls
      have hg : getCounts cfg.W (some w) q.now = { cur := 0, prev := carried cfg.W w wsq, ws := wsq } := by
        unfold getCounts; simp [hws, hlt]
      have hi : incr cfg.W (some { cur := 0, prev := carried cfg.W w wsq, ws := wsq }) q.now =
          { cur := 1, prev := carried cfg.W w wsq, ws := wsq } := by
        rw [lemma_incr_same cfg.W _ q.now (by simp [hws])]
      have hsep := lemma_grid_sep cfg.W w.ws wsq hgw hgq hlt
      simp only [hg, hi]
      refine ⟨?_, ?_⟩
      · by_cases h1 : wsq = s
        · have n1 : ¬ w.ws = s := by omega
          have n2 : ¬ s + cfg.W = w.ws := by omega
          simp [h1, n1, n2]; split <;> omega
        · have n0 : ¬ s = wsq := fun h => h1 h.symm
          by_cases h2 : w.ws = s
          · -- the old window: the roll is a direct one and carries the count over
            have hdirect : ¬ w.ws + cfg.W < wsq := by omega
            have h3 : s + cfg.W = wsq := by omega
            unfold carried
            simp [h1, n0, h2, h3]
          · have n3 : ¬ s + cfg.W = w.ws := by omega
            simp [h1, n0, h2, n3]
      · intro hran
        have n1 : ¬ w.ws = wsq := by omega
        have n2 : ¬ wsq + cfg.W = w.ws := by omega
        have := lemma_ran_lt cfg txt _ q.now hW henf hran
        simp [n1, n2]
        simpa using this
    · by_cases heq : w.ws = wsq
      · -- a call of the entry's own window
        have hg : getCounts cfg.W (some w) q.now = w := by unfold getCounts; simp [hws, hlt]
        have hi : incr cfg.W (some w) q.now = { w with cur := w.cur + 1 } := lemma_incr_same cfg.W w q.now (by rw [hws]; exact heq)
        simp only [hg, hi]
        refine ⟨?_, ?_⟩
        · by_cases h1 : wsq = s
          · have : w.ws = s := by omega
            simp [this, h1]; split <;> omega
          · have n0 : ¬ s = wsq := fun h => h1 h.symm
            have n1 : ¬ w.ws = s := by omega
            simp [n0, n1]
            split <;> omega
        · intro hran
          have := lemma_ran_lt cfg txt w q.now hW henf hran
          simp [heq]; exact this
      · -- a stale call: its reading lies in the window right before the entry's
        have hgt : wsq < w.ws := by omega
        have hsep := lemma_grid_sep cfg.W wsq w.ws hgq hgw hgt
        have hwe : w.ws = wsq + cfg.W := by omega
        have hg : getCounts cfg.W (some w) q.now = w := by unfold getCounts; simp [hws, hlt]
        have hi : incr cfg.W (some w) q.now = { w with cur := w.cur + 1 } := by unfold incr; simp [hws, hlt]
        simp only [hg, hi]
        refine ⟨?_, ?_⟩
        · by_cases h1 : wsq = s
          · have n1 : ¬ w.ws = s := by omega
            have h3 : s + cfg.W = w.ws := by omega
            simp [h1, n1, h3]; split <;> omega
          · have n0 : ¬ s = wsq := fun h => h1 h.symm
            simp [n0]
            by_cases h2 : w.ws = s
            · simp [h2]
            · simp [h2]; split <;> omega
        · intro hran
          have hu := lemma_ran_usage_lt cfg txt _ henf hran
          have n1 : ¬ w.ws = wsq := by omega
          have h3 : wsq + cfg.W = w.ws := by omega
          simp only [n1, h3, if_true, if_false]
          -- the reading lies before the entry's window: elapsed = 0, the estimate is cur + prev
          have hnext := lemma_ws_next cfg.W q.now hW
          rw [hws, ← hwe] at hnext
          have hns : (1 : Nat) ≤ nsPerSec := by unfold nsPerSec; omega
          have hWn : 1 ≤ cfg.W * nsPerSec := Nat.mul_pos hW hns
          simp only [decide_, elapsedNs] at hu
          have hel : min (q.now - w.ws * nsPerSec) (cfg.W * nsPerSec) = 0 := by
            have : q.now - w.ws * nsPerSec = 0 := by omega
            rw [this]; exact Nat.zero_min _
          rw [hel, Nat.sub_zero, ← Nat.add_mul, Nat.mul_div_cancel _ hWn] at hu
          omega

end

theorem lemma_used_other (cfg : WinCfg) (txt : Bytes) (st : WinStore) (q : WinReq) (k : Bytes) (s : Nat)
    (hk : k ≠ q.key) : used cfg.W (serve1 cfg txt st q).1 k s = used cfg.W st k s := by
  unfold used
  rw [lemma_serve1_store, lemma_wlookup_set_other _ _ _ _ hk]

section
attribute [local irreducible] windowStart

/-- **the counting invariant under bounded clock regression**: entries on the grid and at most one window ahead of
    every call still to come, calls pairwise at most one window behind the calls served before them -/
theorem lemma_window_count_regress (cfg : WinCfg) (txt : Bytes) (hW : 1 ≤ cfg.W)
    (henf : cfg.enforce = true ∨ cfg.hasCallback = true) (st : WinStore) (reqs : List WinReq)
    (hq : ∀ q ∈ reqs, cfg.W * nsPerSec ≤ q.now)
    (hpair : reqs.Pairwise (fun a b => windowStart cfg.W a.now ≤ windowStart cfg.W b.now + cfg.W))
    (hgrid : ∀ k w, st.lookup k = some w → OnGrid cfg.W w.ws)
    (hahead : ∀ k w, st.lookup k = some w → ∀ q ∈ reqs, w.ws ≤ windowStart cfg.W q.now + cfg.W)
    (k : Bytes) (s : Nat) :
    cnt (k, s) (admSerial cfg txt st reqs) ≤ cfg.limit - used cfg.W st k s := by
  induction reqs generalizing st with
  | nil => simp [admSerial, cnt]
  | cons q rest ih =>
    obtain ⟨hq_le, hpair'⟩ := List.pairwise_cons.mp hpair
    have hqq := hq q (List.mem_cons_self ..)
    -- hypotheses for the rest
    have hgrid' : ∀ k' w', ((serve1 cfg txt st q).1).lookup k' = some w' → OnGrid cfg.W w'.ws := by
      intro k' w' hl
      by_cases hk : k' = q.key
      · subst hk
        rw [lemma_serve1_entry] at hl
        simp only [Option.some.injEq] at hl
        rw [← hl]
        rcases lemma_new_ws cfg.W (st.lookup q.key) q.now with h | ⟨w, hw, h⟩
        · rw [h]; exact lemma_ws_onGrid cfg.W q.now hW hqq
        · rw [h]; exact hgrid q.key w hw
      · rw [lemma_serve1_store, lemma_wlookup_set_other _ _ _ _ hk] at hl
        exact hgrid k' w' hl
    have hahead' : ∀ k' w', ((serve1 cfg txt st q).1).lookup k' = some w' → ∀ q' ∈ rest,
        w'.ws ≤ windowStart cfg.W q'.now + cfg.W := by
      intro k' w' hl q' hq'
      by_cases hk : k' = q.key
      · subst hk
        rw [lemma_serve1_entry] at hl
        simp only [Option.some.injEq] at hl
        rw [← hl]
        rcases lemma_new_ws cfg.W (st.lookup q.key) q.now with h | ⟨w, hw, h⟩
        · rw [h]; exact hq_le q' hq'
        · rw [h]; exact hahead q.key w hw q' (List.mem_cons_of_mem _ hq')
      · rw [lemma_serve1_store, lemma_wlookup_set_other _ _ _ _ hk] at hl
        exact hahead k' w' hl q' (List.mem_cons_of_mem _ hq')
    have ih' := ih (serve1 cfg txt st q).1 (fun x hx => hq x (List.mem_cons_of_mem _ hx)) hpair' hgrid' hahead'
    by_cases hk : k = q.key
    · subst hk
      by_cases hold : s + cfg.W < windowStart cfg.W q.now
      · -- a window no call can fall into any more
        rw [lemma_cnt_zero cfg txt st (q :: rest) q.key s (by
          intro q' hq'
          rcases List.mem_cons.mp hq' with h | h
          · subst h; omega
          · have := hq_le q' h; omega)]
        exact Nat.zero_le _
      · have hs : windowStart cfg.W q.now ≤ s + cfg.W := by omega
        obtain ⟨h1, h2⟩ := lemma_step_used cfg txt hW henf st q hqq (hgrid q.key)
          (fun w hw => hahead q.key w hw q (List.mem_cons_self ..)) s hs
        simp only [admSerial, lemma_cnt_append]
        have hadm : cnt (q.key, s) (adm1 cfg q (serve1 cfg txt st q).2) =
            (if (serve1 cfg txt st q).2.ran = true ∧ s = windowStart cfg.W q.now then 1 else 0) := by
          unfold adm1 cnt
          by_cases hran : (serve1 cfg txt st q).2.ran = true
          · by_cases hsw : s = windowStart cfg.W q.now
            · simp [hran, hsw]
            · have : ¬ windowStart cfg.W q.now = s := fun h => hsw h.symm
              simp [hran, hsw, this]
          · simp [hran]
        rw [hadm]
        by_cases ha : (serve1 cfg txt st q).2.ran = true ∧ s = windowStart cfg.W q.now
        · obtain ⟨hran, hsw⟩ := ha
          subst hsw
          have hlt := h2 hran
          simp only [hran, and_self, if_true] at h1 ⊢
          omega
        · simp only [ha, if_false] at h1 ⊢
          omega
    · have hadm : cnt (k, s) (adm1 cfg q (serve1 cfg txt st q).2) = 0 := by
        unfold adm1 cnt; split
        · have : ¬ q.key = k := fun h => hk h.symm
          simp [this]
        · simp
      simp only [admSerial, lemma_cnt_append, hadm, Nat.zero_add]
      rw [← lemma_used_other cfg txt st q k s hk]
      exact ih'

end

/-- **Sliding window over an atomic store, every interleaving, clock readings that may regress by less than a
    window**: whatever the schedule and however the clock readings are ordered, as long as no call is served more
    than one window behind a call served before it (all readings after 1970-01-01 plus one window), per key and
    fixed window no more than `limit` requests reach the handler. -/
theorem window_atomic_bound_regress (cfg : WinCfg) (txt : Bytes) (reqs : List WinReq) (sched : List Op) (hW : 1 ≤ cfg.W)
    (ha : cfg.atomic = true)
    (hq : ∀ x ∈ servedOf reqs sched, cfg.W * nsPerSec ≤ x.2.now)
    (hpair : ((servedOf reqs sched).map (·.2)).Pairwise
      (fun a b => windowStart cfg.W a.now ≤ windowStart cfg.W b.now + cfg.W)) :
    windowBoundOK cfg reqs (runWin cfg txt reqs sched) = true := by
  unfold windowBoundOK
  by_cases hrep : (!cfg.enforce && !cfg.hasCallback) = true
  · simp only [hrep, if_true]
  · have hrep' : (!cfg.enforce && !cfg.hasCallback) = false := by simpa using hrep
    simp only [hrep', Bool.false_eq_true, if_false]
    have henf : cfg.enforce = true ∨ cfg.hasCallback = true := by
      cases he : cfg.enforce <;> cases hc : cfg.hasCallback <;> simp [he, hc] at hrep' ⊢
    have hrun : runWin cfg txt reqs sched = runSeq cfg txt [] (servedOf reqs sched) := by
      unfold runWin
      rw [lemma_atomic_fold cfg txt reqs ha]
      simp
    rw [hrun, lemma_admitted_seq cfg txt reqs _ _ (lemma_served_mem reqs sched)]
    rw [List.all_eq_true]
    intro kw _
    have := lemma_window_count_regress cfg txt hW henf [] _
      (by intro q hq'; obtain ⟨x, hx, rfl⟩ := List.mem_map.mp hq'; exact hq x hx) hpair
      (by intro k w h; simp at h) (by intro k w h; simp at h) kw.1 kw.2
    simp only [decide_eq_true_eq]
    have hc : used cfg.W [] kw.1 kw.2 = 0 := rfl
    rw [hc, Nat.sub_zero] at this
    exact this

/-- non-vacuity: limit 1, window 1 s; a call whose reading lies 2 ms before a window boundary is served after a call
    of the new window (the C16-15 scenario) — the hypotheses hold, the stale call is rejected, the bound holds -/
example :
    let cfg : WinCfg := { limit := 1, W := 1, headers := true, enforce := true, hasCallback := false, atomic := true }
    let reqs : List WinReq := [{ key := ['a'], now := 5000000000 + 500000000 }, { key := ['a'], now := 7000000000 + 3000000 },
                               { key := ['a'], now := 7000000000 - 2000000 }]
    let sched := [Op.get 0, Op.inc 0, Op.get 1, Op.inc 1, Op.get 2, Op.inc 2]
    (runWin cfg [] reqs sched).map (fun a => a.2.status) = [200, 200, 429] ∧
    windowBoundOK cfg reqs (runWin cfg [] reqs sched) = true := by decide

end Rivaas.C16
