import Rivaas.Spec.LogConfig
/-
C20 — construction and acceptance (`Model/LogConfig.lean` against `Spec/LogConfig.lean`): option handling, `Validate`,
level and sampling decide which calls are *accepted* — the notion the buffering half quantifies over.
-/
namespace Rivaas.C20
open Rivaas.LogConfig

theorem lemma_fold_level (opts : List Opt) (c : Cfg) :
    (opts.foldl apply c).level = (opts.reverse.findSome? fun o => match o with
      | .level l => some l | .debugLevel => some 0 | .debugMode true => some 0 | _ => none).getD c.level := by
  induction opts generalizing c with
  | nil => rfl
  | cons o rest ih =>
    rw [List.foldl_cons, ih, List.reverse_cons, List.findSome?_append]
    cases h : (rest.reverse.findSome? fun o => match o with
      | .level l => some l | .debugLevel => some 0 | .debugMode true => some 0 | _ => none) with
    | some v => simp
    | none =>
      cases o with
      | debugMode b => cases b <;> simp [apply, List.findSome?]
      | _ => simp [apply, List.findSome?]

theorem lemma_fold_sampling (opts : List Opt) (c : Cfg) :
    (opts.foldl apply c).sampling = (opts.reverse.findSome? fun o => match o with
      | .sampling i t => some (i, t) | _ => none).or c.sampling := by
  induction opts generalizing c with
  | nil => rfl
  | cons o rest ih =>
    rw [List.foldl_cons, ih, List.reverse_cons, List.findSome?_append]
    cases h : (rest.reverse.findSome? fun o => match o with | .sampling i t => some (i, t) | _ => none) with
    | some v => simp
    | none =>
      cases o with
      | debugMode b => cases b <;> simp [apply, List.findSome?]
      | _ => simp [apply, List.findSome?]

theorem lemma_fold_source (opts : List Opt) (c : Cfg) :
    (opts.foldl apply c).addSource = (opts.reverse.findSome? fun o => match o with
      | .source b => some b | .debugMode true => some true | _ => none).getD c.addSource := by
  induction opts generalizing c with
  | nil => rfl
  | cons o rest ih =>
    rw [List.foldl_cons, ih, List.reverse_cons, List.findSome?_append]
    cases h : (rest.reverse.findSome? fun o => match o with
      | .source b => some b | .debugMode true => some true | _ => none) with
    | some v => simp
    | none =>
      cases o with
      | debugMode b => cases b <;> simp [apply, List.findSome?]
      | _ => simp [apply, List.findSome?]

theorem lemma_fold_debug (opts : List Opt) (c : Cfg) :
    (opts.foldl apply c).debugMode = (opts.reverse.findSome? fun o => match o with
      | .debugMode b => some b | _ => none).getD c.debugMode := by
  induction opts generalizing c with
  | nil => rfl
  | cons o rest ih =>
    rw [List.foldl_cons, ih, List.reverse_cons, List.findSome?_append]
    cases h : (rest.reverse.findSome? fun o => match o with | .debugMode b => some b | _ => none) with
    | some v => simp
    | none =>
      cases o with
      | debugMode b => cases b <;> simp [apply, List.findSome?]
      | _ => simp [apply, List.findSome?]

/-- **option handling**: for every list of options the constructed Logger has the level, source flag and debug flag the
    last relevant option asks for (`WithDebugMode(true)` counts as `WithSource(true)` and `WithDebugLevel()`) -/
theorem options_last_one_wins (opts : List Opt) :
    ({ level := (configure opts).level, addSource := (configure opts).addSource,
       debugMode := (configure opts).debugMode } : Info) = specInfo opts := by
  simp only [configure, specInfo, specLevel, lemma_fold_level, lemma_fold_source, lemma_fold_debug]
  rfl

theorem lemma_sampling (opts : List Opt) : (configure opts).sampling = specSampling opts := by
  simp only [configure, specSampling, lemma_fold_sampling, Option.or_none]
  rfl

theorem lemma_run_eq_spec (c : Cfg) (calls : List Call) (level count : Nat) (down : Bool) :
    runCalls c { level := level, count := count, down := down } calls = specGo c.sampling level count down calls := by
  induction calls generalizing level count down with
  | nil => rfl
  | cons x rest ih =>
    cases x with
    | setLevel l => simp only [runCalls, stepCall, specGo]; exact ih l count down
    | shutdown => simp only [runCalls, stepCall, specGo]; exact ih level count true
    | log lvl =>
      simp only [runCalls, stepCall, specGo]
      by_cases hd : down = true
      · subst hd
        simp only [if_true, Bool.not_true, Bool.false_and, Bool.false_eq_true, if_false]
        rw [ih]
      · have hd' : down = false := by simpa using hd
        subst hd'
        by_cases hl : lvl < level
        · have : ¬ level ≤ lvl := by omega
          simp only [Bool.false_eq_true, if_false, hl, if_true, Bool.not_false, Bool.true_and, this, decide_false,
            Bool.false_and]
          rw [ih]
        · have hle : level ≤ lvl := by omega
          simp only [Bool.false_eq_true, if_false, hl, Bool.not_false, Bool.true_and, hle, decide_true]
          by_cases h3 : lvl ≥ 3
          · have : ¬ lvl < 3 := by omega
            simp only [h3, if_true, this, decide_false, Bool.false_and, Bool.false_eq_true, if_false]
            rw [ih]
            cases c.sampling with
            | none => rfl
            | some it => obtain ⟨i, t⟩ := it; simp
          · have h3' : lvl < 3 := by omega
            have : ¬ 3 ≤ lvl := by omega
            simp only [h3, if_false, h3', decide_true, Bool.true_and]
            cases hs : c.sampling with
            | none => simp only [Option.isNone_none, if_true, Option.isSome_none, Bool.false_eq_true, if_false]; rw [ih, hs]
            | some it =>
              obtain ⟨i, t⟩ := it
              simp only [Option.isNone_some, Bool.false_eq_true, if_false, Option.isSome_some, if_true]
              rw [ih, hs]
              congr 1
              simp only [samplePass, this, decide_false, Bool.false_or]
              split
              · rename_i h1; simp; exact Or.inl (Or.inl (by omega))
              · rename_i h1
                split
                · rename_i h2; simp [h2]
                · rename_i h2
                  have h1' : ¬ ((count : Int) + 1 ≤ i) := by omega
                  simp [h1', h2]

/-- **acceptance** (model = oracle): for every option list and every history of level-method calls, `SetLevel` and
    `Shutdown`, the calls that go on to the handler are exactly those the documentation promises -/
theorem accepted_eq_spec (opts : List Opt) (calls : List Call) : accepted opts calls = specAccepted opts calls := by
  simp only [accepted, specAccepted]
  rw [lemma_run_eq_spec, lemma_sampling]
  congr 1
  simp only [configure, specLevel, lemma_fold_level]
  rfl

/-- errors are never sampled out and do not advance the sampling counter -/
theorem errors_bypass_sampling (c : Cfg) (st : ASt) (lvl : Nat) (h3 : lvl ≥ 3) (hup : st.down = false)
    (hl : st.level ≤ lvl) : stepCall c st (.log lvl) = (st, some true) := by
  have : ¬ lvl < st.level := by omega
  simp [stepCall, hup, this, h3]

/-- the first `Initial` sampled calls all pass; with `Thereafter = 0` every call passes; after the first `Initial`
    ones exactly every `Thereafter`-th passes -/
theorem sampling_schedule (i t : Int) (n : Nat) :
    ((n : Int) ≤ i → samplePass (some (i, t)) n = true) ∧
    (t = 0 → samplePass (some (i, t)) n = true) ∧
    (¬ (n : Int) ≤ i → t ≠ 0 → samplePass (some (i, t)) n = (((n : Int) - i) % t == 0)) := by
  refine ⟨fun h => by simp [samplePass, h], fun h => by simp [samplePass, h], fun h1 h2 => ?_⟩
  have : (t == 0) = false := by simpa using h2
  simp [samplePass, h1, this]

/-- a shut-down Logger accepts nothing through its level methods; a call below the level in force is not accepted -/
theorem nothing_accepted_after_shutdown (c : Cfg) (st : ASt) (lvl : Nat) (h : st.down = true) :
    stepCall c st (.log lvl) = (st, some false) := by
  simp [stepCall, h]

/-- `New` rejects a nil output, a nil custom logger, negative sampling values and an unknown handler type — for every
    option list, and accepts everything else -/
theorem new_rejects_exactly_invalid (opts : List Opt) :
    let c := configure opts
    (newRes c = .ok ↔ (c.outputNil = false ∧ ¬ (c.useCustom = true ∧ c.customNil = true) ∧
      (∀ i t, c.sampling = some (i, t) → 0 ≤ i ∧ 0 ≤ t) ∧ (c.useCustom = false → c.handler ≤ 2))) := by
  intro c
  simp only [newRes]
  cases ho : c.outputNil <;> cases hu : c.useCustom <;> cases hn : c.customNil <;> cases hs : c.sampling with
  | none => simp <;> omega
  | some it =>
    obtain ⟨i, t⟩ := it
    simp
    try
      split
      · simp; omega
      · split <;> simp <;> omega

/-! non-vacuity / witnesses -/
example : accepted [.sampling 2 3, .level 0] [.log 1, .log 1, .log 1, .log 3, .log 1, .log 1, .log 0, .shutdown, .log 3] =
    [true, true, false, true, false, true, false, false] := by decide
example : (configure [.debugMode true, .level 2, .debugMode false]).level = 2 ∧
    (configure [.debugMode true, .level 2, .debugMode false]).addSource = true := by decide
example : newRes (configure [.sampling (-1) 0]) = .invalid ∧ newRes (configure [.handler 7]) = .badHandler ∧
    newRes (configure [.handler 7, .custom false]) = .ok := by decide

end Rivaas.C20
