import Rivaas.Spec.Log
/-
C20 — Logs are redacted and not lost. Property theorems.

Part 1 (this section): redaction, for every handler type, every user replacer, every derivation
chain (`With` / `WithGroup` in any order and depth) and every attribute tree.
-/
namespace Rivaas.C20
open Rivaas.Log

/-- how an output value relates to the input attribute it came from -/
def Prov (k v out : Bytes) : Prop :=
  (k ∈ sensitive ∧ out = redactedVal) ∨ (k ∉ sensitive ∧ out = v)

/-! ### helper lemmas -/

theorem lemma_replace (u : UserRep) (groups : List Bytes) (k v : Bytes) (kv : Bytes × Bytes)
    (h : replaceAttr u groups k v = some kv) : kv.1 = k ∧ Prov k v kv.2 := by
  unfold replaceAttr at h
  by_cases hs : k ∈ sensitive
  · simp only [hs, if_true, Option.some.injEq] at h
    subst h
    exact ⟨rfl, Or.inl ⟨hs, rfl⟩⟩
  · simp only [hs, if_false] at h
    cases u with
    | none =>
      simp only [Option.some.injEq] at h
      subst h
      exact ⟨rfl, Or.inr ⟨hs, rfl⟩⟩
    | dropTop d =>
      simp only at h
      split at h
      · cases h
      · simp only [Option.some.injEq] at h
        subst h
        exact ⟨rfl, Or.inr ⟨hs, rfl⟩⟩
    | dropAny d =>
      simp only at h
      split at h
      · cases h
      · simp only [Option.some.injEq] at h
        subst h
        exact ⟨rfl, Or.inr ⟨hs, rfl⟩⟩

theorem lemma_key_concat (g : List Bytes) (k v : Bytes) : Pair.key (g ++ [k], v) = some k := by
  simp [Pair.key]

/-- the provenance of an output pair inside a list of input attributes -/
def From (leaves : List (Bytes × Bytes)) (p : Pair) : Prop :=
  ∃ kv ∈ leaves, Pair.key p = some kv.1 ∧ Prov kv.1 kv.2 p.2

theorem lemma_from_mono {l l' : List (Bytes × Bytes)} {p : Pair} (hsub : ∀ x ∈ l, x ∈ l') (h : From l p) :
    From l' p := by
  obtain ⟨kv, hm, hk⟩ := h
  exact ⟨kv, hsub kv hm, hk⟩

/-! slog's handlers -/
mutual
  theorem lemma_slogAttr : ∀ (u : UserRep) (groups : List Bytes) (a : Attr) (p : Pair),
      p ∈ slogAttr u groups a → From (leavesOf a) p
    | u, groups, .leaf k v, p, h => by
      simp only [slogAttr] at h
      split at h
      · rename_i k' v' heq
        simp only [List.mem_singleton] at h
        subst h
        have := lemma_replace u groups k v (k', v') heq
        refine ⟨(k, v), by simp [leavesOf], ?_, this.2⟩
        simp only at this
        rw [lemma_key_concat, this.1]
      · cases h
    | u, groups, .group k as, p, h => by
      simp only [slogAttr] at h
      simpa [leavesOf] using lemma_slogAttrs u _ as p h
  theorem lemma_slogAttrs : ∀ (u : UserRep) (groups : List Bytes) (as : List Attr) (p : Pair),
      p ∈ slogAttrs u groups as → From (leavesOfAll as) p
    | _, _, [], p, h => by simp [slogAttrs] at h
    | u, groups, a :: as, p, h => by
      simp only [slogAttrs, List.mem_append] at h
      rcases h with h | h
      · exact lemma_from_mono (by intro x hx; simp [leavesOfAll, hx]) (lemma_slogAttr u groups a p h)
      · exact lemma_from_mono (by intro x hx; simp [leavesOfAll, hx]) (lemma_slogAttrs u groups as p h)
end

theorem lemma_slogChain (u : UserRep) (groups : List Bytes) (chain : List ChainOp) (call : List Attr)
    (p : Pair) (h : p ∈ slogChain u groups chain call) : From (chainLeaves chain ++ leavesOfAll call) p := by
  induction chain generalizing groups with
  | nil => simpa [slogChain, chainLeaves] using lemma_slogAttrs u groups call p h
  | cons op rest ih =>
    cases op with
    | withAttrs as =>
      simp only [slogChain, List.mem_append] at h
      rcases h with h | h
      · exact lemma_from_mono (by intro x hx; simp [chainLeaves, hx]) (lemma_slogAttrs u groups as p h)
      · exact lemma_from_mono (by intro x hx; simp only [chainLeaves, List.append_assoc, List.mem_append] at hx ⊢; right; exact hx)
          (ih groups h)
    | withGroup n =>
      simp only [slogChain] at h
      simpa [chainLeaves] using ih _ h

/-! the console handler: printing does not invent or change values … -/
mutual
  theorem lemma_print : ∀ (pre : List Bytes) (a : Attr) (p : Pair),
      p ∈ consolePrint pre a → ∃ kv ∈ leavesOf a, Pair.key p = some kv.1 ∧ p.2 = kv.2
    | pre, .leaf k v, p, h => by
      simp only [consolePrint, List.mem_singleton] at h
      subst h
      exact ⟨(k, v), by simp [leavesOf], lemma_key_concat pre k v, rfl⟩
    | pre, .group k as, p, h => by
      simp only [consolePrint] at h
      simpa [leavesOf] using lemma_printAll _ as p h
  theorem lemma_printAll : ∀ (pre : List Bytes) (as : List Attr) (p : Pair),
      p ∈ consolePrintAll pre as → ∃ kv ∈ leavesOfAll as, Pair.key p = some kv.1 ∧ p.2 = kv.2
    | _, [], p, h => by simp [consolePrintAll] at h
    | pre, a :: as, p, h => by
      simp only [consolePrintAll, List.mem_append] at h
      rcases h with h | h
      · obtain ⟨kv, hm, hk⟩ := lemma_print pre a p h
        exact ⟨kv, by simp [leavesOfAll, hm], hk⟩
      · obtain ⟨kv, hm, hk⟩ := lemma_printAll pre as p h
        exact ⟨kv, by simp [leavesOfAll, hm], hk⟩
end

/-- … and every attribute that survives `consoleReplace` is an input attribute after ReplaceAttr -/
def Repl (leaves : List (Bytes × Bytes)) (out : Bytes × Bytes) : Prop :=
  ∃ kv ∈ leaves, out.1 = kv.1 ∧ Prov kv.1 kv.2 out.2

mutual
  theorem lemma_creplace : ∀ (u : UserRep) (groups : List Bytes) (a a' : Attr),
      consoleReplace u groups a = some a' → ∀ out ∈ leavesOf a', Repl (leavesOf a) out
    | u, groups, .leaf k v, a', h, out, ho => by
      simp only [consoleReplace, Option.map_eq_some_iff] at h
      obtain ⟨kv, hr, rfl⟩ := h
      simp only [leavesOf, List.mem_singleton] at ho
      subst ho
      have := lemma_replace u groups k v kv hr
      exact ⟨(k, v), by simp [leavesOf], this.1, this.2⟩
    | u, groups, .group k as, a', h, out, ho => by
      simp only [consoleReplace, Option.some.injEq] at h
      subst h
      simp only [leavesOf] at ho ⊢
      exact lemma_creplaceAll u _ as out ho
  theorem lemma_creplaceAll : ∀ (u : UserRep) (groups : List Bytes) (as : List Attr),
      ∀ out ∈ leavesOfAll (consoleReplaceAll u groups as), Repl (leavesOfAll as) out
    | _, _, [], out, ho => by simp [consoleReplaceAll, leavesOfAll] at ho
    | u, groups, a :: as, out, ho => by
      simp only [consoleReplaceAll] at ho
      split at ho
      · rename_i a' heq
        simp only [leavesOfAll, List.mem_append] at ho
        rcases ho with ho | ho
        · obtain ⟨kv, hm, hk⟩ := lemma_creplace u groups a a' heq out ho
          exact ⟨kv, by simp [leavesOfAll, hm], hk⟩
        · obtain ⟨kv, hm, hk⟩ := lemma_creplaceAll u groups as out ho
          exact ⟨kv, by simp [leavesOfAll, hm], hk⟩
      · obtain ⟨kv, hm, hk⟩ := lemma_creplaceAll u groups as out ho
        exact ⟨kv, by simp [leavesOfAll, hm], hk⟩
end

theorem lemma_console_printed (u : UserRep) (groups pre : List Bytes) (as : List Attr) (p : Pair)
    (h : p ∈ consolePrintAll pre (consoleReplaceAll u groups as)) : From (leavesOfAll as) p := by
  obtain ⟨out, hm, hk, hv⟩ := lemma_printAll pre _ p h
  obtain ⟨kv, hm', hk', hp⟩ := lemma_creplaceAll u groups as out hm
  exact ⟨kv, hm', by rw [hk, hk'], by rw [hv]; exact hp⟩

/-- invariant of the console handler's bound attributes along a derivation chain -/
theorem lemma_consoleChain (u : UserRep) (h : Console) (chain : List ChainOp) (L : List (Bytes × Bytes))
    (hinv : ∀ p ∈ consolePrintAll [] h.attrs, From L p) :
    ∀ p ∈ consolePrintAll [] (consoleChain u h chain).attrs, From (L ++ chainLeaves chain) p := by
  induction chain generalizing h L with
  | nil => intro p hp; exact lemma_from_mono (by intro x hx; simp [hx]) (hinv p hp)
  | cons op rest ih =>
    cases op with
    | withAttrs as =>
      intro p hp
      simp only [consoleChain] at hp
      have := ih { h with attrs := h.attrs ++ consoleReplaceAll u h.groups as } (L ++ leavesOfAll as) (by
        intro q hq
        have hsplit : ∀ (xs ys : List Attr), consolePrintAll [] (xs ++ ys) = consolePrintAll [] xs ++ consolePrintAll [] ys := by
          intro xs ys
          induction xs with
          | nil => simp [consolePrintAll]
          | cons x xs ihx => simp [consolePrintAll, ihx]
        simp only [hsplit, List.mem_append] at hq
        rcases hq with hq | hq
        · exact lemma_from_mono (by intro x hx; simp [hx]) (hinv q hq)
        · exact lemma_from_mono (by intro x hx; simp [hx]) (lemma_console_printed u h.groups [] as q hq)) p hp
      simpa [chainLeaves, List.append_assoc] using this
    | withGroup n =>
      intro p hp
      simp only [consoleChain] at hp
      have := ih (if n.isEmpty then h else { h with groups := h.groups ++ [n] }) L (by
        intro q hq
        split at hq <;> exact hinv q hq) p hp
      simpa [chainLeaves] using this

/-! ### the property -/

/-- **Provenance.** Whatever handler type, user replacer, derivation chain and attribute trees: every
    `key=value` that reaches the output comes from an input attribute with that key, and its value
    is the marker if the key is sensitive and the attribute's own value otherwise. -/
theorem provenance (c : Case) (p : Pair) (h : p ∈ emit c) : From (inputLeaves c) p := by
  unfold emit at h
  have hslog : p ∈ slogChain c.user [] (.withAttrs c.root :: c.chain) c.call → From (inputLeaves c) p := by
    intro h
    have := lemma_slogChain c.user [] _ c.call p h
    simpa [chainLeaves, inputLeaves, List.append_assoc] using this
  cases hh : c.h with
  | json => rw [hh] at h; exact hslog h
  | text => rw [hh] at h; exact hslog h
  | console =>
    rw [hh] at h
    simp only [consoleHandle, List.mem_append] at h
    rcases h with h | h
    · have := lemma_consoleChain c.user {} (.withAttrs c.root :: c.chain) [] (by
        intro q hq; simp [consolePrintAll] at hq) p h
      exact lemma_from_mono (by intro x hx; simp only [chainLeaves, List.nil_append] at hx; simp only [inputLeaves, List.mem_append] at hx ⊢; rcases hx with hx | hx <;> simp [hx]) this
    · exact lemma_from_mono (by intro x hx; simp [inputLeaves, hx]) (lemma_console_printed c.user _ [] c.call p h)

/-- **Redaction** (the statement's first sentence): a pair printed under a sensitive key shows the
    marker, for JSON, text and console, however the attribute reached the record. -/
theorem redacted (c : Case) (p : Pair) (h : p ∈ emit c) (k : Bytes) (hk : Pair.key p = some k)
    (hs : k ∈ sensitive) : p.2 = redactedVal := by
  obtain ⟨kv, _, hk', hp⟩ := provenance c p h
  rw [hk] at hk'
  cases hk'
  rcases hp with ⟨_, h2⟩ | ⟨h1, _⟩
  · exact h2
  · exact absurd hs h1

/-- the model passes the executable oracle the driver applies to the implementation's output -/
theorem emit_meets_spec (c : Case) : (emit c).all pairOK = true := by
  rw [List.all_eq_true]
  intro p hp
  unfold pairOK
  split
  · rename_i k hk
    split
    · rename_i hs
      simp [redacted c p hp k hk hs]
    · rfl
  · rfl

/-- **No sensitive value in the output**: every value that appears, other than the marker, is the value
    of an attribute whose key is *not* sensitive. -/
theorem sensitive_value_never_emitted (c : Case) (p : Pair) (h : p ∈ emit c) (hne : p.2 ≠ redactedVal) :
    ∃ kv ∈ inputLeaves c, kv.1 ∉ sensitive ∧ kv.2 = p.2 := by
  obtain ⟨kv, hm, _, hp⟩ := provenance c p h
  rcases hp with ⟨_, h2⟩ | ⟨h1, h2⟩
  · exact absurd h2 hne
  · exact ⟨kv, hm, h1, h2.symm⟩

/-- buffering is transparent for what is printed (K20b/K20d repaired: a buffered record is replayed
    through the handler it was logged through) -/
theorem buffering_transparent (c : Case) : emit { c with buffered := true } = emit { c with buffered := false } := rfl

/-! ### non-vacuity and as-shipped witnesses -/

def wPw : Attr := .leaf "password".toList "hunter2".toList
def wUser : Attr := .leaf "user".toList "bob".toList
def wCase (h : HType) : Case :=
  { h := h, user := .none, root := [], chain := [.withAttrs [.leaf "token".toList "T1".toList], .withGroup "g".toList],
    call := [wPw, wUser, .group "h".toList [.leaf "api_key".toList "K1".toList]] }

/-- the hypotheses of `redacted` are met: three sensitive pairs are printed by each handler type -/
example : ((emit (wCase .json)).filter fun p => decide (p.2 = redactedVal)).length = 3 := by decide
example : ((emit (wCase .console)).filter fun p => decide (p.2 = redactedVal)).length = 3 := by decide
example : (["g".toList, "user".toList], "bob".toList) ∈ emit (wCase .text) := by decide
example : (["user".toList], "bob".toList) ∈ emit (wCase .console) := by decide

/-- K20a, as shipped: the console handler prints `password=hunter2` -/
theorem console_asis_leaks :
    (["password".toList], "hunter2".toList) ∈ emitAsIs (wCase .console) ∧ ¬ (emitAsIs (wCase .console)).all pairOK = true := by
  decide

/-- K20d, as shipped: a record logged through `With(...)` while buffering loses the bound attribute -/
theorem buffered_asis_drops_bound_attrs :
    (["token".toList], redactedVal) ∈ emitAsIs (wCase .json) ∧
    (["token".toList], redactedVal) ∉ emitAsIs { wCase .json with buffered := true } := by
  decide

end Rivaas.C20
