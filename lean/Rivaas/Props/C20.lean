import Rivaas.Spec.Log
import Rivaas.Lemmas.LogBuf
/-
C20 — Logs are redacted and not lost. Property theorems.

Part 1 (this section): redaction, for every handler type, every user replacer, every derivation
chain (`With` / `WithGroup` in any order and depth) and every attribute tree.
-/
namespace Rivaas.C20
open Rivaas.Log

/-- how an output value relates to the input attribute it came from -/
def Prov (k v out : Bytes) : Prop :=
  (k ∈ sensitive ∧ out = redactedVal) ∨ (k ∉ sensitive ∧ out = v)

/-- the key an attribute is printed under: its own, unless the user replacer renames it (the sensitive
    keys never reach the user replacer) -/
def outKey (u : UserRep) (k : Bytes) : Bytes :=
  if k ∈ sensitive then k
  else match u with
    | .addPrefix p => p ++ k
    | _ => k

/-- the user replacer does not rename an ordinary key *into* a sensitive one -/
def SafeRep (u : UserRep) : Prop := ∀ k, k ∉ sensitive → outKey u k ∉ sensitive

/-! ### helper lemmas -/

theorem lemma_replace (u : UserRep) (groups : List Bytes) (k v : Bytes) (kv : Bytes × Bytes)
    (h : replaceAttr u groups k v = some kv) : kv.1 = outKey u k ∧ Prov k v kv.2 := by
  unfold replaceAttr at h
  unfold outKey
  by_cases hs : k ∈ sensitive
  · simp only [hs, if_true, Option.some.injEq] at h
    subst h
    exact ⟨by simp [hs], Or.inl ⟨hs, rfl⟩⟩
  · simp only [hs, if_false] at h ⊢
    cases u with
    | addPrefix p =>
      simp only [Option.some.injEq] at h
      subst h
      exact ⟨rfl, Or.inr ⟨hs, rfl⟩⟩
    | none =>
      simp only [Option.some.injEq] at h
      subst h
      exact ⟨rfl, Or.inr ⟨hs, rfl⟩⟩
    | dropTop d =>
      simp only at h
      split at h
      · cases h
      · simp only [Option.some.injEq] at h
        subst h
        exact ⟨rfl, Or.inr ⟨hs, rfl⟩⟩
    | dropAny d =>
      simp only at h
      split at h
      · cases h
      · simp only [Option.some.injEq] at h
        subst h
        exact ⟨rfl, Or.inr ⟨hs, rfl⟩⟩

theorem lemma_key_concat (g : List Bytes) (k v : Bytes) : Pair.key (g ++ [k], v) = some k := by
  simp [Pair.key]

/-- the provenance of an output pair inside a list of input attributes -/
def From (u : UserRep) (leaves : List (Bytes × Bytes)) (p : Pair) : Prop :=
  ∃ kv ∈ leaves, Pair.key p = some (outKey u kv.1) ∧ Prov kv.1 kv.2 p.2

theorem lemma_from_mono {u : UserRep} {l l' : List (Bytes × Bytes)} {p : Pair} (hsub : ∀ x ∈ l, x ∈ l') (h : From u l p) :
    From u l' p := by
  obtain ⟨kv, hm, hk⟩ := h
  exact ⟨kv, hsub kv hm, hk⟩

/-! slog's handlers -/
mutual
  theorem lemma_slogAttr : ∀ (u : UserRep) (groups : List Bytes) (a : Attr) (p : Pair),
      p ∈ slogAttr u groups a → From u (leavesOf a) p
    | u, groups, .leaf k v, p, h => by
      simp only [slogAttr] at h
      split at h
      · rename_i k' v' heq
        simp only [List.mem_singleton] at h
        subst h
        have := lemma_replace u groups k v (k', v') heq
        refine ⟨(k, v), by simp [leavesOf], ?_, this.2⟩
        simp only at this
        rw [lemma_key_concat, this.1]
      · cases h
    | u, groups, .group k as, p, h => by
      simp only [slogAttr] at h
      simpa [leavesOf] using lemma_slogAttrs u _ as p h
  theorem lemma_slogAttrs : ∀ (u : UserRep) (groups : List Bytes) (as : List Attr) (p : Pair),
      p ∈ slogAttrs u groups as → From u (leavesOfAll as) p
    | _, _, [], p, h => by simp [slogAttrs] at h
    | u, groups, a :: as, p, h => by
      simp only [slogAttrs, List.mem_append] at h
      rcases h with h | h
      · exact lemma_from_mono (by intro x hx; simp [leavesOfAll, hx]) (lemma_slogAttr u groups a p h)
      · exact lemma_from_mono (by intro x hx; simp [leavesOfAll, hx]) (lemma_slogAttrs u groups as p h)
end

theorem lemma_slogChain (u : UserRep) (groups : List Bytes) (chain : List ChainOp) (call : List Attr)
    (p : Pair) (h : p ∈ slogChain u groups chain call) : From u (chainLeaves chain ++ leavesOfAll call) p := by
  induction chain generalizing groups with
  | nil => simpa [slogChain, chainLeaves] using lemma_slogAttrs u groups call p h
  | cons op rest ih =>
    cases op with
    | withAttrs as =>
      simp only [slogChain, List.mem_append] at h
      rcases h with h | h
      · exact lemma_from_mono (by intro x hx; simp [chainLeaves, hx]) (lemma_slogAttrs u groups as p h)
      · exact lemma_from_mono (by intro x hx; simp only [chainLeaves, List.append_assoc, List.mem_append] at hx ⊢; right; exact hx)
          (ih groups h)
    | withGroup n =>
      simp only [slogChain] at h
      simpa [chainLeaves] using ih _ h

/-! the console handler: printing does not invent or change values … -/
mutual
  theorem lemma_print : ∀ (pre : List Bytes) (a : Attr) (p : Pair),
      p ∈ consolePrint pre a → ∃ kv ∈ leavesOf a, Pair.key p = some kv.1 ∧ p.2 = kv.2
    | pre, .leaf k v, p, h => by
      simp only [consolePrint, List.mem_singleton] at h
      subst h
      exact ⟨(k, v), by simp [leavesOf], lemma_key_concat pre k v, rfl⟩
    | pre, .group k as, p, h => by
      simp only [consolePrint] at h
      simpa [leavesOf] using lemma_printAll _ as p h
  theorem lemma_printAll : ∀ (pre : List Bytes) (as : List Attr) (p : Pair),
      p ∈ consolePrintAll pre as → ∃ kv ∈ leavesOfAll as, Pair.key p = some kv.1 ∧ p.2 = kv.2
    | _, [], p, h => by simp [consolePrintAll] at h
    | pre, a :: as, p, h => by
      simp only [consolePrintAll, List.mem_append] at h
      rcases h with h | h
      · obtain ⟨kv, hm, hk⟩ := lemma_print pre a p h
        exact ⟨kv, by simp [leavesOfAll, hm], hk⟩
      · obtain ⟨kv, hm, hk⟩ := lemma_printAll pre as p h
        exact ⟨kv, by simp [leavesOfAll, hm], hk⟩
end

/-- … and every attribute that survives `consoleReplace` is an input attribute after ReplaceAttr -/
def Repl (u : UserRep) (leaves : List (Bytes × Bytes)) (out : Bytes × Bytes) : Prop :=
  ∃ kv ∈ leaves, out.1 = outKey u kv.1 ∧ Prov kv.1 kv.2 out.2

mutual
  theorem lemma_creplace : ∀ (u : UserRep) (groups : List Bytes) (a a' : Attr),
      consoleReplace u groups a = some a' → ∀ out ∈ leavesOf a', Repl u (leavesOf a) out
    | u, groups, .leaf k v, a', h, out, ho => by
      simp only [consoleReplace, Option.map_eq_some_iff] at h
      obtain ⟨kv, hr, rfl⟩ := h
      simp only [leavesOf, List.mem_singleton] at ho
      subst ho
      have := lemma_replace u groups k v kv hr
      exact ⟨(k, v), by simp [leavesOf], this.1, this.2⟩
    | u, groups, .group k as, a', h, out, ho => by
      simp only [consoleReplace, Option.some.injEq] at h
      subst h
      simp only [leavesOf] at ho ⊢
      exact lemma_creplaceAll u _ as out ho
  theorem lemma_creplaceAll : ∀ (u : UserRep) (groups : List Bytes) (as : List Attr),
      ∀ out ∈ leavesOfAll (consoleReplaceAll u groups as), Repl u (leavesOfAll as) out
    | _, _, [], out, ho => by simp [consoleReplaceAll, leavesOfAll] at ho
    | u, groups, a :: as, out, ho => by
      simp only [consoleReplaceAll] at ho
      split at ho
      · rename_i a' heq
        simp only [leavesOfAll, List.mem_append] at ho
        rcases ho with ho | ho
        · obtain ⟨kv, hm, hk⟩ := lemma_creplace u groups a a' heq out ho
          exact ⟨kv, by simp [leavesOfAll, hm], hk⟩
        · obtain ⟨kv, hm, hk⟩ := lemma_creplaceAll u groups as out ho
          exact ⟨kv, by simp [leavesOfAll, hm], hk⟩
      · obtain ⟨kv, hm, hk⟩ := lemma_creplaceAll u groups as out ho
        exact ⟨kv, by simp [leavesOfAll, hm], hk⟩
end

theorem lemma_console_printed (u : UserRep) (groups pre : List Bytes) (as : List Attr) (p : Pair)
    (h : p ∈ consolePrintAll pre (consoleReplaceAll u groups as)) : From u (leavesOfAll as) p := by
  obtain ⟨out, hm, hk, hv⟩ := lemma_printAll pre _ p h
  obtain ⟨kv, hm', hk', hp⟩ := lemma_creplaceAll u groups as out hm
  exact ⟨kv, hm', by rw [hk, hk'], by rw [hv]; exact hp⟩

/-- invariant of the console handler's bound attributes along a derivation chain -/
theorem lemma_consoleChain (u : UserRep) (h : Console) (chain : List ChainOp) (L : List (Bytes × Bytes))
    (hinv : ∀ p ∈ consolePrintAll [] h.attrs, From u L p) :
    ∀ p ∈ consolePrintAll [] (consoleChain u h chain).attrs, From u (L ++ chainLeaves chain) p := by
  induction chain generalizing h L with
  | nil => intro p hp; exact lemma_from_mono (by intro x hx; simp [hx]) (hinv p hp)
  | cons op rest ih =>
    cases op with
    | withAttrs as =>
      intro p hp
      simp only [consoleChain] at hp
      have := ih { h with attrs := h.attrs ++ consoleReplaceAll u h.groups as } (L ++ leavesOfAll as) (by
        intro q hq
        have hsplit : ∀ (xs ys : List Attr), consolePrintAll [] (xs ++ ys) = consolePrintAll [] xs ++ consolePrintAll [] ys := by
          intro xs ys
          induction xs with
          | nil => simp [consolePrintAll]
          | cons x xs ihx => simp [consolePrintAll, ihx]
        simp only [hsplit, List.mem_append] at hq
        rcases hq with hq | hq
        · exact lemma_from_mono (by intro x hx; simp [hx]) (hinv q hq)
        · exact lemma_from_mono (by intro x hx; simp [hx]) (lemma_console_printed u h.groups [] as q hq)) p hp
      simpa [chainLeaves, List.append_assoc] using this
    | withGroup n =>
      intro p hp
      simp only [consoleChain] at hp
      have := ih (if n.isEmpty then h else { h with groups := h.groups ++ [n] }) L (by
        intro q hq
        split at hq <;> exact hinv q hq) p hp
      simpa [chainLeaves] using this

/-! ### the property -/

/-- **Provenance.** Whatever handler type, user replacer, derivation chain and attribute trees: every
    `key=value` that reaches the output comes from an input attribute with that key, and its value
    is the marker if the key is sensitive and the attribute's own value otherwise. -/
theorem provenance (c : Case) (p : Pair) (h : p ∈ emit c) : From c.user (inputLeaves c) p := by
  unfold emit at h
  have hslog : p ∈ slogChain c.user [] (.withAttrs c.root :: c.chain) c.call → From c.user (inputLeaves c) p := by
    intro h
    have := lemma_slogChain c.user [] _ c.call p h
    simpa [chainLeaves, inputLeaves, List.append_assoc] using this
  cases hh : c.h with
  | json => rw [hh] at h; exact hslog h
  | text => rw [hh] at h; exact hslog h
  | console =>
    rw [hh] at h
    simp only [consoleHandle, List.mem_append] at h
    rcases h with h | h
    · have := lemma_consoleChain c.user {} (.withAttrs c.root :: c.chain) [] (by
        intro q hq; simp [consolePrintAll] at hq) p h
      exact lemma_from_mono (by intro x hx; simp only [chainLeaves, List.nil_append] at hx; simp only [inputLeaves, List.mem_append] at hx ⊢; rcases hx with hx | hx <;> simp [hx]) this
    · exact lemma_from_mono (by intro x hx; simp [inputLeaves, hx]) (lemma_console_printed c.user _ [] c.call p h)

/-- **Redaction** (the statement's first sentence): a pair printed under a sensitive key shows the
    marker, for JSON, text and console, however the attribute reached the record. -/
theorem redacted (c : Case) (hu : SafeRep c.user) (p : Pair) (h : p ∈ emit c) (k : Bytes)
    (hk : Pair.key p = some k) (hs : k ∈ sensitive) : p.2 = redactedVal := by
  obtain ⟨kv, _, hk', hp⟩ := provenance c p h
  rw [hk] at hk'
  cases hk'
  rcases hp with ⟨_, h2⟩ | ⟨h1, _⟩
  · exact h2
  · exact absurd hs (hu kv.1 h1)

/-- every replacer that does not rename is safe; a prefixing one is safe when no sensitive key starts
    with the prefix (`app_`, `x-`, …) -/
theorem safeRep_of_no_rename (u : UserRep) (h : ∀ p, u ≠ .addPrefix p) : SafeRep u := by
  intro k hk
  have : outKey u k = k := by
    unfold outKey
    rw [if_neg hk]
    cases u with
    | addPrefix p => exact absurd rfl (h p)
    | _ => rfl
  rw [this]; exact hk

theorem safeRep_prefix (p : Bytes) (h : ∀ s ∈ sensitive, ¬ p <+: s) : SafeRep (.addPrefix p) := by
  intro k hk hmem
  unfold outKey at hmem
  simp only [hk, if_false] at hmem
  exact h _ hmem (List.prefix_append p k)

/-- the model passes the executable oracle the driver applies to the implementation's output -/
theorem emit_meets_spec (c : Case) (hu : SafeRep c.user) : (emit c).all pairOK = true := by
  rw [List.all_eq_true]
  intro p hp
  unfold pairOK
  split
  · rename_i k hk
    split
    · rename_i hs
      simp [redacted c hu p hp k hk hs]
    · rfl
  · rfl

/-- **No sensitive value in the output**: every value that appears, other than the marker, is the value
    of an attribute whose key is *not* sensitive. -/
theorem sensitive_value_never_emitted (c : Case) (p : Pair) (h : p ∈ emit c) (hne : p.2 ≠ redactedVal) :
    ∃ kv ∈ inputLeaves c, kv.1 ∉ sensitive ∧ kv.2 = p.2 := by
  obtain ⟨kv, hm, _, hp⟩ := provenance c p h
  rcases hp with ⟨_, h2⟩ | ⟨h1, h2⟩
  · exact absurd h2 hne
  · exact ⟨kv, hm, h1, h2.symm⟩

/-- buffering is transparent for what is printed (K20b/K20d repaired: a buffered record is replayed
    through the handler it was logged through) -/
theorem buffering_transparent (c : Case) : emit { c with buffered := true } = emit { c with buffered := false } := rfl

/-! ### non-vacuity and as-shipped witnesses -/

def wPw : Attr := .leaf "password".toList "hunter2".toList
def wUser : Attr := .leaf "user".toList "bob".toList
def wCase (h : HType) : Case :=
  { h := h, user := .none, root := [], chain := [.withAttrs [.leaf "token".toList "T1".toList], .withGroup "g".toList],
    call := [wPw, wUser, .group "h".toList [.leaf "api_key".toList "K1".toList]] }

example : SafeRep (.addPrefix "app_".toList) := safeRep_prefix _ (by decide)

/-- the hypotheses of `redacted` are met: three sensitive pairs are printed by each handler type -/
example : ((emit (wCase .json)).filter fun p => decide (p.2 = redactedVal)).length = 3 := by decide
example : ((emit (wCase .console)).filter fun p => decide (p.2 = redactedVal)).length = 3 := by decide
example : (["g".toList, "user".toList], "bob".toList) ∈ emit (wCase .text) := by decide
example : (["user".toList], "bob".toList) ∈ emit (wCase .console) := by decide

/-- K20a, as shipped: the console handler prints `password=hunter2` -/
theorem console_asis_leaks :
    (["password".toList], "hunter2".toList) ∈ emitAsIs (wCase .console) ∧ ¬ (emitAsIs (wCase .console)).all pairOK = true := by
  decide

/-- **the replay path is transparent**: a buffered record, replayed through the handler it was logged through (what the
    source does: `LogBuf.Flags.fixed.keepHandler`, tied by `flush_matches_fixed_flags`), yields exactly the pairs of the
    unbuffered call — for every handler type, chain, tree and replacer; hence `redacted` / `sensitive_value_never_emitted`
    hold of what `FlushBuffer` writes -/
theorem replay_through_own_handler_is_transparent (c : Case) :
    emitReplayed Rivaas.LogBuf.Flags.fixed.keepHandler c = emit c := by
  cases hh : c.h <;> simp [emitReplayed, emitVia, emit, Rivaas.LogBuf.Flags.fixed, hh]

/-- … and that is the flag's doing: replayed through the root handler (as shipped) the attribute bound with `With` is gone -/
theorem replay_through_root_handler_drops_bound_attrs :
    (["token".toList], redactedVal) ∈ emitReplayed true (wCase .json) ∧
    (["token".toList], redactedVal) ∉ emitReplayed false (wCase .json) ∧
    emitReplayed false (wCase .console) ≠ emit (wCase .console) := by
  decide

/-- K20d, as shipped: a record logged through `With(...)` while buffering loses the bound attribute -/
theorem buffered_asis_drops_bound_attrs :
    (["token".toList], redactedVal) ∈ emitAsIs (wCase .json) ∧
    (["token".toList], redactedVal) ∉ emitAsIs { wCase .json with buffered := true } := by
  decide


/-! ## Part 2: buffering — not lost, exactly once, in order, over all schedules

The machine of `Model/LogBuf.lean` with the five repairs on (`Flags.fixed`, what /repo contains now).
Every theorem quantifies over every set of worker programs (any number of workers, any ops) whose log
calls carry increasing sequence numbers per worker, and over every schedule (any list of steps). -/

open Rivaas.LogBuf

/-- the three invariants along a run -/
structure BInv (custom : Bool) (progs : List (List Op)) (s : St) : Prop where
  st : SInv progs s
  ord : OInv progs s
  del : DRel custom s (deliveryMonitor custom progs s.trace)

theorem lemma_binv_advance {custom : Bool} {progs : List (List Op)} {s : St} (g : Nat)
    (h : BInv custom progs s) : BInv custom progs (advance Flags.fixed s g) := by
  refine ⟨sinv_advance g h.st, oinv_advance g h.st h.ord, ?_⟩
  obtain ⟨evs, htr, hrel⟩ := drel_advance (progs := progs) g h.st h.ord h.del
  rw [htr, deliveryMonitor_append]
  exact hrel

theorem lemma_binv_runToIdle {custom : Bool} {progs : List (List Op)} (fuel : Nat) {s : St} (g : Nat)
    (h : BInv custom progs s) : BInv custom progs (runToIdle Flags.fixed fuel s g) := by
  induction fuel generalizing s with
  | zero => exact h
  | succ n ih =>
    simp only [runToIdle]
    have h' := lemma_binv_advance g h
    split
    · split
      · exact ih h'
      · exact h'
    · exact h'

theorem lemma_binv_step {custom : Bool} {progs : List (List Op)} (fuel : Nat) {s : St} (st : Step)
    (h : BInv custom progs s) : BInv custom progs (step Flags.fixed fuel s st) := by
  cases st with
  | seg g => exact lemma_binv_advance g h
  | run g => exact lemma_binv_runToIdle fuel g h

theorem lemma_binv_init (custom : Bool) (progs : List (List Op)) (hwf : WF progs) :
    BInv custom progs (initSt true custom progs) := by
  have hget : ∀ (g : Nat) (w : Worker), (initSt true custom progs).ws[g]? = some w →
      ∃ p, progs[g]? = some p ∧ w = { ops := p, idx := 0, gate := none } := by
    intro g w hw
    simp only [initSt, List.getElem?_map, Option.map_eq_some_iff] at hw
    obtain ⟨p, hp, rfl⟩ := hw
    exact ⟨p, hp, rfl⟩
  refine ⟨⟨by simp [initSt], ?_, ?_, ?_, fun _ => rfl, fun hc => by simp [initSt] at hc, fun _ => rfl, fun _ => rfl⟩,
    ⟨rfl, ?_, ?_, ?_, ?_⟩, ⟨rfl, rfl, rfl, rfl, ?_, ?_, ?_⟩⟩
  · intro g w hw
    obtain ⟨p, hp, rfl⟩ := hget g w hw
    simp [hp]
  · intro g w hw hgate
    obtain ⟨p, hp, rfl⟩ := hget g w hw
    cases hgate
  · intro g w hw hgate
    obtain ⟨p, hp, rfl⟩ := hget g w hw
    cases hgate
  · intro g x hx; simp [initSt, orderMonitor] at hx
  · intro g
    simp only [lineSeqs, pendSeqs, initSt, List.append_nil, List.filter_nil, List.map_nil, List.nil_append, futureSeqs]
    cases hp : (progs.map fun p => ({ ops := p, idx := 0, gate := none } : Worker))[g]? with
    | none => simp
    | some w =>
      simp only [List.getElem?_map, Option.map_eq_some_iff] at hp
      obtain ⟨p, hp, rfl⟩ := hp
      exact hwf p (List.mem_of_getElem? hp)
  · intro g w r hw hgate
    obtain ⟨p, hp, rfl⟩ := hget g w hw
    cases hgate
  · intro r hr; simp [initSt] at hr
  · intro g i b hmem; simp [initSt, deliveryMonitor] at hmem
  · intro g x hmem; simp [initSt, deliveryMonitor] at hmem
  · intro g i snap hmem; simp [initSt, deliveryMonitor] at hmem

theorem lemma_binv_run (custom : Bool) (progs : List (List Op)) (sched : List Step) (hwf : WF progs) :
    BInv custom progs (sched.foldl (step Flags.fixed (totalOps progs + 2)) (initSt true custom progs)) := by
  have : ∀ (s : St), BInv custom progs s → BInv custom progs (sched.foldl (step Flags.fixed (totalOps progs + 2)) s) := by
    induction sched with
    | nil => intro s h; exact h
    | cons st rest ih => intro s h; exact ih _ (lemma_binv_step _ st h)
  exact this _ (lemma_binv_init custom progs hwf)

/-- **Main theorem, buffering half (model satisfies the whole oracle)**, full strength: for every set of
    worker programs (also those in which a worker logs through a `slog.Logger` obtained before
    `StartBuffering` — K20f, repaired) and every schedule, the trace of the repaired logger
    passes both monitors — every write is
    of a logged record, intact, in per-worker order and never repeated; every call that had returned
    before a `FlushBuffer` began and must be delivered is in the output when that `FlushBuffer` returns. -/
theorem buffering_meets_spec (custom : Bool) (progs : List (List Op)) (sched : List Step) (hwf : WF progs) :
    LogBuf.specOK custom progs (run Flags.fixed custom progs sched) = true := by
  have h := lemma_binv_run custom progs sched hwf
  simp only [LogBuf.specOK, run, Bool.and_eq_true]
  exact ⟨h.ord.ok, h.del.ok⟩


/-! ### what the order monitor's verdict means, and the clauses of the statement one by one -/

/-- the records that reached the output, in order: (worker, seq, intact) -/
def writesOf (tr : List Ev) : List (Nat × Nat × Bool) :=
  tr.filterMap fun ev => match ev with | .write g s i => some (g, s, i) | _ => none

theorem lemma_oMon_fold (progs : List (List Op)) (tr : List Ev) (m : OMon)
    (h : (tr.foldl (oStep progs) m).ok = true) :
    m.ok = true ∧
    (∀ w ∈ writesOf tr, w.2.2 = true ∧ w.2.1 ∈ loggedSeqs progs w.1 ∧ ∀ p ∈ m.written, p.1 = w.1 → p.2 < w.2.1) ∧
    (writesOf tr).Pairwise (fun a b => a.1 = b.1 → a.2.1 < b.2.1) := by
  induction tr generalizing m with
  | nil => exact ⟨h, by simp [writesOf], by simp [writesOf]⟩
  | cons e rest ih =>
    simp only [List.foldl_cons] at h
    cases e with
    | write g sq i =>
      obtain ⟨hok', hw', hp'⟩ := ih _ h
      simp only [oStep, Bool.and_eq_true, List.all_eq_true, Bool.or_eq_true, Bool.not_eq_true', beq_eq_false_iff_ne,
        decide_eq_true_eq, List.contains_eq_mem] at hok'
      obtain ⟨⟨⟨hmok, hint⟩, hlog⟩, hall⟩ := hok'
      have hwr : writesOf (Ev.write g sq i :: rest) = (g, sq, i) :: writesOf rest := by simp [writesOf]
      refine ⟨hmok, ?_, ?_⟩
      · intro w hwm
        rw [hwr] at hwm
        rcases List.mem_cons.mp hwm with hwm | hwm
        · subst hwm
          refine ⟨hint, by simpa using hlog, ?_⟩
          intro p hp hpg
          rcases hall p hp with hne | hlt
          · exact absurd hpg hne
          · exact hlt
        · obtain ⟨h1, h2, h3⟩ := hw' w hwm
          exact ⟨h1, h2, fun p hp hpg => h3 p (List.mem_cons_of_mem _ hp) hpg⟩
      · rw [hwr, List.pairwise_cons]
        refine ⟨?_, hp'⟩
        intro w hwm hg
        exact (hw' w hwm).2.2 (g, sq) (List.mem_cons_self ..) hg
    | begin g i =>
      have : writesOf (Ev.begin g i :: rest) = writesOf rest := by simp [writesOf]
      rw [this]; exact ih m h
    | done g i =>
      have : writesOf (Ev.done g i :: rest) = writesOf rest := by simp [writesOf]
      rw [this]; exact ih m h

/-- the order monitor accepts a trace only if its writes are genuine, intact and in per-worker order -/
theorem order_monitor_sound (progs : List (List Op)) (tr : List Ev) (h : (orderMonitor progs tr).ok = true) :
    (∀ w ∈ writesOf tr, w.2.2 = true ∧ w.2.1 ∈ loggedSeqs progs w.1) ∧
    (writesOf tr).Pairwise (fun a b => a.1 = b.1 → a.2.1 < b.2.1) := by
  obtain ⟨_, h2, h3⟩ := lemma_oMon_fold progs tr {} h
  exact ⟨fun w hw => ⟨(h2 w hw).1, (h2 w hw).2.1⟩, h3⟩

/-- **The records of one goroutine are emitted in the order they were logged** — every set of programs,
    every schedule (flush interleaved with logging at every point the final handler can be stalled). -/
theorem per_goroutine_order (custom : Bool) (progs : List (List Op)) (sched : List Step) (hwf : WF progs) :
    (writesOf (run Flags.fixed custom progs sched)).Pairwise (fun a b => a.1 = b.1 → a.2.1 < b.2.1) := by
  have h := buffering_meets_spec custom progs sched hwf
  simp only [LogBuf.specOK, Bool.and_eq_true] at h
  exact (order_monitor_sound progs _ h.1).2

/-- **Exactly once**: no record reaches the output twice … -/
theorem delivered_at_most_once (custom : Bool) (progs : List (List Op)) (sched : List Step) (hwf : WF progs) :
    ((writesOf (run Flags.fixed custom progs sched)).map fun w => (w.1, w.2.1)).Nodup := by
  have h := per_goroutine_order custom progs sched hwf
  rw [List.Nodup, List.pairwise_map]
  refine h.imp ?_
  intro a b hab heq
  simp only [Prod.mk.injEq] at heq
  have := hab heq.1
  omega

/-- … what reaches it is a record that was logged, with the attributes it was logged with (K20d) -/
theorem delivered_records_genuine (custom : Bool) (progs : List (List Op)) (sched : List Step) (hwf : WF progs) :
    ∀ w ∈ writesOf (run Flags.fixed custom progs sched), w.2.2 = true ∧ w.2.1 ∈ loggedSeqs progs w.1 := by
  have h := buffering_meets_spec custom progs sched hwf
  simp only [LogBuf.specOK, Bool.and_eq_true] at h
  exact (order_monitor_sound progs _ h.1).1

/-- **Not lost**: in every reachable state in which buffering is off (no `StartBuffering` yet, or a
    `FlushBuffer` has completed), every log call that has returned and had to be delivered is in the
    output — whatever `SetLevel`, `Shutdown`, failed writes and other workers did in between. -/
theorem nothing_lost_once_buffering_is_off (custom : Bool) (progs : List (List Op)) (sched : List Step)
    (hwf : WF progs) :
    let s := sched.foldl (step Flags.fixed (totalOps progs + 2)) (initSt true custom progs)
    s.buffering = false →
    ∀ gs ∈ (deliveryMonitor custom progs s.trace).returned, gs ∈ (deliveryMonitor custom progs s.trace).written := by
  intro s hb gs hgs
  have h : BInv custom progs s := lemma_binv_run custom progs sched hwf
  have hbuf : s.buffer = [] := h.st.f5 hb
  have hbatch : s.batch = [] := by
    apply h.st.f3
    cases hf : s.flusher with
    | none => rfl
    | some x =>
      have := (h.st.f4 (by rw [hf]; rfl)).2
      rw [hb] at this; cases this
  rcases h.del.ret gs.1 gs.2 hgs with hw | ⟨r, hr, _⟩
  · exact hw
  · rw [hbatch, hbuf] at hr; cases hr

/-! ### non-vacuity and as-shipped witnesses -/

def wLog (seq : Nat) (derived : Bool := false) (fail : Bool := false) : Op :=
  .log { seq := seq, lvl := 3, derived := derived, fail := fail }

/-- worker 0: StartBuffering, three logs; worker 1: FlushBuffer -/
def wProgs : List (List Op) := [[.startBuffering, wLog 0, wLog 1, wLog 2], [.flush]]
/-- worker 1's flush is stalled on its first replayed record while worker 0 logs its third record -/
def wSched : List Step := [.seg 0, .seg 0, .seg 0, .seg 1, .seg 0, .seg 0, .seg 1, .seg 1, .seg 1, .seg 1, .seg 1]

example : WF wProgs := by
  intro p hp
  simp only [wProgs, List.mem_cons, List.not_mem_nil, or_false] at hp
  rcases hp with rfl | rfl <;> decide

/-- the theorem is not vacuous: in that history all three records reach the output, in order -/
example : writesOf (run Flags.fixed true wProgs wSched) = [(0, 0, true), (0, 1, true), (0, 2, true)] := by decide

/-- K20c, as shipped: in the same history the third record overtakes the two older ones -/
theorem flush_overtake_asis :
    writesOf (run Flags.asIs true wProgs wSched) = [(0, 2, true), (0, 0, true), (0, 1, true)] ∧
    LogBuf.specOK true wProgs (run Flags.asIs true wProgs wSched) = false := by decide

/-- … and it is the loop in `flush` that repairs it (the other three repairs on, that one off) -/
theorem flush_overtake_needs_loop :
    LogBuf.specOK true wProgs (run ⟨true, true, false, true, true⟩ true wProgs wSched) = false := by decide

def wRun (n : Nat) : List Step := List.replicate n (.run 0)

/-- K20b, as shipped: StartBuffering; log; SetLevel; FlushBuffer — the record never reaches the output -/
theorem setlevel_drops_buffer_asis :
    writesOf (run Flags.asIs false [[.startBuffering, wLog 0, .setLevel 0, .flush]] (wRun 4)) = [] ∧
    LogBuf.specOK false [[.startBuffering, wLog 0, .setLevel 0, .flush]]
      (run Flags.asIs false [[.startBuffering, wLog 0, .setLevel 0, .flush]] (wRun 4)) = false ∧
    LogBuf.specOK false [[.startBuffering, wLog 0, .setLevel 0, .flush]]
      (run ⟨false, true, true, true, true⟩ false [[.startBuffering, wLog 0, .setLevel 0, .flush]] (wRun 4)) = false ∧
    writesOf (run Flags.fixed false [[.startBuffering, wLog 0, .setLevel 0, .flush]] (wRun 4)) = [(0, 0, true)] := by
  decide

/-- K20d, as shipped: a record logged through `With(...)` while buffering is replayed without its attribute -/
theorem derived_record_mutilated_asis :
    writesOf (run Flags.asIs false [[.startBuffering, wLog 0 true, .flush]] (wRun 3)) = [(0, 0, false)] ∧
    LogBuf.specOK false [[.startBuffering, wLog 0 true, .flush]]
      (run ⟨true, false, true, true, true⟩ false [[.startBuffering, wLog 0 true, .flush]] (wRun 3)) = false := by
  decide

/-- K20e, as shipped: the write of the first buffered record fails and the second record is dropped with it -/
theorem failed_write_drops_rest_asis :
    writesOf (run Flags.asIs false [[.startBuffering, wLog 0 false true, wLog 1, .flush]] (wRun 4)) = [] ∧
    LogBuf.specOK false [[.startBuffering, wLog 0 false true, wLog 1, .flush]]
      (run ⟨true, true, true, false, true⟩ false [[.startBuffering, wLog 0 false true, wLog 1, .flush]] (wRun 4)) = false ∧
    writesOf (run Flags.fixed false [[.startBuffering, wLog 0 false true, wLog 1, .flush]] (wRun 4)) = [(0, 1, true)] := by
  decide


/-! ### K20f (repaired): a `slog.Logger` obtained before `StartBuffering` no longer bypasses the buffer -/

def wStale (seq : Nat) : Op := .log { seq := seq, lvl := 3, derived := false, fail := false, stale := true }

/-- the other four repairs on, the wrapper installed only by `StartBuffering` (as shipped) -/
def Flags.lazyWrap : Flags := ⟨true, true, true, true, false⟩

/-- as shipped — StartBuffering; log through the Logger (buffered); log through the stale logger (written at
    once); FlushBuffer: the second record reaches the output before the first. With the wrapper installed at
    construction (`Flags.fixed`) both come out in the order they were logged. -/
theorem stale_logger_overtakes_asis :
    writesOf (run Flags.lazyWrap false [[.startBuffering, wLog 0, wStale 1, .flush]] (wRun 4)) = [(0, 1, true), (0, 0, true)] ∧
    LogBuf.specOK false [[.startBuffering, wLog 0, wStale 1, .flush]]
      (run Flags.lazyWrap false [[.startBuffering, wLog 0, wStale 1, .flush]] (wRun 4)) = false ∧
    hasStale [[.startBuffering, wLog 0, wStale 1, .flush]] = true ∧
    writesOf (run Flags.fixed false [[.startBuffering, wLog 0, wStale 1, .flush]] (wRun 4)) = [(0, 0, true), (0, 1, true)] := by
  decide

/-- the statement without any exclusion on the programs -/
def FullStatementBuffering : Prop :=
  ∀ (custom : Bool) (progs : List (List Op)) (sched : List Step), WF progs →
    LogBuf.specOK custom progs (run Flags.fixed custom progs sched) = true

/-- … holds of the code as it is now (it did not before the K20f repair: `stale_logger_overtakes_asis`) -/
theorem full_statement_buffering : FullStatementBuffering :=
  fun custom progs sched hwf => buffering_meets_spec custom progs sched hwf

/-- a stale logger's record is buffered and delivered by the FlushBuffer that follows (the oracle requires it like any
    other record accepted by the level its logger was built with: `mustDeliver`) -/
theorem stale_record_buffered_and_flushed :
    writesOf (run Flags.fixed false [[.startBuffering, wStale 0, .flush]] (wRun 3)) = [(0, 0, true)] ∧
    writesOf (run Flags.fixed false [[.startBuffering, wStale 0]] (wRun 2)) = [] := by decide


/-! ### stress histories: what the oracle's verdict means, and that the expectation meets it -/

theorem lemma_expand_single (n : Nat) : expandRuns [(0, n)] = List.range n := by
  simp [expandRuns]

/-- the stress oracle accepts only if every goroutine's output is 0, 1, …, n-1 -/
theorem stress_ok_means_all_in_order (logged : List Nat) (runs : List (List (Nat × Nat)))
    (h : stressOK logged runs = true) : ∀ nr ∈ logged.zip runs, expandRuns nr.2 = List.range nr.1 := by
  intro nr hnr
  simp only [stressOK, Bool.and_eq_true, List.all_eq_true] at h
  have := h.2 nr hnr
  split at this
  · rename_i h0
    have h0' : nr.1 = 0 := by simpa using h0
    have h1 : nr.2 = [] := by simpa using this
    rw [h0', h1]; rfl
  · have h1 : nr.2 = [(0, nr.1)] := by simpa using this
    rw [h1, lemma_expand_single]

theorem stress_expected_ok (logged : List Nat) : stressOK logged (stressExpected logged) = true := by
  simp only [stressOK, stressExpected, List.length_map, beq_self_eq_true, Bool.true_and]
  induction logged with
  | nil => rfl
  | cons n rest ih =>
    simp only [List.map_cons, List.zip_cons_cons, List.all_cons, ih, Bool.and_true]
    by_cases hn : n = 0
    · simp [hn]
    · simp [hn]

end Rivaas.C20
