/- C20 — property theorems (stub: not built yet) -/
