/- C06 — property theorems (stub: not built yet) -/
