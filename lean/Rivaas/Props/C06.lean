import Rivaas.Spec.ErrFmt
import Rivaas.Lemmas.C19Accept
/-
C06 — Error responses conform to the selected formatter. Property theorems.
All statements quantify over every error value (any wrapping depth, any layer implementing any subset
of ErrorType / ErrorCode / ErrorDetails, any details JSON), every formatter configuration, every
Accept header, every position of the failing handler.
-/
namespace Rivaas.C06
open Rivaas.ErrFmt

/-! ### `errors.As` is a pre-order search -/

mutual
  theorem lemma_findCap_status : ∀ (e : Err), findCap (·.st) e = (statusLayers e).head?
    | .node caps m kids => by
      simp only [findCap, statusLayers]
      cases h : caps.st with
      | some s => simp
      | none => simpa using lemma_findCapL_status kids
  theorem lemma_findCapL_status : ∀ (es : List Err), findCapL (·.st) es = (statusLayersL es).head?
    | [] => by simp [findCapL, statusLayersL]
    | e :: es => by
      simp only [findCapL, statusLayersL, List.head?_append]
      rw [lemma_findCap_status e, lemma_findCapL_status es]
      cases (statusLayers e).head? <;> simp
end

/-- the status `errors.As(err, &ErrorType)` finds is the outermost declared one (pre-order) -/
theorem status_is_first_layer (e : Err) : asStatus e = (statusLayers e).head? :=
  lemma_findCap_status e

/-- `WithStatus` at the outside always decides, whatever is wrapped inside -/
theorem withStatus_outermost (s : Nat) (e : Err) : asStatus (.withStatus s e) = some s := by
  simp [asStatus, Err.withStatus, findCap]

/-- wrapping with `%w` is transparent for status, code and details -/
theorem wrap_transparent (pre : Bytes) (e : Err) :
    asStatus (.wrap pre e) = asStatus e ∧ asCode (.wrap pre e) = asCode e ∧ asDetails (.wrap pre e) = asDetails e := by
  refine ⟨?_, ?_, ?_⟩ <;>
  · simp only [asStatus, asCode, asDetails, Err.wrap, findCap, findCapL]
    split <;> simp_all

/-- the status every formatter answers with is the documented one -/
theorem lemma_determine_doc (f : Fmt) (call : Call) : determineStatus f call.err = docStatus f call := by
  unfold determineStatus docStatus
  cases hres : f.statusRes with
  | some s => cases call <;> simp
  | none =>
    cases call with
    | fail e =>
      simp only [Call.err]
      have := status_is_first_layer e
      unfold asStatus at this
      simp only [asStatus, this]
      cases (statusLayers e).head? <;> simp
    | failStatus s e =>
      cases e with
      | some e => simp [Call.err, withStatus_outermost]
      | none => simp [Call.err, asStatus, Err.withStatusNil, findCap]
    | helper h e =>
      have hh : h.status = helperDoc h := by cases h <;> rfl
      cases e with
      | some e => simp [Call.err, withStatus_outermost, hh]
      | none => simp [Call.err, asStatus, Err.withStatusNil, findCap, hh]


/-! ### sorted objects: looking a member up in `sortKvs kvs` -/

theorem lemma_mem_insertKv (kv x : Bytes × Json) (l : List (Bytes × Json)) :
    x ∈ insertKv kv l ↔ x = kv ∨ x ∈ l := by
  induction l with
  | nil => simp [insertKv]
  | cons y ys ih =>
    simp only [insertKv]
    split
    · simp
    · simp only [List.mem_cons, ih]
      constructor
      · rintro (h | h | h) <;> simp [h]
      · rintro (h | h | h) <;> simp [h]

theorem lemma_mem_sortKvs (x : Bytes × Json) (l : List (Bytes × Json)) : x ∈ sortKvs l ↔ x ∈ l := by
  induction l with
  | nil => simp [sortKvs]
  | cons y ys ih =>
    have : sortKvs (y :: ys) = insertKv y (sortKvs ys) := rfl
    rw [this, lemma_mem_insertKv, ih]
    simp

/-- every member with key `k` carries `v`, and there is one: the lookup yields `v` -/
theorem lemma_get_unique (kvs : List (Bytes × Json)) (k : Bytes) (v : Json)
    (hall : ∀ x ∈ kvs, x.1 = k → x.2 = v) (hex : ∃ x ∈ kvs, x.1 = k) :
    Json.get? k (.obj (sortKvs kvs)) = some v := by
  simp only [Json.get?]
  cases hf : (sortKvs kvs).find? (fun kv => kv.1 == k) with
  | none =>
    obtain ⟨x, hx, hk⟩ := hex
    have := List.find?_eq_none.mp hf x ((lemma_mem_sortKvs x kvs).mpr hx)
    simp [hk] at this
  | some x =>
    have hm := (lemma_mem_sortKvs x kvs).mp (List.mem_of_find?_eq_some hf)
    have hk : x.1 = k := by simpa using List.find?_some hf
    simp [hall x hm hk]

theorem lemma_get_none (kvs : List (Bytes × Json)) (k : Bytes) (hno : ∀ x ∈ kvs, x.1 ≠ k) :
    Json.get? k (.obj (sortKvs kvs)) = none := by
  simp only [Json.get?, Option.map_eq_none_iff, List.find?_eq_none]
  intro x hx
  have := hno x ((lemma_mem_sortKvs x kvs).mp hx)
  simpa using this

/-! ### `ProblemDetail.MarshalJSON` -/

/-- a reserved key in the marshalled map can only come from the struct's own fields -/
theorem lemma_reserved_member (p : Problem) (x : Bytes × Json) (hx : x ∈ marshalProblemKvs p) (hr : x.1 ∈ reserved) :
    x = (kType, .str p.type) ∨ x = (kTitle, .str p.title) ∨
    x = (kStatus, .num (natBytes p.status)) ∨
    (p.detail.isEmpty = false ∧ x = (kDetail, .str p.detail)) ∨
    (p.instance_.isEmpty = false ∧ x = (kInstance, .str p.instance_)) := by
  simp only [marshalProblemKvs, List.mem_append, List.mem_cons, List.mem_filter] at hx
  rcases hx with (((h | h | h | h) | h) | h) | h
  · exact Or.inl h
  · exact Or.inr (Or.inl h)
  · exact Or.inr (Or.inr (Or.inl h))
  · cases h
  · split at h
    · cases h
    · rename_i hne
      simp only [List.mem_singleton] at h
      exact Or.inr (Or.inr (Or.inr (Or.inl ⟨by simpa using hne, h⟩)))
  · split at h
    · cases h
    · rename_i hne
      simp only [List.mem_singleton] at h
      exact Or.inr (Or.inr (Or.inr (Or.inr ⟨by simpa using hne, h⟩)))
  · obtain ⟨_, hnr⟩ := h
    exact absurd hr (by simpa using hnr)

/-- **Reserved members cannot be overridden by extensions**: whatever the extensions contain, the five
    RFC 9457 members of the marshalled object are exactly the struct's own fields (`detail` and
    `instance` absent when empty). -/
theorem reserved_not_overridable (p : Problem) :
    (marshalProblem p).get? kType = some (.str p.type) ∧
    (marshalProblem p).get? kTitle = some (.str p.title) ∧
    (marshalProblem p).get? kStatus = some (.num (natBytes p.status)) ∧
    (marshalProblem p).get? kDetail = (if p.detail.isEmpty then none else some (.str p.detail)) ∧
    (marshalProblem p).get? kInstance = (if p.instance_.isEmpty then none else some (.str p.instance_)) := by
  have key : ∀ (k : Bytes) (v : Json), k ∈ reserved →
      (∀ x ∈ marshalProblemKvs p, x.1 = k → x.2 = v) → (∃ x ∈ marshalProblemKvs p, x.1 = k) →
      (marshalProblem p).get? k = some v := fun k v _ h1 h2 => lemma_get_unique _ k v h1 h2
  refine ⟨?_, ?_, ?_, ?_, ?_⟩
  · refine key _ _ (by decide) ?_ ⟨(kType, .str p.type), by simp [marshalProblemKvs], rfl⟩
    intro x hx hk
    rcases lemma_reserved_member p x hx (by rw [hk]; decide) with h | h | h | ⟨_, h⟩ | ⟨_, h⟩ <;>
      (subst h; first | rfl | (dsimp only at hk; exact absurd hk (by decide)))
  · refine key _ _ (by decide) ?_ ⟨(kTitle, .str p.title), by simp [marshalProblemKvs], rfl⟩
    intro x hx hk
    rcases lemma_reserved_member p x hx (by rw [hk]; decide) with h | h | h | ⟨_, h⟩ | ⟨_, h⟩ <;>
      (subst h; first | rfl | (dsimp only at hk; exact absurd hk (by decide)))
  · refine key _ _ (by decide) ?_ ⟨(kStatus, .num (natBytes p.status)), by simp [marshalProblemKvs], rfl⟩
    intro x hx hk
    rcases lemma_reserved_member p x hx (by rw [hk]; decide) with h | h | h | ⟨_, h⟩ | ⟨_, h⟩ <;>
      (subst h; first | rfl | (dsimp only at hk; exact absurd hk (by decide)))
  · split
    · rename_i he
      apply lemma_get_none
      intro x hx hk
      rcases lemma_reserved_member p x hx (by rw [hk]; decide) with h | h | h | ⟨hne, h⟩ | ⟨_, h⟩
      · subst h; dsimp only at hk; exact absurd hk (by decide)
      · subst h; dsimp only at hk; exact absurd hk (by decide)
      · subst h; dsimp only at hk; exact absurd hk (by decide)
      · simp [he] at hne
      · subst h; dsimp only at hk; exact absurd hk (by decide)
    · rename_i he
      refine key _ _ (by decide) ?_ ⟨(kDetail, .str p.detail), by simp [marshalProblemKvs, he], rfl⟩
      intro x hx hk
      rcases lemma_reserved_member p x hx (by rw [hk]; decide) with h | h | h | ⟨_, h⟩ | ⟨_, h⟩ <;>
        (subst h; first | rfl | (dsimp only at hk; exact absurd hk (by decide)))
  · split
    · rename_i he
      apply lemma_get_none
      intro x hx hk
      rcases lemma_reserved_member p x hx (by rw [hk]; decide) with h | h | h | ⟨_, h⟩ | ⟨hne, h⟩
      · subst h; dsimp only at hk; exact absurd hk (by decide)
      · subst h; dsimp only at hk; exact absurd hk (by decide)
      · subst h; dsimp only at hk; exact absurd hk (by decide)
      · subst h; dsimp only at hk; exact absurd hk (by decide)
      · simp [he] at hne
    · rename_i he
      refine key _ _ (by decide) ?_ ⟨(kInstance, .str p.instance_), by simp [marshalProblemKvs, he], rfl⟩
      intro x hx hk
      rcases lemma_reserved_member p x hx (by rw [hk]; decide) with h | h | h | ⟨_, h⟩ | ⟨_, h⟩ <;>
        (subst h; first | rfl | (dsimp only at hk; exact absurd hk (by decide)))


/-! ### the model's `MarshalJSON` passes the oracle of the direct-call cases -/

mutual
  theorem lemma_beq_refl : ∀ (j : Json), Json.beq j j = true
    | .null => rfl
    | .bool b => by simp [Json.beq]
    | .num t => by simp [Json.beq]
    | .str t => by simp [Json.beq]
    | .arr xs => by simp only [Json.beq]; exact lemma_beqList_refl xs
    | .obj kvs => by simp only [Json.beq]; exact lemma_beqKvs_refl kvs
  theorem lemma_beqList_refl : ∀ (xs : List Json), Json.beqList xs xs = true
    | [] => rfl
    | x :: xs => by simp [Json.beqList, lemma_beq_refl x, lemma_beqList_refl xs]
  theorem lemma_beqKvs_refl : ∀ (kvs : List (Bytes × Json)), Json.beqKvs kvs kvs = true
    | [] => rfl
    | (k, v) :: rest => by simp [Json.beqKvs, lemma_beq_refl v, lemma_beqKvs_refl rest]
end

theorem lemma_beq_self (j : Json) : (j == j) = true := lemma_beq_refl j

theorem lemma_pairwise_unique (l : List (Bytes × Json)) (hnd : l.Pairwise fun a b => a.1 ≠ b.1)
    (x y : Bytes × Json) (hx : x ∈ l) (hy : y ∈ l) (hk : x.1 = y.1) : x = y := by
  induction l with
  | nil => cases hx
  | cons a rest ih =>
    rw [List.pairwise_cons] at hnd
    rcases List.mem_cons.mp hx with hx' | hx' <;> rcases List.mem_cons.mp hy with hy' | hy'
    · rw [hx', hy']
    · rw [hx'] at hk; exact absurd hk (hnd.1 y hy')
    · rw [hy'] at hk; exact absurd hk.symm (hnd.1 x hx')
    · exact ih hnd.2 hx' hy'

/-- a non-reserved key in the marshalled map comes from the extensions -/
theorem lemma_nonreserved_member (p : Problem) (x : Bytes × Json) (hx : x ∈ marshalProblemKvs p) (hr : x.1 ∉ reserved) :
    x ∈ p.extensions := by
  simp only [marshalProblemKvs, List.mem_append, List.mem_cons, List.mem_filter] at hx
  rcases hx with (((h | h | h | h) | h) | h) | h
  · subst h; exact absurd (show _ ∈ reserved by dsimp only; decide) hr
  · subst h; exact absurd (show _ ∈ reserved by dsimp only; decide) hr
  · subst h; exact absurd (show _ ∈ reserved by dsimp only; decide) hr
  · cases h
  · split at h
    · cases h
    · simp only [List.mem_singleton] at h; subst h; exact absurd (show _ ∈ reserved by dsimp only; decide) hr
  · split at h
    · cases h
    · simp only [List.mem_singleton] at h; subst h; exact absurd (show _ ∈ reserved by dsimp only; decide) hr
  · exact h.1

/-- `MarshalJSON` as modelled satisfies the whole oracle of the direct-call cases, for every struct
    and every extensions map (a Go map: distinct keys) -/
theorem marshal_meets_spec (p : Problem) (hnd : p.extensions.Pairwise fun a b => a.1 ≠ b.1) :
    marshalOK p (marshalProblem p) = true := by
  obtain ⟨h1, h2, h3, h4, h5⟩ := reserved_not_overridable p
  unfold marshalOK
  simp only [Bool.and_eq_true]
  refine ⟨⟨⟨⟨⟨⟨?_, ?_⟩, ?_⟩, ?_⟩, ?_⟩, ?_⟩, ?_⟩
  · simp [memberIs, h1, lemma_beq_self]
  · simp [memberIs, h2, lemma_beq_self]
  · simp [memberIs, h3, lemma_beq_self]
  · split <;> simp_all [memberIs, memberAbsent, lemma_beq_self]
  · split <;> simp_all [memberIs, memberAbsent, lemma_beq_self]
  · rw [List.all_eq_true]
    intro kv hkv
    by_cases hr : kv.1 ∈ reserved
    · simp [hr]
    · have hget : (marshalProblem p).get? kv.1 = some kv.2 := by
        apply lemma_get_unique
        · intro x hx hk
          have := lemma_nonreserved_member p x hx (by rw [hk]; exact hr)
          rw [lemma_pairwise_unique _ hnd x kv this hkv hk]
        · exact ⟨kv, by
            simp only [marshalProblemKvs, List.mem_append, List.mem_filter]
            right
            exact ⟨hkv, by simpa using hr⟩, rfl⟩
      simp [hget, lemma_beq_self]
  · simp only [marshalProblem, List.all_eq_true]
    intro x hx
    have hx' := (lemma_mem_sortKvs x _).mp hx
    by_cases hr : x.1 ∈ reserved
    · simp [hr]
    · have := lemma_nonreserved_member p x hx' hr
      simp only [Bool.or_eq_true, List.any_eq_true]
      right
      exact ⟨x, this, by simp⟩


/-! ### each formatter produces its documented shape, with the status it returns -/

theorem lemma_natBytes_ne (n : Nat) : (natBytes n).isEmpty = false := by
  unfold natBytes
  cases n with
  | zero => simp [natDigits]
  | succ m =>
    simp only [natDigits]
    split <;> simp

theorem rfc_shape (env : Env) (f : Fmt) (e : Err) :
    shapeOK .rfc9457 (formatRFC env f e).status (formatRFC env f e).body = true := by
  obtain ⟨h1, h2, h3, h4, h5⟩ := reserved_not_overridable (rfcProblem env f e)
  have hs : (rfcProblem env f e).status = determineStatus f e := rfl
  simp only [formatRFC, shapeOK, isStrAt, optStrAt, h1, h2, h3, h4, h5, hs, Bool.and_eq_true]
  refine ⟨rfl, ⟨⟨⟨⟨trivial, trivial⟩, ?_⟩, ?_⟩, by simp⟩⟩
  · by_cases h : (rfcProblem env f e).detail.isEmpty = true <;> simp [h]
  · by_cases h : (rfcProblem env f e).instance_.isEmpty = true <;> simp [h]

/-- shape of one JSON:API error object -/
def IsApiErr (status : Bytes) (x : Json) : Prop := isObj x = true ∧ x.get? kStatus = some (.str status)

theorem lemma_apiErr (status title code detail : Bytes) (pointer : Option Bytes) (metaV : Option Json)
    (hs : status.isEmpty = false) : IsApiErr status (jsonAPIErrorJson status title code detail pointer metaV) := by
  have h1 : (kId == kStatus) = false := by decide
  refine ⟨rfl, ?_⟩
  simp [jsonAPIErrorJson, Json.get?, hs, h1]

theorem lemma_fieldErr (status title errMsg : Bytes) (field : Json) (hs : status.isEmpty = false) :
    IsApiErr status (jsonAPIFieldError status title errMsg field) := by
  unfold jsonAPIFieldError
  split <;> exact lemma_apiErr _ _ _ _ _ _ hs

theorem lemma_orSingle (l : List Json) (d : Json) :
    orSingle l d ≠ [] ∧ ∀ x ∈ orSingle l d, x = d ∨ x ∈ l := by
  unfold orSingle
  cases l with
  | nil => simp
  | cons a as =>
    refine ⟨by simp, ?_⟩
    intro x hx
    right
    simpa using hx

theorem lemma_fromDetails (status title errMsg : Bytes) (det : Json) (hs : status.isEmpty = false) :
    ∀ x ∈ jsonAPIFromDetails status title errMsg det, IsApiErr status x := by
  intro x hx
  rcases (lemma_orSingle _ _).2 x hx with h | h
  · subst h; exact lemma_apiErr _ _ _ _ _ _ hs
  · cases det with
    | arr xs =>
      simp only [jsonAPIFieldErrors, List.mem_map] at h
      obtain ⟨fld, _, rfl⟩ := h
      exact lemma_fieldErr _ _ _ _ hs
    | _ => simp [jsonAPIFieldErrors] at h

theorem lemma_apiErrors (env : Env) (f : Fmt) (e : Err) :
    jsonAPIErrors env f e ≠ [] ∧ ∀ x ∈ jsonAPIErrors env f e, IsApiErr (natBytes (determineStatus f e)) x := by
  have hs := lemma_natBytes_ne (determineStatus f e)
  refine ⟨(lemma_orSingle _ _).1, ?_⟩
  intro x hx
  rcases (lemma_orSingle _ _).2 x hx with h | h
  · subst h; exact lemma_apiErr _ _ _ _ _ _ hs
  · unfold jsonAPIErrorsRaw at h
    split at h
    · exact lemma_fromDetails _ _ _ _ hs x h
    · simp only [List.mem_singleton] at h; subst h; exact lemma_apiErr _ _ _ _ _ _ hs

/-- **JSON:API always has a non-empty errors array** — for every error value, also when `Details()`
    is an empty slice, `null`, or not a slice at all -/
theorem jsonapi_nonempty (env : Env) (f : Fmt) (e : Err) :
    ∃ x xs, (formatJSONAPI env f e).body = .obj [(kErrors, .arr (x :: xs))] := by
  obtain ⟨hne, _⟩ := lemma_apiErrors env f e
  cases h : jsonAPIErrors env f e with
  | nil => exact absurd h hne
  | cons x xs => exact ⟨x, xs, by simp [formatJSONAPI, h]⟩

theorem jsonapi_shape (env : Env) (f : Fmt) (e : Err) :
    shapeOK .jsonapi (formatJSONAPI env f e).status (formatJSONAPI env f e).body = true := by
  obtain ⟨hne, hall⟩ := lemma_apiErrors env f e
  have hget : Json.get? kErrors (formatJSONAPI env f e).body = some (.arr (jsonAPIErrors env f e)) := by
    simp [formatJSONAPI, Json.get?]
  unfold shapeOK
  rw [hget]
  simp only [formatJSONAPI, Bool.and_eq_true, List.all_eq_true]
  refine ⟨rfl, by simpa using hne, ?_⟩
  intro x hx
  obtain ⟨a, b⟩ := hall x hx
  rw [a, b]
  simp

theorem simple_shape (env : Env) (f : Fmt) (e : Err) :
    shapeOK .simple (formatSimple env f e).status (formatSimple env f e).body = true := by
  simp only [formatSimple, shapeOK, isObj, Bool.true_and, isStrAt]
  have : Json.get? kError (.obj (sortKvs (simpleKvs env e))) = some (.str (msgOf env.stText e)) := by
    apply lemma_get_unique
    · intro x hx hk
      simp only [simpleKvs, List.mem_append, List.mem_singleton] at hx
      rcases hx with (hx | hx) | hx
      · rw [hx]
      · split at hx
        · simp only [List.mem_singleton] at hx; subst hx; dsimp only at hk; exact absurd hk (by decide)
        · cases hx
      · split at hx
        · simp only [List.mem_singleton] at hx; subst hx; dsimp only at hk; exact absurd hk (by decide)
        · cases hx
    · exact ⟨(kError, .str (msgOf env.stText e)), by simp [simpleKvs], rfl⟩
  rw [this]

theorem format_shape (env : Env) (f : Fmt) (e : Err) :
    shapeOK f.kind (format env f e).status (format env f e).body = true := by
  unfold format
  cases hk : f.kind with
  | rfc9457 => exact rfc_shape env f e
  | jsonapi => exact jsonapi_shape env f e
  | simple => exact simple_shape env f e

theorem format_status (env : Env) (f : Fmt) (e : Err) : (format env f e).status = determineStatus f e := by
  unfold format
  cases f.kind <;> rfl

/-- the media type of the `Content-Type` a formatter returns is the documented one -/
theorem format_media_type (env : Env) (f : Fmt) (e : Err) :
    headerMediaType (format env f e).contentType = mediaTypeOf f.kind := by
  unfold format
  cases f.kind
  · show headerMediaType ctRFC = _; decide
  · show headerMediaType ctJSONAPI = _; decide
  · show headerMediaType ctSimple = _; decide


/-! ### the encoding fallback of `fail` (K06d repair) -/

/-- the error formatted instead has the status the first `Format` call answered with -/
theorem lemma_plain_status (env : Env) (f : Fmt) (e : Err) :
    determineStatus f (plainErr env.stText (format env f e).status e) = determineStatus f e := by
  rw [format_status]
  unfold determineStatus plainErr
  cases f.statusRes with
  | some s => rfl
  | none => simp [withStatus_outermost]

/-- whether or not the first body encodes, the response `fail` writes carries the documented status … -/
theorem failResp_status (env : Env) (f : Fmt) (e : Err) : (failResp env f e).status = determineStatus f e := by
  unfold failResp
  split
  · exact format_status env f e
  · rw [format_status, lemma_plain_status]

/-- … the formatter's media type … -/
theorem failResp_media_type (env : Env) (f : Fmt) (e : Err) :
    headerMediaType (failResp env f e).contentType = mediaTypeOf f.kind := by
  unfold failResp
  split <;> exact format_media_type env f _

/-- … and a body of the formatter's documented shape with that status -/
theorem failResp_shape (env : Env) (f : Fmt) (e : Err) :
    shapeOK f.kind (failResp env f e).status (failResp env f e).body = true := by
  unfold failResp
  split <;> exact format_shape env f _

/-- the fallback body always encodes: the error it is made of has no details layer at all -/
theorem fallback_encodes (stText : Nat → Bytes) (s : Nat) (e : Err) : bodyEncodes (plainErr stText s e) = true := by
  simp [bodyEncodes, plainErr, Err.withStatus, Err.new, findCap, findCapL]

/-- an error whose details encode is answered by the formatter's own response, unchanged -/
theorem failResp_encodable (env : Env) (f : Fmt) (e : Err) (h : bodyEncodes e = true) :
    failResp env f e = format env f e := by
  simp [failResp, h]

/-- the "handler error" log record carries the status of the response that is written -/
theorem log_status_is_response_status (env : Env) (cfg : Cfg) (ans : Bytes) (pos : Nat) (call : Call) :
    (failLog env cfg ans call).status = (fail env cfg ans .recorder pos call).status := by
  show (format env _ call.err).status = (failResp env _ call.err).status
  rw [format_status, failResp_status]

/-- what `fail` logs: always the `"handler error"` record first; for an encodable error on a recorder nothing else;
    for an error whose details do not encode exactly one more record (the encoding failure) -/
theorem fail_logs_shape (env : Env) (cfg : Cfg) (ans : Bytes) (call : Call) :
    (failLogs env cfg ans .recorder call).head? = some (failLog env cfg ans call) ∧
    (bodyEncodes call.err = true → failLogs env cfg ans .recorder call = [failLog env cfg ans call]) ∧
    (bodyEncodes call.err = false → failLogs env cfg ans .recorder call = [failLog env cfg ans call, encodeFailureRec]) := by
  refine ⟨rfl, ?_, ?_⟩ <;> intro h <;> simp [failLogs, h]

/-! ### formatter selection -/

theorem lemma_fallback_candidate (opts : List Opt) : fallbackFmt ∈ candidates opts := by
  induction opts with
  | nil => simp [candidates]
  | cons o rest ih => cases o <;> simp [candidates, ih]

/-- every formatter the configuration can hand out satisfies `Q` -/
def CfgIn (c : Cfg) (Q : Fmt → Prop) : Prop :=
  (∀ f, c.formatter = some f → Q f) ∧ (∀ kv ∈ c.formatters, Q kv.2)

theorem lemma_fold_in (opts : List Opt) (c : Cfg) (Q : Fmt → Prop) (h : CfgIn c Q)
    (hc : ∀ f ∈ candidates opts, Q f) : CfgIn (opts.foldl applyOpt c) Q := by
  induction opts generalizing c with
  | nil => exact h
  | cons o rest ih =>
    simp only [List.foldl_cons]
    apply ih
    · cases o with
      | formatter f =>
        refine ⟨?_, h.2⟩
        intro g hg
        simp only [applyOpt, Option.some.injEq] at hg
        subst hg
        exact hc _ (by simp [candidates])
      | formatters m =>
        refine ⟨by intro g hg; simp [applyOpt] at hg, ?_⟩
        intro kv hkv
        simp only [applyOpt] at hkv
        exact hc _ (by simp only [candidates, List.mem_append, List.mem_map]; left; exact ⟨kv, hkv, rfl⟩)
      | defaultFormat d => exact h
    · intro f hf
      apply hc
      cases o <;> simp [candidates, hf]

theorem lemma_lookup_mem (mt : Bytes) (m : List (Bytes × Fmt)) (f : Fmt) (h : lookupFmt mt m = some f) :
    ∃ kv ∈ m, kv.1 = mt ∧ kv.2 = f := by
  simp only [lookupFmt, Option.map_eq_some_iff] at h
  obtain ⟨kv, hf, rfl⟩ := h
  exact ⟨kv, List.mem_of_find?_eq_some hf, by simpa using List.find?_some hf, rfl⟩

theorem lemma_select_in (c : Cfg) (ans : Bytes) (Q : Fmt → Prop) (h : CfgIn c Q) (hf : Q fallbackFmt) :
    Q (selectFormatter c ans) := by
  unfold selectFormatter
  split
  · rename_i f hfm; exact h.1 f hfm
  · split
    · exact hf
    · split
      · rename_i f hl
        split at hl
        · cases hl
        · obtain ⟨kv, hkv, _, rfl⟩ := lemma_lookup_mem _ _ _ hl
          exact h.2 kv hkv
      · split
        · rename_i f hl
          split at hl
          · cases hl
          · obtain ⟨kv, hkv, _, rfl⟩ := lemma_lookup_mem _ _ _ hl
            exact h.2 kv hkv
        · exact hf

/-- whatever the options and whatever `Accepts` answers, the formatter used is one the configuration
    mentions or the documented RFC 9457 fallback -/
theorem select_is_candidate (opts : List Opt) (ans : Bytes) : selectFormatter (mkCfg opts) ans ∈ candidates opts := by
  apply lemma_select_in _ _ (· ∈ candidates opts) _ (lemma_fallback_candidate opts)
  apply lemma_fold_in opts defaultCfg _ _ (fun f h => h)
  refine ⟨?_, by simp [defaultCfg]⟩
  intro f hf
  simp only [defaultCfg, Option.some.injEq] at hf
  subst hf
  exact lemma_fallback_candidate opts

/-- the contract assumed for `router.Context.Accepts` (C19's subject; the driver receives its real
    answers): for a well-formed Accept header, the answer is empty only if the client accepts none of
    the offers, and otherwise it is an offer the client accepts -/
def AcceptsContract (offers : List Bytes) (accept : Option Bytes) (ans : Bytes) : Prop :=
  ∀ ranges, parseAcceptHdr accept = some ranges →
    (ans = [] → ∀ o ∈ offers, acceptAmbiguous ranges o = false → clientAccepts ranges o = false) ∧
    (ans ≠ [] → ans ∈ offers ∧ clientAccepts ranges ans = true)

theorem lemma_negotiated (m : List (Bytes × Fmt)) (d : Bytes) (all : List Fmt) (accept : Option Bytes) (ans : Bytes)
    (hall : ∀ kv ∈ m, kv.2 ∈ all) (hfb : fallbackFmt ∈ all)
    (hc : AcceptsContract (m.map (·.1)) accept ans) :
    selectFormatter { formatter := none, formatters := m, defaultFormat := d } ans ∈ negotiated m d all accept := by
  have hgen : selectFormatter { formatter := none, formatters := m, defaultFormat := d } ans ∈ all :=
    lemma_select_in _ _ (· ∈ all) (And.intro (fun f hf => by cases hf) hall) hfb
  unfold negotiated
  cases hp : parseAcceptHdr accept with
  | none => exact hgen
  | some ranges =>
    obtain ⟨hc1, hc2⟩ := hc ranges hp
    simp only
    split
    · exact hgen
    split
    · exact hgen
    rename_i hamb
    by_cases ha : ans = []
    · -- no offer is acceptable: the default decides
      have hacc : m.filter (fun kv => clientAccepts ranges kv.1) = [] := by
        rw [List.filter_eq_nil_iff]
        intro kv hkv
        have hna : acceptAmbiguous ranges kv.1 = false := by
          simp only [List.any_eq_true, not_exists, not_and, Bool.not_eq_true] at hamb
          exact hamb kv hkv
        simpa using hc1 ha kv.1 (List.mem_map.mpr ⟨kv, hkv, rfl⟩) hna
      simp only [hacc, List.isEmpty_nil, Bool.not_true, Bool.false_eq_true, if_false]
      by_cases hd : d.isEmpty = true
      · simp only [hd, if_true]; exact hgen
      · simp only [hd, Bool.false_eq_true, if_false]
        cases hfind : m.find? (fun kv => kv.1 == d) with
        | none => exact hgen
        | some kv =>
          have hm : m.isEmpty = false := by
            simpa using List.ne_nil_of_mem (List.mem_of_find?_eq_some hfind)
          have hd' : d.isEmpty = false := by simpa using hd
          have hsel : selectFormatter { formatter := none, formatters := m, defaultFormat := d } ans = kv.2 := by
            unfold selectFormatter
            simp [hm, ha, hd', lookupFmt, hfind]
          simp [hsel]
    · -- `Accepts` named an offer: it is configured and the client accepts it
      obtain ⟨hmem, hok⟩ := hc2 ha
      obtain ⟨kv0, hkv0, hk0⟩ := List.mem_map.mp hmem
      have hsome : (m.find? (fun kv => kv.1 == ans)).isSome := by
        rw [List.find?_isSome]
        exact ⟨kv0, hkv0, by simp [hk0]⟩
      obtain ⟨kv, hkv⟩ := Option.isSome_iff_exists.mp hsome
      have hkvm := List.mem_of_find?_eq_some hkv
      have hkvk : kv.1 = ans := by simpa using List.find?_some hkv
      have hm : m ≠ [] := List.ne_nil_of_mem hkvm
      have hsel : selectFormatter { formatter := none, formatters := m, defaultFormat := d } ans = kv.2 := by
        unfold selectFormatter
        have : m.isEmpty = false := by simpa using hm
        have ha' : ans.isEmpty = false := by simpa using ha
        simp [this, ha', lookupFmt, hkv]
      rw [hsel]
      have hin : kv ∈ m.filter (fun kv => clientAccepts ranges kv.1) := by
        rw [List.mem_filter]
        exact ⟨hkvm, by rw [hkvk]; exact hok⟩
      have hne : (m.filter (fun kv => clientAccepts ranges kv.1)).isEmpty = false := by
        simpa using List.ne_nil_of_mem hin
      simp only [hne, Bool.not_false, if_true]
      exact List.mem_map.mpr ⟨kv, hin, rfl⟩


/-- **Negotiation**: for every configuration shape the statement names and every Accept header, the
    formatter used is one the statement admits — a configured media type the client accepts,
    otherwise the configured default (any other option combination: a configured formatter or the
    documented fallback). Hypothesis: the `Accepts` contract. -/
theorem negotiated_is_accepted_or_default (opts : List Opt) (accept : Option Bytes) (ans : Bytes)
    (hc : AcceptsContract ((mkCfg opts).formatters.map (·.1)) accept ans) :
    selectFormatter (mkCfg opts) ans ∈ allowed opts accept := by
  have hcand := select_is_candidate opts ans
  unfold allowed
  split
  · simpa [candidates] using hcand
  · simp [mkCfg, applyOpt, defaultCfg, selectFormatter]
  · rename_i m
    have := lemma_negotiated m [] (candidates [.formatters m]) accept ans
      (by intro kv hkv; simp only [candidates, List.mem_append, List.mem_map]; left; exact ⟨kv, hkv, rfl⟩)
      (lemma_fallback_candidate _) (by simpa [mkCfg, applyOpt, defaultCfg] using hc)
    simpa [mkCfg, applyOpt, defaultCfg] using this
  · rename_i m d
    have := lemma_negotiated m d (candidates [.formatters m, .defaultFormat d]) accept ans
      (by intro kv hkv; simp only [candidates, List.mem_append, List.mem_map]; left; exact ⟨kv, hkv, rfl⟩)
      (lemma_fallback_candidate _) (by simpa [mkCfg, applyOpt, defaultCfg] using hc)
    simpa [mkCfg, applyOpt, defaultCfg] using this
  · rename_i d m
    have := lemma_negotiated m d (candidates [.defaultFormat d, .formatters m]) accept ans
      (by intro kv hkv; simp only [candidates, List.mem_append, List.mem_map]; left; exact ⟨kv, hkv, rfl⟩)
      (lemma_fallback_candidate _) (by simpa [mkCfg, applyOpt, defaultCfg] using hc)
    simpa [mkCfg, applyOpt, defaultCfg] using this
  · exact hcand

/-! ### the `Accepts` contract is a theorem for C19's model of `router.Context.Accepts` -/

/-- a configured media type the declarative Accept oracle can read as it stands: `type/subtype` (or a documented
    short name), no parameters -/
def PlainOffer (o : Bytes) : Prop := (AcceptSpec.mediaOffer o).isSome = true ∧ mtCore o = o

theorem lemma_specOf_plain (o : Bytes) (h : PlainOffer o) : specOf o = C19.spOf true o := by
  unfold specOf C19.spOf C19.spMedia
  rw [h.2]
  rfl

theorem lemma_plain_ne_nil (o : Bytes) (h : PlainOffer o) : o ≠ [] := by
  intro e
  subst e
  have := h.1
  revert this
  decide

/-- with no preference stated (`rs = []`) `Accepts` answers its first offer -/
theorem lemma_head_contract (offers : List Bytes) (hne : offers ≠ []) (hpl : ∀ o ∈ offers, PlainOffer o) :
    (offers.headD [] = [] → ∀ o ∈ offers, acceptAmbiguous [] o = false → clientAccepts [] o = false) ∧
    (offers.headD [] ≠ [] → offers.headD [] ∈ offers ∧ clientAccepts [] (offers.headD []) = true) := by
  cases offers with
  | nil => exact absurd rfl hne
  | cons o rest =>
    have ho : o ≠ [] := lemma_plain_ne_nil o (hpl o (by simp))
    refine ⟨fun h => absurd h ho, fun _ => ⟨by simp, by simp [clientAccepts]⟩⟩

/-- **the `Accepts` contract holds of the modelled `c.Accepts`** (C19's model of router/accept.go, via C19's
    `lemma_rel`: the answer is an offer of maximal strictly positive quality, or empty when none has one): for
    every Accept header, every non-empty list of plain configured media types in any order, and every
    `strconv.ParseFloat` satisfying C19's `PFContract` -/
theorem accepts_contract_plain (pf : Accept.PF) (hpf : C19.PFContract pf) (accept : Option Bytes) (offers : List Bytes)
    (hne : offers ≠ []) (hpl : ∀ o ∈ offers, PlainOffer o) :
    AcceptsContract offers accept (acceptsOf pf accept offers) := by
  intro rs hp
  have hoe : offers.isEmpty = false := by simpa using hne
  -- the answer when the parser sees no range at all
  have hnone : ∀ (header : Bytes), (header.isEmpty = true ∨ Accept.parseAccept pf header = []) →
      Accept.answer pf { kind := .accept, header := header, offers := offers } = offers.headD [] := by
    intro header hh
    unfold Accept.answer
    simp only [hoe, Bool.false_eq_true, if_false]
    rcases hh with hh | hh
    · simp [hh]
    · by_cases he : header.isEmpty = true
      · simp [he]
      · simp [he, hh, Accept.acceptsWith]
  cases accept with
  | none =>
    have hrs : rs = [] := by simpa [parseAcceptHdr] using hp.symm
    subst hrs
    have : acceptsOf pf none offers = offers.headD [] := hnone [] (Or.inl rfl)
    rw [this]
    exact lemma_head_contract offers hne hpl
  | some h =>
    have hr : AcceptSpec.ranges true h = some rs := hp
    have hparse := C19.lemma_parseAccept pf hpf true h rs hr
    by_cases hrs : rs = []
    · subst hrs
      have : acceptsOf pf (some h) offers = offers.headD [] := hnone h (Or.inr (by simpa using hparse))
      rw [this]
      exact lemma_head_contract offers hne hpl
    · have hrel := C19.lemma_rel pf hpf { kind := .accept, header := h, offers := offers } rs
        (by simpa using hr) hrs hne (by
          intro o ho
          simpa [C19.offerOK] using (hpl o ho).1)
      have hans : acceptsOf pf (some h) offers = Accept.answer pf { kind := .accept, header := h, offers := offers } := rfl
      rw [hans]
      have hrse : rs.isEmpty = false := by simpa using hrs
      rcases hrel with ⟨h0, hall⟩ | ⟨hn, hmem, hq, _⟩
      · refine ⟨fun _ o ho hna => ?_, fun hn => absurd h0 hn⟩
        have hmin := hall o ho
        simp only [beq_self_eq_true] at hmin
        rw [← lemma_specOf_plain o (hpl o ho)] at hmin
        simp only [acceptAmbiguous, hmin, beq_self_eq_true, Bool.and_true, decide_eq_false_iff_not, Nat.not_lt,
          Nat.le_zero_eq] at hna
        simp [clientAccepts, hrse, hna]
      · refine ⟨fun h0 => absurd h0 hn, fun _ => ⟨hmem, ?_⟩⟩
        simp only [beq_self_eq_true] at hq
        rw [← lemma_specOf_plain _ (hpl _ hmem)] at hq
        simp [clientAccepts, hq]

/-! ### the response -/

theorem lemma_overWire (w : Wire) (status : Nat) (ct : Bytes) (body : Json)
    (h : w = .recorder ∨ bodylessStatus status = false) : overWire w status ct body = (status, ct, [body]) := by
  unfold overWire
  cases w with
  | recorder => rfl
  | server =>
    rcases h with h | h
    · cases h
    · simp only [bodylessStatus, Bool.or_eq_false_iff, Bool.and_eq_false_iff, decide_eq_false_iff_not,
        beq_eq_false_iff_ne] at h
      have h1 : ¬ (100 ≤ status ∧ status ≤ 199 ∧ status ≠ 101) := by omega
      have h2 : ¬ (status = 101 ∨ status = 204) := by omega
      have h3 : ¬ status = 304 := by omega
      simp [h1, h2, h3]

/-- the response `fail` writes, for the formatter it selected, meets every clause of the statement -/
theorem lemma_fail_respOK (env : Env) (cfg : Cfg) (ans : Bytes) (w : Wire) (pos : Nat) (call : Call)
    (hw : w = .recorder ∨ bodylessStatus (docStatus (selectFormatter cfg ans) call) = false) :
    respOK (selectFormatter cfg ans) pos call (fail env cfg ans w pos call) = true := by
  unfold fail
  simp only
  have hst := failResp_status env (selectFormatter cfg ans) call.err
  rw [lemma_determine_doc] at hst
  rw [lemma_overWire w _ _ _ (by rw [hst]; exact hw)]
  simp only [respOK, Bool.and_eq_true]
  refine ⟨⟨⟨⟨?_, ?_⟩, ?_⟩, trivial⟩, ?_⟩
  · simp [hst]
  · simp [failResp_media_type]
  · exact failResp_shape env _ _
  · rw [List.all_eq_true]
    intro x hx
    have := List.mem_range.mp hx
    simp only [decide_eq_true_eq]
    omega

/-- **Main theorem (model satisfies the whole C06 oracle)**: for every error value, configuration,
    Accept header, chain position, helper — outside the recorded class K06c (a status that cannot carry
    a body, observed over a real connection) and assuming the `Accepts` contract. -/
theorem fail_meets_spec (env : Env) (opts : List Opt) (accept : Option Bytes) (ans : Bytes) (w : Wire)
    (pos : Nat) (call : Call)
    (hc : AcceptsContract ((mkCfg opts).formatters.map (·.1)) accept ans)
    (hk : knownK06c w opts accept call = false) :
    specOK opts accept pos call (fail env (mkCfg opts) ans w pos call) = true := by
  unfold specOK
  rw [List.any_eq_true]
  have hal := negotiated_is_accepted_or_default opts accept ans hc
  refine ⟨selectFormatter (mkCfg opts) ans, hal, ?_⟩
  apply lemma_fail_respOK
  unfold knownK06c at hk
  cases w with
  | recorder => exact Or.inl rfl
  | server =>
    right
    simp only [beq_self_eq_true, Bool.true_and, List.any_eq_false] at hk
    simpa using hk _ hal

/-- the contract only speaks about membership: the order in which the map iteration produced the offers is
    immaterial -/
theorem lemma_contract_perm (o₁ o₂ : List Bytes) (h : o₁.Perm o₂) (accept : Option Bytes) (ans : Bytes)
    (hc : AcceptsContract o₁ accept ans) : AcceptsContract o₂ accept ans := by
  intro rs hp
  obtain ⟨h1, h2⟩ := hc rs hp
  exact ⟨fun ha o ho => h1 ha o (h.mem_iff.mpr ho), fun hn => ⟨h.mem_iff.mp (h2 hn).1, (h2 hn).2⟩⟩

/-- **Main theorem with the negotiation inside the model** — no assumption about `Accepts` left: for every
    error value, option list, Accept header, iteration order of the formatter map, wire, chain position and call,
    with plain configured media types and outside K06c, the response of `failN` (whose `c.Accepts` is C19's model of
    router/accept.go) satisfies the whole C06 oracle. `PFContract` is C19's contract for `strconv.ParseFloat`. -/
theorem failN_meets_spec (pf : Accept.PF) (hpf : C19.PFContract pf) (env : Env) (opts : List Opt)
    (accept : Option Bytes) (order : List Bytes) (w : Wire) (pos : Nat) (call : Call)
    (hperm : order.Perm ((mkCfg opts).formatters.map (·.1)))
    (hpl : ∀ o ∈ order, PlainOffer o)
    (hk : knownK06c w opts accept call = false) :
    specOK opts accept pos call (failN pf env (mkCfg opts) accept order w pos call) = true := by
  unfold failN
  apply fail_meets_spec env opts accept _ w pos call _ hk
  apply lemma_contract_perm order _ hperm
  by_cases hne : order = []
  · subst hne
    intro rs _
    have : acceptsOf pf accept [] = [] := by simp [acceptsOf, Accept.answer]
    rw [this]
    exact ⟨fun _ o ho => absurd ho (List.not_mem_nil), fun hn => absurd rfl hn⟩
  · exact accepts_contract_plain pf hpf accept order hne hpl

/-- on a recorder (and for every status that may carry a body) there is no exclusion at all -/
theorem fail_meets_spec_recorder (env : Env) (opts : List Opt) (accept : Option Bytes) (ans : Bytes)
    (pos : Nat) (call : Call) (hc : AcceptsContract ((mkCfg opts).formatters.map (·.1)) accept ans) :
    specOK opts accept pos call (fail env (mkCfg opts) ans .recorder pos call) = true :=
  fail_meets_spec env opts accept ans .recorder pos call hc (by simp [knownK06c])

/-! ### the clauses of the statement, one by one -/

/-- HTTP status = the formatter's status = the documented status of the error -/
theorem status_agree (env : Env) (cfg : Cfg) (ans : Bytes) (pos : Nat) (call : Call) :
    let f := selectFormatter cfg ans
    (fail env cfg ans .recorder pos call).status = (format env f call.err).status ∧
    (format env f call.err).status = docStatus f call := by
  intro f
  refine ⟨?_, ?_⟩
  · show (failResp env f call.err).status = _
    rw [failResp_status, format_status]
  · rw [format_status, lemma_determine_doc]

/-- … and the status member of the body says the same (RFC 9457: the number; JSON:API: the decimal
    string in every element of `errors`) -/
theorem body_status_agrees (env : Env) (cfg : Cfg) (ans : Bytes) (pos : Nat) (call : Call) :
    let f := selectFormatter cfg ans
    ∃ b, (fail env cfg ans .recorder pos call).bodies = [b] ∧
      shapeOK f.kind (fail env cfg ans .recorder pos call).status b = true := by
  intro f
  exact ⟨(failResp env f call.err).body, rfl, failResp_shape env f call.err⟩

/-- Content-Type is the formatter's media type (K06 repaired) -/
theorem media_type_is_formatters (env : Env) (cfg : Cfg) (ans : Bytes) (pos : Nat) (call : Call) :
    let f := selectFormatter cfg ans
    (fail env cfg ans .recorder pos call).contentType = (format env f call.err).contentType ∧
    headerMediaType (fail env cfg ans .recorder pos call).contentType = mediaTypeOf f.kind := by
  intro f
  refine ⟨?_, failResp_media_type env f call.err⟩
  show (failResp env f call.err).contentType = _
  unfold failResp format
  split <;> cases f.kind <;> rfl

/-- the chain is aborted: the flag is set and no position after the failing one is entered -/
theorem fail_aborts (env : Env) (cfg : Cfg) (ans : Bytes) (w : Wire) (pos : Nat) (call : Call) :
    (fail env cfg ans w pos call).aborted = true ∧ ∀ i ∈ (fail env cfg ans w pos call).entered, i ≤ pos := by
  refine ⟨rfl, ?_⟩
  intro i hi
  have := List.mem_range.mp hi
  omega

/-- even when nothing can be encoded (a custom formatter whose body never encodes) the chain is aborted -/
theorem unencodable_formatter_aborts (pos : Nat) : abortOK pos (failUnencodable pos) = true := by
  simp only [abortOK, failUnencodable, Bool.true_and, List.all_eq_true, decide_eq_true_eq]
  intro x hx
  have := List.mem_range.mp hx
  omega

/-- a Content-Type that was already in the header map when the handler failed, or a chain that was
    already aborted, plays no part: the response is the one `fail` writes (`http.Header.Set` replaces,
    `Abort` is idempotent) -/
theorem earlier_content_type_replaced (pre : Option Bytes) (ab cd : Bool) (env : Env) (cfg : Cfg) (ans : Bytes)
    (w : Wire) (pos : Nat) (call : Call) : failH pre ab cd env cfg ans w pos call = fail env cfg ans w pos call := rfl

/-- exactly one response body is written -/
theorem exactly_one_response (env : Env) (cfg : Cfg) (ans : Bytes) (pos : Nat) (call : Call) :
    (fail env cfg ans .recorder pos call).bodies.length = 1 := rfl

/-! ### non-vacuity and as-shipped witnesses -/

def wEnv : Env := { path := "/f".toList, stText := fun n => if n = 404 then "Not Found".toList else [] }
def wBoom : Err := .new "boom".toList
def wNeg : List Opt :=
  [.formatters [("application/json".toList, { kind := .simple }), ("application/vnd.api+json".toList, { kind := .jsonapi })],
   .defaultFormat "application/json".toList]
def wCall : Call := .helper .notFound (some wBoom)

/-- the hypotheses of `fail_meets_spec` are met by a non-trivial input: negotiated configuration,
    `Accept: application/vnd.api+json`, `Accepts` answering that type -/
example : AcceptsContract ((mkCfg wNeg).formatters.map (·.1)) (some "application/vnd.api+json".toList)
    "application/vnd.api+json".toList := by
  intro ranges h
  have : ranges = [{ value := "application/vnd.api+json".toList, q := 1000 }] := by
    have h' : parseAcceptHdr (some "application/vnd.api+json".toList) =
        some [{ value := "application/vnd.api+json".toList, q := 1000 }] := by decide
    rw [h'] at h
    exact (Option.some.inj h).symm
  subst this
  exact And.intro (fun h => by cases h) (fun _ => by decide)

example : (fail wEnv (mkCfg wNeg) "application/vnd.api+json".toList .recorder 1 wCall).contentType = ctJSONAPI := by decide
example : (fail wEnv (mkCfg wNeg) "application/vnd.api+json".toList .recorder 1 wCall).status = 404 := by decide
example : knownK06c .server [] none (.failStatus 404 none) = false := by decide

-- non-vacuity of `failN_meets_spec`: plain offers in map order, `PFContract`, and what the modelled `Accepts` answers
def wPF : Accept.PF := fun raw => if raw = ['0', '.'] then some 0 else if raw = ['1', '.'] then some 1000000 else none
example : C19.PFContract wPF := ⟨by decide, by decide⟩
example : PlainOffer "application/json".toList ∧ PlainOffer "application/vnd.api+json".toList := by
  unfold PlainOffer; decide
example : acceptsOf wPF (some "application/json;q=0, */*;q=0.5".toList) ["application/json".toList, "application/vnd.api+json".toList]
    = "application/vnd.api+json".toList := by decide
example : (failN wPF wEnv (mkCfg wNeg) (some "application/json;q=0, */*;q=0.5".toList)
    ["application/vnd.api+json".toList, "application/json".toList] .recorder 1 wCall).contentType = ctJSONAPI := by decide

/-- K06, as shipped: `NotFound(err)` with the default RFC 9457 formatter answered
    `Content-Type: application/json; charset=utf-8` -/
theorem asis_media_type_witness :
    headerMediaType (failAsIs wEnv (mkCfgAsIs []) [] .recorder 1 wCall).contentType ≠ mediaTypeOf .rfc9457 ∧
    specOK [] none 1 wCall (failAsIs wEnv (mkCfgAsIs []) [] .recorder 1 wCall) = false := by
  decide

/-- K06b, as shipped: with a negotiated map {application/json: Simple, application/vnd.api+json:
    JSON:API}, default application/json and `Accept: application/vnd.api+json`, the built-in RFC 9457
    formatter answered — negotiation was never reached -/
theorem asis_negotiation_witness :
    (selectFormatter (mkCfgAsIs wNeg) "application/vnd.api+json".toList).kind = .rfc9457 ∧
    (selectFormatter (mkCfg wNeg) "application/vnd.api+json".toList).kind = .jsonapi ∧
    specOK wNeg (some "application/vnd.api+json".toList) 1 wCall
      (fail wEnv (mkCfgAsIs wNeg) "application/vnd.api+json".toList .recorder 1 wCall) = false := by
  decide

def wNaN : Err := .node { st := some 403, det := some .null, detBad := true } (.own "forbidden".toList) []

/-- K06d, as shipped: `Fail(err)` where `err.Details()` cannot be encoded wrote nothing — the client saw
    the implicit 200 with an empty body; the repaired `fail` answers 403 with the error text alone -/
theorem unencodable_details_asis_witness :
    bodyEncodes wNaN = false ∧
    specOK [] none 1 (.fail wNaN) (failAsIsK06d wEnv (mkCfg []) [] .recorder 1 (.fail wNaN)) = false ∧
    (fail wEnv (mkCfg []) [] .recorder 1 (.fail wNaN)).status = 403 ∧
    specOK [] none 1 (.fail wNaN) (fail wEnv (mkCfg []) [] .recorder 1 (.fail wNaN)) = true := by
  decide

/-- K06c (recorded): over a real connection `FailStatus(204, err)` has no body and `FailStatus(100, err)`
    goes out as 200 -/
theorem bodyless_status_witness :
    (fail wEnv (mkCfg []) [] .server 1 (.failStatus 204 (some wBoom))).bodies = [] ∧
    (fail wEnv (mkCfg []) [] .server 1 (.failStatus 100 (some wBoom))).status = 200 ∧
    specOK [] none 1 (.failStatus 204 (some wBoom)) (fail wEnv (mkCfg []) [] .server 1 (.failStatus 204 (some wBoom))) = false ∧
    knownK06c .server [] none (.failStatus 204 (some wBoom)) = true := by
  decide


/-- the statement without any exclusion (kept visible): it does *not* hold of the code as it is, because
    of K06c — `fail_meets_spec` is the partial theorem `¬ K06c → model satisfies spec` -/
def FullStatement : Prop :=
  ∀ (env : Env) (opts : List Opt) (accept : Option Bytes) (ans : Bytes) (w : Wire) (pos : Nat) (call : Call),
    AcceptsContract ((mkCfg opts).formatters.map (·.1)) accept ans →
    specOK opts accept pos call (fail env (mkCfg opts) ans w pos call) = true

theorem full_statement_needs_exclusion : ¬ FullStatement := by
  intro h
  have := h wEnv [] none [] .server 1 (.failStatus 204 (some wBoom)) (by
    intro ranges _
    exact And.intro (fun _ o ho => by simp [mkCfg, defaultCfg] at ho) (fun hne => absurd rfl hne))
  exact absurd this (by decide)

end Rivaas.C06
