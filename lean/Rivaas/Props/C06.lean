import Rivaas.Spec.ErrFmt
/-
C06 — Error responses conform to the selected formatter. Property theorems.
All statements quantify over every error value (any wrapping depth, any layer implementing any subset
of ErrorType / ErrorCode / ErrorDetails, any details JSON), every formatter configuration, every
Accept header, every position of the failing handler.
-/
namespace Rivaas.C06
open Rivaas.ErrFmt

/-! ### `errors.As` is a pre-order search -/

mutual
  theorem lemma_findCap_status : ∀ (e : Err), findCap (·.st) e = (statusLayers e).head?
    | .node caps m kids => by
      simp only [findCap, statusLayers]
      cases h : caps.st with
      | some s => simp
      | none => simpa using lemma_findCapL_status kids
  theorem lemma_findCapL_status : ∀ (es : List Err), findCapL (·.st) es = (statusLayersL es).head?
    | [] => by simp [findCapL, statusLayersL]
    | e :: es => by
      simp only [findCapL, statusLayersL, List.head?_append]
      rw [lemma_findCap_status e, lemma_findCapL_status es]
      cases (statusLayers e).head? <;> simp
end

/-- the status `errors.As(err, &ErrorType)` finds is the outermost declared one (pre-order) -/
theorem status_is_first_layer (e : Err) : asStatus e = (statusLayers e).head? :=
  lemma_findCap_status e

/-- `WithStatus` at the outside always decides, whatever is wrapped inside -/
theorem withStatus_outermost (s : Nat) (e : Err) : asStatus (.withStatus s e) = some s := by
  simp [asStatus, Err.withStatus, findCap]

/-- wrapping with `%w` is transparent for status, code and details -/
theorem wrap_transparent (pre : Bytes) (e : Err) :
    asStatus (.wrap pre e) = asStatus e ∧ asCode (.wrap pre e) = asCode e ∧ asDetails (.wrap pre e) = asDetails e := by
  refine ⟨?_, ?_, ?_⟩ <;>
  · simp only [asStatus, asCode, asDetails, Err.wrap, findCap, findCapL]
    split <;> simp_all

/-- the status every formatter answers with is the documented one -/
theorem lemma_determine_doc (f : Fmt) (call : Call) : determineStatus f call.err = docStatus f call := by
  unfold determineStatus docStatus
  cases hres : f.statusRes with
  | some s => cases call <;> simp
  | none =>
    cases call with
    | fail e =>
      simp only [Call.err]
      have := status_is_first_layer e
      unfold asStatus at this
      simp only [asStatus, this]
      cases (statusLayers e).head? <;> simp
    | failStatus s e =>
      cases e with
      | some e => simp [Call.err, withStatus_outermost]
      | none => simp [Call.err, asStatus, Err.withStatusNil, findCap]
    | helper h e =>
      have hh : h.status = helperDoc h := by cases h <;> rfl
      cases e with
      | some e => simp [Call.err, withStatus_outermost, hh]
      | none => simp [Call.err, asStatus, Err.withStatusNil, findCap, hh]


/-! ### sorted objects: looking a member up in `sortKvs kvs` -/

theorem lemma_mem_insertKv (kv x : Bytes × Json) (l : List (Bytes × Json)) :
    x ∈ insertKv kv l ↔ x = kv ∨ x ∈ l := by
  induction l with
  | nil => simp [insertKv]
  | cons y ys ih =>
    simp only [insertKv]
    split
    · simp
    · simp only [List.mem_cons, ih]
      constructor
      · rintro (h | h | h) <;> simp [h]
      · rintro (h | h | h) <;> simp [h]

theorem lemma_mem_sortKvs (x : Bytes × Json) (l : List (Bytes × Json)) : x ∈ sortKvs l ↔ x ∈ l := by
  induction l with
  | nil => simp [sortKvs]
  | cons y ys ih =>
    have : sortKvs (y :: ys) = insertKv y (sortKvs ys) := rfl
    rw [this, lemma_mem_insertKv, ih]
    simp

/-- every member with key `k` carries `v`, and there is one: the lookup yields `v` -/
theorem lemma_get_unique (kvs : List (Bytes × Json)) (k : Bytes) (v : Json)
    (hall : ∀ x ∈ kvs, x.1 = k → x.2 = v) (hex : ∃ x ∈ kvs, x.1 = k) :
    Json.get? k (.obj (sortKvs kvs)) = some v := by
  simp only [Json.get?]
  cases hf : (sortKvs kvs).find? (fun kv => kv.1 == k) with
  | none =>
    obtain ⟨x, hx, hk⟩ := hex
    have := List.find?_eq_none.mp hf x ((lemma_mem_sortKvs x kvs).mpr hx)
    simp [hk] at this
  | some x =>
    have hm := (lemma_mem_sortKvs x kvs).mp (List.mem_of_find?_eq_some hf)
    have hk : x.1 = k := by simpa using List.find?_some hf
    simp [hall x hm hk]

theorem lemma_get_none (kvs : List (Bytes × Json)) (k : Bytes) (hno : ∀ x ∈ kvs, x.1 ≠ k) :
    Json.get? k (.obj (sortKvs kvs)) = none := by
  simp only [Json.get?, Option.map_eq_none_iff, List.find?_eq_none]
  intro x hx
  have := hno x ((lemma_mem_sortKvs x kvs).mp hx)
  simpa using this

/-! ### `ProblemDetail.MarshalJSON` -/

/-- a reserved key in the marshalled map can only come from the struct's own fields -/
theorem lemma_reserved_member (p : Problem) (x : Bytes × Json) (hx : x ∈ marshalProblemKvs p) (hr : x.1 ∈ reserved) :
    x = (kType, .str p.type) ∨ x = (kTitle, .str p.title) ∨
    x = (kStatus, .num (natBytes p.status)) ∨
    (p.detail.isEmpty = false ∧ x = (kDetail, .str p.detail)) ∨
    (p.instance_.isEmpty = false ∧ x = (kInstance, .str p.instance_)) := by
  simp only [marshalProblemKvs, List.mem_append, List.mem_cons, List.mem_filter] at hx
  rcases hx with (((h | h | h | h) | h) | h) | h
  · exact Or.inl h
  · exact Or.inr (Or.inl h)
  · exact Or.inr (Or.inr (Or.inl h))
  · cases h
  · split at h
    · cases h
    · rename_i hne
      simp only [List.mem_singleton] at h
      exact Or.inr (Or.inr (Or.inr (Or.inl ⟨by simpa using hne, h⟩)))
  · split at h
    · cases h
    · rename_i hne
      simp only [List.mem_singleton] at h
      exact Or.inr (Or.inr (Or.inr (Or.inr ⟨by simpa using hne, h⟩)))
  · obtain ⟨_, hnr⟩ := h
    exact absurd hr (by simpa using hnr)

/-- **Reserved members cannot be overridden by extensions**: whatever the extensions contain, the five
    RFC 9457 members of the marshalled object are exactly the struct's own fields (`detail` and
    `instance` absent when empty). -/
theorem reserved_not_overridable (p : Problem) :
    (marshalProblem p).get? kType = some (.str p.type) ∧
    (marshalProblem p).get? kTitle = some (.str p.title) ∧
    (marshalProblem p).get? kStatus = some (.num (natBytes p.status)) ∧
    (marshalProblem p).get? kDetail = (if p.detail.isEmpty then none else some (.str p.detail)) ∧
    (marshalProblem p).get? kInstance = (if p.instance_.isEmpty then none else some (.str p.instance_)) := by
  have key : ∀ (k : Bytes) (v : Json), k ∈ reserved →
      (∀ x ∈ marshalProblemKvs p, x.1 = k → x.2 = v) → (∃ x ∈ marshalProblemKvs p, x.1 = k) →
      (marshalProblem p).get? k = some v := fun k v _ h1 h2 => lemma_get_unique _ k v h1 h2
  refine ⟨?_, ?_, ?_, ?_, ?_⟩
  · refine key _ _ (by decide) ?_ ⟨(kType, .str p.type), by simp [marshalProblemKvs], rfl⟩
    intro x hx hk
    rcases lemma_reserved_member p x hx (by rw [hk]; decide) with h | h | h | ⟨_, h⟩ | ⟨_, h⟩ <;>
      (subst h; first | rfl | (dsimp only at hk; exact absurd hk (by decide)))
  · refine key _ _ (by decide) ?_ ⟨(kTitle, .str p.title), by simp [marshalProblemKvs], rfl⟩
    intro x hx hk
    rcases lemma_reserved_member p x hx (by rw [hk]; decide) with h | h | h | ⟨_, h⟩ | ⟨_, h⟩ <;>
      (subst h; first | rfl | (dsimp only at hk; exact absurd hk (by decide)))
  · refine key _ _ (by decide) ?_ ⟨(kStatus, .num (natBytes p.status)), by simp [marshalProblemKvs], rfl⟩
    intro x hx hk
    rcases lemma_reserved_member p x hx (by rw [hk]; decide) with h | h | h | ⟨_, h⟩ | ⟨_, h⟩ <;>
      (subst h; first | rfl | (dsimp only at hk; exact absurd hk (by decide)))
  · split
    · rename_i he
      apply lemma_get_none
      intro x hx hk
      rcases lemma_reserved_member p x hx (by rw [hk]; decide) with h | h | h | ⟨hne, h⟩ | ⟨_, h⟩
      · subst h; dsimp only at hk; exact absurd hk (by decide)
      · subst h; dsimp only at hk; exact absurd hk (by decide)
      · subst h; dsimp only at hk; exact absurd hk (by decide)
      · simp [he] at hne
      · subst h; dsimp only at hk; exact absurd hk (by decide)
    · rename_i he
      refine key _ _ (by decide) ?_ ⟨(kDetail, .str p.detail), by simp [marshalProblemKvs, he], rfl⟩
      intro x hx hk
      rcases lemma_reserved_member p x hx (by rw [hk]; decide) with h | h | h | ⟨_, h⟩ | ⟨_, h⟩ <;>
        (subst h; first | rfl | (dsimp only at hk; exact absurd hk (by decide)))
  · split
    · rename_i he
      apply lemma_get_none
      intro x hx hk
      rcases lemma_reserved_member p x hx (by rw [hk]; decide) with h | h | h | ⟨_, h⟩ | ⟨hne, h⟩
      · subst h; dsimp only at hk; exact absurd hk (by decide)
      · subst h; dsimp only at hk; exact absurd hk (by decide)
      · subst h; dsimp only at hk; exact absurd hk (by decide)
      · subst h; dsimp only at hk; exact absurd hk (by decide)
      · simp [he] at hne
    · rename_i he
      refine key _ _ (by decide) ?_ ⟨(kInstance, .str p.instance_), by simp [marshalProblemKvs, he], rfl⟩
      intro x hx hk
      rcases lemma_reserved_member p x hx (by rw [hk]; decide) with h | h | h | ⟨_, h⟩ | ⟨_, h⟩ <;>
        (subst h; first | rfl | (dsimp only at hk; exact absurd hk (by decide)))


/-! ### the model's `MarshalJSON` passes the oracle of the direct-call cases -/

mutual
  theorem lemma_beq_refl : ∀ (j : Json), Json.beq j j = true
    | .null => rfl
    | .bool b => by simp [Json.beq]
    | .num t => by simp [Json.beq]
    | .str t => by simp [Json.beq]
    | .arr xs => by simp only [Json.beq]; exact lemma_beqList_refl xs
    | .obj kvs => by simp only [Json.beq]; exact lemma_beqKvs_refl kvs
  theorem lemma_beqList_refl : ∀ (xs : List Json), Json.beqList xs xs = true
    | [] => rfl
    | x :: xs => by simp [Json.beqList, lemma_beq_refl x, lemma_beqList_refl xs]
  theorem lemma_beqKvs_refl : ∀ (kvs : List (Bytes × Json)), Json.beqKvs kvs kvs = true
    | [] => rfl
    | (k, v) :: rest => by simp [Json.beqKvs, lemma_beq_refl v, lemma_beqKvs_refl rest]
end

theorem lemma_beq_self (j : Json) : (j == j) = true := lemma_beq_refl j

theorem lemma_pairwise_unique (l : List (Bytes × Json)) (hnd : l.Pairwise fun a b => a.1 ≠ b.1)
    (x y : Bytes × Json) (hx : x ∈ l) (hy : y ∈ l) (hk : x.1 = y.1) : x = y := by
  induction l with
  | nil => cases hx
  | cons a rest ih =>
    rw [List.pairwise_cons] at hnd
    rcases List.mem_cons.mp hx with hx' | hx' <;> rcases List.mem_cons.mp hy with hy' | hy'
    · rw [hx', hy']
    · rw [hx'] at hk; exact absurd hk (hnd.1 y hy')
    · rw [hy'] at hk; exact absurd hk.symm (hnd.1 x hx')
    · exact ih hnd.2 hx' hy'

/-- a non-reserved key in the marshalled map comes from the extensions -/
theorem lemma_nonreserved_member (p : Problem) (x : Bytes × Json) (hx : x ∈ marshalProblemKvs p) (hr : x.1 ∉ reserved) :
    x ∈ p.extensions := by
  simp only [marshalProblemKvs, List.mem_append, List.mem_cons, List.mem_filter] at hx
  rcases hx with (((h | h | h | h) | h) | h) | h
  · subst h; exact absurd (show _ ∈ reserved by dsimp only; decide) hr
  · subst h; exact absurd (show _ ∈ reserved by dsimp only; decide) hr
  · subst h; exact absurd (show _ ∈ reserved by dsimp only; decide) hr
  · cases h
  · split at h
    · cases h
    · simp only [List.mem_singleton] at h; subst h; exact absurd (show _ ∈ reserved by dsimp only; decide) hr
  · split at h
    · cases h
    · simp only [List.mem_singleton] at h; subst h; exact absurd (show _ ∈ reserved by dsimp only; decide) hr
  · exact h.1

/-- `MarshalJSON` as modelled satisfies the whole oracle of the direct-call cases, for every struct
    and every extensions map (a Go map: distinct keys) -/
theorem marshal_meets_spec (p : Problem) (hnd : p.extensions.Pairwise fun a b => a.1 ≠ b.1) :
    marshalOK p (marshalProblem p) = true := by
  obtain ⟨h1, h2, h3, h4, h5⟩ := reserved_not_overridable p
  unfold marshalOK
  simp only [Bool.and_eq_true]
  refine ⟨⟨⟨⟨⟨⟨?_, ?_⟩, ?_⟩, ?_⟩, ?_⟩, ?_⟩, ?_⟩
  · simp [memberIs, h1, lemma_beq_self]
  · simp [memberIs, h2, lemma_beq_self]
  · simp [memberIs, h3, lemma_beq_self]
  · split <;> simp_all [memberIs, memberAbsent, lemma_beq_self]
  · split <;> simp_all [memberIs, memberAbsent, lemma_beq_self]
  · rw [List.all_eq_true]
    intro kv hkv
    by_cases hr : kv.1 ∈ reserved
    · simp [hr]
    · have hget : (marshalProblem p).get? kv.1 = some kv.2 := by
        apply lemma_get_unique
        · intro x hx hk
          have := lemma_nonreserved_member p x hx (by rw [hk]; exact hr)
          rw [lemma_pairwise_unique _ hnd x kv this hkv hk]
        · exact ⟨kv, by
            simp only [marshalProblemKvs, List.mem_append, List.mem_filter]
            right
            exact ⟨hkv, by simpa using hr⟩, rfl⟩
      simp [hget, lemma_beq_self]
  · simp only [marshalProblem, List.all_eq_true]
    intro x hx
    have hx' := (lemma_mem_sortKvs x _).mp hx
    by_cases hr : x.1 ∈ reserved
    · simp [hr]
    · have := lemma_nonreserved_member p x hx' hr
      simp only [Bool.or_eq_true, List.any_eq_true]
      right
      exact ⟨x, this, by simp⟩


/-! ### each formatter produces its documented shape, with the status it returns -/

theorem lemma_natBytes_ne (n : Nat) : (natBytes n).isEmpty = false := by
  unfold natBytes
  cases n with
  | zero => simp [natDigits]
  | succ m =>
    simp only [natDigits]
    split <;> simp

theorem rfc_shape (env : Env) (f : Fmt) (e : Err) :
    shapeOK .rfc9457 (formatRFC env f e).status (formatRFC env f e).body = true := by
  simp only [formatRFC]
  generalize hp : ({ type := determineType f e, title := env.stText (determineStatus f e), status := determineStatus f e,
      detail := msgOf env.stText e, instance_ := env.path, extensions := _ } : Problem) = p
  have hs : p.status = determineStatus f e := by rw [← hp]
  obtain ⟨h1, h2, h3, h4, h5⟩ := reserved_not_overridable p
  simp only [shapeOK, isStrAt, optStrAt, h1, h2, h3, h4, h5, hs, Bool.and_eq_true]
  refine ⟨rfl, ⟨⟨⟨⟨rfl, rfl⟩, ?_⟩, ?_⟩, by simp⟩⟩
  · split <;> simp_all
  · split <;> simp_all

/-- shape of one JSON:API error object -/
def IsApiErr (status : Bytes) (x : Json) : Prop := isObj x = true ∧ x.get? kStatus = some (.str status)

theorem lemma_apiErr (status title code detail : Bytes) (pointer : Option Bytes) (metaV : Option Json)
    (hs : status.isEmpty = false) : IsApiErr status (jsonAPIErrorJson status title code detail pointer metaV) := by
  have h1 : (kId == kStatus) = false := by decide
  have h2 : (kStatus == kStatus) = true := by decide
  refine ⟨rfl, ?_⟩
  simp [jsonAPIErrorJson, Json.get?, hs, List.find?_cons, h1, h2]

theorem lemma_fieldErr (status title errMsg : Bytes) (field : Json) (hs : status.isEmpty = false) :
    IsApiErr status (jsonAPIFieldError status title errMsg field) := by
  unfold jsonAPIFieldError
  simp only
  split <;> exact lemma_apiErr _ _ _ _ _ _ hs

theorem jsonapi_shape (env : Env) (f : Fmt) (e : Err) :
    shapeOK .jsonapi (formatJSONAPI env f e).status (formatJSONAPI env f e).body = true := by
  have hs := lemma_natBytes_ne (determineStatus f e)
  have hk : (kErrors == kErrors) = true := by decide
  simp only [formatJSONAPI, shapeOK, isObj, Json.get?, List.find?_cons, hk, Option.map_some, Bool.true_and,
    Bool.and_eq_true, List.all_eq_true]
  -- the list before the final emptiness guard
  generalize hL : (match asDetails e with
      | some det =>
        if (match det with
            | .arr xs => xs.map (jsonAPIFieldError (natBytes (determineStatus f e)) (env.stText (determineStatus f e)) (msgOf env.stText e))
            | _ => []).isEmpty = true then
          [jsonAPIErrorJson (natBytes (determineStatus f e)) (env.stText (determineStatus f e)) [] (msgOf env.stText e) none
            (some (.obj [(kDetails, det)]))]
        else
          (match det with
            | .arr xs => xs.map (jsonAPIFieldError (natBytes (determineStatus f e)) (env.stText (determineStatus f e)) (msgOf env.stText e))
            | _ => [])
      | none => [jsonAPIErrorJson (natBytes (determineStatus f e)) (env.stText (determineStatus f e)) ((asCode e).getD [])
          (msgOf env.stText e) none none]) = L
  have hall : ∀ x ∈ L, IsApiErr (natBytes (determineStatus f e)) x := by
    intro x hx
    rw [← hL] at hx
    split at hx
    · split at hx
      · simp only [List.mem_singleton] at hx; subst hx; exact lemma_apiErr _ _ _ _ _ _ hs
      · split at hx
        · simp only [List.mem_map] at hx
          obtain ⟨fld, _, rfl⟩ := hx
          exact lemma_fieldErr _ _ _ _ hs
        · cases hx
    · simp only [List.mem_singleton] at hx; subst hx; exact lemma_apiErr _ _ _ _ _ _ hs
  split
  · rename_i hemp
    refine ⟨by simp, ?_⟩
    intro x hx
    simp only [List.mem_singleton] at hx
    subst hx
    obtain ⟨a, b⟩ := lemma_apiErr (natBytes (determineStatus f e)) (env.stText (determineStatus f e)) [] (msgOf env.stText e) none none hs
    simp [a, b]
  · rename_i hne
    refine ⟨by simpa using hne, ?_⟩
    intro x hx
    obtain ⟨a, b⟩ := hall x hx
    simp [a, b]

/-- **JSON:API always has a non-empty errors array** — for every error value, also when `Details()`
    is an empty slice, `null`, or not a slice at all -/
theorem jsonapi_nonempty (env : Env) (f : Fmt) (e : Err) :
    ∃ x xs, (formatJSONAPI env f e).body.get? kErrors = some (.arr (x :: xs)) := by
  have := jsonapi_shape env f e
  simp only [shapeOK, Bool.and_eq_true] at this
  obtain ⟨_, h⟩ := this
  split at h
  · rename_i xs heq
    cases xs with
    | nil => simp at h
    | cons x xs => exact ⟨x, xs, heq⟩
  · cases h

theorem simple_shape (env : Env) (f : Fmt) (e : Err) :
    shapeOK .simple (formatSimple env f e).status (formatSimple env f e).body = true := by
  simp only [formatSimple, shapeOK, isObj, Bool.true_and, isStrAt]
  have : Json.get? kError (.obj (sortKvs ([(kError, .str (msgOf env.stText e))]
      ++ (match asDetails e with | some d => [(kDetails, d)] | none => [])
      ++ (match asCode e with | some c => [(kCode, .str c)] | none => [])))) = some (.str (msgOf env.stText e)) := by
    apply lemma_get_unique
    · intro x hx hk
      simp only [List.mem_append, List.mem_singleton] at hx
      rcases hx with (hx | hx) | hx
      · rw [hx]
      · split at hx
        · simp only [List.mem_singleton] at hx; subst hx; dsimp only at hk; exact absurd hk (by decide)
        · cases hx
      · split at hx
        · simp only [List.mem_singleton] at hx; subst hx; dsimp only at hk; exact absurd hk (by decide)
        · cases hx
    · exact ⟨_, by simp, rfl⟩
  rw [this]

theorem format_shape (env : Env) (f : Fmt) (e : Err) :
    shapeOK f.kind (format env f e).status (format env f e).body = true := by
  unfold format
  cases hk : f.kind with
  | rfc9457 => exact rfc_shape env f e
  | jsonapi => exact jsonapi_shape env f e
  | simple => exact simple_shape env f e

theorem format_status (env : Env) (f : Fmt) (e : Err) : (format env f e).status = determineStatus f e := by
  unfold format
  cases f.kind <;> rfl

/-- the media type of the `Content-Type` a formatter returns is the documented one -/
theorem format_media_type (env : Env) (f : Fmt) (e : Err) :
    headerMediaType (format env f e).contentType = mediaTypeOf f.kind := by
  unfold format
  cases f.kind
  · show headerMediaType ctRFC = _; decide
  · show headerMediaType ctJSONAPI = _; decide
  · show headerMediaType ctSimple = _; decide

end Rivaas.C06
