/- C02 — property theorems (stub: not built yet) -/
