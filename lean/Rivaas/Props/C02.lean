import Rivaas.Model.RouteOpts
import Rivaas.Spec.Chain
import Rivaas.Spec.Compose
import Rivaas.Lemmas.ChainSim
import Rivaas.Lemmas.ComposeSound
import Rivaas.Lemmas.ComposeMount
import Rivaas.Model.ComposeAsIs
/-
C02 — Handler chains run in composition order, once per position, and stop on abort.

The clauses about chain *execution* are safety properties, hence prefix closed: they are proved as
invariants of the small-step machine `Rivaas.Chain.step` that hold after **every** number of steps
(`run cfg progs n (start cfg progs)` for all `n`), for every chain, every handler program over the
whole act alphabet (Next, Next twice, Abort, cancel, write, return, nested calls, panics) and
both settings of the cancellation check. No fuel caveat, no termination argument.
-/
namespace Rivaas.C02
open Rivaas.Chain

/-! ### the positions entered so far -/

def entersOf (t : List Ev) : List Nat :=
  t.filterMap fun e => match e with | .enter k => some k | _ => none

theorem lemma_entersOf_append (a b : List Ev) : entersOf (a ++ b) = entersOf a ++ entersOf b := by
  simp [entersOf, List.filterMap_append]

@[simp] theorem lemma_entersOf_exit (t : List Ev) (k : Nat) : entersOf (t ++ [Ev.exit k]) = entersOf t := by
  simp [entersOf]

@[simp] theorem lemma_entersOf_unwound (t : List Ev) (k : Nat) : entersOf (t ++ [Ev.unwound k]) = entersOf t := by
  simp [entersOf]

@[simp] theorem lemma_entersOf_enter (t : List Ev) (k : Nat) : entersOf (t ++ [Ev.enter k]) = entersOf t ++ [k] := by
  simp [entersOf]

@[simp] theorem lemma_entersOf_pop (t : List Ev) (k : Nat) (fk : FK) : entersOf (t ++ popEv k fk) = entersOf t := by
  cases fk <;> simp [popEv]

@[simp] theorem lemma_write_trace (s : St) (c : Chunk) : (s.write c).trace = s.trace := rfl
@[simp] theorem lemma_write_idx (s : St) (c : Chunk) : (s.write c).idx = s.idx := rfl
@[simp] theorem lemma_write_stack (s : St) (c : Chunk) : (s.write c).stack = s.stack := rfl
@[simp] theorem lemma_write_aborted (s : St) (c : Chunk) : (s.write c).aborted = s.aborted := rfl
@[simp] theorem lemma_write_cancelled (s : St) (c : Chunk) : (s.write c).cancelled = s.cancelled := rfl

/-- unwinding a panic enters nothing and leaves the cursor alone -/
theorem lemma_unwind_enters (cfg : Cfg) (v : Nat) (st : List Frame) (s : St) :
    entersOf (unwind cfg v st s).trace = entersOf s.trace ∧ (unwind cfg v st s).idx = s.idx := by
  induction st generalizing s with
  | nil => simp [unwind]
  | cons f rest ih =>
    cases f with
    | loop => simpa [unwind] using ih s
    | fn k fk acts =>
      cases fk with
      | sub => simpa [unwind] using ih s
      | plain =>
        have := ih { s with trace := s.trace ++ [Ev.unwound k] }
        simpa [unwind] using this
      | recover => simp [unwind]

/-! ### every position is entered at most once -/

/-- enters are strictly increasing and bounded by the cursor `c.index` -/
def Inv (s : St) : Prop :=
  (entersOf s.trace).Pairwise (· < ·) ∧ ∀ k ∈ entersOf s.trace, (k : Int) ≤ s.idx

theorem lemma_loopHead_inv (cfg : Cfg) (progs : List Prog) (s : St)
    (h1 : (entersOf s.trace).Pairwise (· < ·)) (h2 : ∀ k ∈ entersOf s.trace, (k : Int) < s.idx) :
    Inv (loopHead cfg progs s) := by
  unfold loopHead
  split
  · split
    · exact ⟨h1, fun k hk => Int.le_of_lt (h2 k hk)⟩
    · constructor
      · show (entersOf (s.trace ++ [Ev.enter s.idx.toNat])).Pairwise (· < ·)
        rw [lemma_entersOf_enter, List.pairwise_append]
        refine ⟨h1, by simp, ?_⟩
        intro a ha b hb
        simp at hb
        subst hb
        have := h2 a ha
        omega
      · intro k hk
        have hk' : k ∈ entersOf s.trace ++ [s.idx.toNat] := by simpa using hk
        rw [List.mem_append] at hk'
        cases hk' with
        | inl h => exact Int.le_of_lt (h2 k h)
        | inr h => simp at h; subst h; show ((s.idx.toNat : Nat) : Int) ≤ s.idx; omega
  · exact ⟨h1, fun k hk => Int.le_of_lt (h2 k hk)⟩

theorem lemma_step_inv (cfg : Cfg) (progs : List Prog) (s : St) (h : Inv s) : Inv (step cfg progs s) := by
  obtain ⟨h1, h2⟩ := h
  unfold step
  split
  · exact ⟨h1, h2⟩
  · apply lemma_loopHead_inv
    · exact h1
    · intro k hk; have := h2 k hk; simp; omega
  · exact ⟨by simpa using h1, by simpa using h2⟩
  · split
    · exact ⟨by simpa using h1, by simpa using h2⟩
    · exact ⟨h1, h2⟩
    · exact ⟨h1, h2⟩
    · exact ⟨h1, h2⟩
    · unfold callNext
      apply lemma_loopHead_inv
      · exact h1
      · intro k hk; have := h2 k hk; simp; omega
    · exact ⟨h1, h2⟩
    · exact ⟨by rw [(lemma_unwind_enters _ _ _ _).1]; exact h1,
             by rw [(lemma_unwind_enters _ _ _ _).1, (lemma_unwind_enters _ _ _ _).2]; exact h2⟩

theorem lemma_run_inv (cfg : Cfg) (progs : List Prog) (n : Nat) (s : St) (h : Inv s) : Inv (run cfg progs n s) := by
  induction n generalizing s with
  | zero => exact h
  | succ n ih => exact ih _ (lemma_step_inv cfg progs s h)

theorem lemma_start_inv (cfg : Cfg) (progs : List Prog) : Inv (start cfg progs) := by
  unfold start callNext
  apply lemma_loopHead_inv <;> simp [init, entersOf]

/-- **Once per position.** On every prefix of every execution of every chain, no position is
    entered twice — however often handlers call `Next()`, also from nested calls, also after
    `Abort()`, also when panics unwind through the chain. -/
theorem enter_at_most_once (cfg : Cfg) (progs : List Prog) (n : Nat) :
    (entersOf (run cfg progs n (start cfg progs)).trace).Nodup := by
  have := (lemma_run_inv cfg progs n _ (lemma_start_inv cfg progs)).1
  exact this.imp (fun h => Nat.ne_of_lt h)

/-- **Composition order.** Positions are entered in increasing order: position `j` never starts
    before position `i < j` has started (and by `enter_at_most_once` never again afterwards). -/
theorem enters_increasing (cfg : Cfg) (progs : List Prog) (n : Nat) :
    (entersOf (run cfg progs n (start cfg progs)).trace).Pairwise (· < ·) :=
  (lemma_run_inv cfg progs n _ (lemma_start_inv cfg progs)).1

/-! ### nothing starts after `Abort()` — or after the request context was cancelled while the
    cancellation check is on -/

theorem lemma_unwind_stopped (cfg : Cfg) (v : Nat) (st : List Frame) (s : St) (h : s.stopped cfg = true) :
    (unwind cfg v st s).stopped cfg = true := by
  induction st generalizing s with
  | nil => simpa [unwind, St.stopped] using h
  | cons f rest ih =>
    cases f with
    | loop => simpa [unwind] using ih s h
    | fn k fk acts =>
      cases fk with
      | sub => simpa [unwind] using ih s h
      | plain => exact ih _ (by simpa [St.stopped] using h)
      | recover =>
        simp only [unwind, St.stopped, lemma_write_aborted, lemma_write_cancelled] at h ⊢
        cases ha : s.aborted <;> simp_all

theorem lemma_loopHead_stopped (cfg : Cfg) (progs : List Prog) (s : St) (h : s.stopped cfg = true) :
    (loopHead cfg progs s).stopped cfg = true ∧ entersOf (loopHead cfg progs s).trace = entersOf s.trace := by
  unfold loopHead
  split
  · simp [h]
  · exact ⟨h, rfl⟩

theorem lemma_step_stopped (cfg : Cfg) (progs : List Prog) (s : St) (h : s.stopped cfg = true) :
    (step cfg progs s).stopped cfg = true ∧ entersOf (step cfg progs s).trace = entersOf s.trace := by
  unfold step
  split
  · exact ⟨h, rfl⟩
  · have := lemma_loopHead_stopped cfg progs { s with idx := s.idx + 1, stack := ‹List Frame› }
      (by simpa [St.stopped] using h)
    simpa using this
  · exact ⟨by simpa [St.stopped] using h, by simp⟩
  · split
    · exact ⟨by simpa [St.stopped] using h, by simp⟩
    · exact ⟨by simp [St.stopped], rfl⟩
    · refine ⟨?_, rfl⟩
      simp only [St.stopped] at h ⊢
      cases ha : s.aborted <;> simp_all
    · exact ⟨by simpa [St.stopped] using h, rfl⟩
    · unfold callNext
      have := lemma_loopHead_stopped cfg progs
        { s with idx := s.idx + 1, stack := Frame.fn ‹Nat› ‹FK› ‹List Act› :: ‹List Frame› }
        (by simpa [St.stopped] using h)
      simpa using this
    · exact ⟨by simpa [St.stopped] using h, rfl⟩
    · exact ⟨lemma_unwind_stopped cfg _ _ s h, (lemma_unwind_enters cfg _ _ s).1⟩

/-- **Stop on abort / cancel.** Once the chain is aborted — or the request context is cancelled
    while cancellation checks are on — no position that has not started is ever started: the
    set of entered positions is frozen for every number of further steps, from *any* machine
    state (in particular from every reachable one). -/
theorem no_start_after_stop (cfg : Cfg) (progs : List Prog) (m : Nat) (s : St) (h : s.stopped cfg = true) :
    entersOf (run cfg progs m s).trace = entersOf s.trace := by
  induction m generalizing s with
  | zero => rfl
  | succ m ih =>
    obtain ⟨h1, h2⟩ := lemma_step_stopped cfg progs s h
    simp only [run]
    rw [ih _ h1, h2]

/-- the two halves of the statement's wording, as instances of `no_start_after_stop` -/
theorem no_start_after_abort (cfg : Cfg) (progs : List Prog) (m : Nat) (s : St) (h : s.aborted = true) :
    entersOf (run cfg progs m s).trace = entersOf s.trace :=
  no_start_after_stop cfg progs m s (by simp [St.stopped, h])

theorem no_start_after_cancel (cfg : Cfg) (progs : List Prog) (m : Nat) (s : St)
    (hc : cfg.check = true) (h : s.cancelled = true) :
    entersOf (run cfg progs m s).trace = entersOf s.trace :=
  no_start_after_stop cfg progs m s (by simp [St.stopped, h, hc])

/-- non-vacuity: the hypothesis is reachable — `[Abort; Next]` at position 1 of a 3-chain leaves the
    machine aborted after three steps, positions 0 and 1 entered, and position 2 is never entered -/
example :
    let progs : List Prog := [{ acts := [.next] }, { acts := [.abort, .next] }, { acts := [.write] }]
    (run {} progs 3 (start {} progs)).aborted = true ∧
    entersOf (run {} progs 3 (start {} progs)).trace = [0, 1] ∧
    entersOf (run {} progs 30 (start {} progs)).trace = [0, 1] := by decide

/-- non-vacuity for cancellation, and the check really matters: with the check off the chain goes on -/
example :
    let progs : List Prog := [{ acts := [.cancel, .next] }, { acts := [.write] }]
    entersOf (run { check := true } progs 30 (start { check := true } progs)).trace = [0] ∧
    entersOf (run { check := false } progs 30 (start { check := false } progs)).trace = [0, 1] := by decide

/-! ### code after `Next()` runs after all later positions have returned, in reverse order -/

/-- positions of the handler activations on the machine stack, innermost first -/
def openFrames : List Frame → List Nat
  | [] => []
  | Frame.fn _ .sub _ :: rest => openFrames rest
  | Frame.fn k _ _ :: rest => k :: openFrames rest
  | Frame.loop :: rest => openFrames rest

/-- replay a trace against a bracket stack: `enter` opens, `exit` / `unwound` must close the
    innermost open position -/
def replay : List Ev → List Nat → Option (List Nat)
  | [], st => some st
  | Ev.enter k :: t, st => replay t (k :: st)
  | Ev.exit k :: t, st => match st with
    | k' :: st' => if k = k' then replay t st' else none
    | [] => none
  | Ev.unwound k :: t, st => match st with
    | k' :: st' => if k = k' then replay t st' else none
    | [] => none

theorem lemma_replay_append (a b : List Ev) (st : List Nat) :
    replay (a ++ b) st = (replay a st).bind (replay b) := by
  induction a generalizing st with
  | nil => simp [replay]
  | cons e t ih =>
    cases e with
    | enter k => simp [replay, ih]
    | exit k =>
      cases st with
      | nil => simp [replay]
      | cons k' st' =>
        by_cases hk : k = k'
        · simp [replay, hk, ih]
        · simp [replay, hk]
    | unwound k =>
      cases st with
      | nil => simp [replay]
      | cons k' st' =>
        by_cases hk : k = k'
        · simp [replay, hk, ih]
        · simp [replay, hk]

def Bracketed (s : St) : Prop := replay s.trace [] = some (openFrames s.stack)

theorem lemma_loopHead_bracketed (cfg : Cfg) (progs : List Prog) (s : St) (h : Bracketed s) :
    Bracketed (loopHead cfg progs s) := by
  unfold loopHead
  split
  · split
    · exact h
    · unfold Bracketed at *
      have hfk : ∀ p : Prog, p.fk ≠ FK.sub := by intro p; unfold Prog.fk; split <;> simp
      generalize hp : (progs.getD s.idx.toNat default) = p
      have := hfk p
      cases hq : p.fk <;> simp_all [lemma_replay_append, replay, openFrames]
  · exact h

theorem lemma_unwind_bracketed (cfg : Cfg) (v : Nat) (st : List Frame) (s : St)
    (h : replay s.trace [] = some (openFrames st)) : Bracketed (unwind cfg v st s) := by
  induction st generalizing s with
  | nil => simpa [unwind, Bracketed, openFrames] using h
  | cons f rest ih =>
    cases f with
    | loop => exact ih s (by simpa [openFrames] using h)
    | fn k fk acts =>
      cases fk with
      | sub => exact ih s (by simpa [openFrames] using h)
      | plain =>
        apply ih
        simp only [lemma_replay_append, h, openFrames, Option.bind_some, replay, if_true]
      | recover => simpa [unwind, Bracketed, openFrames] using h

theorem lemma_openFrames_pop (k : Nat) (fk : FK) (acts : List Act) (rest : List Frame) (t : List Ev)
    (h : replay t [] = some (openFrames (Frame.fn k fk acts :: rest))) :
    replay (t ++ popEv k fk) [] = some (openFrames rest) := by
  cases fk <;> simp_all [lemma_replay_append, replay, openFrames, popEv]

theorem lemma_openFrames_acts (k : Nat) (fk : FK) (a b : List Act) (rest : List Frame) :
    openFrames (Frame.fn k fk a :: rest) = openFrames (Frame.fn k fk b :: rest) := by
  cases fk <;> simp [openFrames]

theorem lemma_step_bracketed (cfg : Cfg) (progs : List Prog) (s : St) (h : Bracketed s) :
    Bracketed (step cfg progs s) := by
  unfold step
  split
  · exact h
  · rename_i rest hst
    apply lemma_loopHead_bracketed
    unfold Bracketed at *
    simpa [hst, openFrames] using h
  · rename_i k fk rest hst
    unfold Bracketed at *
    rw [hst] at h
    exact lemma_openFrames_pop k fk [] rest s.trace h
  · rename_i k fk a as rest hst
    unfold Bracketed at h
    rw [hst] at h
    have h' : replay s.trace [] = some (openFrames (Frame.fn k fk as :: rest)) := by
      rw [h, lemma_openFrames_acts]
    split
    · exact lemma_openFrames_pop k fk _ rest s.trace h
    · exact h'
    · exact h'
    · exact h'
    · unfold callNext
      apply lemma_loopHead_bracketed
      exact h'
    · show replay s.trace [] = some (openFrames (Frame.fn k FK.sub _ :: Frame.fn k fk as :: rest))
      simpa [openFrames] using h'
    · exact lemma_unwind_bracketed cfg _ _ s h'

/-- **Reverse exits.** Every prefix of every execution is a prefix of a well-bracketed word whose
    open brackets are exactly the handler activations on the stack: a handler's `exit` (the code
    it placed after `Next()`) comes after the `exit`s of all positions entered after it — in
    reverse order of the enters — and when the chain has finished (`stack = []`) the trace is
    balanced. A panic closes the brackets it unwinds through (`unwound`) in the same order. -/
theorem exits_reverse (cfg : Cfg) (progs : List Prog) (n : Nat) :
    replay (run cfg progs n (start cfg progs)).trace [] =
      some (openFrames (run cfg progs n (start cfg progs)).stack) := by
  have h0 : Bracketed (start cfg progs) := by
    unfold start callNext
    apply lemma_loopHead_bracketed
    simp [Bracketed, init, replay, openFrames]
  have : ∀ (m : Nat) (s : St), Bracketed s → Bracketed (run cfg progs m s) := by
    intro m
    induction m with
    | zero => intro s h; exact h
    | succ m ih => intro s h; exact ih _ (lemma_step_bracketed cfg progs s h)
  exact this n _ h0

/-- corollary: a finished request has a balanced trace -/
theorem finished_balanced (cfg : Cfg) (progs : List Prog) (n : Nat)
    (h : (run cfg progs n (start cfg progs)).stack = []) :
    replay (run cfg progs n (start cfg progs)).trace [] = some [] := by
  rw [exits_reverse, h]; rfl

/-- non-vacuity: a chain that finishes, with nested `Next`, and its balanced trace -/
example :
    let progs : List Prog := [{ acts := [.next, .write] }, { acts := [.call [.next, .ret], .next] }, { acts := [] }]
    (run {} progs 30 (start {} progs)).stack = [] ∧
    (run {} progs 30 (start {} progs)).trace = [.enter 0, .enter 1, .enter 2, .exit 2, .exit 1, .exit 0] := by decide

/-! ### the machine computes exactly what the reference interpreter says -/

theorem lemma_start_mk (cfg : Cfg) (progs : List Prog) :
    start cfg progs = loopHead cfg progs (mk {} (0 : Nat) []) := rfl

/-- **Machine trace = reference interpreter** (the statement's quantifier, as a theorem about the
    model). For every chain and every handler program over the whole alphabet — including panics,
    with the repaired recovery — the machine halts, and its final trace, abort/cancel flags,
    status, body and escaped panic are exactly those of the suffix-recursive reference
    interpreter `Rivaas.Chain.ref`, which has no index, no stack and no fuel. -/
theorem run_eq_ref (cfg : Cfg) (hab : cfg.abortOnRecover = true) (progs : List Prog) :
    ∃ n, (run cfg progs n (start cfg progs)).stack = [] ∧
         proj (run cfg progs n (start cfg progs)) = (ref cfg.check progs).1 ∧
         (run cfg progs n (start cfg progs)).escaped = (ref cfg.check progs).2 := by
  have h := chainSim cfg progs hab progs 0 (by simp) {} []
  rw [lemma_start_mk]
  unfold ref
  revert h
  rcases refChain cfg.check 0 progs {} with ⟨r', _ | v⟩
  · rintro ⟨n, i', h1, _, _⟩
    exact ⟨n, by rw [h1]; rfl, by rw [h1]; rfl, by rw [h1]; rfl⟩
  · rintro ⟨n, i', h1, _⟩
    exact ⟨n, by rw [h1]; rfl, by rw [h1]; rfl, by rw [h1]; rfl⟩

/-- every request terminates: the machine reaches the empty stack -/
theorem halts (cfg : Cfg) (hab : cfg.abortOnRecover = true) (progs : List Prog) :
    ∃ n, (run cfg progs n (start cfg progs)).stack = [] := by
  obtain ⟨n, h, _⟩ := run_eq_ref cfg hab progs
  exact ⟨n, h⟩

/-- what the driver evaluates (`exec` = `run` with the fuel bound `fuel progs`): whenever it ends
    with an empty stack — which the driver checks on every case — its result *is* the reference
    interpreter's, so fuel can never make a case agree for the wrong reason. -/
theorem exec_eq_ref (cfg : Cfg) (hab : cfg.abortOnRecover = true) (progs : List Prog)
    (hfin : (exec cfg progs).stack = []) :
    proj (exec cfg progs) = (ref cfg.check progs).1 ∧ (exec cfg progs).escaped = (ref cfg.check progs).2 := by
  obtain ⟨n, h1, h2, h3⟩ := run_eq_ref cfg hab progs
  have heq : exec cfg progs = run cfg progs n (start cfg progs) := by
    unfold exec at *
    rcases Nat.le_total n (fuel progs) with hle | hle
    · obtain ⟨d, hd⟩ := Nat.exists_eq_add_of_le hle
      rw [hd, run_add, run_halted cfg progs d _ h1]
    · obtain ⟨d, hd⟩ := Nat.exists_eq_add_of_le hle
      rw [hd, run_add, run_halted cfg progs d _ hfin]
  rw [heq]
  exact ⟨h2, h3⟩

/-- non-vacuity of `exec_eq_ref`'s hypothesis, on a chain that exercises Next twice, nested Next,
    Abort after Next and a panic caught by an inner recovering handler -/
example :
    let progs : List Prog := [{ acts := [.next, .next, .abort] }, { recovers := true, acts := [.call [.next, .ret], .write] },
                             { acts := [.write, .panic 1] }, { acts := [.write] }]
    (exec {} progs).stack = [] ∧
    (exec {} progs).trace = [.enter 0, .enter 1, .enter 2, .unwound 2, .exit 1, .exit 0] ∧
    (exec {} progs).body = [.h 2, .rec500] := by decide

/-! ### composition: the recorded and the repaired defect -/

open Rivaas.Compose in
/-- K02 as shipped (`Rivaas.ComposeAsIs`: `app.Group` kept the caller's slice): two sibling groups
    built from one slice `mws[:1]` with capacity 2, `Use(2)` on the first, `Use(3)` on the second —
    the first group's route runs `[1, 3, 4]`: the *sibling's* middleware 3 instead of its own 2.
    The repaired model (`compose`) gives `[1, 2, 4]`, and only that is admitted by the oracle.
    Replayed on the real code by corpus/C02/witnesses.case. -/
theorem asis_sibling_alias :
    let script : List Op := [.agroup 1 [1] 1 2, .agroup 2 [1] 1 2, .aguse 0 [2], .aguse 1 [3],
                             .aroute (.agroup 0) 3 [] 4 [], .aroute (.agroup 1) 4 [] 5 []]
    let tg : Target := { mounts := [], route := 4 }
    ComposeAsIs.composeAsIs script [1, 3] = some [1, 3, 4] ∧
    compose script none [1, 3] = some [1, 2, 4] ∧
    chainOK script tg [1, 3, 4] = false ∧ chainOK script tg [1, 2, 4] = true := by decide

open Rivaas.Compose in
/-- K02b (fixed): `sub.Warmup()` before `Mount` — as shipped `Mount` read the sub-router's tree nodes, which
    already carry its middleware 2, and prepended it again: `[1, 2, 2, 3]`; the oracle rejects that chain and
    admits `[1, 2, 3]`, which is what the repaired `Mount` (from the `route.Route` objects) composes. The
    classifier `dK02b` names the inputs on which the as-shipped code failed. -/
theorem warmed_mount_doubles_witness :
    let script : List Op := [.newRouter, .use 0 [1], .use 1 [2], .route (.router 1) 1 [3], .warmup 1,
                             .mount 0 1 2 false []]
    let tg : Target := { mounts := [5], route := 3 }
    Rivaas.ComposeAsIs.composeMountAsIs script none [2, 1] = some [1, 2, 2, 3] ∧
    chainOK script tg [1, 2, 2, 3] = false ∧ chainOK script tg [1, 2, 3] = true ∧ dK02b script tg = true ∧
    compose script none [2, 1] = some [1, 2, 3] := by decide

open Rivaas.Compose in
/-- the same mount without the early warm-up composes in the documented order, with the
    test-pinned second run of the parent's middleware under `InheritMiddleware` -/
theorem mount_order_example :
    let script : List Op := [.newRouter, .use 0 [1], .use 1 [2], .route (.router 1) 1 [3],
                             .mount 0 1 2 true [4]]
    let tg : Target := { mounts := [4], route := 3 }
    compose script none [2, 1] = some [1, 1, 2, 4, 3] ∧ chainOK script tg [1, 1, 2, 4, 3] = true ∧
    dK02b script tg = false := by decide

/-! ### composition order and isolation, for all scripts without `Mount` -/

open Rivaas.Compose in
/-- **Composition order + isolation (partial: scripts without `Mount`).** For every well-formed
    configuration script (`Compose.WF`: references point to objects that exist, route segments are
    distinct) built from `Use`, `Group`, nested `Group`, `Group.Use`, `Version`, version groups,
    explicit `Warmup`, further routers and the whole app layer (`app.Use`, `app.Group` and nested
    groups with `Use`, `app.Version` groups with `Use`/`Group`, `WithBefore`/`WithAfter`), and every
    route declared on the serving router: the handler slice the model composes **exists** and is
    **admitted by the oracle** — router-global middleware first, then the groups from the outermost
    to the innermost, then the route's own handlers (before, handler, after); every middleware
    attached to an enclosing scope before the route (or nested scope) was declared is present, in
    attach order; nothing attached to any other group, version group or route occurs.
    This is the mount-free special case (proved first, kept); `compose_admitted_mounts` below is the general
    theorem, `Mount` included. -/
theorem compose_admitted_mountfree (script : List Op) (hnm : NoMount script) (hwf : WF script) (i : Nat)
    (ver : Option Nat) (path : Path) (ls : List Level)
    (hl : levels script { mounts := [], route := i } = some (ver, path, ls)) :
    ∃ chain, compose script ver path = some chain ∧ chainOK script { mounts := [], route := i } chain = true := by
  obtain ⟨chain, h1, h2⟩ := compose_admitted_nomount script hnm hwf i ver path ls hl
  exact ⟨chain, h1, by simp [chainOK, hl, h2]⟩


open Rivaas.Compose in
/-- the same with the Boolean checks the driver evaluates on every generated case (`wfB` is a
    precondition for the driver to judge a case at all, so the hypothesis of the theorem holds on
    the whole tested population without `Mount`) -/
theorem compose_admitted_checked (script : List Op) (hnm : noMountB script = true) (hwf : wfB script = true)
    (i : Nat) (ver : Option Nat) (path : Path) (ls : List Level)
    (hl : levels script { mounts := [], route := i } = some (ver, path, ls)) :
    ∃ chain, compose script ver path = some chain ∧ chainOK script { mounts := [], route := i } chain = true :=
  compose_admitted_mountfree script (noMount_of_noMountB script hnm) (wf_of_wfB script hwf) i ver path ls hl

open Rivaas.Compose in
/-- non-vacuity: a script with global `Use` before and after the route, a nested group created
    before its parent's later `Use`, `Group.Use` before and after the route, an explicit warm-up and
    an app version group — well-formed, mount-free, the route resolves, and the composed chain is
    `[1, 2, 3, 5, 6]` (7 was attached to the parent after the child existed, 8 and 9 after warm-up) -/
example :
    let script : List Op := [.use 0 [1], .group 0 1 [2], .subgroup 0 2 [3], .guse 0 [7], .guse 1 [5],
                             .route (.group 1) 3 [6], .warmup 0, .guse 1 [8], .use 0 [9], .aversion 1, .avuse 0 [10],
                             .aroute (.avgroup 0) 4 [11] 12 [13]]
    noMountB script = true ∧ noWhereB script = true ∧ wfB script = true ∧
    (levels script { mounts := [], route := 5 }).isSome = true ∧
    compose script none [1, 2, 3] = some [1, 2, 3, 5, 6] ∧
    compose script (some 1) [4] = some [1, 9, 10, 11, 12, 13] := by decide


/-! ### composition order and isolation through `Mount` -/

open Rivaas.Compose in
/-- **Composition order + isolation, `Mount` included — full strength.** For every well-formed configuration
    script (`wfB`) — `Warmup` of any router at any time, also of a sub-router before it is mounted (the code after
    the K02b fix), `Where…` on registered routes (re-registration with the middleware of that moment) included —,
    and every route reachable on the serving router through any nesting of mounts (`levels script tg` resolves):
    the handler slice the model composes exists and is admitted by the oracle — the serving router's global
    middleware, then per mount (outermost first) the parent's middleware again under `InheritMiddleware`
    (test-pinned), the sub-router's middleware, the `WithMiddleware` extras, then the groups from the outermost to
    the innermost, then the route's own handlers; everything attached to an enclosing scope before the route (or
    the nested scope, or the mount) came into being is present, in attach order; nothing from any scope outside
    occurs. Generalises `compose_admitted_mountfree`. -/
theorem compose_admitted_mounts (script : List Op) (hwf : wfB script = true)
    (tg : Target) (ver : Option Nat) (path : Path) (ls : List Level)
    (hl : levels script tg = some (ver, path, ls)) :
    ∃ chain, compose script ver path = some chain ∧ chainOK script tg chain = true := by
  obtain ⟨chain, h1, h2⟩ := compose_admitted_mount script (wfm_of_wfB script hwf) tg ver path ls hl
  exact ⟨chain, h1, by simp [chainOK, hl, h2]⟩

open Rivaas.Compose in
/-- non-vacuity with early warm-ups: router 2 is warmed up, gets more middleware and a further route, is mounted
    into router 1, which is warmed up before it is mounted into the serving router — well-formed, not cold, both
    targets resolve, every middleware exactly once -/
example :
    let script : List Op := [.newRouter, .newRouter, .use 0 [1], .use 1 [2], .use 2 [3], .route (.router 2) 1 [5],
                             .warmup 2, .use 2 [6], .route (.router 2) 2 [7], .mount 1 2 3 false [8], .warmup 1,
                             .mount 0 1 4 true []]
    wfB script = true ∧ subsColdB script = false ∧
    (levels script { mounts := [11, 9], route := 5 }).isSome = true ∧
    compose script none [4, 3, 1] = some [1, 1, 2, 3, 6, 8, 5] ∧
    chainOK script { mounts := [11, 9], route := 5 } [1, 1, 2, 3, 6, 8, 5] = true ∧
    compose script none [4, 3, 2] = some [1, 1, 2, 3, 6, 8, 7] ∧
    chainOK script { mounts := [11, 9], route := 8 } [1, 1, 2, 3, 6, 8, 7] = true := by decide

open Rivaas.Compose in
/-- non-vacuity: a route declared in a group of router 2, router 2 mounted into router 1 (with
    extras), router 1 mounted into the serving router with `InheritMiddleware`; middleware attached
    to every router before and after — well-formed, cold, the target resolves, and the chain is
    global 1,9 · inherited 1 · router-1 middleware 2 · (inner mount:) router-2 middleware 3 · extra 7 ·
    group 4 · handler 5 (8 was attached to router 2 after its mount, 9 to the serving router after) -/
example :
    let script : List Op := [.newRouter, .newRouter, .use 0 [1], .use 1 [2], .use 2 [3], .group 2 1 [4],
                             .route (.group 0) 2 [5], .mount 1 2 3 false [7], .use 2 [8], .mount 0 1 4 true [], .use 0 [9]]
    let tg : Target := { mounts := [9, 7], route := 6 }
    wfB script = true ∧ subsColdB script = true ∧ noWhereB script = true ∧ (levels script tg).isSome = true ∧
    compose script none [4, 3, 1, 2] = some [1, 9, 1, 2, 3, 7, 4, 5] ∧
    chainOK script tg [1, 9, 1, 2, 3, 7, 4, 5] = true := by decide


open Rivaas.Compose in
/-- `Where…` after warm-up (covered by the ∀-theorems; a concrete instance): `Use(1)`, route, `Warmup()`, `WhereInt`,
    `Use(3)`, `WhereInt` again — each re-registration takes the global middleware of that moment
    exactly once: `[1, 3, 2]`, admitted by the oracle (3 is "attached later": may). A registration that
    stored its result back into the route would give `[1, 3, 1, 1, 2]` — rejected. -/
theorem where_after_warmup_example :
    let script : List Op := [.use 0 [1], .route (.router 0) 1 [2], .warmup 0, .whereOp 0 none [1], .use 0 [3],
                             .whereOp 0 none [1]]
    let tg : Target := { mounts := [], route := 1 }
    wfB script = true ∧ subsColdB script = true ∧ noMountB script = true ∧ (levels script tg).isSome = true ∧
    compose script none [1] = some [1, 3, 2] ∧ chainOK script tg [1, 3, 2] = true ∧
    chainOK script tg [1, 3, 1, 1, 2] = false := by decide


/-! ## per-route options of the app layer (`app/route_option.go`) -/
section RouteOptions
open Rivaas.RouteOpts

mutual
  theorem lemma_apply_lists (c : RouteConfig) (o : ROpt) :
      (apply c o).before = c.before ++ listedBefore o ∧ (apply c o).after = c.after ++ listedAfter o := by
    cases o with
    | before hs => simp [apply, listedBefore, listedAfter]
    | after hs => simp [apply, listedBefore, listedAfter]
    | doc => simp [apply, listedBefore, listedAfter]
    | set opts =>
      have := lemma_applyAll_lists c opts
      simpa [apply, listedBefore, listedAfter] using this
  theorem lemma_applyAll_lists (c : RouteConfig) (os : List ROpt) :
      (applyAll c os).before = c.before ++ listedBeforeAll os ∧ (applyAll c os).after = c.after ++ listedAfterAll os := by
    cases os with
    | nil => simp [applyAll, listedBeforeAll, listedAfterAll]
    | cons o os =>
      have h1 := lemma_apply_lists c o
      have h2 := lemma_applyAll_lists (apply c o) os
      simp [applyAll, listedBeforeAll, listedAfterAll, h2.1, h2.2, h1.1, h1.2, List.append_assoc]
end

/-- **Per-route options.** However the before / after handlers of an app route are spelled — one option, several
    in a row, reusable sets, sets inside sets, documentation options in between — the route's chain is the listed
    before-handlers in the order written, the handler, the listed after-handlers in the order written. -/
theorem route_options_in_listed_order (handler : Nat) (opts : List ROpt) :
    chain handler opts = listedBeforeAll opts ++ [handler] ++ listedAfterAll opts := by
  have := lemma_applyAll_lists {} opts
  simp [chain, this.1, this.2]

example :
    chain 9 [.before [1], .set [.before [2], .doc, .set [.after [5], .before [3]]], .after [6], .before [4]] =
      [1, 2, 3, 4, 9, 5, 6] := by decide
end RouteOptions

end Rivaas.C02
