import Rivaas.Model.Bind
import Rivaas.Model.BindAsIs
import Rivaas.Spec.Bind
/-
C04 — Request binding is faithful, total and bounded. Property theorems.
-/
namespace Rivaas.C04
open Rivaas Rivaas.Bind

/-! ## 1. Index paths of flattened (promoted) fields are faithful — every embedding depth -/

/-- `reflect.Type.FieldByIndex`: follow an index path through struct and pointer-to-struct fields -/
def fieldAt : List Fld → List Nat → Option Fld
  | _, [] => none
  | fs, [i] => fs[i]?
  | fs, i :: j :: rest =>
    match fs[i]? with
    | some (_, t) =>
      match structFields? t with
      | some fs' => fieldAt fs' (j :: rest)
      | none => none
    | none => none

theorem lemma_mkInfo {P : Params} {tag : Tag} {idx : List Nat} {h : FieldHdr} {t : Ty} {f : FieldInfo}
    (hm : f ∈ (mkInfo P tag idx h t).toList) : f.index = idx ∧ f.ty = t ∧ f.name = h.name ∧ f.dflt = h.dflt := by
  unfold mkInfo at hm
  simp only at hm
  split at hm
  · simp at hm
  · split at hm
    · simp at hm
    · simp only [Option.toList_some, List.mem_singleton] at hm
      subst hm
      simp

/-- what a flattened entry must satisfy relative to the field list `all` it was produced from -/
def Faithful (all : List Fld) (q : List Nat) (f : FieldInfo) : Prop :=
  ∃ h t, fieldAt all q = some (h, t) ∧ f.ty = t ∧ f.name = h.name ∧ f.dflt = h.dflt

theorem lemma_fieldAt_cons {all : List Fld} {i : Nat} {h : FieldHdr} {t : Ty} {fs' : List Fld} {q : List Nat}
    (h0 : all[i]? = some (h, t)) (hs : structFields? t = some fs') (hq : q ≠ []) :
    fieldAt all (i :: q) = fieldAt fs' q := by
  cases q with
  | nil => exact absurd rfl hq
  | cons j r => simp [fieldAt, h0, hs]

mutual
theorem lemma_flattenFld (P : Params) (tag : Tag) (pre : List Nat) (i : Nat) (h : FieldHdr) :
    ∀ (t : Ty) (f : FieldInfo), f ∈ flattenFld P tag pre i h t →
      ∃ q, q ≠ [] ∧ f.index = pre ++ q ∧ ∀ all : List Fld, all[i]? = some (h, t) → Faithful all q f
  | .struct fs, f, hf => by
    unfold flattenFld at hf
    split at hf
    · simp at hf
    · split at hf
      · obtain ⟨q, hq0, hq, hall⟩ := lemma_flattenFs P tag (pre ++ [i]) 0 fs f hf
        refine ⟨i :: q, by simp, by simp [hq], ?_⟩
        intro all h0
        have := hall fs (fun k => by simp)
        unfold Faithful at *
        rw [lemma_fieldAt_cons (fs' := fs) h0 (by simp [structFields?]) hq0]
        exact this
      · obtain ⟨h1, h2, h3, h4⟩ := lemma_mkInfo hf
        refine ⟨[i], by simp, h1, ?_⟩
        intro all h0
        exact ⟨h, _, by simp [fieldAt, h0], h2, h3, h4⟩
  | .ptr (.struct fs), f, hf => by
    unfold flattenFld at hf
    split at hf
    · simp at hf
    · split at hf
      · obtain ⟨q, hq0, hq, hall⟩ := lemma_flattenFs P tag (pre ++ [i]) 0 fs f hf
        refine ⟨i :: q, by simp, by simp [hq], ?_⟩
        intro all h0
        have := hall fs (fun k => by simp)
        unfold Faithful at *
        rw [lemma_fieldAt_cons (fs' := fs) h0 (by simp [structFields?]) hq0]
        exact this
      · obtain ⟨h1, h2, h3, h4⟩ := lemma_mkInfo hf
        refine ⟨[i], by simp, h1, ?_⟩
        intro all h0
        exact ⟨h, _, by simp [fieldAt, h0], h2, h3, h4⟩
  | .prim p, f, hf => by
    simp only [flattenFld] at hf
    split at hf
    · simp at hf
    · obtain ⟨h1, h2, h3, h4⟩ := lemma_mkInfo hf
      exact ⟨[i], by simp, h1, fun all h0 => ⟨h, _, by simp [fieldAt, h0], h2, h3, h4⟩⟩
  | .slice e, f, hf => by
    simp only [flattenFld] at hf
    split at hf
    · simp at hf
    · obtain ⟨h1, h2, h3, h4⟩ := lemma_mkInfo hf
      exact ⟨[i], by simp, h1, fun all h0 => ⟨h, _, by simp [fieldAt, h0], h2, h3, h4⟩⟩
  | .map e, f, hf => by
    simp only [flattenFld] at hf
    split at hf
    · simp at hf
    · obtain ⟨h1, h2, h3, h4⟩ := lemma_mkInfo hf
      exact ⟨[i], by simp, h1, fun all h0 => ⟨h, _, by simp [fieldAt, h0], h2, h3, h4⟩⟩
  | .ptr (.prim p), f, hf => by
    simp only [flattenFld] at hf
    split at hf
    · simp at hf
    · obtain ⟨h1, h2, h3, h4⟩ := lemma_mkInfo hf
      exact ⟨[i], by simp, h1, fun all h0 => ⟨h, _, by simp [fieldAt, h0], h2, h3, h4⟩⟩
  | .ptr (.ptr e), f, hf => by
    simp only [flattenFld] at hf
    split at hf
    · simp at hf
    · obtain ⟨h1, h2, h3, h4⟩ := lemma_mkInfo hf
      exact ⟨[i], by simp, h1, fun all h0 => ⟨h, _, by simp [fieldAt, h0], h2, h3, h4⟩⟩
  | .ptr (.slice e), f, hf => by
    simp only [flattenFld] at hf
    split at hf
    · simp at hf
    · obtain ⟨h1, h2, h3, h4⟩ := lemma_mkInfo hf
      exact ⟨[i], by simp, h1, fun all h0 => ⟨h, _, by simp [fieldAt, h0], h2, h3, h4⟩⟩
  | .ptr (.map e), f, hf => by
    simp only [flattenFld] at hf
    split at hf
    · simp at hf
    · obtain ⟨h1, h2, h3, h4⟩ := lemma_mkInfo hf
      exact ⟨[i], by simp, h1, fun all h0 => ⟨h, _, by simp [fieldAt, h0], h2, h3, h4⟩⟩
theorem lemma_flattenFs (P : Params) (tag : Tag) (pre : List Nat) :
    ∀ (i : Nat) (fs : List Fld) (f : FieldInfo), f ∈ flattenFs P tag pre i fs →
      ∃ q, q ≠ [] ∧ f.index = pre ++ q ∧ ∀ all : List Fld, (∀ k, all[i + k]? = fs[k]?) → Faithful all q f
  | _, [], f, hf => by simp [flattenFs] at hf
  | i, (h, t) :: rest, f, hf => by
    simp only [flattenFs, List.mem_append] at hf
    rcases hf with hf | hf
    · obtain ⟨q, hq0, hq, hall⟩ := lemma_flattenFld P tag pre i h t f hf
      exact ⟨q, hq0, hq, fun all ha => hall all (by simpa using ha 0)⟩
    · obtain ⟨q, hq0, hq, hall⟩ := lemma_flattenFs P tag pre (i+1) rest f hf
      refine ⟨q, hq0, hq, fun all ha => hall all (fun k => ?_)⟩
      have := ha (k+1)
      simpa [Nat.add_assoc, Nat.add_comm 1 k] using this
end

/-- **K04a, repaired code, all shapes.** The index path cached for every flattened field — at any
    embedding depth, through embedded structs and embedded pointers — leads to exactly that field
    of the type (same type, same Go name, same default tag). -/
theorem flatten_faithful (P : Params) (tag : Tag) (fs : List Fld) (f : FieldInfo)
    (hf : f ∈ flatten P tag fs) : Faithful fs f.index f := by
  obtain ⟨q, _, hq, hall⟩ := lemma_flattenFs P tag [] 0 fs f hf
  have : f.index = q := by simpa using hq
  rw [this]
  exact hall fs (fun k => by simp)

end Rivaas.C04
