import Rivaas.Model.Bind
import Rivaas.Model.BindAsIs
import Rivaas.Spec.Bind
import Rivaas.Lemmas.BindVal
import Rivaas.Lemmas.BindFlatten
import Rivaas.Lemmas.BindConv
import Rivaas.Lemmas.BindRef
import Rivaas.Lemmas.BindSound
import Rivaas.Lemmas.BindMap
import Rivaas.Lemmas.BindTyped
import Rivaas.Lemmas.BindMain
import Rivaas.Lemmas.BindMultiSound
import Rivaas.Model.BindObs
/-
C04 — Request binding is faithful, total and bounded. Property theorems.
-/
namespace Rivaas.C04
open Rivaas Rivaas.Bind

/-! ## 1. Index paths of flattened (promoted) fields are faithful — every embedding depth -/

/-- **K04a, repaired code, all shapes.** The index path cached for every flattened field — at any
    embedding depth, through embedded structs and embedded pointers — leads to exactly that field
    of the type (same type, same Go name, same default tag). -/
theorem flatten_faithful (P : Params) (tag : Tag) (fs : List Fld) (f : FieldInfo)
    (hf : f ∈ flatten P tag fs) : Faithful fs f.index f := by
  obtain ⟨q, _, hq, hall⟩ := lemma_flattenFs P tag [] 0 fs f hf
  have : f.index = q := by simpa using hq
  rw [this]
  exact hall fs (fun k => by simp)


/-- non-vacuity: a type with embedding depth 3 (through an embedded pointer) and two promoted fields -/
def hdr (n : String) (anon : Bool) : FieldHdr :=
  { name := B n, exported := true, anon := anon, tags := [B n, B n, B n, B n, B n], dflt := [] }

def tyIn : Ty := .struct [(hdr "x" false, .prim (.int 8)), (hdr "y" false, .prim (.uint 8))]
def tyD3 : List Fld := [(hdr "L1" true, .struct [(hdr "L2" true, .ptr (.struct [(hdr "In" true, tyIn)]))])]
def P0 : Params := fun _ => {}

example : (flatten P0 .query tyD3).map (·.index) = [[0, 0, 0, 0], [0, 0, 0, 1]] := by decide
example : (fieldAt tyD3 [0, 0, 0, 1]).map (·.1.name) = some (B "y") := by decide

/-- **K04a, as shipped.** With `index := append(indexPrefix, i)` the two promoted fields of a struct
    at embedding depth 3 end up with the *same* cached index path (the last one written), so the
    path of `x` does not lead to `x`. -/
theorem flatten_asis_witness :
    (flattenAsIs P0 .query tyD3).map (·.index) = [[0, 0, 0, 1], [0, 0, 0, 1]] ∧
    ¬ (∀ f ∈ flattenAsIs P0 .query tyD3, Faithful tyD3 f.index f) := by
  constructor
  · decide
  · intro h
    have hmem : (flattenAsIs P0 .query tyD3).head! ∈ flattenAsIs P0 .query tyD3 := by
      have : flattenAsIs P0 .query tyD3 ≠ [] := by
        intro e
        have : (flattenAsIs P0 .query tyD3).length = 2 := by decide
        simp [e] at this
      cases hl : flattenAsIs P0 .query tyD3 with
      | nil => exact absurd hl this
      | cons a r => simp [List.head!]
    obtain ⟨h', t, h1, _, h3, _⟩ := h _ hmem
    have e1 : ((flattenAsIs P0 .query tyD3).head!).index = [0, 0, 0, 1] := by decide
    have e2 : ((flattenAsIs P0 .query tyD3).head!).name = B "x" := by decide
    have e3 : (fieldAt tyD3 [0, 0, 0, 1]).map (·.1.name) = some (B "y") := by decide
    rw [e1] at h1
    rw [h1] at e3
    simp only [Option.map_some, Option.some.injEq] at e3
    rw [e2, e3] at h3
    exact absurd h3 (by decide)

/-! ## 2. Conversion never truncates, wraps or overflows to infinity -/

/-- the string `300` with what strconv says about it -/
def P300 : Params := fun s => if s = B "300" then { i10 := some 300, u10 := some 300 } else {}

example : convPrim P300 Cfg.default (.int 16) (B "300") = some (.int 300) := by decide

/-- **K04b, as shipped.** `300` into an int8 field was accepted as 44 (and into uint8 as 44): the
    oracle denotes no value there, the repaired conversion refuses. -/
theorem convert_asis_witness :
    convPrimAsIs P300 Cfg.default (.int 8) (B "300") = some (.int 44) ∧
    convPrimAsIs P300 Cfg.default (.uint 8) (B "300") = some (.uint 44) ∧
    (Spec.denote P300 Cfg.default (.int 8) (B "300")).val = none ∧
    convPrim P300 Cfg.default (.int 8) (B "300") = none := by
  refine ⟨by decide, by decide, by decide, by decide⟩


/-! ## 3. The bind loop over cached index paths is the field-by-field recursion -/

/-- **K04a at bind level, all shapes.** For every struct type, every well-typed destination, every
    source and options, looping over the cached index paths computes exactly what the structural
    recursion over the type computes (each promoted field handled with its own value and key;
    embedded nil pointers allocated iff a promoted field below receives a value). -/
theorem bind_loop_is_structural (P : Params) (cfg : Cfg) (nest : Nest) (tag : Tag) (g : Getter) (d : Nat)
    (sty : List Fld) (vs : List Val) (hw : wts sty vs = true) :
    loopWith P cfg nest sty (flatten P tag sty) (.struct vs) g d = refOut [] (refFs P cfg nest tag g d sty vs) :=
  lemma_loop_eq_ref P cfg nest tag g d sty vs hw

/-! ## 4. Binding meets the oracle: faithful, total, bounded -/

/-- **C04, main theorem.** For every struct type of the grammar (nested, embedded to any depth,
    pointers, slices, maps, aliases, defaults), every well-typed destination (zero or pre-filled),
    every source of the five kinds and every option setting, what the model of `binding` returns is
    admitted by the oracle: on success every leaf holds exactly the converted value of its own key,
    its default, or what it held before, and every field outside the bind is untouched; every error
    names an offending field with an admissible class (unrepresentable value, slice / map / depth
    limit); binding never panics. -/
theorem bind_meets_spec (P : Params) (hP : FloatSane P) (cfg : Cfg) (tag : Tag) (fs : List Fld) (ivs : List Val)
    (src : Src) (hw : wts fs ivs = true) (hg : Spec.inGrammarFs fs = true) (hs : Spec.srcOK src = true) :
    Spec.specOK P cfg tag fs (.struct ivs) src (toObs (bind P cfg tag (.struct fs) (.struct ivs) src)) = true :=
  lemma_bind_meets_spec P hP cfg tag fs ivs src hw hg hs

/-- **total.** Binding into a well-typed destination never panics — whatever the source holds,
    whatever the shape of the type (nil embedded pointers, pointers to slices and maps included). -/
theorem bind_total (P : Params) (hP : FloatSane P) (cfg : Cfg) (tag : Tag) (fs : List Fld) (ivs : List Val)
    (src : Src) (hw : wts fs ivs = true) (hg : Spec.inGrammarFs fs = true) (hs : Spec.srcOK src = true) :
    bind P cfg tag (.struct fs) (.struct ivs) src ≠ .panic := by
  intro h
  have := bind_meets_spec P hP cfg tag fs ivs src hw hg hs
  rw [h] at this
  simp [toObs, Spec.specOK] at this

/-- **bounded depth.** A bind that succeeds has not descended below the configured depth: every
    nested struct of the type lies within `maxDepth`. -/
theorem bind_depth_bound (P : Params) (hP : FloatSane P) (cfg : Cfg) (tag : Tag) (fs : List Fld) (ivs : List Val)
    (src : Src) (hw : wts fs ivs = true) (hg : Spec.inGrammarFs fs = true) (hs : Spec.srcOK src = true) (v : Val)
    (h : bind P cfg tag (.struct fs) (.struct ivs) src = .ok v) :
    ∀ n ∈ Spec.nodesOf tag fs, n.depth ≤ cfg.maxDepth := by
  have := bind_meets_spec P hP cfg tag fs ivs src hw hg hs
  rw [h] at this
  simp only [toObs, Spec.specOK, Bool.and_eq_true, Bool.not_eq_true', Spec.mustFail, Bool.or_eq_false_iff,
    List.any_eq_false] at this
  intro n hn
  have := this.1.1.2 n hn
  simpa using this

/-- **errors name the field.** An error outcome is a `BindError` chain that names a field of the type
    (a leaf with an admissible error class, or the nested struct that exceeds the depth limit). -/
theorem bind_error_names_field (P : Params) (hP : FloatSane P) (cfg : Cfg) (tag : Tag) (fs : List Fld) (ivs : List Val)
    (src : Src) (hw : wts fs ivs = true) (hg : Spec.inGrammarFs fs = true) (hs : Spec.srcOK src = true) (e : Err)
    (h : bind P cfg tag (.struct fs) (.struct ivs) src = .err e) :
    e ∈ Spec.causes P cfg tag fs (.struct ivs) src := by
  have := bind_meets_spec P hP cfg tag fs ivs src hw hg hs
  rw [h] at this
  simpa [toObs, Spec.specOK] using this

theorem lemma_mapMOpt_length {α β} (f : α → Option β) : ∀ (xs : List α) (ys : List β),
    mapMOpt f xs = some ys → ys.length = xs.length
  | [], ys, h => by simp [mapMOpt] at h; simp [← h]
  | x :: r, ys, h => by
    simp only [mapMOpt] at h
    cases hx : f x with
    | none => simp [hx] at h
    | some y =>
      cases hr : mapMOpt f r with
      | none => simp [hx, hr] at h
      | some yr =>
        simp only [hx, hr, Option.some.injEq] at h
        subst h
        simp [lemma_mapMOpt_length f r yr hr]

/-- **bounded slices.** setSliceField never stores more elements than `maxSliceLen` (0 = no limit). -/
theorem slice_len_bound (P : Params) (cfg : Cfg) (ty : Ty) (cur : Val) (values : List Bytes) (vs : List Val)
    (h : setSlice P cfg ty cur values = .ok (.list vs) ∨ setSlice P cfg ty cur values = .ok (.ptr (.list vs)))
    (hne : values ≠ []) : cfg.maxSlice = 0 ∨ vs.length ≤ cfg.maxSlice := by
  have hemp : values.isEmpty = false := by cases values with
    | nil => exact absurd rfl hne
    | cons _ _ => rfl
  unfold setSlice at h
  simp only [hemp, Bool.false_eq_true, if_false] at h
  generalize (if (cfg.csv && values.length == 1) = true then List.map trimSpace (splitB ',' (values.headD [])) else values) = vals at h
  by_cases hlim : (decide (cfg.maxSlice > 0) && decide (vals.length > cfg.maxSlice)) = true
  · simp [hlim] at h
  · have hlim' : (decide (cfg.maxSlice > 0) && decide (vals.length > cfg.maxSlice)) = false := by simpa using hlim
    simp only [hlim', Bool.false_eq_true, if_false] at h
    have hlen : ∀ (e : Ty) (ys : List Val), mapMOpt (convTy P cfg e) vals = some ys → ys.length = vals.length :=
      fun e ys hy => lemma_mapMOpt_length (convTy P cfg e) vals ys hy
    have key : ∀ ys, vs = ys → ys.length = vals.length → cfg.maxSlice = 0 ∨ vs.length ≤ cfg.maxSlice := by
      intro ys hy hl
      subst hy
      cases h1 : decide (cfg.maxSlice > 0) with
      | false => left; simp at h1; omega
      | true =>
        right
        simp only [h1, Bool.true_and, decide_eq_false_iff_not, Nat.not_lt] at hlim'
        omega
    split at h
    · rename_i e
      cases hm : mapMOpt (convTy P cfg e) vals with
      | none => simp [hm] at h
      | some ys =>
        simp only [hm] at h
        rcases h with h | h
        · simp only [Except.ok.injEq, Val.list.injEq] at h
          exact key ys h.symm (hlen e ys hm)
        · simp at h
    · rename_i e
      cases hm : mapMOpt (convTy P cfg e) vals with
      | none => simp [hm] at h
      | some ys =>
        simp only [hm] at h
        rcases h with h | h
        · simp at h
        · simp only [Except.ok.injEq, Val.ptr.injEq, Val.list.injEq] at h
          exact key ys h.symm (hlen e ys hm)
    · simp at h

/-- **bounded maps.** A map field that was bound holds at most `maxMapSize` entries from this
    source (0 = no limit): neither the dot/bracket keys nor a JSON object under the bare key exceed it. -/
theorem map_size_bound (P : Params) (cfg : Cfg) (p : Prim) (isPtr : Bool) (cur : Val) (g : Getter) (name : Bytes) (v : Val)
    (h : setMap P cfg (if isPtr then .ptr (.map (.prim p)) else .map (.prim p)) cur g name = .ok v) :
    cfg.maxMap = 0 ∨
      ((entriesOf g.src (g.pre ++ name)).length ≤ cfg.maxMap ∧
       ((entriesOf g.src (g.pre ++ name)) = [] → g.has name = true → (g.get name).isEmpty = false →
          ∀ es, (P (g.get name)).j = some es → es.length ≤ cfg.maxMap)) := by
  rw [lemma_setMap_core P cfg p isPtr cur g name _ rfl] at h
  unfold setMapCore at h
  by_cases hz : cfg.maxMap = 0
  · exact Or.inl hz
  · right
    have hpos : cfg.maxMap > 0 := by omega
    generalize entriesOf g.src (g.pre ++ name) = E at h
    by_cases hlen : E.length > cfg.maxMap
    · have : (decide (E.length > 0) && decide (cfg.maxMap > 0) && decide (E.length > cfg.maxMap)) = true := by
        have : E.length > 0 := by omega
        simp only [decide_eq_true this, decide_eq_true hpos, decide_eq_true hlen, Bool.and_self]
      simp [this] at h
    · refine ⟨by omega, ?_⟩
      intro hE hhas hjv es hes
      subst hE
      simp only [List.length_nil, Nat.lt_irrefl, decide_false, Bool.false_and, Bool.false_eq_true, if_false, bindEs,
        List.isEmpty_nil, Bool.true_and, hhas, if_true, hjv, hes, gt_iff_lt] at h
      by_cases hl : es.length > cfg.maxMap
      · have : (decide (0 < cfg.maxMap) && decide (cfg.maxMap < es.length)) = true := by
          simp only [decide_eq_true hpos, decide_eq_true hl, Bool.and_self]
        simp [this] at h
      · omega

/-! ### non-vacuity: the hypotheses of the main theorem on a concrete, non-trivial input -/

/-- strconv on the strings `7` and `300` -/
def P7 : Params := fun s =>
  if s = B "7" then { i10 := some 7, i0 := some 7, u10 := some 7, u0 := some 7 }
  else if s = B "300" then { i10 := some 300, i0 := some 300, u10 := some 300, u0 := some 300 }
  else {}

theorem lemma_P7_sane : FloatSane P7 := by
  intro s b64 b32 above inf32 h
  unfold P7 at h
  split at h
  · simp at h
  · split at h <;> simp at h

/-- embedding depth 3 through an embedded pointer, destination zero (the pointer is nil) -/
def srcXY (x y : String) : Src := { kind := .query, kvs := [(B "x", [B x]), (B "y", [B y])] }

example : wts tyD3 (zeroFs tyD3) = true ∧ Spec.inGrammarFs tyD3 = true ∧ Spec.srcOK (srcXY "7" "7") = true := by decide

def okVal : Outcome → Option Val
  | .ok v => some v
  | _ => none

def errOf : Outcome → Option Err
  | .err e => some e
  | _ => none

/-- both promoted fields at depth 3 are bound, the nil embedded pointer is allocated -/
example : okVal (bind P7 Cfg.default .query (.struct tyD3) (.struct (zeroFs tyD3)) (srcXY "7" "7")) =
    some (.struct [.struct [.ptr (.struct [.struct [.int 7, .uint 7]])]]) := by decide

/-- `300` for the uint8 field `y`: an error naming `y`, nothing truncated -/
example : errOf (bind P7 Cfg.default .query (.struct tyD3) (.struct (zeroFs tyD3)) (srcXY "7" "300")) =
    some (.bind (B "y") .conv) := by decide

/-- the main theorem applies to this input -/
example : Spec.specOK P7 Cfg.default .query tyD3 (.struct (zeroFs tyD3)) (srcXY "7" "7")
    (toObs (bind P7 Cfg.default .query (.struct tyD3) (.struct (zeroFs tyD3)) (srcXY "7" "7"))) = true :=
  bind_meets_spec P7 lemma_P7_sane Cfg.default .query tyD3 (zeroFs tyD3) (srcXY "7" "7") (by decide) (by decide) (by decide)

example : Spec.specOK P7 Cfg.default .query tyD3 (.struct (zeroFs tyD3)) (srcXY "7" "7")
    (.ok (.struct [.struct [.ptr (.struct [.struct [.int 7, .uint 7]])]])) = true :=
  by decide

/-- the oracle is not trivially true: the as-shipped outcome (only `y` bound) is rejected -/
example : Spec.specOK P7 Cfg.default .query tyD3 (.struct (zeroFs tyD3)) (srcXY "7" "7")
    (.ok (.struct [.struct [.ptr (.struct [.struct [.int 0, .uint 7]])]])) = false :=
  by decide

/-- … and so is a truncated value -/
example : Spec.specOK P7 Cfg.default .query tyD3 (.struct (zeroFs tyD3)) (srcXY "7" "300")
    (.ok (.struct [.struct [.ptr (.struct [.struct [.int 7, .uint 44]])]])) = false :=
  by decide

/-! ### the other as-shipped behaviours (K04c–K04g), each against the repaired model -/

def tyEP : List Fld := [(hdr "In" true, .ptr tyIn)]
def fTags : FieldInfo :=
  { index := [0], name := B "T", tagName := B "tags", aliases := [B "t"], ty := .slice (.prim .str), dflt := [], typedDefault := none }
def gAlias : Getter := { src := { kind := .query, kvs := [(B "t", [B "a", B "b"])] } }
def gNested : Getter := { src := { kind := .query, kvs := [(B "n.m.a", [B "v"])] }, pre := B "n.", nested := true }

/-- **K04c.** `FieldByIndex` through the nil embedded pointer of a zero `struct{ *In }` panics; the
    repaired loop allocates the pointer when — and only when — a promoted field receives a value. -/
theorem nil_embedded_asis_witness :
    reachAsIs (.struct (zeroFs tyEP)) [0, 0] = none ∧
    okVal (bind P7 Cfg.default .query (.struct tyEP) (.struct (zeroFs tyEP)) (srcXY "7" "7")) =
      some (.struct [.ptr (.struct [.int 7, .uint 7])]) ∧
    okVal (bind P7 Cfg.default .query (.struct tyEP) (.struct (zeroFs tyEP)) { kind := .query, kvs := [] }) =
      some (.struct [.nil]) := by
  refine ⟨by decide, by decide, by decide⟩

/-- **K04d.** The value arrives under the alias `t`: `GetAll` with the primary name finds nothing,
    with the key that matched it finds both values. -/
theorem slice_alias_asis_witness :
    (lookupField gAlias fTags).1 = B "t" ∧
    gAlias.getAll (sliceKeyAsIs fTags (lookupField gAlias fTags).1) = [] ∧
    gAlias.getAll (lookupField gAlias fTags).1 = [B "a", B "b"] := by
  refine ⟨by decide, by decide, by decide⟩

/-- **K04e, K04g, K04f.** A `*[]string` field with a value panicked (`none`), `WithMaxMapSize(3)`
    rejected an empty map on the fallback capacity 8, a map below a nested struct saw no entries. -/
theorem ptrslice_maplimit_nestedmap_asis_witness :
    setSliceAsIs P0 Cfg.default (.ptr (.slice (.prim .str))) .nil [B "a"] = none ∧
    okVal (match setSlice P0 Cfg.default (.ptr (.slice (.prim .str))) .nil [B "a"] with
      | .ok v => Outcome.ok v
      | .error e => .err e) = some (.ptr (.list [.str (B "a")])) ∧
    mapLimitAsIs { Cfg.default with maxMap := 3 } 0 = true ∧
    okVal (match setMap P0 { Cfg.default with maxMap := 3 } (.map (.prim .str)) .nil gAlias (B "m") with
      | .ok v => Outcome.ok v
      | .error e => .err e) = some (.map []) ∧
    mapVisibleAsIs gNested = false ∧
    okVal (match setMap P0 Cfg.default (.map (.prim .str)) .nil gNested (B "m") with
      | .ok v => Outcome.ok v
      | .error e => .err e) = some (.map [(B "a", .str (B "v"))]) := by
  refine ⟨by decide, by decide, by decide, by decide, by decide, by decide⟩

/-! ### the conversion theorems (proved in `Lemmas/BindConv`) -/

/-- **K04b, repaired code.** A successful integer conversion yields exactly the parsed number, and
    that number fits the field's width: nothing is truncated or wrapped. -/
theorem convert_no_truncation_int (P : Params) (cfg : Cfg) (w : Nat) (s : Bytes) (v : Val)
    (h : convPrim P cfg (.int w) s = some v) :
    ∃ i, (if cfg.baseAuto then (P s).i0 else (P s).i10) = some i ∧ v = .int i ∧ Spec.fitsInt w i :=
  Bind.convert_no_truncation_int P cfg w s v h

theorem convert_no_truncation_uint (P : Params) (cfg : Cfg) (w : Nat) (s : Bytes) (v : Val)
    (h : convPrim P cfg (.uint w) s = some v) :
    ∃ n, (if cfg.baseAuto then (P s).u0 else (P s).u10) = some n ∧ v = .uint n ∧ Spec.fitsUint w n :=
  Bind.convert_no_truncation_uint P cfg w s v h

/-- a finite value never becomes an infinity in a float32 field -/
theorem convert_no_infinity (P : Params) (hP : FloatSane P) (cfg : Cfg) (s : Bytes) (v : Val)
    (h : convPrim P cfg .f32 s = some v) :
    ∃ b64 b32, (P s).f = some (b64, b32, false, false) ∧ v = .flt b32 :=
  Bind.convert_no_infinity P hP cfg s v h

/-- the model's conversion meets the oracle's reading of "converted value" for every leaf kind -/
theorem conv_meets_denote (P : Params) (hP : FloatSane P) (cfg : Cfg) (p : Prim) (s : Bytes) :
    (∀ v, convPrim P cfg p s = some v → (Spec.denote P cfg p s).val = some v) ∧
    (convPrim P cfg p s = none → (Spec.denote P cfg p s).refusable = true) :=
  Bind.conv_meets_denote P hP cfg p s


/-- **untouched outside the bind.** A bind that succeeds leaves every field it does not bind under
    this tag (unexported, untagged, `-`) exactly as it was. -/
theorem bind_frame (P : Params) (hP : FloatSane P) (cfg : Cfg) (tag : Tag) (fs : List Fld) (ivs : List Val)
    (src : Src) (hw : wts fs ivs = true) (hg : Spec.inGrammarFs fs = true) (hs : Spec.srcOK src = true) (v : Val)
    (h : bind P cfg tag (.struct fs) (.struct ivs) src = .ok v) :
    ∀ f ∈ Spec.framesOf tag fs, Spec.holdsFrame (.struct ivs) v f = true := by
  have := bind_meets_spec P hP cfg tag fs ivs src hw hg hs
  rw [h] at this
  simp only [toObs, Spec.specOK, Bool.and_eq_true, List.all_eq_true] at this
  exact this.2


/-! ## 5. Several sources (Bind / BindTo, app.Context.Bind) -/

/-- **type preservation.** What a bind returns is again a well-typed value of the destination type
    (so it can be the destination of the next source). -/
theorem bind_preserves_type (P : Params) (cfg : Cfg) (tag : Tag) (fs : List Fld) (ivs : List Val) (src : Src) (v : Val)
    (hw : wts fs ivs = true) (hg : Spec.inGrammarFs fs = true)
    (h : bind P cfg tag (.struct fs) (.struct ivs) src = .ok v) : ∃ rvs, v = .struct rvs ∧ wts fs rvs = true := by
  have := lemma_bindAt_typed P cfg tag cfg.maxDepth fs ivs { src := src } 0 v hw hg (by simpa [Rivaas.Bind.bind] using h)
  cases v with
  | struct rvs => exact ⟨rvs, rfl, by simpa [wt] using this⟩
  | _ => simp [wt] at this

mutual
theorem lemma_strip_wt : ∀ (t : Ty) (v : Val), wt (stripTy t) v = wt t v
  | .struct fs, v => by
    cases v with
    | struct vs => simp only [stripTy, wt]; exact lemma_strip_wts fs vs
    | _ => simp [stripTy, wt]
  | .ptr t, v => by
    cases v with
    | ptr x => simp only [stripTy, wt]; exact lemma_strip_wt t x
    | _ => simp [stripTy, wt]
  | .slice t, v => by simp [stripTy, wt]
  | .map t, v => by simp [stripTy, wt]
  | .prim p, v => by simp [stripTy, wt]
theorem lemma_strip_wts : ∀ (fs : List Fld) (vs : List Val), wts (stripFs fs) vs = wts fs vs
  | [], vs => by cases vs <;> simp [stripFs, wts]
  | (h, t) :: rest, [] => by simp [stripFs, wts]
  | (h, t) :: rest, v :: vs => by simp [stripFs, wts, lemma_strip_wt t v, lemma_strip_wts rest vs]
end

mutual
theorem lemma_strip_grammar : ∀ t : Ty, Spec.inGrammar (stripTy t) = Spec.inGrammar t
  | .struct fs => by simp only [stripTy, Spec.inGrammar]; exact lemma_strip_grammarFs fs
  | .ptr (.struct fs) => by simp only [stripTy, Spec.inGrammar]; exact lemma_strip_grammarFs fs
  | .ptr (.prim p) => by simp [stripTy, Spec.inGrammar, Spec.leafTy]
  | .ptr (.ptr t) => by simp [stripTy, Spec.inGrammar, Spec.leafTy]
  | .ptr (.slice t) => by simp [stripTy, Spec.inGrammar, Spec.leafTy]
  | .ptr (.map t) => by simp [stripTy, Spec.inGrammar, Spec.leafTy]
  | .slice t => by simp [stripTy, Spec.inGrammar, Spec.leafTy]
  | .map t => by simp [stripTy, Spec.inGrammar, Spec.leafTy]
  | .prim p => by simp [stripTy, Spec.inGrammar, Spec.leafTy]
theorem lemma_strip_grammarFs : ∀ fs : List Fld, Spec.inGrammarFs (stripFs fs) = Spec.inGrammarFs fs
  | [] => by simp [stripFs, Spec.inGrammarFs]
  | (h, t) :: rest => by simp [stripFs, Spec.inGrammarFs, lemma_strip_grammar t, lemma_strip_grammarFs rest]
end

/-- a pass over the sources (each bound with the field table of `fs'`, a copy of the type with the
    same shape) neither panics nor leaves the type -/
theorem lemma_bindPass (P : Params) (hP : FloatSane P) (cfg : Cfg) (fs fs' : List Fld)
    (hsh : ∀ vs, wts fs' vs = wts fs vs) (hg : Spec.inGrammarFs fs' = true) :
    ∀ (srcs : List Src) (ivs : List Val), (∀ s ∈ srcs, Spec.srcOK s = true) → wts fs ivs = true →
      bindPass P cfg fs (fun _ => .struct fs') srcs (.struct ivs) ≠ .panic ∧
      ∀ v, bindPass P cfg fs (fun _ => .struct fs') srcs (.struct ivs) = .ok v → ∃ rvs, v = .struct rvs ∧ wts fs rvs = true
  | [], ivs, _, hw => by simp [bindPass, hw]
  | s :: rest, ivs, hs, hw => by
    simp only [bindPass]
    split
    · have hw' : wts fs' ivs = true := by rw [hsh]; exact hw
      have hsk : Spec.srcOK s = true := hs s (by simp)
      cases hb : bind P cfg s.kind (.struct fs') (.struct ivs) s with
      | panic => exact absurd hb (bind_total P hP cfg s.kind fs' ivs s hw' hg hsk)
      | err e => simp
      | ok v =>
        obtain ⟨rvs, hv, hwr⟩ := bind_preserves_type P cfg s.kind fs' ivs s v hw' hg hb
        subst hv
        exact lemma_bindPass P hP cfg fs fs' hsh hg rest rvs (fun s hs' => hs s (by simp [hs'])) (by rw [← hsh]; exact hwr)
    · exact lemma_bindPass P hP cfg fs fs' hsh hg rest ivs (fun s hs' => hs s (by simp [hs'])) hw

/-- **total, several sources.** Bind / BindTo from any list of sources never panics. -/
theorem bindMulti_total (P : Params) (hP : FloatSane P) (cfg : Cfg) (fs : List Fld) (ivs : List Val) (srcs : List Src)
    (hw : wts fs ivs = true) (hg : Spec.inGrammarFs fs = true) (hs : ∀ s ∈ srcs, Spec.srcOK s = true) :
    bindMulti P cfg fs (.struct ivs) srcs ≠ .panic := by
  unfold bindMulti
  split
  · simp
  · split
    · exact (lemma_bindPass P hP cfg fs fs (fun _ => rfl) hg srcs ivs hs hw).1
    · have hs0 : ∀ s ∈ srcs.map (fun s => { s with kvs := [] }), Spec.srcOK s = true := by
        intro s hs'
        simp only [List.mem_map] at hs'
        obtain ⟨s0, _, rfl⟩ := hs'
        simp only [Spec.srcOK, List.all_nil, Bool.true_and]
        cases s0.kind <;> rfl
      have h1 := lemma_bindPass P hP cfg fs fs (fun _ => rfl) hg _ ivs hs0 hw
      cases hb : bindPass P cfg fs (fun _ => .struct fs) (srcs.map fun s => { s with kvs := [] }) (.struct ivs) with
      | panic => exact absurd hb h1.1
      | err e => simp
      | ok v =>
        obtain ⟨rvs, hv, hwr⟩ := h1.2 v hb
        subst hv
        exact (lemma_bindPass P hP cfg fs (stripFs fs) (lemma_strip_wts fs) (by rw [lemma_strip_grammarFs]; exact hg)
          srcs rvs hs hwr).1

/-- with one source, Bind / BindTo is the plain bind (when the type mentions the source's tag) -/
theorem bindMulti_single (P : Params) (cfg : Cfg) (fs : List Fld) (init : Val) (s : Src)
    (ht : hasTagFs s.kind fs = true) :
    bindMulti P cfg fs init [s] = bind P cfg s.kind (.struct fs) init s := by
  simp only [bindMulti, List.isEmpty_cons, Bool.false_eq_true, if_false, List.length_singleton, beq_self_eq_true,
    if_true, bindPass, ht]
  cases bind P cfg s.kind (.struct fs) init s <;> rfl


/-- **C04, several sources (Bind / BindTo, app.Context.Bind).** What `bindMultiSource` returns —
    for any list of sources of the five kinds in any order, any struct type of the grammar, any
    well-typed destination — is admitted by the folded oracle `Spec.specMulti`: leaf by leaf the value
    of the last source that holds the leaf's key, else the declared default, else what the leaf held
    before; fields that no participating source binds are untouched; every error names an offending
    field; never a panic. -/
theorem bindMulti_meets_spec (P : Params) (hP : FloatSane P) (cfg : Cfg) (fs : List Fld) (ivs : List Val)
    (srcs : List Src) (hw : wts fs ivs = true) (hg : Spec.inGrammarFs fs = true) (hs : ∀ s ∈ srcs, Spec.srcOK s = true) :
    Spec.specMulti P cfg fs (.struct ivs) srcs (toObs (bindMulti P cfg fs (.struct ivs) srcs)) = true :=
  lemma_bindMulti_meets_spec P hP cfg fs ivs srcs hw hg hs

/-- non-vacuity: a field with a default, bound from the query and absent in the header source —
    the value of the query survives (K04i), and the as-shipped outcome (the default) is rejected -/
def tyDef : List Fld :=
  [({ name := B "A", exported := true, anon := false, tags := [B "a", [], [], B "X-A", []], dflt := B "7" }, .prim (.int 0))]
def srcsQH : List Src := [{ kind := .query, kvs := [(B "a", [B "300"])] }, { kind := .header, kvs := [] }]

example : okVal (bindMulti P7 Cfg.default tyDef (.struct (zeroFs tyDef)) srcsQH) = some (.struct [.int 300]) := by decide
example : okVal (bindMultiAsIs P7 Cfg.default tyDef (.struct (zeroFs tyDef)) srcsQH) = some (.struct [.int 7]) := by decide
example : Spec.specMulti P7 Cfg.default tyDef (.struct (zeroFs tyDef)) srcsQH (.ok (.struct [.int 300])) = true := by decide
example : Spec.specMulti P7 Cfg.default tyDef (.struct (zeroFs tyDef)) srcsQH (.ok (.struct [.int 7])) = false := by decide

/-- no source whose tag occurs in the type takes part: the destination must come out as it went in (review C04-2:
    a type with a query tag only, bound from a cookie source - a stray 999 over the 5 it held is rejected) -/
def tyQOnly : List Fld :=
  [({ name := B "A", exported := true, anon := false, tags := [B "a", [], [], [], []], dflt := [] }, .prim (.int 0))]
theorem specMulti_untouched_witness :
    Spec.specMulti P7 Cfg.default tyQOnly (.struct [.int 5]) [{ kind := .cookie, kvs := [] }] (.ok (.struct [.int 999])) = false ∧
    Spec.specMulti P7 Cfg.default tyQOnly (.struct [.int 5]) [{ kind := .cookie, kvs := [] }] (.ok (.struct [.int 5])) = true := by
  decide

end Rivaas.C04
