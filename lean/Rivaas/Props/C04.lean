import Rivaas.Model.Bind
import Rivaas.Model.BindAsIs
import Rivaas.Spec.Bind
import Rivaas.Lemmas.BindVal
import Rivaas.Lemmas.BindFlatten
import Rivaas.Lemmas.BindConv
/-
C04 — Request binding is faithful, total and bounded. Property theorems.
-/
namespace Rivaas.C04
open Rivaas Rivaas.Bind

/-! ## 1. Index paths of flattened (promoted) fields are faithful — every embedding depth -/

/-- **K04a, repaired code, all shapes.** The index path cached for every flattened field — at any
    embedding depth, through embedded structs and embedded pointers — leads to exactly that field
    of the type (same type, same Go name, same default tag). -/
theorem flatten_faithful (P : Params) (tag : Tag) (fs : List Fld) (f : FieldInfo)
    (hf : f ∈ flatten P tag fs) : Faithful fs f.index f := by
  obtain ⟨q, _, hq, hall⟩ := lemma_flattenFs P tag [] 0 fs f hf
  have : f.index = q := by simpa using hq
  rw [this]
  exact hall fs (fun k => by simp)


/-- non-vacuity: a type with embedding depth 3 (through an embedded pointer) and two promoted fields -/
def hdr (n : String) (anon : Bool) : FieldHdr :=
  { name := B n, exported := true, anon := anon, tags := [B n, B n, B n, B n, B n], dflt := [] }

def tyIn : Ty := .struct [(hdr "x" false, .prim (.int 8)), (hdr "y" false, .prim (.uint 8))]
def tyD3 : List Fld := [(hdr "L1" true, .struct [(hdr "L2" true, .ptr (.struct [(hdr "In" true, tyIn)]))])]
def P0 : Params := fun _ => {}

example : (flatten P0 .query tyD3).map (·.index) = [[0, 0, 0, 0], [0, 0, 0, 1]] := by decide
example : (fieldAt tyD3 [0, 0, 0, 1]).map (·.1.name) = some (B "y") := by decide

/-- **K04a, as shipped.** With `index := append(indexPrefix, i)` the two promoted fields of a struct
    at embedding depth 3 end up with the *same* cached index path (the last one written), so the
    path of `x` does not lead to `x`. -/
theorem flatten_asis_witness :
    (flattenAsIs P0 .query tyD3).map (·.index) = [[0, 0, 0, 1], [0, 0, 0, 1]] ∧
    ¬ (∀ f ∈ flattenAsIs P0 .query tyD3, Faithful tyD3 f.index f) := by
  constructor
  · decide
  · intro h
    have hmem : (flattenAsIs P0 .query tyD3).head! ∈ flattenAsIs P0 .query tyD3 := by
      have : flattenAsIs P0 .query tyD3 ≠ [] := by
        intro e
        have : (flattenAsIs P0 .query tyD3).length = 2 := by decide
        simp [e] at this
      cases hl : flattenAsIs P0 .query tyD3 with
      | nil => exact absurd hl this
      | cons a r => simp [List.head!]
    obtain ⟨h', t, h1, _, h3, _⟩ := h _ hmem
    have e1 : ((flattenAsIs P0 .query tyD3).head!).index = [0, 0, 0, 1] := by decide
    have e2 : ((flattenAsIs P0 .query tyD3).head!).name = B "x" := by decide
    have e3 : (fieldAt tyD3 [0, 0, 0, 1]).map (·.1.name) = some (B "y") := by decide
    rw [e1] at h1
    rw [h1] at e3
    simp only [Option.map_some, Option.some.injEq] at e3
    rw [e2, e3] at h3
    exact absurd h3 (by decide)

/-! ## 2. Conversion never truncates, wraps or overflows to infinity -/

/-- the string `300` with what strconv says about it -/
def P300 : Params := fun s => if s = B "300" then { i10 := some 300, u10 := some 300 } else {}

example : convPrim P300 Cfg.default (.int 16) (B "300") = some (.int 300) := by decide

/-- **K04b, as shipped.** `300` into an int8 field was accepted as 44 (and into uint8 as 44): the
    oracle denotes no value there, the repaired conversion refuses. -/
theorem convert_asis_witness :
    convPrimAsIs P300 Cfg.default (.int 8) (B "300") = some (.int 44) ∧
    convPrimAsIs P300 Cfg.default (.uint 8) (B "300") = some (.uint 44) ∧
    (Spec.denote P300 Cfg.default (.int 8) (B "300")).val = none ∧
    convPrim P300 Cfg.default (.int 8) (B "300") = none := by
  refine ⟨by decide, by decide, by decide, by decide⟩

end Rivaas.C04
