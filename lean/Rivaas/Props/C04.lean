/- C04 — property theorems (stub: not built yet) -/
