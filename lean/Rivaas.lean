-- root of the library: every property module (so that a plain `lake build` checks all theorems)
import Rivaas.Proto
import Rivaas.Props.C18
