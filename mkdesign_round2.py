#!/usr/bin/env python3
"""fill DESIGN.md §13 from notes/Cxx.md (sections 'Round 2' and 'Statement clauses → theorems'), checks/*.json
(tie modules), lean/Rivaas/Tie/*.lean (theorem names) and harmless/results"""
import json, glob, os, re, importlib.machinery, importlib.util
ROOT = os.path.dirname(os.path.abspath(__file__))
l = importlib.machinery.SourceFileLoader("check", os.path.join(ROOT, "check")); s = importlib.util.spec_from_loader("check", l)
C = importlib.util.module_from_spec(s); l.exec_module(C)
def section(txt, pat):
    """the body of the first markdown section whose heading matches pat (up to the next heading of the same or higher level)"""
    m = re.search(r"^(#+)\s*[^\n]*(%s)[^\n]*\n" % pat, txt, re.M | re.I)
    if not m:
        return None
    lvl = len(m.group(1)); rest = txt[m.end():]
    e = re.search(r"^#{1,%d}\s" % lvl, rest, re.M)
    return (rest[:e.start()] if e else rest).strip()
cl, r2, pt = [], [], []
for p in sorted(glob.glob(os.path.join(ROOT, "notes", "C[0-9][0-9].md"))):
    pid = os.path.basename(p)[:-3]; txt = open(p).read()
    s1 = section(txt, r"clauses")
    cl.append("#### %s\n\n%s\n" % (pid, s1 if s1 else "*(no clause table in notes/%s.md yet)*" % pid))
    s2 = section(txt, r"round 2")
    r2.append("#### %s\n\n%s\n" % (pid, s2 if s2 else "*(see notes/%s.md)*" % pid))
    # the section of the notes whose heading starts with Partial / What is partial (not a title that merely contains the word)
    m3 = re.search(r"^(#{2,4})\s*(?:what is\s+)?partial\b[^\n]*\n", txt, re.M | re.I)
    s3 = None
    if m3:
        rest = txt[m3.end():]; e3 = re.search(r"^#{1,%d}\s" % len(m3.group(1)), rest, re.M)
        s3 = (rest[:e3.start()] if e3 else rest).strip()
    c = json.load(open(os.path.join(ROOT, "checks", pid + ".json")))
    ln = c["manifest"]["level_note"]
    pt.append("#### %s\n\n%s\n\n%s\n" % (pid, re.sub(r"\s+", " ", ln), s3 if s3 else ""))
ties = ["| property | Tie module | regenerated input | obligations (theorems) |", "|---|---|---|---|"]
for p in sorted(glob.glob(os.path.join(ROOT, "checks", "C*.json"))):
    c = json.load(open(p))
    for m in c["lean"].get("tie", []):
        mp = C.module_path(m)
        if not os.path.exists(mp):
            continue
        src = open(mp).read()
        gens = sorted(set(re.findall(r"import (Rivaas\.Gen\.\w+)", src)))
        th = [t.split(".")[-1] for t in C.theorems_of(m)]
        ties.append("| %s | `%s` | %s | %d: %s |" % (c["property_id"], m.replace("Rivaas.", ""), ", ".join("`%s`" % g.replace("Rivaas.", "") for g in gens) or "-", len(th), ", ".join(th)[:900]))
hm = ["| refactor | files | checks run | result |", "|---|---|---|---|"]
def hk(p): return int(os.path.basename(os.path.dirname(p))[1:])
for mp in sorted(glob.glob(os.path.join(ROOT, "harmless", "H*", "meta.json")), key=hk):
    hid = os.path.basename(os.path.dirname(mp)); m = json.load(open(mp))
    rp = os.path.join(ROOT, "harmless", "results", hid + ".json")
    r = json.load(open(rp)) if os.path.exists(rp) else None
    if r is None: res = "not run"
    elif not r.get("applied"): res = "patch no longer applies"
    elif r.get("false_alarms"): res = "**false alarm**: " + "; ".join("%s (%s)" % (k, "no-failing-input-found" if "no-failing" in (r["checks"][k]["violation"] or "") else "concrete case") for k in r["false_alarms"])
    else: res = "quiet"
    hm.append("| %s %s | %s | %s | %s |" % (hid, re.sub(r"\s+", " ", m.get("what", "")).replace("|", "/")[:200], ", ".join(m["files"])[:120], ", ".join(m["properties"]), res))
p = os.path.join(ROOT, "DESIGN.md"); s = open(p).read()
for name, t in (("CLAUSES", "\n".join(cl)), ("ROUND2", "\n".join(r2)), ("TIES", "\n".join(ties)), ("HARMLESS", "\n".join(hm)), ("PARTIAL", "\n".join(pt))):
    b, e = "<!-- BEGIN %s -->" % name, "<!-- END %s -->" % name
    s = s[:s.index(b) + len(b)] + "\n" + t + "\n" + s[s.index(e):]
open(p, "w").write(s)
print("DESIGN.md §13 regenerated")
