#!/bin/sh
# finalize.sh — lead's end-of-round pipeline (nothing here is needed by a registered check):
#  manifest + known findings, every quick check on /repo (fresh evidence), schema validation of MANIFEST and every
#  evidence file, DESIGN.md tables. Prints a summary; exit 1 if any check alarms on the unchanged tree.
cd "$(dirname "$0")"
flock /tmp/mkmanifest.lock ./mkmanifest
rc=0
for c in C01 C02 C03 C04 C05 C06 C07 C08 C09 C10 C11 C12 C13 C14 C15 C16 C17 C18 C19 C20; do
  s=$(date +%s)
  out=$(./check $c --tier quick 2>&1); r=$?
  echo "$c rc=$r $(( $(date +%s)-s ))s $(echo "$out" | grep -E '^(OK|VIOLATION)' | cut -c1-160)"
  [ $r -ne 0 ] && rc=1
done
python3-vt - <<'PY' || rc=1
import json, jsonschema, glob, sys
ok = True
try:
    jsonschema.validate(json.load(open('MANIFEST.json')), json.load(open('/root/.vp/MANIFEST.schema.json')))
    print("MANIFEST.json valid")
except Exception as e:
    ok = False; print("MANIFEST.json INVALID:", str(e)[:300])
es = json.load(open('/root/.vp/EVIDENCE.schema.json'))
for f in sorted(glob.glob('evidence/C*.json')):
    try:
        jsonschema.validate(json.load(open(f)), es)
    except Exception as e:
        ok = False; print(f, "INVALID:", str(e)[:300])
print("evidence files:", len(glob.glob('evidence/C*.json')))
sys.exit(0 if ok else 1)
PY
./mkdesign_tables.py
./seeded/table.py
./mkdesign_round2.py
exit $rc
