package main

// Control-flow skeletons of Start / StartTLS / StartMTLS / runServer, regenerated from the Go source of the
// repository under check on every run (syntax only: go/parser). They travel to the Lean driver as case
// line (`c09-skel SKEL <n> { <name> <term> }…`); the driver enumerates all paths of each skeleton with the verified
// enumerator of `Model/LifecycleSkel.lean` and checks the call-order and every-exit-path obligations
// (theorems `…_sound` in `Props/C09.lean` say what a passed check means for every execution).
//
// Term (prefix notation):  C <name> <qual>   call of interest (names are hex strings)
//                          R | N              return (N: the last result is the literal nil, or there is none)
//                          J <s> <t> <e>      `if err := f(…); err != nil { t } else { e }` with the same-package
//                                             callee f inlined as s: the way s returns selects the branch
//                          T <name>           return <call of interest>(…)   (tail call)
//                          G <label>          goto
//                          K                  nothing of interest
//                          S <a> <b>          a ; b
//                          I <t> <e>          if … (one fresh atom per occurrence; the driver numbers them)
//                          O <s>              inlined callee of the same package (its returns leave only it)
//
// Fails closed: a statement form the walker does not know inside one of these functions is reported
// as the term `X <reason>` and the driver rejects the line.

import (
	"bytes"
	"fmt"
	"go/ast"
	"go/parser"
	"go/printer"
	"go/token"
	"os"
	"path/filepath"
	"sort"
	"strings"

	"verif/harness/hx"
)

var skelInterest = map[string]bool{
	"startObservability": true, "executeStartHooks": true, "registerOpenAPIEndpoints": true, "Freeze": true,
	"runServer": true, "abortStartup": true, "Listen": true, "printStartupBanner": true, "flushStartupLogs": true,
	"logStartupInfo": true, "close": true, "startFunc": true, "Close": true, "executeReadyHooks": true,
	"Reload": true, "executeShutdownHooks": true, "Shutdown": true, "shutdownObservability": true,
	"executeStopHooks": true, "LoadX509KeyPair": true, "validate": true,
}

type skNode struct {
	kind string // C R T G K S I O
	name string
	qual string
	kids []*skNode
}

func (n *skNode) tokens(l *hx.Line) {
	switch n.kind {
	case "C":
		l.Tok("C").Str(n.name).Str(n.qual)
	case "T", "G":
		l.Tok(n.kind).Str(n.name)
	default:
		l.Tok(n.kind)
	}
	for _, k := range n.kids {
		k.tokens(l)
	}
}

var skK = &skNode{kind: "K"}

func skSeq(a, b *skNode) *skNode {
	if a.kind == "K" {
		return b
	}
	if b.kind == "K" {
		return a
	}
	return &skNode{kind: "S", kids: []*skNode{a, b}}
}

func skSeqs(ns []*skNode) *skNode {
	out := skK
	for i := len(ns) - 1; i >= 0; i-- {
		out = skSeq(ns[i], out)
	}
	return out
}

type skelErr struct{ msg string }

type skelX struct {
	loopLabel string // label on the event loop itself, when it is left by `break <label>` instead of `goto`
	fset      *token.FileSet
	funcs     map[string]*ast.FuncDecl // "App.m" for methods on *App / App, "f" for functions
	hasInt    map[string]int           // memo: 0 unknown, 1 computing, 2 no, 3 yes
	stack     map[string]bool
	goBody    *skNode // body of the `go func(){…}()` found while walking (runServer has exactly one)
	goCount   int
}

func (x *skelX) fail(n ast.Node, format string, a ...any) {
	where := ""
	if n != nil {
		p := x.fset.Position(n.Pos())
		where = fmt.Sprintf("%s:%d: ", filepath.Base(p.Filename), p.Line)
	}
	panic(skelErr{where + fmt.Sprintf(format, a...)})
}

func (x *skelX) text(n ast.Node) string {
	var b bytes.Buffer
	_ = printer.Fprint(&b, x.fset, n)
	return strings.Join(strings.Fields(b.String()), " ")
}

func calleeOf(c *ast.CallExpr) (name string, recv ast.Expr) {
	switch f := c.Fun.(type) {
	case *ast.Ident:
		return f.Name, nil
	case *ast.SelectorExpr:
		return f.Sel.Name, f.X
	}
	return "", nil
}

// local resolves a call to a function or *App method of the package (syntactically: `a.m(…)` with a
// plain identifier receiver, or `f(…)`).
func (x *skelX) local(c *ast.CallExpr) (string, *ast.FuncDecl) {
	name, recv := calleeOf(c)
	if name == "" {
		return "", nil
	}
	if recv == nil {
		if d, ok := x.funcs[name]; ok {
			return name, d
		}
		return "", nil
	}
	if _, ok := recv.(*ast.Ident); ok {
		if d, ok := x.funcs["App."+name]; ok {
			return "App." + name, d
		}
	}
	return "", nil
}

// interesting: does the body of the function (transitively through local calls) contain a call of interest?
func (x *skelX) interesting(key string, d *ast.FuncDecl) bool {
	switch x.hasInt[key] {
	case 1, 2:
		return false
	case 3:
		return true
	}
	x.hasInt[key] = 1
	found := false
	if d.Body != nil {
		ast.Inspect(d.Body, func(n ast.Node) bool {
			if found {
				return false
			}
			if c, ok := n.(*ast.CallExpr); ok {
				name, _ := calleeOf(c)
				if skelInterest[name] {
					found = true
					return false
				}
				if k, dd := x.local(c); dd != nil && x.interesting(k, dd) {
					found = true
					return false
				}
			}
			return true
		})
	}
	if found {
		x.hasInt[key] = 3
	} else {
		x.hasInt[key] = 2
	}
	return found
}

// expr: the calls of interest inside an expression, in evaluation order. Function literals are not
// entered (their bodies do not run here).
func (x *skelX) expr(e ast.Expr) *skNode {
	if e == nil {
		return skK
	}
	switch v := e.(type) {
	case *ast.CallExpr:
		var parts []*skNode
		name, recv := calleeOf(v)
		if recv != nil {
			parts = append(parts, x.expr(recv))
		} else if _, ok := v.Fun.(*ast.Ident); !ok {
			parts = append(parts, x.expr(v.Fun))
		}
		for _, a := range v.Args {
			parts = append(parts, x.expr(a))
		}
		if skelInterest[name] {
			qual := ""
			switch {
			case recv != nil && (name == "Close" || name == "Shutdown"):
				qual = x.text(recv)
			case name == "close" && len(v.Args) == 1:
				qual = x.text(v.Args[0])
			case name == "startFunc" && len(v.Args) == 1:
				qual = x.text(v.Args[0])
			}
			parts = append(parts, &skNode{kind: "C", name: name, qual: qual})
		} else if key, d := x.local(v); d != nil && x.interesting(key, d) {
			if x.stack[key] {
				x.fail(v, "recursive call of %s", key)
			}
			x.stack[key] = true
			body := x.block(d.Body.List)
			delete(x.stack, key)
			parts = append(parts, &skNode{kind: "O", kids: []*skNode{body}})
		}
		return skSeqs(parts)
	case *ast.UnaryExpr:
		inner := x.expr(v.X)
		if v.Op == token.ARROW {
			return skSeq(inner, &skNode{kind: "C", name: "recv", qual: x.text(v.X)})
		}
		return inner
	case *ast.BinaryExpr:
		// && and || may skip the right operand; calls of interest there would need a branch
		r := x.expr(v.Y)
		if (v.Op == token.LAND || v.Op == token.LOR) && r.kind != "K" {
			x.fail(v, "call of interest in the right operand of %s", v.Op)
		}
		return skSeq(x.expr(v.X), r)
	case *ast.ParenExpr:
		return x.expr(v.X)
	case *ast.SelectorExpr:
		return x.expr(v.X)
	case *ast.StarExpr:
		return x.expr(v.X)
	case *ast.IndexExpr:
		return skSeq(x.expr(v.X), x.expr(v.Index))
	case *ast.SliceExpr:
		return skSeqs([]*skNode{x.expr(v.X), x.expr(v.Low), x.expr(v.High), x.expr(v.Max)})
	case *ast.TypeAssertExpr:
		return x.expr(v.X)
	case *ast.KeyValueExpr:
		return skSeq(x.expr(v.Key), x.expr(v.Value))
	case *ast.CompositeLit:
		var parts []*skNode
		for _, el := range v.Elts {
			parts = append(parts, x.expr(el))
		}
		return skSeqs(parts)
	case *ast.FuncLit, *ast.Ident, *ast.BasicLit, *ast.ArrayType, *ast.MapType, *ast.ChanType, *ast.FuncType,
		*ast.StructType, *ast.InterfaceType, *ast.Ellipsis:
		return skK
	}
	x.fail(e, "expression form %T", e)
	return nil
}

func (x *skelX) block(list []ast.Stmt) *skNode {
	var parts []*skNode
	for _, s := range list {
		parts = append(parts, x.stmt(s))
	}
	return skSeqs(parts)
}

func hasControl(n ast.Node) bool {
	found := false
	ast.Inspect(n, func(m ast.Node) bool {
		switch m.(type) {
		case *ast.FuncLit:
			return false
		case *ast.ReturnStmt, *ast.BranchStmt, *ast.GoStmt:
			found = true
		}
		return !found
	})
	return found
}

func (x *skelX) stmt(s ast.Stmt) *skNode {
	switch v := s.(type) {
	case nil:
		return skK
	case *ast.ExprStmt:
		return x.expr(v.X)
	case *ast.AssignStmt:
		var parts []*skNode
		for _, e := range v.Rhs {
			parts = append(parts, x.expr(e))
		}
		for _, e := range v.Lhs {
			parts = append(parts, x.expr(e))
		}
		return skSeqs(parts)
	case *ast.DeclStmt:
		var parts []*skNode
		if g, ok := v.Decl.(*ast.GenDecl); ok {
			for _, sp := range g.Specs {
				if vs, ok := sp.(*ast.ValueSpec); ok {
					for _, e := range vs.Values {
						parts = append(parts, x.expr(e))
					}
				}
			}
		}
		return skSeqs(parts)
	case *ast.IncDecStmt:
		return x.expr(v.X)
	case *ast.SendStmt:
		return skSeq(x.expr(v.Chan), x.expr(v.Value))
	case *ast.EmptyStmt:
		return skK
	case *ast.BlockStmt:
		return x.block(v.List)
	case *ast.IfStmt:
		if body, ok := x.tryIdiom(v); ok {
			t := x.block(v.Body.List)
			e := skK
			if v.Else != nil {
				e = x.stmt(v.Else)
			}
			return &skNode{kind: "J", kids: []*skNode{body, t, e}}
		}
		head := skSeq(x.stmt(v.Init), x.expr(v.Cond))
		t := x.block(v.Body.List)
		e := skK
		if v.Else != nil {
			e = x.stmt(v.Else)
		}
		if t.kind == "K" && e.kind == "K" {
			return head
		}
		return skSeq(head, &skNode{kind: "I", kids: []*skNode{t, e}})
	case *ast.ReturnStmt:
		if len(v.Results) == 1 {
			if c, ok := v.Results[0].(*ast.CallExpr); ok {
				name, recv := calleeOf(c)
				if skelInterest[name] {
					var parts []*skNode
					if recv != nil {
						parts = append(parts, x.expr(recv))
					}
					for _, a := range c.Args {
						parts = append(parts, x.expr(a))
					}
					return skSeq(skSeqs(parts), &skNode{kind: "T", name: name})
				}
			}
		}
		var parts []*skNode
		for _, e := range v.Results {
			parts = append(parts, x.expr(e))
		}
		kind := "R"
		if n := len(v.Results); n == 0 {
			kind = "N"
		} else if id, ok := v.Results[n-1].(*ast.Ident); ok && id.Name == "nil" {
			kind = "N"
		}
		return skSeq(skSeqs(parts), &skNode{kind: kind})
	case *ast.BranchStmt:
		if v.Tok == token.GOTO && v.Label != nil {
			return &skNode{kind: "G", name: v.Label.Name}
		}
		// `break <label of the event loop>` is the same control flow as `goto <label right after the loop>`
		if v.Tok == token.BREAK && v.Label != nil && x.loopLabel != "" && v.Label.Name == x.loopLabel {
			return &skNode{kind: "G", name: "after " + x.loopLabel}
		}
		x.fail(v, "branch statement %s", v.Tok)
	case *ast.DeferStmt:
		// deferred calls run when the function returns; none of the calls of interest may hide there
		if d := x.expr(v.Call); d.kind != "K" {
			x.fail(v, "deferred call of interest")
		}
		if fl, ok := v.Call.Fun.(*ast.FuncLit); ok {
			if b := x.block(fl.Body.List); b.kind != "K" {
				x.fail(v, "deferred function literal with calls of interest")
			}
		}
		return skK
	case *ast.GoStmt:
		fl, ok := v.Call.Fun.(*ast.FuncLit)
		if !ok {
			if d := x.expr(v.Call); d.kind != "K" {
				x.fail(v, "go statement with a call of interest")
			}
			return skK
		}
		x.goCount++
		x.goBody = x.block(fl.Body.List)
		return &skNode{kind: "C", name: "go"}
	case *ast.ForStmt, *ast.RangeStmt, *ast.SwitchStmt, *ast.TypeSwitchStmt, *ast.SelectStmt:
		// loops and switches are fine as long as nothing of interest and no control transfer is inside
		inner := skK
		func() {
			defer func() {
				if r := recover(); r != nil {
					if _, ok := r.(skelErr); ok {
						inner = &skNode{kind: "X"}
						return
					}
					panic(r)
				}
			}()
			ast.Inspect(v, func(n ast.Node) bool {
				if c, ok := n.(*ast.CallExpr); ok {
					if d := x.expr(c); d.kind != "K" {
						inner = d
					}
				}
				_, isLit := n.(*ast.FuncLit)
				return !isLit
			})
		}()
		if inner.kind != "K" || hasControl(v) {
			x.fail(v, "%T with calls of interest or control transfer", s)
		}
		return skK
	case *ast.LabeledStmt:
		x.fail(v, "label %s in an unexpected place", v.Label.Name)
	}
	x.fail(s, "statement form %T", s)
	return nil
}

// tryIdiom recognises `if …, err := f(…); err != nil {` where f is a same-package callee that gets inlined:
// which branch runs is decided by how f returns, not by a fresh atom.
func (x *skelX) tryIdiom(v *ast.IfStmt) (*skNode, bool) {
	as, ok := v.Init.(*ast.AssignStmt)
	if !ok || len(as.Rhs) != 1 || len(as.Lhs) == 0 {
		return nil, false
	}
	call, ok := as.Rhs[0].(*ast.CallExpr)
	if !ok {
		return nil, false
	}
	key, d := x.local(call)
	name, _ := calleeOf(call)
	if d == nil || skelInterest[name] || !x.interesting(key, d) {
		return nil, false
	}
	errVar, ok := as.Lhs[len(as.Lhs)-1].(*ast.Ident)
	if !ok {
		return nil, false
	}
	cond, ok := v.Cond.(*ast.BinaryExpr)
	if !ok || cond.Op != token.NEQ {
		return nil, false
	}
	l, lok := cond.X.(*ast.Ident)
	r, rok := cond.Y.(*ast.Ident)
	if !lok || !rok || l.Name != errVar.Name || r.Name != "nil" {
		return nil, false
	}
	for _, a := range call.Args {
		if e := x.expr(a); e.kind != "K" {
			return nil, false
		}
	}
	if x.stack[key] {
		x.fail(call, "recursive call of %s", key)
	}
	x.stack[key] = true
	body := x.block(d.Body.List)
	delete(x.stack, key)
	return body, true
}

func isFor(s ast.Stmt) bool { _, ok := s.(*ast.ForStmt); return ok }

type skelOut struct {
	name string
	term *skNode
	err  string
}

// extractSkeletons parses <repo>/app and returns the skeletons (or, per skeleton, why it could not be built).
func extractSkeletons(repo string) []skelOut {
	fset := token.NewFileSet()
	dir := filepath.Join(repo, "app")
	ents, err := os.ReadDir(dir)
	if err != nil {
		return []skelOut{{name: "parse", err: err.Error()}}
	}
	x := &skelX{fset: fset, funcs: map[string]*ast.FuncDecl{}, hasInt: map[string]int{}, stack: map[string]bool{}}
	var names []string
	for _, e := range ents {
		n := e.Name()
		if e.IsDir() || !strings.HasSuffix(n, ".go") || strings.HasSuffix(n, "_test.go") || strings.HasSuffix(n, "_windows.go") {
			continue
		}
		names = append(names, n)
	}
	sort.Strings(names)
	for _, n := range names {
		f, err := parser.ParseFile(fset, filepath.Join(dir, n), nil, parser.SkipObjectResolution)
		if err != nil {
			return []skelOut{{name: "parse", err: err.Error()}}
		}
		for _, d := range f.Decls {
			fd, ok := d.(*ast.FuncDecl)
			if !ok || fd.Body == nil {
				continue
			}
			if fd.Recv == nil {
				x.funcs[fd.Name.Name] = fd
				continue
			}
			if len(fd.Recv.List) == 1 {
				t := fd.Recv.List[0].Type
				if st, ok := t.(*ast.StarExpr); ok {
					t = st.X
				}
				if id, ok := t.(*ast.Ident); ok && id.Name == "App" {
					x.funcs["App."+fd.Name.Name] = fd
				}
			}
		}
	}
	var out []skelOut
	guard := func(name string, f func() *skNode) {
		defer func() {
			if r := recover(); r != nil {
				if e, ok := r.(skelErr); ok {
					out = append(out, skelOut{name: name, err: e.msg})
					return
				}
				panic(r)
			}
		}()
		out = append(out, skelOut{name: name, term: f()})
	}
	for _, entry := range []string{"Start", "StartTLS", "StartMTLS"} {
		d := x.funcs["App."+entry]
		if d == nil {
			out = append(out, skelOut{name: "entry-" + entry, err: "method not found"})
			continue
		}
		guard("entry-"+entry, func() *skNode { return x.block(d.Body.List) })
	}
	// runServer: prefix | goroutine | select arms | after the label
	rs := x.funcs["App.runServer"]
	if rs == nil {
		return append(out, skelOut{name: "runServer", err: "method not found"})
	}
	var pre, post []ast.Stmt
	var loop *ast.ForStmt
	for _, s := range rs.Body.List {
		switch {
		case loop == nil:
			if f, ok := s.(*ast.ForStmt); ok {
				loop = f
			} else if ls, ok := s.(*ast.LabeledStmt); ok && isFor(ls.Stmt) {
				loop = ls.Stmt.(*ast.ForStmt)
				x.loopLabel = ls.Label.Name
			} else {
				pre = append(pre, s)
			}
		default:
			post = append(post, s)
		}
	}
	if loop == nil || loop.Init != nil || loop.Cond != nil || loop.Post != nil || len(loop.Body.List) != 1 {
		return append(out, skelOut{name: "runServer", err: "no `for { select { … } }` event loop found"})
	}
	sel, ok := loop.Body.List[0].(*ast.SelectStmt)
	if !ok {
		return append(out, skelOut{name: "runServer", err: "the event loop is not a single select"})
	}
	guard("run-pre", func() *skNode {
		x.goBody, x.goCount = nil, 0
		t := x.block(pre)
		if x.goCount != 1 {
			x.fail(rs, "expected exactly one goroutine before the event loop, found %d", x.goCount)
		}
		return t
	})
	if x.goBody != nil {
		gb := x.goBody
		guard("run-go", func() *skNode { return gb })
	}
	for _, cl := range sel.Body.List {
		cc := cl.(*ast.CommClause)
		name := "default"
		if cc.Comm != nil {
			var rx ast.Expr
			switch c := cc.Comm.(type) {
			case *ast.ExprStmt:
				rx = c.X
			case *ast.AssignStmt:
				if len(c.Rhs) == 1 {
					rx = c.Rhs[0]
				}
			}
			if u, ok := rx.(*ast.UnaryExpr); ok && u.Op == token.ARROW {
				name = x.text(u.X)
			} else {
				name = "?"
			}
		}
		guard("run-arm "+name, func() *skNode { return x.block(cc.Body) })
	}
	guard("run-after", func() *skNode {
		if len(post) == 0 {
			x.fail(rs, "nothing after the event loop")
		}
		ls, ok := post[0].(*ast.LabeledStmt)
		if !ok {
			if x.loopLabel != "" {
				// the loop is left by `break <its label>`: what follows it plays the part of the labelled statement
				return skSeq(&skNode{kind: "C", name: "label", qual: "after " + x.loopLabel}, x.block(post))
			}
			x.fail(post[0], "the statement after the event loop carries no label")
		}
		rest := append([]ast.Stmt{ls.Stmt}, post[1:]...)
		return skSeq(&skNode{kind: "C", name: "label", qual: ls.Label.Name}, x.block(rest))
	})
	return out
}

// skeletonLines renders the skeletons as one case line (the obligations relate them to each other).
func skeletonLines(repo string) []string {
	sks := extractSkeletons(repo)
	l := hx.NewLine("c09-skel").Tok("SKEL").Nat(len(sks))
	var errs []string
	for _, sk := range sks {
		l.Str(sk.name)
		if sk.err != "" {
			l.Tok("X").Str(sk.err)
			errs = append(errs, sk.name+": "+sk.err)
		} else {
			sk.term.tokens(l)
		}
	}
	l.Sep().Tok("OK")
	return []string{l.String() + hx.Comment(map[string]any{"Skel": "all", "Errs": errs})}
}
