// Harness for C09 (application lifecycle is ordered, shutdown is graceful).
//
// Every case builds a real app.App on loopback ports through the public API only, registers
// instrumented hooks / handlers that append to one event log, injects the faults of the scenario
// (hook returns an error / panics / blocks until its context ends, listen fails, drain exceeds the
// shutdown timeout), holds requests in flight at signal time and probes, from inside the hooks, whether
// the application port serves, whether the metrics port accepts and whether the tracer still records.
//
// Timing is forced, never hoped for: every ordering between goroutines that the expected log depends on is
// established with channels (handlers block until released, hooks wait for the effect they need). The
// only bounded waits are for the *absence* of something (e.g. "no OnReady hook ran after a failed
// listen"); they can only make the harness miss a defect, never report one that is not there.
// A per-case deadline (12 s) fires only if Start never returns: that is an observation (`RES 8`).
package main

import (
	"bytes"
	"context"
	"encoding/json"
	"errors"
	"fmt"
	"io"
	"io/fs"
	"log"
	"net"
	"net/http"
	"os"
	"os/exec"
	"os/signal"
	"path/filepath"
	"regexp"
	"runtime"
	"sort"
	"strconv"
	"strings"
	"sync"
	"sync/atomic"
	"syscall"
	"time"

	"rivaas.dev/app"
	"rivaas.dev/logging"
	"rivaas.dev/metrics"
	"rivaas.dev/router"
	"rivaas.dev/tracing"
	"verif/harness/hx"
)

// ---------------------------------------------------------------- scenario

// hook behaviours
const (
	bOK       = 0
	bErr      = 1 // returns an error (OnStart, OnReload)
	bPanic    = 2
	bBlock    = 3 // OnStart: signal arrives while the hook waits for its context, returns ctx.Err(); OnShutdown: waits for the shutdown deadline; OnReady: does not come back before Start has returned
	bCancelOK = 4 // OnStart only: the stop signal arrives during the hook, the hook still succeeds

	// further ways to panic (the model sees them all as `panic`: containment is promised for any value)
	bPanicErr     = 5  // panic(error)
	bPanicCustom  = 6  // panic(value of a custom type)
	bPanicNilPtr  = 7  // nil pointer dereference (runtime.Error)
	bPanicNilMap  = 8  // write to a nil map (runtime.Error)
	bPanicIndex   = 9  // slice index out of range (runtime.Error)
	bPanicDivZero = 10 // integer divide by zero (runtime.Error)
	bPanicAssert  = 11 // failed type assertion (runtime.Error)
)

var panicKinds = []int{bPanic, bPanicErr, bPanicCustom, bPanicNilPtr, bPanicNilMap, bPanicIndex, bPanicDivZero, bPanicAssert}

func isPanic(b int) bool { return b == bPanic || (b >= bPanicErr && b <= bPanicAssert) }

type customPanic struct{ why string }

var (
	zeroInt  = 0
	nilMap   map[string]int
	emptyInt []int
	anyStr   any = "not an int"
)

// panicWith panics the way behaviour b says: with a plain value, or by a genuine runtime error.
func panicWith(b int, where string) {
	switch b {
	case bPanicErr:
		panic(fmt.Errorf("%s hook panic (injected error value)", where))
	case bPanicCustom:
		panic(customPanic{where})
	case bPanicNilPtr:
		var p *customPanic
		_ = p.why
	case bPanicNilMap:
		nilMap[where] = 1
	case bPanicIndex:
		_ = emptyInt[len(emptyInt)+zeroInt]
	case bPanicDivZero:
		_ = 1 / zeroInt
	case bPanicAssert:
		_ = anyStr.(int)
	}
	panic(where + " hook panic (injected)")
}

// listen faults
const (
	lOK   = 0
	lBusy = 1 // the port is held by another server
	lBad  = 2 // the host is not an address of this machine
	lCert = 3 // StartTLS only: the key pair cannot be loaded
	lCfg  = 4 // StartMTLS only: the mTLS configuration is invalid (no client CAs); no OnStart hooks, no observability —
	// the model's "start-up fails before anything is served" with an empty OnStart list (case line: listen kind 3)
)

// entry points
const (
	pHTTP = 0 // Start
	pTLS  = 1 // StartTLS
	pMTLS = 2 // StartMTLS
)

type Rel struct {
	Kind string // "H" released inside OnShutdown hook J, "D" released once the drain has begun, "N" never (until Start returned)
	J    int
}

type Round struct {
	Trig     int   // 0 programmatic Reload(), 1 SIGHUP
	Beh      []int // behaviour of reload hook i in this round (missing = ok)
	CancelAt int   // index of the reload hook during which the stop signal arrives, -1 = none
	Pair     bool  // the next round is started while this one is inside its first hook
	CtxEnds  bool  `json:",omitempty"` // second (programmatic) round of a pair: its context ends while it waits its turn
}

type Scenario struct {
	Proto int `json:",omitempty"`
	// LateHup: a SIGHUP arrives during the shutdown sequence — 1: while the first OnShutdown hook to run is
	// running, 2: while the first OnStop hook is running. Such a case runs in a child process of its own
	// (no SIGHUP guard there): whether the process survives is the observation.
	LateHup int `json:",omitempty"`
	// MetDead: metrics go over OTLP to a collector that is gone (its shutdown fails); no Prometheus server.
	MetDead bool `json:",omitempty"`
	// MetFlaky (a MetDead scenario whose collector exists): metrics go over OTLP, every 100 ms, to a collector of the
	// harness that fails every export between the stop signal (or the failing OnStart hook) and the return of Start and counts what
	// arrives after Start has returned: the "metrics up after return" probe of such a case (not on the case line)
	MetFlaky bool `json:",omitempty"`
	// MetricsRace: the metrics event handler is slow and nothing waits for the metrics server to come up —
	// effective only when start-up fails right after startObservability (no OnStart hooks, listen fault).
	MetricsRace bool `json:",omitempty"`
	// LateReg: the OnReady, OnShutdown and OnStop hooks are registered from inside the first OnStart hook
	// (legal: the router is not frozen yet) instead of before Start. Needs at least one OnStart hook.
	LateReg bool `json:",omitempty"`
	// ByDeadline: the stop signal is the expiry of a deadline on the lifecycle context, not a cancel.
	ByDeadline bool `json:",omitempty"`
	// ShortWrite: the server's write timeout (120 ms) is shorter than the shutdown timeout, handlers lift
	// their write deadline, and the requests released "during the drain" are released only 250 ms into it.
	// Effective only when nothing else waits (no hook that holds on, no request that is never released).
	ShortWrite bool `json:",omitempty"`
	// RawRoute: the requests held in flight go to a route registered on the router itself (a.Router().GET), not
	// through app.GET (not on the abstract case line: the model does not distinguish it)
	RawRoute bool `json:",omitempty"`
	// SlowLog: the log sink takes 150 ms for the line logged during start-up (not on the abstract case line)
	SlowLog bool `json:",omitempty"`
	// Warm: the App has been through a Start before the observed one (1: failed on a taken port, 2: complete run
	// stopped when ready); not on the abstract case line
	Warm    int `json:",omitempty"`
	Metrics bool
	Tracing bool
	Listen  int
	Starts  []int
	Readies []int
	NReload int
	Shuts   []int
	Stops   []int
	Reqs    []Rel
	Rounds  []Round
}

func (sc *Scenario) shortWrite() bool {
	// (no observability at all: its response-writer wrapper does not let a handler lift its write deadline)
	if !sc.ShortWrite || sc.hasBlockShut() || sc.slowStop() >= 0 || sc.Metrics || sc.Tracing || sc.MetDead {
		return false
	}
	for _, b := range sc.Starts {
		if isPanic(b) {
			return false // (the model's "startup logs held back" after such a panic presupposes a logger)
		}
	}
	d := false
	for _, q := range sc.Reqs {
		if q.Kind == "N" || (q.Kind == "H" && q.J >= len(sc.Shuts)) {
			return false
		}
		if q.Kind == "D" {
			d = true
		}
	}
	return d
}

func (sc *Scenario) lateReg() bool { return sc.LateReg && len(sc.Starts) > 0 }

// slowStop: index of the first OnStop hook that takes longer than the whole shutdown timeout (-1: none)
func (sc *Scenario) slowStop() int {
	for i, b := range sc.Stops {
		if b == bBlock {
			return i
		}
	}
	return -1
}

func (sc *Scenario) metricsRace() bool {
	return sc.MetricsRace && sc.Metrics && len(sc.Starts) == 0 && sc.Listen != lOK
}

func (sc *Scenario) hasBlockShut() bool {
	for _, b := range sc.Shuts {
		if b == bBlock {
			return true
		}
	}
	return false
}

// pairAt: rounds i and i+1 are made to overlap: while round i sits in its first hook, round i+1 is
// triggered. Programmatic + programmatic, programmatic + SIGHUP, SIGHUP + programmatic (two SIGHUP rounds
// cannot overlap: the event loop handles one signal at a time); no stop signal inside either of them.
func (sc *Scenario) pairAt(i int) bool {
	if i < 0 || i+1 >= len(sc.Rounds) || sc.NReload == 0 {
		return false
	}
	a, b := sc.Rounds[i], sc.Rounds[i+1]
	for _, rd := range []Round{a, b} {
		for k, x := range rd.Beh {
			if k < sc.NReload && x == bBlock {
				return false // the stop signal arrives inside that hook
			}
		}
	}
	return a.Pair && !(a.Trig == 1 && b.Trig == 1) && a.CancelAt < 0 && b.CancelAt < 0 && (i == 0 || !sc.pairAt(i-1))
}

func (sc *Scenario) needsSerial() bool {
	if sc.LateHup > 0 && !inChild {
		return false // runs in a process of its own
	}
	for i, r := range sc.Rounds {
		if r.Trig == 1 || sc.pairAt(i) {
			return true
		}
	}
	return false
}

func (sc *Scenario) tokens(l *hx.Line) {
	l.Tok("P").Nat(sc.Proto).Tok("X").Nat(sc.LateHup).Bool(sc.MetDead).Bool(sc.metricsRace()).Bool(sc.lateReg()).Bool(sc.ByDeadline).Bool(sc.shortWrite()).Bool(sc.Metrics).Bool(sc.Tracing).Nat(min(sc.Listen, lCert))
	ints := func(xs []int) {
		l.Nat(len(xs))
		for _, x := range xs {
			l.Nat(x)
		}
	}
	ints(sc.Starts)
	ints(sc.Readies)
	l.Nat(sc.NReload)
	ints(sc.Shuts)
	ints(sc.Stops)
	l.Nat(len(sc.Reqs))
	for _, q := range sc.Reqs {
		switch q.Kind {
		case "H":
			l.Tok("H").Nat(q.J)
		case "D":
			l.Tok("D")
		case "J":
			l.Tok("J")
		default:
			l.Tok("N")
		}
	}
	l.Nat(len(sc.Rounds))
	for _, r := range sc.Rounds {
		l.Nat(r.Trig)
		ints(r.Beh)
		if r.CancelAt >= 0 {
			l.Bool(true).Nat(r.CancelAt)
		} else {
			l.Bool(false)
		}
		l.Bool(r.Pair).Bool(r.CtxEnds)
	}
}

// nontrivial: >= 1 fault is injected or a request is in flight at signal time (DESIGN.md §2.3)
func (sc *Scenario) nontrivial() bool {
	if sc.Listen != lOK || len(sc.Reqs) > 0 {
		return true
	}
	for _, xs := range [][]int{sc.Starts, sc.Readies, sc.Shuts, sc.Stops} {
		for _, b := range xs {
			if b != bOK {
				return true
			}
		}
	}
	for _, r := range sc.Rounds {
		for _, b := range r.Beh {
			if b != bOK {
				return true
			}
		}
		if r.CancelAt >= 0 {
			return true
		}
	}
	return false
}

// ---------------------------------------------------------------- ports

var portCtr atomic.Int64

func init() { portCtr.Store(int64((os.Getpid() * 7919) % 9000)) }

// allocPort hands out a port in 21000..30999 that is free right now on both the wildcard and the
// loopback address (outside the kernel's ephemeral range, so nothing else in the sandbox gets it by chance).
func allocPort() int {
	for {
		p := 21000 + int(portCtr.Add(1)%10000)
		l1, err := net.Listen("tcp", fmt.Sprintf(":%d", p))
		if err != nil {
			continue
		}
		l1.Close()
		l2, err := net.Listen("tcp", fmt.Sprintf("127.0.0.1:%d", p))
		if err != nil {
			continue
		}
		l2.Close()
		return p
	}
}

// ---------------------------------------------------------------- one case

const payloadLen = 48 * 1024

var payload = func() string {
	var b strings.Builder
	for i := 0; b.Len() < payloadLen; i++ {
		b.WriteString(strconv.Itoa(i))
		b.WriteByte(';')
	}
	return b.String()[:payloadLen]
}()

type reqState struct {
	entered  chan struct{}
	release  chan bool // true = log the finishing event
	done     chan struct{}
	complete bool
	released atomic.Bool
}

type roundKey struct{}

// errStopDeadline is what the lifecycle context of a ByDeadline scenario reports once it has expired: it
// is context.DeadlineExceeded to errors.Is, yet distinguishable from the deadline of the drain.
type stopDeadlineErr struct{}

func (stopDeadlineErr) Error() string   { return context.DeadlineExceeded.Error() }
func (stopDeadlineErr) Is(t error) bool { return t == context.DeadlineExceeded }
func (stopDeadlineErr) Timeout() bool   { return true }

var errStopDeadline error = stopDeadlineErr{}

// deadlineCtx is a lifecycle context that ends by deadline: Deadline() reports one, and when the harness
// lets it expire Done() closes with a deadline error (what signal.NotifyContext never does, but what
// `context.WithTimeout(ctx, maxUptime)` or a test's deadline does).
type deadlineCtx struct {
	context.Context
	mu   sync.Mutex
	dl   time.Time
	done chan struct{}
	err  error
}

func newDeadlineCtx() *deadlineCtx {
	return &deadlineCtx{Context: context.Background(), dl: time.Now().Add(time.Hour), done: make(chan struct{})}
}

func (c *deadlineCtx) Deadline() (time.Time, bool) {
	c.mu.Lock()
	defer c.mu.Unlock()
	return c.dl, true
}
func (c *deadlineCtx) Done() <-chan struct{} { return c.done }
func (c *deadlineCtx) Err() error {
	c.mu.Lock()
	defer c.mu.Unlock()
	return c.err
}
func (c *deadlineCtx) expire() {
	c.mu.Lock()
	defer c.mu.Unlock()
	if c.err == nil {
		c.dl = time.Now()
		c.err = errStopDeadline
		close(c.done)
	}
}

// lockedBuf is the io.Writer the application's logger writes to.
type lockedBuf struct {
	mu sync.Mutex
	b  bytes.Buffer
	// slow: the write that carries the startup marker takes this long (a log sink that is slow when the startup
	// buffer is flushed: a terminal, a pipe to a collector)
	slow time.Duration
}

func (l *lockedBuf) Write(p []byte) (int, error) {
	if l.slow > 0 && bytes.Contains(p, []byte(startupMarker)) {
		time.Sleep(l.slow)
	}
	l.mu.Lock()
	defer l.mu.Unlock()
	return l.b.Write(p)
}

func (l *lockedBuf) contains(s string) bool {
	l.mu.Lock()
	defer l.mu.Unlock()
	return bytes.Contains(l.b.Bytes(), []byte(s))
}

const startupMarker = "verif-c09-startup-marker"

// A tree that is broken in a way that makes cases slow (a port that accepts but is not served while hooks
// probe it, a Start that never returns) is reported from the cases run so far: after a few such events
// the remaining cases are skipped, so that the verdict comes in well under the quick budget.
var (
	slowProbes atomic.Int64
	hungCases  atomic.Int64
	giveUp     atomic.Bool
)

const (
	slowProbeLimit = 6
	hungCaseLimit  = 3
)

// stallEpoch counts the scheduling stalls of this process: a goroutine that sleeps 50 ms at a time and
// finds itself woken more than 400 ms late. A frozen or badly starved machine (the sandbox shares its
// cores) makes every timeout of the harness and of the application meaningless, so a case during which
// the epoch moved is discarded, whatever it observed.
var stallEpoch atomic.Int64

func watchStalls() {
	last := time.Now()
	for {
		time.Sleep(50 * time.Millisecond)
		now := time.Now()
		if now.Sub(last) > 450*time.Millisecond {
			stallEpoch.Add(1)
		}
		last = now
	}
}

// caseDeadline: every legitimate case is over within ~3 s (two 1 s budgets plus work); a case that takes
// longer than this has a Start that does not return.
const caseDeadline = 12 * time.Second

type runner struct {
	id      string
	sc      *Scenario
	a       *app.App
	appPort int
	metPort int

	mu  sync.Mutex
	log []string
	at  []time.Time // when each event was logged (never emitted; used to see whether the timing was forced)

	ctx       context.Context
	cancelFn  context.CancelFunc
	cancelled atomic.Bool

	startDone chan struct{} // closed when Start has returned (or panicked) and `r` is logged
	startGID  atomic.Int64
	res       int
	fin       [3]bool
	collector *http.Server
	colAddr   string
	t0        time.Time
	errText   string

	readyLeft atomic.Int64
	readyAll  chan struct{}

	reqs []*reqState

	hupRound     atomic.Int64
	lateExports  atomic.Int64 // MetFlaky: metric exports that arrived after Start had returned
	earlyExports atomic.Int64
	closing      atomic.Bool                        // an OnStart hook is about to fail: start-up will be aborted
	returned     atomic.Bool                        // Start has returned (set when the event r is logged)
	warmReady    atomic.Int64                       // OnReady hooks of the warm-up run that have run (they are asynchronous)
	warm         atomic.Bool                        // the warm-up Start is running: hooks are silent no-ops
	warmCancel   atomic.Pointer[context.CancelFunc] // stops the complete warm-up run once it is ready
	roundDone    []chan struct{}
	roundRes     []int // 0 ok 1 err 9 panic 2 n/a
	pairGID      atomic.Int64
	pairIn       atomic.Bool
	pairDone     chan struct{}

	logBuf lockedBuf // what the application's logger has written

	registerRest func() // registers the OnReady, OnShutdown and OnStop hooks

	drainPending atomic.Bool // the drainer has requests to release and has not released them all yet

	abandoned atomic.Bool   // the case hit its deadline: its goroutines must not touch anything process-wide any more
	abandonCh chan struct{} // closed together with `abandoned`

	discard string
	notes   []string
	client  *http.Client // talks to the application (TLS as the entry point requires)
	plain   *http.Client // talks to the metrics server

	probeClient *http.Client // like client, with the probe timeout
}

func (r *runner) ev(s string) {
	r.mu.Lock()
	r.log = append(r.log, s)
	r.at = append(r.at, time.Now())
	r.mu.Unlock()
}

// timingForced decides whether the environment did its part well inside the time budgets of the
// application (shutdown timeout 1 s for the hooks and the drain, 1 s for the clean-up after a failed
// start, 1 s for the final steps after a used-up budget). On a loaded machine a goroutine of the
// harness can be late; the case then says nothing about the property and is discarded (and counted).
//
// Between the signal and the return of Start there is at most one wait for the deadline, and only in
// scenarios that contain one: inside the first OnShutdown hook that holds on (it ends with that hook's
// exit event), or in the drain when a request is never released (it ends with the first flush / OnStop /
// return event). Everything before the wait and everything after it must have taken less than half a
// budget, and no request may have been released by the drainer after the wait.
func (r *runner) timingForced() bool {
	const half = 500 * time.Millisecond
	r.mu.Lock()
	defer r.mu.Unlock()
	ir, ic := -1, -1
	for i, e := range r.log {
		if e == "r" && ir < 0 {
			ir = i
		}
		if e == "c" && ic < 0 {
			ic = i
		}
	}
	if ir < 0 {
		return true
	}
	if ic < 0 || ic > ir {
		return ir == 0 || r.at[ir].Sub(r.at[ir-1]) < half
	}
	i0 := ic
	for j := ic + 1; j < ir; j++ {
		if strings.HasPrefix(r.log[j], "s ") || strings.HasPrefix(r.log[j], "S ") || strings.HasPrefix(r.log[j], "y ") {
			i0 = j
		}
	}
	// where does the wait end?
	x := -1
	bstar := -1
	for i, b := range r.sc.Shuts {
		if b == bBlock {
			bstar = i
		}
	}
	stuck := false
	for _, q := range r.sc.Reqs {
		if q.Kind == "N" || (q.Kind == "H" && q.J >= len(r.sc.Shuts)) {
			stuck = true
		}
	}
	if bstar >= 0 {
		want := fmt.Sprintf("H %d", bstar)
		for j := i0 + 1; j <= ir; j++ {
			if r.log[j] == want {
				x = j
				break
			}
		}
	} else {
		for j := i0 + 1; j <= ir; j++ {
			if e := r.log[j]; e == "f" || e == "r" || strings.HasPrefix(e, "p ") {
				x = j
				break
			}
		}
		// a request released by the drainer after the drain has ended: the drainer was late
		for j := x + 1; x >= 0 && j < len(r.log); j++ {
			if strings.HasPrefix(r.log[j], "Q ") {
				return false
			}
		}
		if !stuck {
			x = -1 // no wait in this scenario
		}
	}
	if r.sc.shortWrite() && bstar < 0 && !stuck {
		// the one wait of the scenario is the drain waiting for the late requests: it ends with the first of them
		// finishing, and must have ended well inside the shutdown timeout
		for j := i0 + 1; j <= ir; j++ {
			if f := strings.Fields(r.log[j]); len(f) >= 2 && f[0] == "Q" {
				if k, err := strconv.Atoi(f[1]); err == nil && k < len(r.sc.Reqs) && r.sc.Reqs[k].Kind == "D" {
					x = j
					break
				}
			}
		}
		if x > 0 && r.at[x].Sub(r.at[x-1]) > 800*time.Millisecond {
			return false
		}
	}
	if k := r.sc.slowStop(); k >= 0 {
		if bstar >= 0 || stuck {
			return true // two waits: nothing to check against (the generator does not build these)
		}
		// the one wait of the scenario is inside the slow OnStop hook: it ends with that hook's exit event
		want, enter := fmt.Sprintf("P %d", k), fmt.Sprintf("p %d ", k)
		for j := i0 + 1; j <= ir; j++ {
			if r.log[j] == want {
				x = j
				break
			}
			if strings.HasPrefix(r.log[j], enter) && x < 0 {
				// the hook has been entered; should Start return before the hook is through, the wait ends
				// there (the harness has no part in this wait)
				x = j + 1
			}
		}
	}
	var before, after time.Duration
	for j := i0; j < ir; j++ {
		g := r.at[j+1].Sub(r.at[j])
		switch {
		case j+1 == x:
		case x < 0 || j+1 < x:
			before += g
		default:
			after += g
		}
	}
	return before < half && after < half
}

func b2s(b bool) string {
	if b {
		return "1"
	}
	return "0"
}

func (r *runner) appURL(path string) string {
	scheme := "http"
	if r.sc.Proto != pHTTP {
		scheme = "https"
	}
	return fmt.Sprintf("%s://127.0.0.1:%d%s", scheme, r.appPort, path)
}

func (r *runner) newTransport() *http.Transport {
	t := &http.Transport{DisableKeepAlives: true}
	if r.sc.Proto != pHTTP {
		t.TLSClientConfig = clientTLS()
	}
	return t
}

// probeApp: does *this* application serve HTTP on its port right now?
//
// "Open" is decided at the TCP level first: a refused connect is a closed port (the normal answer before
// the listener exists, and an immediate one). A port that accepts but does not answer within the probe
// timeout (bound, nobody serving: the kernel completes handshakes) counts as open — and is counted in
// slowProbes: on a correct tree that never happens, on a broken one every such probe costs a timeout.
// portOpen: does a TCP connect to the application's port succeed?
func (r *runner) portOpen() bool {
	c, err := net.DialTimeout("tcp", fmt.Sprintf("127.0.0.1:%d", r.appPort), 2*time.Second)
	if err != nil {
		return false
	}
	c.Close()
	return true
}

func (r *runner) probeApp() bool {
	c, err := net.DialTimeout("tcp", fmt.Sprintf("127.0.0.1:%d", r.appPort), 2*time.Second)
	if err != nil {
		return false
	}
	c.Close()
	req, _ := http.NewRequest("GET", r.appURL("/__probe"), nil)
	req.Close = true
	resp, err := r.probeClient.Do(req)
	if err != nil {
		var ne net.Error
		if errors.As(err, &ne) && ne.Timeout() {
			if slowProbes.Add(1) >= slowProbeLimit {
				giveUp.Store(true)
			}
			return true
		}
		return false
	}
	defer resp.Body.Close()
	io.Copy(io.Discard, resp.Body)
	return resp.StatusCode == 200 && resp.Header.Get("X-Verif-Case") == r.id
}

// probeMetrics: does the metrics server answer on its port? (An HTTP round trip, not a bare connect:
// metrics.Recorder test-binds the port before its server goroutine binds it for real.)
func (r *runner) probeMetrics() bool {
	if !r.sc.Metrics {
		return false
	}
	req, _ := http.NewRequest("GET", fmt.Sprintf("http://127.0.0.1:%d/metrics", r.metPort), nil)
	req.Close = true
	resp, err := r.plain.Do(req)
	if err != nil {
		return false
	}
	defer resp.Body.Close()
	io.Copy(io.Discard, resp.Body)
	return resp.StatusCode == 200
}

// span records one finished span, so that there is always something for the tracer to flush.
func (r *runner) span(name string) {
	if !r.sc.Tracing || r.a.Tracing() == nil {
		return
	}
	_, sp := r.a.Tracing().StartSpan(context.Background(), name)
	sp.End()
}

func (r *runner) probes2() string {
	return b2s(r.probeApp()) + " " + b2s(r.probeMetrics())
}

func (r *runner) signal() {
	if r.cancelled.CompareAndSwap(false, true) {
		r.span("signal")
		r.ev("c")
		r.cancelFn()
		go r.drainer()
	}
}

func (r *runner) started() bool {
	select {
	case <-r.startDone:
		return true
	default:
		return false
	}
}

// releaseReq lets handler k finish and waits until its client has the whole response (or failed).
func (r *runner) releaseReq(k int, logIt bool) {
	q := r.reqs[k]
	select {
	case <-q.entered:
	default:
		return // never sent
	}
	if !q.released.CompareAndSwap(false, true) {
		return
	}
	q.release <- logIt
	select {
	case <-q.done:
	case <-time.After(10 * time.Second):
		r.notes = append(r.notes, fmt.Sprintf("client %d did not finish", k))
	}
}

// drainer releases the "D" requests once the application listener is closed, i.e. once
// http.Server.Shutdown has begun (unless the shutdown deadline has passed before the drain: then they
// behave like "N").
func (r *runner) drainer() {
	var ds []int
	for k, q := range r.sc.Reqs {
		if q.Kind == "D" {
			ds = append(ds, k)
		}
	}
	if len(ds) == 0 || r.sc.hasBlockShut() {
		return
	}
	select {
	case <-r.reqs[ds[0]].entered:
	default:
		return // the requests were never sent (signal during start-up)
	}
	r.drainPending.Store(true)
	for {
		if r.started() {
			return
		}
		c, err := net.DialTimeout("tcp", fmt.Sprintf("127.0.0.1:%d", r.appPort), time.Second)
		if err != nil {
			break
		}
		c.Close()
		time.Sleep(500 * time.Microsecond)
	}
	if r.sc.shortWrite() {
		// the requests finish late in the drain: after the write timeout, well before the shutdown timeout
		select {
		// (250 ms: net/http's Shutdown looks at the connections at ~255 ms, ~511 ms and then not before ~1011 ms — a
		// request that finishes after the 511 ms look would be reported as a drain timeout by net/http itself)
		case <-time.After(250 * time.Millisecond):
		case <-r.startDone:
		}
	}
	for _, k := range ds {
		if r.started() {
			return
		}
		r.releaseReq(k, true)
	}
	r.drainPending.Store(false)
}

var gidRe = regexp.MustCompile(`^goroutine (\d+) `)

func curGID() int64 {
	buf := make([]byte, 64)
	n := runtime.Stack(buf, false)
	m := gidRe.FindSubmatch(buf[:n])
	if m == nil {
		return -1
	}
	v, _ := strconv.ParseInt(string(m[1]), 10, 64)
	return v
}

// goroutineBlock returns the stack dump block of goroutine gid ("" when it is gone).
func goroutineBlock(gid int64) string {
	buf := make([]byte, 1<<20)
	for {
		n := runtime.Stack(buf, true)
		if n < len(buf) {
			buf = buf[:n]
			break
		}
		buf = make([]byte, 2*len(buf))
	}
	head := []byte(fmt.Sprintf("goroutine %d [", gid))
	i := bytes.Index(buf, head)
	for i > 0 && buf[i-1] != '\n' {
		j := bytes.Index(buf[i+1:], head)
		if j < 0 {
			return ""
		}
		i = i + 1 + j
	}
	if i < 0 {
		return ""
	}
	rest := buf[i:]
	if j := bytes.Index(rest, []byte("\n\n")); j >= 0 {
		rest = rest[:j]
	}
	return string(rest)
}

// waitParkedInSelect waits until the Start goroutine sits in the select loop of runServer, i.e. the
// SIGHUP subscription is in place.
func (r *runner) waitParkedInSelect() bool {
	dl := time.Now().Add(3 * time.Second)
	for time.Now().Before(dl) {
		if r.started() {
			return true
		}
		blk := goroutineBlock(r.startGID.Load())
		if strings.Contains(blk, "[select") && strings.Contains(blk, ").runServer(") {
			first := strings.SplitN(blk, "\n", 3)
			// the innermost frame must be runServer itself (not a select inside a callee)
			if len(first) >= 2 && strings.Contains(first[1], ").runServer(") {
				return true
			}
		}
		time.Sleep(200 * time.Microsecond)
	}
	return false
}

func (r *runner) behOf(round, i int) int {
	if round < 0 || round >= len(r.sc.Rounds) {
		return bOK
	}
	b := r.sc.Rounds[round].Beh
	if i < len(b) {
		return b[i]
	}
	return bOK
}

func (r *runner) reloadHook(i int) func(context.Context) error {
	return func(ctx context.Context) error {
		if r.warm.Load() {
			return nil
		}
		round := int(r.hupRound.Load())
		prog := false
		if v, ok := ctx.Value(roundKey{}).(int); ok {
			round = v
			prog = true
		}
		r.ev(fmt.Sprintf("l %d %d", round, i))
		if round >= 0 && round < len(r.sc.Rounds) {
			rd := r.sc.Rounds[round]
			if r.sc.pairAt(round) && i == 0 {
				if r.sc.Rounds[round+1].Trig == 1 {
					r.pairRendezvousHup(round + 1)
				} else {
					r.pairRendezvous(round + 1)
				}
			}
			if r.sc.pairAt(round-1) && i == 0 {
				r.pairIn.Store(true)
			}
			if rd.CancelAt == i {
				r.signal()
				if !prog {
					r.watchOverlap()
				}
				if prog {
					select {
					case <-r.startDone:
					case <-r.abandonCh:
					}
				}
			}
		}
		b := r.behOf(round, i)
		var blockErr error
		if b == bBlock {
			// the hook waits for its context (a config fetch that hangs): the stop signal arrives while it
			// does, and the hook gives up with ctx.Err(). Started by SIGHUP it runs on the goroutine of Start:
			// if its context never ended, Start would never get to the shutdown sequence.
			r.signal()
			select {
			case <-ctx.Done():
				blockErr = ctx.Err()
			case <-r.abandonCh:
				blockErr = errInjected
			}
			if !prog {
				r.watchOverlap()
			}
			if prog {
				select {
				case <-r.startDone:
				case <-r.abandonCh:
				}
			}
		}
		r.ev(fmt.Sprintf("L %d %d", round, i))
		last := i == r.sc.NReload-1 || b == bErr || b == bBlock || isPanic(b)
		if last && !prog && round >= 0 && round < len(r.roundDone) {
			close(r.roundDone[round])
		}
		switch {
		case b == bErr:
			return errInjected
		case b == bBlock:
			return blockErr
		case isPanic(b):
			panicWith(b, "reload")
		}
		return nil
	}
}

// pairRendezvous (inside the first hook of round A): start round B concurrently and wait until B is
// parked on the reload mutex — or has entered a hook, which is the overlap the property forbids.
func (r *runner) pairRendezvous(b int) {
	ctxB, cancelB := context.WithCancel(context.WithValue(r.ctx, roundKey{}, b)) // cancelled only if the scenario says so
	started := make(chan struct{})
	done := make(chan struct{})
	go func() {
		r.pairGID.Store(curGID())
		close(started)
		r.roundRes[b] = r.callReloadCtx(ctxB)
		close(done)
	}()
	<-started
	dl := time.Now().Add(300 * time.Millisecond)
	confirmed := false
	for time.Now().Before(dl) {
		if r.pairIn.Load() {
			confirmed = true
			break
		}
		blk := goroutineBlock(r.pairGID.Load())
		if strings.Contains(blk, ").Reload(") && (strings.Contains(blk, "Mutex") || strings.Contains(blk, "semacquire")) {
			confirmed = true
			break
		}
		select {
		case <-done:
			confirmed = true
		default:
		}
		if confirmed {
			break
		}
		time.Sleep(200 * time.Microsecond)
	}
	if !confirmed && !r.sc.Rounds[b].CtxEnds {
		r.notes = append(r.notes, "pair-unconfirmed")
	}
	if r.sc.Rounds[b].CtxEnds {
		// the caller of round B gives up waiting (its request was cancelled): Reload is not context-aware while
		// it waits its turn, so B still runs after A — and whatever B does, later reloads must still get their turn
		cancelB()
	}
	r.pairDone = done
}

// watchOverlap (inside a hook of a round started by SIGHUP, right after the stop signal): such a hook runs
// on the goroutine of Start, so nothing of the shutdown sequence can happen before it returns. Wait a
// moment to see whether something is logged all the same. Bounded: on correct code nothing can come, the
// wait only costs its 250 ms; an overlap that comes later is merely missed.
func (r *runner) watchOverlap() {
	r.mu.Lock()
	n0 := len(r.log)
	r.mu.Unlock()
	for dl := time.Now().Add(250 * time.Millisecond); time.Now().Before(dl); time.Sleep(time.Millisecond) {
		r.mu.Lock()
		n, last := len(r.log), ""
		if n > 0 {
			last = r.log[n-1]
		}
		r.mu.Unlock()
		if n > n0 && last == "r" {
			return
		}
		if r.abandoned.Load() {
			return
		}
	}
}

// pairRendezvousHup (inside the first hook of the programmatic round A): send SIGHUP, so that the event
// loop starts round B, and wait until the Start goroutine is parked on the reload mutex — or B has entered
// a hook, which is the overlap the property forbids. The wait is bounded: on correct code B cannot begin
// before A is through, so running into the bound can only make the harness miss an overlap, never
// report one that is not there.
func (r *runner) pairRendezvousHup(b int) {
	if r.abandoned.Load() {
		return
	}
	r.hupRound.Store(int64(b))
	_ = syscall.Kill(os.Getpid(), syscall.SIGHUP)
	dl := time.Now().Add(400 * time.Millisecond)
	for time.Now().Before(dl) {
		if r.pairIn.Load() || r.started() {
			return
		}
		blk := goroutineBlock(r.startGID.Load())
		if strings.Contains(blk, ").Reload(") && (strings.Contains(blk, "Mutex") || strings.Contains(blk, "semacquire")) {
			return
		}
		time.Sleep(200 * time.Microsecond)
	}
	r.notes = append(r.notes, "pair-unconfirmed")
}

func (r *runner) callReload(round int) (res int) {
	defer func() {
		if p := recover(); p != nil {
			res = 9
		}
	}()
	return r.callReloadCtx(context.WithValue(r.ctx, roundKey{}, round))
}

func (r *runner) callReloadCtx(ctx context.Context) (res int) {
	defer func() {
		if p := recover(); p != nil {
			res = 9
		}
	}()
	if err := r.a.Reload(ctx); err != nil {
		return 1
	}
	return 0
}

// lateHup: a SIGHUP arrives now (child process only: nothing but the application decides what SIGHUP does
// to this process). If the process is going to die of it, it does so within the short wait.
func (r *runner) lateHup() {
	if !inChild {
		return
	}
	_ = syscall.Kill(os.Getpid(), syscall.SIGHUP)
	time.Sleep(60 * time.Millisecond)
}

// hijacked: the handler takes over its connection, sends the head and the first half of the response,
// and finishes the exchange when it is released — after Start has returned.
func (r *runner) hijacked(c *app.Context, k int, q *reqState) {
	hj, ok := c.Response.(http.Hijacker)
	if !ok {
		r.discard = "the response writer is not an http.Hijacker"
		_ = c.String(500, "no hijacker")
		close(q.entered)
		return
	}
	conn, rw, err := hj.Hijack()
	if err != nil {
		r.discard = "Hijack: " + err.Error()
		close(q.entered)
		return
	}
	defer conn.Close()
	half := len(payload) / 2
	fmt.Fprintf(rw, "HTTP/1.1 200 OK\r\nContent-Type: text/plain\r\nContent-Length: %d\r\nConnection: close\r\n\r\n", len(payload))
	rw.WriteString(payload[:half])
	rw.Flush()
	r.ev(fmt.Sprintf("q %d", k))
	close(q.entered)
	<-q.release
	rw.WriteString(payload[half:])
	rw.Flush()
}

// start calls the entry point of the scenario.
func (r *runner) start() error { return r.startCtx(r.ctx) }

// warmup (Scenario.Warm): the same App has been through a Start before the run that is observed — 1: an attempt that
// failed because the port was taken (abortStartup ran), 2: a complete run, stopped as soon as it was ready (the whole
// shutdown sequence ran). During the warm-up every hook of the harness is a silent no-op.
func (r *runner) warmup() {
	r.warm.Store(true)
	defer r.warm.Store(false)
	switch r.sc.Warm {
	case 1:
		ln, err := net.Listen("tcp", fmt.Sprintf("127.0.0.1:%d", r.appPort))
		if err != nil {
			r.discard = "warm-up blocker: " + err.Error()
			return
		}
		ctx, cancel := context.WithCancel(context.Background())
		err = r.startCtx(ctx)
		cancel()
		ln.Close()
		if err == nil {
			r.discard = "warm-up: Start succeeded on a taken port"
		}
	case 2:
		ctx, cancel := context.WithCancel(context.Background())
		r.warmCancel.Store(&cancel)
		done := make(chan error, 1)
		go func() { done <- r.startCtx(ctx) }()
		select {
		case err := <-done:
			if err != nil {
				r.discard = "warm-up run failed: " + err.Error()
			}
		case <-time.After(8 * time.Second):
			r.discard = "warm-up run did not end"
		}
		cancel()
		// the OnReady hooks are fire-and-forget goroutines: every one of the warm-up run must have run (silently)
		// before the observed run begins
		for dl := time.Now().Add(3 * time.Second); r.warmReady.Load() < int64(len(r.sc.Readies)+1); time.Sleep(200 * time.Microsecond) {
			if time.Now().After(dl) {
				r.discard = "OnReady hooks of the warm-up run still outstanding"
				break
			}
		}
	}
}

func (r *runner) startCtx(ctx context.Context) error {
	switch r.sc.Proto {
	case pTLS:
		p, err := pki()
		if err != nil {
			r.discard = "pki: " + err.Error()
			return err
		}
		if r.sc.Listen == lCert {
			return r.a.StartTLS(ctx, filepath.Join(p.dir, "missing.crt"), p.keyFile)
		}
		return r.a.StartTLS(ctx, p.certFile, p.keyFile)
	case pMTLS:
		p, err := pki()
		if err != nil {
			r.discard = "pki: " + err.Error()
			return err
		}
		if r.sc.Listen == lCfg {
			return r.a.StartMTLS(ctx, p.serverCert)
		}
		return r.a.StartMTLS(ctx, p.serverCert, app.WithClientCAs(p.pool))
	}
	return r.a.Start(ctx)
}

// errInjected is what a failing OnStart / OnReload hook returns.
var errInjected = errors.New("hook failed (injected)")

// classify maps the result of Start to the small enum of the case line. By what the error *is*
// (errors.Is through the %w chain), never by its text: rewording a message must not alarm.
func classify(err error) int {
	switch {
	case err == nil:
		return 0
	case errors.Is(err, errInjected), errors.Is(err, context.Canceled), errors.Is(err, errStopDeadline):
		return 1 // an OnStart hook returned an error / gave up with its cancelled context
	case errors.Is(err, syscall.EADDRINUSE), errors.Is(err, syscall.EADDRNOTAVAIL), errors.Is(err, fs.ErrNotExist):
		return 2 // the server could not be started: bind failed, key pair unreadable
	case errors.Is(err, context.DeadlineExceeded):
		return 3 // the drain exceeded the shutdown timeout
	}
	return 5
}

func waitCh(ch <-chan struct{}, d time.Duration) bool {
	select {
	case <-ch:
		return true
	case <-time.After(d):
		return false
	}
}

// build creates the application for the scenario and registers all hooks.
func (r *runner) build() error {
	sc := r.sc
	host := "127.0.0.1"
	if sc.Listen == lBad {
		host = "192.0.2.1" // TEST-NET-1: not an address of this machine, bind fails with EADDRNOTAVAIL
	}
	serverOpts := []app.ServerOption{app.WithShutdownTimeout(time.Second)}
	if sc.shortWrite() {
		serverOpts = append(serverOpts, app.WithReadTimeout(100*time.Millisecond), app.WithWriteTimeout(120*time.Millisecond))
	}
	opts := []app.Option{
		app.WithServiceName("verif-c09"),
		app.WithServiceVersion("1.0.0"),
		app.WithHost(host),
		app.WithPort(r.appPort),
		app.WithServer(serverOpts...),
	}
	// the logger writes to a buffer of the harness: app.New puts it into startup-buffering mode, and
	// whether what is logged during start-up ever comes out is part of the observation
	if sc.SlowLog {
		r.logBuf.slow = 150 * time.Millisecond
	}
	lopts := []logging.Option{logging.WithJSONHandler(), logging.WithOutput(&r.logBuf)}
	if sc.Warm > 0 {
		// a sampling configuration that samples nothing out (with the ticker that resets its counter)
		lopts = append(lopts, logging.WithSampling(logging.SamplingConfig{Initial: 1 << 30, Thereafter: 0, Tick: time.Hour}))
	}
	obs := []app.ObservabilityOption{app.WithLogging(lopts...)}
	switch {
	case sc.Metrics:
		mo := []metrics.Option{metrics.WithPrometheus(fmt.Sprintf(":%d", r.metPort), "/metrics"), metrics.WithStrictPort()}
		if sc.metricsRace() {
			mo = append(mo, metrics.WithEventHandler(func(metrics.Event) { time.Sleep(30 * time.Millisecond) }))
		}
		obs = append(obs, app.WithMetrics(mo...))
	case sc.MetDead && sc.MetFlaky:
		obs = append(obs, app.WithMetrics(metrics.WithOTLP(fmt.Sprintf("http://127.0.0.1:%d", r.metPort)), metrics.WithExportInterval(100*time.Millisecond)))
	case sc.MetDead:
		// nobody listens on metPort: every export fails, and so does the shutdown of the meter provider
		obs = append(obs, app.WithMetrics(metrics.WithOTLP(fmt.Sprintf("http://127.0.0.1:%d", r.metPort))))
	}
	if sc.Tracing {
		// traces go to a collector of our own: an export request arriving there *is* the flush
		obs = append(obs, app.WithTracing(tracing.WithOTLPHTTP("http://"+r.colAddr)))
	}
	if !sc.shortWrite() {
		opts = append(opts, app.WithObservability(obs...))
	}
	a, err := app.New(opts...)
	if err != nil {
		return err
	}
	r.a = a
	if sc.Listen == lCfg {
		// no OnStart hook is going to run: the line that tells whether the startup buffer was written out is logged here
		a.BaseLogger().Info(startupMarker)
	}

	a.GET("/__probe", func(c *app.Context) {
		c.Response.Header().Set("X-Verif-Case", r.id)
		_ = c.String(200, "ok")
	})
	// held requests: through an app route (app.Context) or — RawRoute — through a route registered on the router
	// itself (a.Router().GET: an ordinary way to add routes, no app-level wrapper around the handler)
	held := func(c *router.Context, ac *app.Context) {
		k, _ := strconv.Atoi(c.Param("k"))
		if k < 0 || k >= len(r.reqs) {
			_ = c.String(404, "no")
			return
		}
		q := r.reqs[k]
		if sc.shortWrite() {
			// a handler that knows it may take long lifts the write deadline the server put on its connection
			if err := http.NewResponseController(c.Response).SetWriteDeadline(time.Time{}); err != nil {
				r.discard = "the write deadline cannot be lifted through this response writer: " + err.Error()
			}
		}
		if sc.Reqs[k].Kind == "J" && ac != nil {
			r.hijacked(ac, k, q)
			return
		}
		r.ev(fmt.Sprintf("q %d", k))
		close(q.entered)
		logIt := <-q.release
		if logIt {
			r.ev(fmt.Sprintf("Q %d %s", k, b2s(r.probeMetrics())))
		}
		_ = c.String(200, payload)
	}
	a.GET("/r/:k", func(c *app.Context) { held(c.Context, c) })
	a.Router().GET("/rr/:k", func(c *router.Context) { held(c, nil) })

	// instrumentation hook (not logged): wait until the metrics server accepts, so that "still open"
	// and "closed" are both decidable with a single connect attempt later on
	{
		a.OnStart(func(ctx context.Context) error {
			if r.warm.Load() {
				return nil
			}
			a.BaseLogger().Info(startupMarker)
			r.span("boot")
			dl := time.Now().Add(5 * time.Second)
			for sc.Metrics && !sc.metricsRace() && time.Now().Before(dl) {
				if r.probeMetrics() {
					return nil
				}
				time.Sleep(200 * time.Microsecond)
			}
			if sc.Metrics && !sc.metricsRace() {
				r.discard = "metrics server did not come up"
			}
			return nil
		})
	}
	if sc.Warm == 2 {
		a.OnReady(func() {
			if c := r.warmCancel.Load(); r.warm.Load() && c != nil {
				(*c)()
				r.warmReady.Add(1)
			}
		})
	}
	for i, b := range sc.Starts {
		a.OnStart(func(ctx context.Context) error {
			if r.warm.Load() {
				return nil
			}
			if i == 0 && sc.lateReg() {
				r.registerRest()
			}
			// (an App that has been started before keeps its router frozen: the probe says nothing then)
			r.ev(fmt.Sprintf("s %d %s %s", i, r.probes2(), b2s(r.a.Router().Frozen() && sc.Warm == 0)))
			var err error
			switch b {
			case bErr:
				r.closing.Store(true)
				err = errInjected
			case bBlock:
				r.signal()
				<-ctx.Done()
				err = ctx.Err()
			case bCancelOK:
				r.signal()
			}
			r.ev(fmt.Sprintf("S %d", i))
			if isPanic(b) {
				panicWith(b, "start")
			}
			return err
		})
	}
	// the OnReady / OnShutdown / OnStop hooks: registered before Start, or (LateReg) from inside the first
	// OnStart hook
	r.registerRest = func() {
		r.readyLeft.Store(int64(len(sc.Readies)))
		if len(sc.Readies) == 0 {
			close(r.readyAll)
		}
		for i, b := range sc.Readies {
			a.OnReady(func() {
				if r.warm.Load() {
					r.warmReady.Add(1)
					return
				}
				r.ev(fmt.Sprintf("y %d %s %s", i, r.probes2(), b2s(r.a.Router().Frozen())))
				if r.readyLeft.Add(-1) == 0 {
					close(r.readyAll) // every OnReady hook has been entered
				}
				switch {
				case isPanic(b):
					panicWith(b, "ready")
				case b == bBlock:
					// a hook that does not come back (a long warm-up): fire-and-forget means that nothing waits for it
					select {
					case <-r.startDone:
					case <-r.abandonCh:
					}
				}
			})
		}
		for i, b := range sc.Shuts {
			a.OnShutdown(func(ctx context.Context) {
				if r.warm.Load() {
					return
				}
				live := ctx.Err() == nil
				r.ev(fmt.Sprintf("h %d %s %s", i, r.probes2(), b2s(live)))
				if sc.LateHup == 1 && i == len(sc.Shuts)-1 {
					r.lateHup()
				}
				for k, q := range sc.Reqs {
					if q.Kind == "H" && q.J == i {
						r.releaseReq(k, true)
					}
				}
				if b == bBlock {
					<-ctx.Done()
				}
				r.ev(fmt.Sprintf("H %d", i))
				if isPanic(b) {
					panicWith(b, "shutdown")
				}
			})
		}
		// instrumentation hook (not logged, registered last = runs first): the asynchronous OnReady hooks
		// have all been entered (and have logged) before the first logged shutdown event
		a.OnShutdown(func(ctx context.Context) {
			if r.warm.Load() {
				return
			}
			if !waitCh(r.readyAll, 5*time.Second) {
				r.notes = append(r.notes, "ready hooks missing at shutdown")
			}
		})
		for i, b := range sc.Stops {
			a.OnStop(func() {
				if r.warm.Load() {
					return
				}
				r.ev(fmt.Sprintf("p %d %s", i, r.probes2()))
				if sc.LateHup == 2 && i == 0 {
					r.lateHup()
				}
				if b == bBlock {
					// a slow clean-up step: longer than the whole shutdown timeout. OnStop hooks have no deadline;
					// Start returns only after them.
					select {
					case <-time.After(1250 * time.Millisecond):
					case <-r.abandonCh:
					}
				}
				r.ev(fmt.Sprintf("P %d", i))
				if isPanic(b) {
					panicWith(b, "stop")
				}
			})
		}
	}
	if !sc.lateReg() {
		r.registerRest()
	}
	for i := 0; i < sc.NReload; i++ {
		a.OnReload(r.reloadHook(i))
	}
	return nil
}

type obsT struct {
	Log     []string
	Res     int
	Fin     [3]bool
	Reqs    []int // 1 complete, 0 not, 2 n/a (never released before Start returned)
	Rounds  []int
	Discard string
	Retried []string // why earlier attempts at this case were discarded
	Notes   []string
	Err     string
}

func (r *runner) run() obsT {
	sc := r.sc
	r.client = &http.Client{Transport: r.newTransport(), Timeout: 5 * time.Second}
	r.probeClient = &http.Client{Transport: r.newTransport(), Timeout: 1500 * time.Millisecond}
	r.plain = &http.Client{Transport: &http.Transport{DisableKeepAlives: true}, Timeout: 5 * time.Second}
	r.startDone = make(chan struct{})
	r.abandonCh = make(chan struct{})
	r.readyAll = make(chan struct{})
	r.hupRound.Store(-1)
	if sc.ByDeadline {
		dc := newDeadlineCtx()
		r.ctx, r.cancelFn = dc, dc.expire
	} else {
		r.ctx, r.cancelFn = context.WithCancel(context.Background())
	}
	defer r.cancelFn()
	for range sc.Reqs {
		r.reqs = append(r.reqs, &reqState{entered: make(chan struct{}), release: make(chan bool, 1), done: make(chan struct{})})
	}
	for range sc.Rounds {
		r.roundDone = append(r.roundDone, make(chan struct{}))
		r.roundRes = append(r.roundRes, 2)
	}
	if sc.Tracing {
		ln, err := net.Listen("tcp", "127.0.0.1:0")
		if err != nil {
			return obsT{Discard: "collector: " + err.Error()}
		}
		r.colAddr = ln.Addr().String()
		r.collector = &http.Server{Handler: http.HandlerFunc(func(w http.ResponseWriter, q *http.Request) {
			io.Copy(io.Discard, q.Body)
			if strings.HasSuffix(q.URL.Path, "/v1/traces") {
				r.ev("f")
			}
			w.Header().Set("Content-Type", "application/x-protobuf")
			w.WriteHeader(200)
		})}
		go r.collector.Serve(ln)
		defer r.collector.Close()
	}
	if sc.MetDead && sc.MetFlaky {
		ln, err := net.Listen("tcp", fmt.Sprintf("127.0.0.1:%d", r.metPort))
		if err != nil {
			return obsT{Discard: "metrics collector: " + err.Error()}
		}
		var failed atomic.Bool
		mc := &http.Server{Handler: http.HandlerFunc(func(w http.ResponseWriter, q *http.Request) {
			io.Copy(io.Discard, q.Body)
			closing := r.cancelled.Load() || r.closing.Load()
			if !closing {
				r.earlyExports.Add(1)
			}
			if r.returned.Load() {
				r.lateExports.Add(1)
			} else if closing {
				failed.Store(true)
				w.WriteHeader(500) // not retried by the exporter: every export of the shutdown sequence fails
				return
			}
			w.Header().Set("Content-Type", "application/x-protobuf")
			w.WriteHeader(200)
		})}
		go mc.Serve(ln)
		defer mc.Close()
	}
	r.t0 = time.Now()
	epoch0 := stallEpoch.Load()
	if err := r.build(); err != nil {
		return obsT{Discard: "app.New: " + err.Error()}
	}

	if sc.Warm > 0 {
		r.warmup()
		if r.discard != "" {
			return obsT{Discard: r.discard}
		}
	}

	var blocker *http.Server
	if sc.Listen == lBusy {
		ln, err := net.Listen("tcp", fmt.Sprintf("127.0.0.1:%d", r.appPort))
		if err != nil {
			return obsT{Discard: "blocker: " + err.Error()}
		}
		blocker = &http.Server{Handler: http.HandlerFunc(func(w http.ResponseWriter, q *http.Request) { w.WriteHeader(418) })}
		go blocker.Serve(ln)
		defer blocker.Close()
	}

	go func() {
		r.startGID.Store(curGID())
		defer func() {
			if p := recover(); p != nil {
				r.res = 9
				r.errText = fmt.Sprint(p)
			}
			if sc.Listen != lOK {
				// absence window: OnReady hooks dispatched although the listen failed show up here
				waitCh(r.readyAll, 150*time.Millisecond)
			}
			r.returned.Store(true)
			r.ev("r")
			if blocker != nil {
				blocker.Close()
			}
			metUp := r.probeMetrics()
			if sc.MetDead && sc.MetFlaky {
				// absence window: three export intervals in which a meter provider left running shows up
				time.Sleep(350 * time.Millisecond)
				// (a hook panic that leaves Start leaves everything running: nothing to say then)
				metUp = r.lateExports.Load() > 0 && r.res != 9
				r.notes = append(r.notes, fmt.Sprintf("metflaky: %d exports before the signal, %d after return", r.earlyExports.Load(), r.lateExports.Load()))
			}
			if sc.metricsRace() {
				// absence window: a metrics server that comes up after Start has returned its error shows up here
				for dl := time.Now().Add(400 * time.Millisecond); !metUp && time.Now().Before(dl); {
					time.Sleep(5 * time.Millisecond)
					metUp = r.probeMetrics()
				}
			}
			// (without a logger nothing can be held back)
			// the application's port: after Start has returned nothing may listen on it any more — a connect that
			// succeeds is "open" even if nobody answers on it (a listener left behind by a Start that returned early)
			// (only where the scenario widens that window — a slow log sink with the listener bound — and only if two
			// connects 20 ms apart both succeed: a bare connect cannot tell whose listener it reached)
			left := sc.SlowLog && sc.Listen == lOK && r.portOpen() && func() bool { time.Sleep(20 * time.Millisecond); return r.portOpen() }()
			r.fin = [3]bool{left || r.probeApp(), metUp, !sc.shortWrite() && !r.logBuf.contains(startupMarker)}
			if sc.Tracing && time.Since(r.t0) > 4500*time.Millisecond {
				r.discard = "case took longer than the tracer's periodic export interval"
			}
			close(r.startDone)
		}()
		err := r.start()
		r.res = classify(err)
		if sc.Listen == lCfg && err != nil && r.res == 5 {
			r.res = 2 // the configuration fault this scenario injects (the error carries no sentinel to test for)
		}
		if err != nil {
			r.errText = err.Error()
		}
	}()

	hung := false
	deadline := time.After(caseDeadline)
	ctrlDone := make(chan struct{})
	go func() {
		defer close(ctrlDone)
		r.controller()
	}()
	select {
	case <-ctrlDone:
	case <-deadline:
		hung = true
	}
	if !hung {
		select {
		case <-r.startDone:
		case <-deadline:
			hung = true
		}
	}
	o := obsT{Discard: r.discard, Notes: r.notes}
	if o.Discard == "" && stallEpoch.Load() != epoch0 {
		o.Discard = "the machine stalled during the case (scheduling gap > 400 ms)"
	}
	if hung {
		// where is Start? (goes into the comment of the case line, for the reader of a replay file)
		if blk := goroutineBlock(r.startGID.Load()); blk != "" {
			if len(blk) > 900 {
				blk = blk[:900]
			}
			o.Err = "Start goroutine: " + strings.ReplaceAll(blk, "\n", " | ")
		}
		// Start never returned: release everything so that the goroutines can go away, and keep what is
		// left of this case from sending signals into later cases
		r.abandoned.Store(true)
		close(r.abandonCh)
		if o.Discard == "" && hungCases.Add(1) >= hungCaseLimit {
			giveUp.Store(true)
		}
		r.cancelFn()
		for k := range r.reqs {
			go r.releaseReq(k, false)
		}
		r.mu.Lock()
		o.Log = append([]string(nil), r.log...)
		r.mu.Unlock()
		o.Res = 8
		for range sc.Reqs {
			o.Reqs = append(o.Reqs, 2)
		}
		o.Rounds = append([]int(nil), r.roundRes...)
		return o
	}
	// requests that were never released: let them go (not logged), their result is n/a
	for k, q := range r.reqs {
		if sc.Reqs[k].Kind == "J" {
			// a hijacked exchange goes on after Start has returned: finish it now, the verdict is the client's
			select {
			case <-q.entered:
			default:
				o.Reqs = append(o.Reqs, 2)
				continue
			}
			r.releaseReq(k, false)
			if q.complete {
				o.Reqs = append(o.Reqs, 1)
			} else {
				o.Reqs = append(o.Reqs, 0)
			}
			continue
		}
		if !q.released.Load() {
			o.Reqs = append(o.Reqs, 2)
			r.releaseReq(k, false)
			continue
		}
		// released before Start returned: the verdict is the client's, once it has finished reading
		if !waitCh(q.done, 10*time.Second) {
			o.Notes = append(o.Notes, fmt.Sprintf("client %d still reading", k))
		}
		if q.complete {
			o.Reqs = append(o.Reqs, 1)
		} else {
			o.Reqs = append(o.Reqs, 0)
		}
	}
	if r.pairDone != nil {
		waitCh(r.pairDone, 10*time.Second)
	}
	r.mu.Lock()
	o.Log = canonLog(r.log)
	r.mu.Unlock()
	o.Res = r.res
	o.Fin = r.fin
	o.Rounds = append([]int(nil), r.roundRes...)
	o.Err = r.errText
	if o.Discard == "" && stallEpoch.Load() != epoch0 {
		o.Discard = "the machine stalled during the case (scheduling gap > 400 ms)"
	}
	if o.Discard == "" && r.drainPending.Load() && (r.res == 0 || r.res == 3) && !sc.shortWrite() {
		// Start went through the drain and returned while the drainer still held requests it was to release
		// as soon as the listener closed: the drainer was late (or starved), the case says nothing
		o.Discard = "timing could not be forced (the drainer did not get to release its requests during the drain)"
	}
	if o.Discard == "" && !r.timingForced() {
		o.Discard = "timing could not be forced (environment late against a 1 s budget)"
	}
	if o.Discard == "" && r.res == 2 && sc.Listen == lOK {
		o.Discard = "unexpected listen failure: " + r.errText // somebody else took the port
	}
	// leave nothing behind for the next case
	if r.a.Metrics() != nil {
		c, cf := context.WithTimeout(context.Background(), time.Second)
		_ = r.a.Metrics().Shutdown(c)
		cf()
	}
	if r.a.Tracing() != nil {
		c, cf := context.WithTimeout(context.Background(), time.Second)
		_ = r.a.Tracing().Shutdown(c)
		cf()
	}
	return o
}

// canonLog sorts every maximal run of OnReady events by hook index: OnReady hooks are dispatched on
// separate goroutines, their relative order is not part of the property.
func canonLog(log []string) []string {
	out := append([]string(nil), log...)
	i := 0
	for i < len(out) {
		if !strings.HasPrefix(out[i], "y ") {
			i++
			continue
		}
		j := i
		for j < len(out) && strings.HasPrefix(out[j], "y ") {
			j++
		}
		sort.SliceStable(out[i:j], func(a, b int) bool {
			x, _ := strconv.Atoi(strings.Fields(out[i+a])[1])
			y, _ := strconv.Atoi(strings.Fields(out[i+b])[1])
			return x < y
		})
		i = j
	}
	return out
}

// controller: what the environment does once the application is up.
func (r *runner) controller() {
	sc := r.sc
	if sc.Listen != lOK {
		// an injected listen fault: Start must fail on its own, the environment does nothing
		<-r.startDone
		return
	}
	// wait for the OnReady hooks (or for a failed start)
	select {
	case <-r.readyAll:
	case <-r.startDone:
		return
	}
	if r.started() {
		return
	}
	// the environment talks to the server only once it serves (a positive wait: it ends when the server
	// is up or Start has returned)
	for !r.cancelled.Load() && !r.started() && !r.probeApp() {
		time.Sleep(200 * time.Microsecond)
	}
	if r.cancelled.Load() {
		// the signal arrived during start-up: the application goes straight into its shutdown sequence
		<-r.startDone
		return
	}
	// 1. requests in flight
	for k := range sc.Reqs {
		if r.abandoned.Load() {
			return
		}
		q := r.reqs[k]
		go func() {
			defer close(q.done)
			path := "/r/%d"
			if sc.RawRoute && sc.Reqs[k].Kind != "J" {
				path = "/rr/%d"
			}
			req, _ := http.NewRequest("GET", r.appURL(fmt.Sprintf(path, k)), nil)
			req.Close = true
			cl := &http.Client{Transport: r.newTransport()}
			resp, err := cl.Do(req)
			if err != nil {
				if os.Getenv("VERIF_DEBUG") != "" {
					fmt.Fprintf(os.Stderr, "client %d: %v\n", k, err)
				}
				return
			}
			if os.Getenv("VERIF_DEBUG") != "" {
				fmt.Fprintf(os.Stderr, "client %d: status %d\n", k, resp.StatusCode)
			}
			defer resp.Body.Close()
			body, err := io.ReadAll(resp.Body)
			q.complete = err == nil && resp.StatusCode == 200 && string(body) == payload
		}()
		select {
		case <-q.entered:
		case <-r.startDone:
			return
		case <-time.After(10 * time.Second):
			r.discard = "request did not reach its handler"
			r.signal()
			<-r.startDone
			return
		}
	}
	// 2. reload rounds
	for i := 0; i < len(sc.Rounds); i++ {
		if r.started() || r.cancelled.Load() || r.abandoned.Load() {
			break
		}
		rd := sc.Rounds[i]
		if rd.Trig == 1 {
			if sc.NReload == 0 {
				continue // SIGHUP is ignored without reload hooks
			}
			if !r.waitParkedInSelect() {
				r.discard = "could not see the Start goroutine in its select loop"
				break
			}
			if r.started() {
				break
			}
			if r.abandoned.Load() {
				break
			}
			r.hupRound.Store(int64(i))
			_ = syscall.Kill(os.Getpid(), syscall.SIGHUP)
			select {
			case <-r.roundDone[i]:
			case <-r.startDone:
			case <-r.abandonCh:
				// Start is stuck inside the round: the case deadline has made that the observation
			}
			if sc.pairAt(i) {
				// the first hook of this round has started the programmatic round i+1
				if r.pairDone != nil {
					waitCh(r.pairDone, 10*time.Second)
				}
				i++
			}
			// the next round must not start before Reload has returned on the Start goroutine
			if !r.started() && !r.waitParkedInSelect() {
				r.discard = "could not see the Start goroutine back in its select loop"
			}
			continue
		}
		hupNext := sc.pairAt(i) && sc.Rounds[i+1].Trig == 1
		if hupNext && !r.waitParkedInSelect() {
			// the first hook of this round is going to send SIGHUP: the subscription must be in place
			r.discard = "could not see the Start goroutine in its select loop"
			break
		}
		r.roundRes[i] = r.callReload(i)
		if sc.pairAt(i) {
			if hupNext {
				select {
				case <-r.roundDone[i+1]:
				case <-r.startDone:
				case <-r.abandonCh:
				}
				if !r.started() && !r.waitParkedInSelect() {
					r.discard = "could not see the Start goroutine back in its select loop"
				}
			} else if r.pairDone != nil {
				waitCh(r.pairDone, 10*time.Second)
			}
			i++ // round i+1 was triggered while round i sat in its first hook
		}
	}
	// 3. the stop signal
	if r.abandoned.Load() {
		return
	}
	if !r.started() {
		r.signal()
	}
	<-r.startDone
}

// ---------------------------------------------------------------- case lines

func emit(id string, sc *Scenario, o obsT, st *hx.Stats) string {
	l := hx.NewLine(id)
	sc.tokens(l)
	in := l.String()
	l.Sep()
	l.Tok("LOG").Nat(len(o.Log))
	for _, e := range o.Log {
		l.Tok(e)
	}
	l.Tok("RES").Nat(o.Res)
	l.Tok("FIN").Bool(o.Fin[0]).Bool(o.Fin[1]).Bool(o.Fin[2])
	l.Tok("RQ").Nat(len(o.Reqs))
	for _, x := range o.Reqs {
		l.Nat(x)
	}
	l.Tok("RR").Nat(len(o.Rounds))
	for _, x := range o.Rounds {
		l.Nat(x)
	}
	if st != nil {
		st.Case(in[len(id):], sc.nontrivial())
		st.Count(fmt.Sprintf("res_%d", o.Res))
		if sc.Listen != lOK {
			st.Count("listen_fault")
		}
		st.Count([]string{"entry_Start", "entry_StartTLS", "entry_StartMTLS"}[sc.Proto%3])
		if sc.LateHup > 0 {
			st.Count(fmt.Sprintf("sighup_during_shutdown_%d", sc.LateHup))
		}
		if sc.MetDead && !sc.Metrics {
			st.Count("metrics_otlp_dead_collector")
		}
		if sc.metricsRace() {
			st.Count("metrics_race")
		}
		if sc.lateReg() {
			st.Count("hooks_registered_inside_onstart")
		}
		if sc.ByDeadline {
			st.Count("stop_by_deadline")
		}
		if sc.slowStop() >= 0 {
			st.Count("slow_onstop_hook")
		}
		if sc.shortWrite() {
			st.Count("short_write_timeout_late_drain")
		}
		if len(sc.Reqs) > 0 {
			st.Count("inflight")
		}
		if len(sc.Rounds) > 0 {
			st.Count("reloads")
		}
		if sc.needsSerial() {
			st.Count("serial_phase")
		}
		names := []string{"ok", "err", "panic", "block", "cancelok", "panic_error", "panic_custom", "panic_nilptr", "panic_nilmap", "panic_index", "panic_divzero", "panic_assert"}
		for kind, xs := range map[string][]int{"start": sc.Starts, "ready": sc.Readies, "shut": sc.Shuts, "stop": sc.Stops} {
			st.Count(fmt.Sprintf("n_%s_%d", kind, min(len(xs), 4)))
			for _, b := range xs {
				if b != bOK && b < len(names) {
					st.Count("fault_" + kind + "_" + names[b])
				}
			}
		}
		for _, q := range sc.Reqs {
			st.Count("req_" + q.Kind)
		}
		for i, rd := range sc.Rounds {
			if rd.Trig == 1 {
				st.Count("round_sighup")
			} else {
				st.Count("round_prog")
			}
			if sc.pairAt(i) {
				st.Count("round_concurrent_pair")
			}
			if rd.CancelAt >= 0 {
				st.Count("signal_inside_reload")
			}
			for _, b := range rd.Beh {
				if b != bOK && b < len(names) {
					st.Count("fault_reload_" + names[b])
				}
			}
		}
		sigPos := "signal_none"
		for i, e := range o.Log {
			if e == "c" {
				switch {
				case i > 0 && strings.HasPrefix(o.Log[i-1], "s "):
					sigPos = "signal_during_startup"
				case i > 0 && strings.HasPrefix(o.Log[i-1], "l "):
					sigPos = "signal_in_reload_hook"
				case len(sc.Reqs) > 0:
					sigPos = "signal_with_requests_in_flight"
				default:
					sigPos = "signal_idle"
				}
			}
		}
		st.Count(sigPos)
		for _, e := range o.Log {
			if strings.HasPrefix(e, "h ") && strings.HasSuffix(e, " 0") {
				st.Count("shutdown_hook_after_deadline")
				break
			}
		}
		for _, n := range o.Notes {
			st.Count("note_" + strings.ReplaceAll(n, " ", "_"))
		}
		for _, why := range o.Retried {
			st.Count("retried: " + firstWords(why, 4))
		}
		st.Count(fmt.Sprintf("loglen_%02d", min(len(o.Log)/5*5, 40)))
	}
	type cmt struct {
		Sc    *Scenario
		Err   string   `json:",omitempty"`
		Notes []string `json:",omitempty"`
	}
	return l.String() + hx.Comment(cmt{sc, o.Err, o.Notes})
}

// runScenario runs the scenario; an attempt that had to be discarded (machine stall, late harness
// goroutine, port taken by somebody else) is repeated up to twice, and the reasons travel with the result.
func firstWords(s string, n int) string {
	f := strings.Fields(s)
	if len(f) > n {
		f = f[:n]
	}
	return strings.Join(f, " ")
}

// inChild: this process runs one scenario for its parent (sub-command `child`), without the SIGHUP guard.
var inChild bool

type childJob struct {
	ID string
	Sc *Scenario
	// PortCtr: the child takes its ports from a block the parent has reserved for it (two processes that
	// hand out ports from the same range would otherwise meet each other's servers)
	PortCtr int64
}

// runInChild runs the scenario in a process of its own and returns what it observed; a child killed by a
// signal is the observation RES 7.
func runInChild(id string, sc *Scenario) obsT {
	in, _ := json.Marshal(childJob{id, sc, portCtr.Add(8) - 8})
	ctx, cancel := context.WithTimeout(context.Background(), 60*time.Second)
	defer cancel()
	cmd := exec.CommandContext(ctx, os.Args[0], "child")
	cmd.Stdin = bytes.NewReader(in)
	var out bytes.Buffer
	cmd.Stdout = &out
	err := cmd.Run()
	var o obsT
	if err == nil && json.Unmarshal(out.Bytes(), &o) == nil {
		return o
	}
	var ee *exec.ExitError
	if errors.As(err, &ee) {
		if ws, ok := ee.Sys().(syscall.WaitStatus); ok && ws.Signaled() && ctx.Err() == nil {
			o = obsT{Res: 7, Err: "the process was killed by " + ws.Signal().String()}
			for range sc.Reqs {
				o.Reqs = append(o.Reqs, 2)
			}
			for range sc.Rounds {
				o.Rounds = append(o.Rounds, 2)
			}
			return o
		}
	}
	return obsT{Discard: fmt.Sprintf("child process: %v", err)}
}

func runScenario(id string, sc *Scenario) obsT {
	if sc.LateHup > 0 && !inChild {
		return runInChild(id, sc)
	}
	var o obsT
	var retried []string
	for attempt := 0; attempt < 3; attempt++ {
		r := &runner{id: id, sc: sc, appPort: allocPort(), metPort: allocPort()}
		o = r.run()
		if o.Discard == "" {
			break
		}
		retried = append(retried, o.Discard)
	}
	o.Retried = retried
	if o.Discard != "" {
		o.Retried = retried[:len(retried)-1]
	}
	return o
}

// repoDir: the tree the harness was built against (./check passes VERIF_REPO on; default /repo).
func repoDir() string {
	if d := os.Getenv("VERIF_REPO"); d != "" {
		return d
	}
	return "/repo"
}

func main() {
	a := hx.ParseArgs()
	// the application prints its banner (and the stdout trace exporter its spans) to os.Stdout:
	// keep the real stdout for the case lines only
	// (at the descriptor level: the exporter captured os.Stdout when its package was initialised)
	realOut := os.Stdout
	if dn, err := os.OpenFile(os.DevNull, os.O_WRONLY, 0); err == nil {
		if fd, derr := syscall.Dup(1); derr == nil {
			realOut = os.NewFile(uintptr(fd), "cases")
			_ = syscall.Dup2(int(dn.Fd()), 1)
		}
		os.Stdout = dn
	}
	// net/http reports the probes that hang up during a TLS handshake through the standard logger
	log.SetOutput(io.Discard)
	go watchStalls()
	if a.Cmd == "child" {
		inChild = true
		var j childJob
		if err := json.NewDecoder(os.Stdin).Decode(&j); err != nil || j.Sc == nil {
			os.Exit(2)
		}
		portCtr.Store(j.PortCtr)
		o := runScenario(j.ID, j.Sc)
		b, _ := json.Marshal(o)
		realOut.Write(b)
		pkiCleanup()
		os.Exit(0)
	}
	// a stray SIGHUP must never kill the harness
	guard := make(chan os.Signal, 8)
	signal.Notify(guard, syscall.SIGHUP)
	w := bufioWriter(realOut)
	defer w.Flush()
	defer pkiCleanup()

	type job struct {
		id string
		sc *Scenario
		o  obsT
	}
	var jobs []*job
	var st *hx.Stats
	switch a.Cmd {
	case "gen":
		st = hx.NewStats()
		// the control-flow skeletons of the entry points, regenerated from the source under check
		for _, l := range skeletonLines(repoDir()) {
			fmt.Fprintln(w, l)
			st.Count("skeletons")
		}
		for i, sc := range fixedScenarios() {
			jobs = append(jobs, &job{id: fmt.Sprintf("c09-fix-%d", i), sc: sc})
		}
		rnd := hx.NewRand(a.Seed)
		for i := 0; i < a.N; i++ {
			jobs = append(jobs, &job{id: fmt.Sprintf("c09-%d-%d", a.Seed, i), sc: genScenario(rnd, a.Tier)})
		}
	case "replay":
		skelDone := false
		for _, line := range hx.StdinLines() {
			var k struct {
				Sc   *Scenario
				Skel string
			}
			id, err := hx.CaseFromComment(line, &k)
			if err == nil && k.Skel != "" {
				// a skeleton line: extract again from the current source (all of them, once)
				if !skelDone {
					for _, l := range skeletonLines(repoDir()) {
						fmt.Fprintln(w, l)
					}
					skelDone = true
				}
				continue
			}
			if err != nil || k.Sc == nil {
				fmt.Fprintf(w, "# cannot replay %q: %v\n", id, err)
				continue
			}
			jobs = append(jobs, &job{id: id, sc: k.Sc})
		}
	default:
		fmt.Fprintln(os.Stderr, "unknown command")
		os.Exit(2)
	}
	// serial phase: scenarios that use the process-wide SIGHUP or read goroutine dumps
	hungBefore := false
	for _, j := range jobs {
		if j.sc.needsSerial() {
			if giveUp.Load() {
				j.o = obsT{Discard: "skipped: the tree makes cases slow (probe timeouts / hangs), reporting from the cases run so far"}
				continue
			}
			if hungBefore {
				// what is left of a case that never returned may still ignore or receive the process-wide
				// SIGHUP: later cases of this phase would not be reproducible
				j.o = obsT{Discard: "skipped: an earlier case of the serial phase never returned"}
				continue
			}
			signal.Notify(guard, syscall.SIGHUP)
			j.o = runScenario(j.id, j.sc)
			if j.o.Res == 8 {
				hungBefore = true
			}
		}
	}
	signal.Notify(guard, syscall.SIGHUP)
	// parallel phase
	sem := make(chan struct{}, 32)
	var wg sync.WaitGroup
	for _, j := range jobs {
		if j.sc.needsSerial() {
			continue
		}
		wg.Add(1)
		sem <- struct{}{}
		go func() {
			defer wg.Done()
			defer func() { <-sem }()
			if giveUp.Load() {
				j.o = obsT{Discard: "skipped: the tree makes cases slow (probe timeouts / hangs), reporting from the cases run so far"}
				return
			}
			j.o = runScenario(j.id, j.sc)
		}()
	}
	wg.Wait()
	emitted, skipped := 0, 0
	for _, j := range jobs {
		if j.o.Discard != "" {
			fmt.Fprintf(w, "# discarded %s: %s\n", j.id, j.o.Discard)
			if strings.HasPrefix(j.o.Discard, "skipped") {
				skipped++
				if st != nil {
					st.Count("skipped_after_hang")
				}
			} else if st != nil {
				st.Count("discarded")
				st.Count("discarded: " + firstWords(j.o.Discard, 4))
			}
			continue
		}
		fmt.Fprintln(w, emit(j.id, j.sc, j.o, st))
		emitted++
	}
	if st != nil {
		st.Emit(w)
	}
	// discards are for the odd late goroutine; if they become the rule the run proves nothing
	if nd := len(jobs) - emitted - skipped; len(jobs) >= 20 && nd*4 > len(jobs) {
		w.Flush()
		fmt.Fprintf(os.Stderr, "%d of %d cases discarded: timing cannot be forced on this machine/tree\n", nd, len(jobs))
		pkiCleanup()
		os.Exit(3)
	}
}
