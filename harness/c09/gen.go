package main

import (
	"bufio"
	"os"

	"verif/harness/hx"
)

func bufioWriter(f *os.File) *bufio.Writer { return bufio.NewWriterSize(f, 1<<16) }

// fixedScenarios: the witnesses of K09a–d, the happy path and boundary cases; they run before the random ones.
func fixedScenarios() []*Scenario {
	return []*Scenario{
		// K09a: the port is taken; OnReady must not run, nothing may be left running
		{Metrics: true, Listen: lBusy, Starts: []int{bOK}, Readies: []int{bOK, bOK}, Stops: []int{bOK}},
		// K09b: second OnStart hook fails; metrics server / tracer must be shut down again
		{Metrics: true, Tracing: true, Starts: []int{bOK, bErr, bOK}, Readies: []int{bOK}, Stops: []int{bOK}},
		// K09c: a request is never finished, the drain times out; flush and OnStop must still happen
		{Metrics: true, Tracing: true, Readies: []int{bOK}, Shuts: []int{bOK, bOK}, Stops: []int{bOK, bPanic, bOK}, Reqs: []Rel{{Kind: "N"}}},
		// K09d: panicking OnReload, programmatic then via SIGHUP; the rest of the lifecycle must stay intact
		{NReload: 2, Shuts: []int{bOK}, Stops: []int{bOK}, Rounds: []Round{{Trig: 0, Beh: []int{bPanic}, CancelAt: -1}, {Trig: 1, Beh: []int{bOK, bPanic}, CancelAt: -1}, {Trig: 0, Beh: nil, CancelAt: -1}}},
		// happy path with everything
		{Metrics: true, Tracing: true, Starts: []int{bOK, bOK}, Readies: []int{bOK, bOK}, NReload: 2, Shuts: []int{bOK, bOK, bOK}, Stops: []int{bOK, bOK},
			Reqs: []Rel{{Kind: "H", J: 1}, {Kind: "D"}, {Kind: "D"}}, Rounds: []Round{{Trig: 0, CancelAt: -1}, {Trig: 1, CancelAt: -1}}},
		// nothing registered at all
		{},
		// an OnReady hook that does not come back must not hold up anything
		{Metrics: true, Starts: []int{bOK}, Readies: []int{bBlock, bOK, bBlock}, Shuts: []int{bOK}, Stops: []int{bOK}, Reqs: []Rel{{Kind: "D"}}},
		// signal during start-up, hook succeeds: straight into the shutdown sequence
		{Metrics: true, Starts: []int{bCancelOK, bOK}, Readies: []int{bOK}, Shuts: []int{bOK}, Stops: []int{bOK}},
		// signal while an OnStart hook waits for its context
		{Tracing: true, Starts: []int{bOK, bBlock, bOK}, Readies: []int{bOK}, Stops: []int{bOK}},
		// OnShutdown hook holds on until the deadline, a request is released by an earlier-registered hook afterwards
		{Metrics: true, Shuts: []int{bOK, bBlock}, Stops: []int{bOK}, Reqs: []Rel{{Kind: "H", J: 0}}},
		// concurrent reloads
		{NReload: 2, Stops: []int{bOK}, Rounds: []Round{{Trig: 0, Beh: []int{bOK, bErr}, CancelAt: -1, Pair: true}, {Trig: 0, CancelAt: -1}}},
		// an OnReload hook that waits for its context when the stop signal arrives: started by SIGHUP, programmatically
		{NReload: 2, Shuts: []int{bOK}, Stops: []int{bOK}, Rounds: []Round{{Trig: 1, Beh: []int{bOK, bBlock}, CancelAt: -1}, {Trig: 0, CancelAt: -1}}},
		{Metrics: true, NReload: 2, Shuts: []int{bOK}, Stops: []int{bOK}, Reqs: []Rel{{Kind: "D"}}, Rounds: []Round{{Trig: 0, Beh: []int{bBlock, bOK}, CancelAt: -1}}},
		// every way to panic, in OnStop hooks and in reload hooks (SIGHUP and programmatic)
		{Stops: []int{bPanicNilPtr, bOK, bPanicNilMap, bPanicIndex, bOK, bPanicDivZero, bPanicAssert, bPanicErr, bPanicCustom, bOK}},
		{NReload: 1, Stops: []int{bOK}, Rounds: []Round{{Trig: 1, Beh: []int{bPanicNilPtr}, CancelAt: -1}, {Trig: 0, Beh: []int{bPanicIndex}, CancelAt: -1}, {Trig: 1, Beh: []int{bPanicAssert}, CancelAt: -1}, {Trig: 0, Beh: []int{bPanicCustom}, CancelAt: -1}}},
		// hooks registered from inside the first OnStart hook; the stop signal as a deadline; a slow OnStop hook
		{Metrics: true, LateReg: true, Starts: []int{bOK, bOK}, Readies: []int{bOK, bOK}, Shuts: []int{bOK, bOK}, Stops: []int{bOK, bOK}, Reqs: []Rel{{Kind: "H", J: 1}}},
		{Tracing: true, ByDeadline: true, Starts: []int{bOK}, Readies: []int{bOK}, Shuts: []int{bOK, bOK}, Stops: []int{bOK}, Reqs: []Rel{{Kind: "D"}, {Kind: "H", J: 0}}},
		{ByDeadline: true, Starts: []int{bOK, bBlock}, Stops: []int{bOK}},
		{Tracing: true, Shuts: []int{bOK}, Stops: []int{bOK, bBlock, bOK}, Reqs: []Rel{{Kind: "D"}}},
		// a hijacked connection whose exchange outlives Start; a request that finishes late in the drain with a short
		// write timeout; a Reload whose caller gives up while it waits for its turn, and reloads after it
		{Metrics: true, Starts: []int{bOK}, Readies: []int{bOK}, Shuts: []int{bOK}, Stops: []int{bOK}, Reqs: []Rel{{Kind: "J"}, {Kind: "D"}}},
		{Proto: pTLS, Stops: []int{bOK}, Reqs: []Rel{{Kind: "J"}}},
		{ShortWrite: true, Shuts: []int{bOK}, Stops: []int{bOK}, Reqs: []Rel{{Kind: "D"}, {Kind: "H", J: 0}}},
		// the App has been through a Start before: a failed attempt (port taken), a complete run
		{Warm: 1, Starts: []int{bOK}, Readies: []int{bOK}, Shuts: []int{bOK, bOK}, Stops: []int{bOK, bOK}},
		{Warm: 2, Starts: []int{bOK}, Readies: []int{bOK}, Shuts: []int{bOK, bOK, bOK}, Stops: []int{bOK}, Reqs: []Rel{{Kind: "D"}}},
		{Warm: 2, NReload: 1, Shuts: []int{bOK, bOK}, Stops: []int{bPanic, bOK}, Rounds: []Round{{Trig: 0, CancelAt: -1}}},
		// the stop signal arrives during start-up and the log sink is slow when the startup buffer is flushed
		{SlowLog: true, Starts: []int{bCancelOK}, Readies: []int{bOK}, Stops: []int{bOK}},
		// … and no hook that would probe the port and thereby wait until it is served
		{SlowLog: true, Starts: []int{bCancelOK}},
		{SlowLog: true, Proto: 1, Starts: []int{bOK, bCancelOK}},
		{SlowLog: true, Starts: []int{bOK, bCancelOK}, Shuts: []int{bOK}},
		// the only request in flight at the stop signal is served by a route registered on the router itself
		{RawRoute: true, Shuts: []int{bOK}, Stops: []int{bOK}, Reqs: []Rel{{Kind: "D"}}},
		{RawRoute: true, Metrics: true, Shuts: []int{bOK, bOK}, Stops: []int{bOK}, Reqs: []Rel{{Kind: "H", J: 0}, {Kind: "D"}}},
		{NReload: 1, Stops: []int{bOK}, Rounds: []Round{{Trig: 0, CancelAt: -1, Pair: true}, {Trig: 0, CancelAt: -1, CtxEnds: true}, {Trig: 0, CancelAt: -1}, {Trig: 1, CancelAt: -1}}},
		{NReload: 2, Stops: []int{bOK}, Rounds: []Round{{Trig: 1, CancelAt: -1, Pair: true}, {Trig: 0, Beh: []int{bOK, bErr}, CancelAt: -1, CtxEnds: true}, {Trig: 1, CancelAt: -1}}},
		// a SIGHUP during the shutdown sequence (with and without reload hooks): the process must survive it
		{NReload: 1, Shuts: []int{bOK, bOK}, Stops: []int{bOK}, LateHup: 1},
		{NReload: 2, Metrics: true, Stops: []int{bOK, bOK}, Reqs: []Rel{{Kind: "D"}}, LateHup: 2},
		{Shuts: []int{bOK}, Stops: []int{bOK}, LateHup: 1},
		// metrics over OTLP to a collector that is gone: its failing shutdown must not keep the traces from being flushed
		{MetDead: true, Tracing: true, Starts: []int{bOK}, Readies: []int{bOK}, Shuts: []int{bOK}, Stops: []int{bOK}, Reqs: []Rel{{Kind: "D"}}},
		{MetDead: true, Tracing: true, Starts: []int{bOK, bErr}, Stops: []int{bOK}},
		// metrics over OTLP to a collector that fails the final flush: the meter provider must still be shut down
		{MetDead: true, MetFlaky: true, Starts: []int{bOK}, Shuts: []int{bOK}, Stops: []int{bOK}},
		{MetDead: true, MetFlaky: true, Tracing: true, Starts: []int{bOK, bErr}, Stops: []int{bOK}},
		// start-up fails right after startObservability while the metrics server goroutine is still on its way
		{Metrics: true, MetricsRace: true, Listen: lBusy, Readies: []int{bOK}, Stops: []int{bOK}},
		{Metrics: true, MetricsRace: true, Tracing: true, Listen: lBad},
		// the two entry points mixed: SIGHUP during a programmatic Reload, Reload during a SIGHUP round
		{NReload: 2, Shuts: []int{bOK}, Stops: []int{bOK}, Rounds: []Round{{Trig: 0, Beh: []int{bOK, bOK}, CancelAt: -1, Pair: true}, {Trig: 1, CancelAt: -1}, {Trig: 0, CancelAt: -1}}},
		{NReload: 1, Stops: []int{bOK}, Rounds: []Round{{Trig: 1, CancelAt: -1, Pair: true}, {Trig: 0, Beh: []int{bErr}, CancelAt: -1}}},
		// signal inside a programmatic reload / inside a SIGHUP reload
		{Metrics: true, NReload: 2, Shuts: []int{bOK}, Stops: []int{bOK}, Reqs: []Rel{{Kind: "D"}}, Rounds: []Round{{Trig: 0, CancelAt: 0}}},
		{NReload: 2, Shuts: []int{bOK}, Stops: []int{bOK}, Rounds: []Round{{Trig: 1, CancelAt: 1}}},
		// StartMTLS with an invalid configuration (no client CAs): a failed start-up — the startup logs must come out
		{Proto: pMTLS, Listen: lCfg, Readies: []int{bOK}, Shuts: []int{bOK}, Stops: []int{bOK}},
		// bad address
		{Tracing: true, Listen: lBad, Readies: []int{bOK}, Shuts: []int{bOK}, Stops: []int{bOK}},
		// … with more hooks to come after the one the signal arrives in: the round still runs all its hooks
		{NReload: 3, Shuts: []int{bOK}, Stops: []int{bOK}, Rounds: []Round{{Trig: 1, CancelAt: 0}}},
		{NReload: 3, Shuts: []int{bOK}, Stops: []int{bOK}, Rounds: []Round{{Trig: 0, CancelAt: -1}, {Trig: 1, Beh: []int{bOK, bOK, bErr}, CancelAt: 1}}},
		{NReload: 2, Stops: []int{bOK}, Rounds: []Round{{Trig: 0, CancelAt: 0}}},
		// StartTLS: the key pair cannot be loaded (K09f); StartTLS and StartMTLS: the full sequence with requests in flight
		{Proto: pTLS, Metrics: true, Tracing: true, Listen: lCert, Starts: []int{bOK}, Readies: []int{bOK, bOK}, Shuts: []int{bOK}, Stops: []int{bOK}},
		{Proto: pTLS, Metrics: true, Tracing: true, Starts: []int{bOK}, Readies: []int{bOK}, NReload: 1, Shuts: []int{bOK, bOK}, Stops: []int{bOK, bPanic},
			Reqs: []Rel{{Kind: "H", J: 1}, {Kind: "D"}}, Rounds: []Round{{Trig: 0, Beh: []int{bPanic}, CancelAt: -1}}},
		{Proto: pMTLS, Metrics: true, Tracing: true, Starts: []int{bOK, bOK}, Readies: []int{bOK}, Shuts: []int{bOK}, Stops: []int{bOK},
			Reqs: []Rel{{Kind: "D"}, {Kind: "N"}}},
		{Proto: pMTLS, Metrics: true, Listen: lBusy, Starts: []int{bOK}, Readies: []int{bOK}, Stops: []int{bOK}},
		{Proto: pTLS, Tracing: true, Starts: []int{bOK, bErr}, Readies: []int{bOK}, Stops: []int{bOK}},
	}
}

func pickW(r *hx.Rand, vals []int, weights []int) int {
	t := 0
	for _, w := range weights {
		t += w
	}
	x := r.Intn(t)
	for i, w := range weights {
		if x < w {
			return vals[i]
		}
		x -= w
	}
	return vals[0]
}

// anyPanic replaces the plain panic by one of the ways to panic (plain value, error, custom type, five
// genuine runtime errors): containment is promised for any of them.
func anyPanic(r *hx.Rand, b int) int {
	if b == bPanic {
		return hx.Pick(r, panicKinds)
	}
	return b
}

func genHooks(r *hx.Rand, vals, weights []int) []int {
	n := pickW(r, []int{0, 1, 2, 3}, []int{2, 3, 3, 2})
	if r.Chance(1, 40) {
		n = r.Range(4, 6) // beyond the 0..3 of the statement: the model is for arbitrary lists
	}
	out := make([]int, n)
	for i := range out {
		out[i] = anyPanic(r, pickW(r, vals, weights))
	}
	return out
}

func genScenario(r *hx.Rand, tier string) *Scenario {
	sc := &Scenario{}
	sc.Metrics = r.Chance(1, 2)
	sc.Tracing = r.Chance(1, 2)
	sc.Proto = pickW(r, []int{pHTTP, pTLS, pMTLS}, []int{60, 25, 15})
	sc.Listen = pickW(r, []int{lOK, lBusy, lBad}, []int{88, 7, 5})
	if sc.Proto == pTLS && r.Chance(1, 12) {
		sc.Listen = lCert
	}
	sc.Starts = genHooks(r, []int{bOK, bErr, bPanic, bBlock, bCancelOK}, []int{84, 5, 2, 4, 5})
	sc.Readies = genHooks(r, []int{bOK, bPanic, bBlock}, []int{76, 13, 11})
	sc.NReload = pickW(r, []int{0, 1, 2, 3}, []int{3, 3, 3, 2})
	sc.Shuts = genHooks(r, []int{bOK, bPanic, bBlock}, []int{86, 4, 10})
	sc.Stops = genHooks(r, []int{bOK, bPanic}, []int{75, 25})
	if r.Chance(3, 5) {
		n := r.Range(1, 3)
		for i := 0; i < n; i++ {
			switch {
			case len(sc.Shuts) > 0 && r.Chance(2, 5):
				j := r.Intn(len(sc.Shuts))
				if r.Chance(1, 25) {
					j = len(sc.Shuts) + r.Intn(2) // no such hook: nobody releases the request
				}
				sc.Reqs = append(sc.Reqs, Rel{Kind: "H", J: j})
			case r.Chance(1, 5):
				sc.Reqs = append(sc.Reqs, Rel{Kind: "N"})
			default:
				sc.Reqs = append(sc.Reqs, Rel{Kind: "D"})
			}
		}
	}
	if r.Chance(3, 5) {
		n := r.Range(1, 3)
		for i := 0; i < n; i++ {
			rd := Round{CancelAt: -1}
			if sc.NReload > 0 && r.Chance(1, 4) {
				rd.Trig = 1
			}
			nb := r.Range(0, sc.NReload)
			for k := 0; k < nb; k++ {
				rd.Beh = append(rd.Beh, anyPanic(r, pickW(r, []int{bOK, bErr, bPanic, bBlock}, []int{66, 13, 14, 7})))
			}
			sc.Rounds = append(sc.Rounds, rd)
		}
		last := &sc.Rounds[len(sc.Rounds)-1]
		if sc.NReload > 0 && r.Chance(1, 5) {
			last.CancelAt = r.Intn(sc.NReload)
		}
		// overlapping rounds: programmatic + programmatic, and the two entry points mixed (a SIGHUP arriving
		// during a programmatic Reload, a Reload called while a SIGHUP round is inside its hook)
		for i := 0; i+1 < len(sc.Rounds); i++ {
			a, b := &sc.Rounds[i], &sc.Rounds[i+1]
			if sc.NReload > 0 && a.CancelAt < 0 && b.CancelAt < 0 && r.Chance(1, 3) {
				switch r.Intn(3) {
				case 0:
					a.Trig, b.Trig = 0, 0
				case 1:
					a.Trig, b.Trig = 0, 1
				default:
					a.Trig, b.Trig = 1, 0
				}
				for _, rd := range []*Round{a, b} {
					for k, x := range rd.Beh {
						if x == bBlock {
							rd.Beh[k] = bOK
						}
					}
				}
				a.Pair = true
				i++
			}
		}
	}
	// particular configurations
	if !sc.Metrics && r.Chance(1, 5) {
		sc.MetDead = true
		sc.MetFlaky = r.Chance(1, 3)
	}
	if r.Chance(1, 10) {
		if len(sc.Shuts) > 0 && r.Chance(1, 2) {
			sc.LateHup = 1
		} else if len(sc.Stops) > 0 {
			sc.LateHup = 2
		}
	}
	if r.Chance(1, 30) {
		// start-up fails right after startObservability, with a slow metrics event handler
		sc.Metrics, sc.MetDead, sc.MetricsRace, sc.Starts = true, false, true, nil
		if sc.Listen == lOK || sc.Listen == lCert {
			sc.Listen = lBusy
		}
	}
	if len(sc.Starts) > 0 && r.Chance(1, 8) {
		sc.LateReg = true
	}
	if r.Chance(1, 7) {
		sc.ByDeadline = true
	}
	if len(sc.Stops) > 0 && r.Chance(1, 12) {
		// a slow OnStop hook is the only wait of its scenario
		sc.Stops[r.Intn(len(sc.Stops))] = bBlock
		for i, b := range sc.Shuts {
			if b == bBlock {
				sc.Shuts[i] = bOK
			}
		}
		for i, q := range sc.Reqs {
			if q.Kind == "N" || (q.Kind == "H" && q.J >= len(sc.Shuts)) {
				sc.Reqs[i] = Rel{Kind: "D"}
			}
		}
	}
	// in-flight requests of other kinds
	if len(sc.Reqs) < 3 && r.Chance(1, 6) {
		sc.Reqs = append(sc.Reqs, Rel{Kind: "J"}) // a hijacked connection whose exchange outlives Start
	}
	if r.Chance(1, 8) {
		sc.ShortWrite, sc.Metrics, sc.Tracing, sc.MetDead, sc.MetricsRace = true, false, false, false, false
		hasD := false
		for _, q := range sc.Reqs {
			hasD = hasD || q.Kind == "D"
		}
		if !hasD && r.Chance(1, 2) {
			sc.Reqs = append(sc.Reqs, Rel{Kind: "D"})
		}
	}
	// the App has been through a Start before (not with the observability servers: they are not restartable)
	startPanics := false
	for _, b := range sc.Starts {
		startPanics = startPanics || isPanic(b)
	}
	// (a panicking OnStart hook leaves the startup log buffer unflushed — unless an earlier Start has flushed it already)
	if !sc.Metrics && !sc.Tracing && !sc.MetDead && sc.LateHup == 0 && sc.Listen == lOK && !sc.ByDeadline && !sc.LateReg && !startPanics && r.Chance(1, 8) {
		sc.Warm = 1 + r.Intn(2)
	}
	// a slow log sink while the startup buffer is flushed, with the stop signal already there
	for _, b := range sc.Starts {
		if b == bCancelOK && !sc.Metrics && !sc.Tracing && !sc.ShortWrite && r.Chance(1, 2) {
			sc.SlowLog = true
			if r.Chance(1, 2) {
				// no hook after start-up: nothing that probes the port (and thereby waits until it is served)
				sc.Readies, sc.Shuts, sc.Stops = nil, nil, nil
			}
		}
	}
	// the requests in flight go to a route registered on the router itself
	if len(sc.Reqs) > 0 && r.Chance(1, 5) {
		sc.RawRoute = true
	}
	// a caller that gives up while its reload waits for its turn, and a reload after it
	for i := 0; i+1 < len(sc.Rounds); i++ {
		if sc.Rounds[i].Pair && sc.Rounds[i+1].Trig == 0 && r.Chance(1, 2) {
			sc.Rounds[i+1].CtxEnds = true
			if i+2 >= len(sc.Rounds) {
				sc.Rounds = append(sc.Rounds, Round{Trig: r.Intn(2), CancelAt: -1})
			}
		}
	}
	// Scenarios that use the process-wide SIGHUP (or read goroutine dumps) run one after the other; most of
	// them get no wait for the 1 s deadline, or the serial phase alone would exhaust the quick budget.
	if sc.needsSerial() && r.Chance(3, 4) {
		for i, b := range sc.Shuts {
			if b == bBlock {
				sc.Shuts[i] = bOK
			}
		}
		for i, q := range sc.Reqs {
			if q.Kind == "N" || (q.Kind == "H" && q.J >= len(sc.Shuts)) {
				sc.Reqs[i] = Rel{Kind: "D"}
			}
		}
	}
	// StartMTLS with an invalid configuration: fails before observability and the OnStart hooks (K09h)
	if sc.Proto == pMTLS && sc.Listen == lOK && sc.LateHup == 0 && r.Chance(1, 8) {
		sc.Listen, sc.Starts = lCfg, nil
		sc.Metrics, sc.Tracing, sc.MetDead, sc.MetFlaky, sc.MetricsRace = false, false, false, false, false
		sc.Warm, sc.SlowLog, sc.LateReg, sc.ShortWrite = 0, false, false, false
	}
	return sc
}
