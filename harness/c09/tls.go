package main

import (
	"crypto/ecdsa"
	"crypto/elliptic"
	"crypto/rand"
	"crypto/tls"
	"crypto/x509"
	"crypto/x509/pkix"
	"encoding/pem"
	"math/big"
	"net"
	"os"
	"path/filepath"
	"sync"
	"time"
)

// pki is one throw-away certificate authority per harness process: a server certificate for 127.0.0.1
// (as files for StartTLS, as a value for StartMTLS) and a client certificate for mutual TLS.
type pkiT struct {
	pool       *x509.CertPool
	serverCert tls.Certificate
	clientCert tls.Certificate
	certFile   string
	keyFile    string
	dir        string
}

var (
	pkiOnce sync.Once
	pkiVal  *pkiT
	pkiErr  error
)

func pki() (*pkiT, error) {
	pkiOnce.Do(func() { pkiVal, pkiErr = makePKI() })
	return pkiVal, pkiErr
}

func makePKI() (*pkiT, error) {
	caKey, err := ecdsa.GenerateKey(elliptic.P256(), rand.Reader)
	if err != nil {
		return nil, err
	}
	caT := &x509.Certificate{SerialNumber: big.NewInt(1), Subject: pkix.Name{CommonName: "verif-c09 CA"},
		NotBefore: time.Now().Add(-time.Hour), NotAfter: time.Now().Add(24 * time.Hour), IsCA: true,
		KeyUsage: x509.KeyUsageCertSign | x509.KeyUsageDigitalSignature, BasicConstraintsValid: true}
	caDER, err := x509.CreateCertificate(rand.Reader, caT, caT, &caKey.PublicKey, caKey)
	if err != nil {
		return nil, err
	}
	caCert, err := x509.ParseCertificate(caDER)
	if err != nil {
		return nil, err
	}
	p := &pkiT{pool: x509.NewCertPool()}
	p.pool.AddCert(caCert)
	leaf := func(serial int64, cn string, usage x509.ExtKeyUsage) (tls.Certificate, []byte, []byte, error) {
		k, err := ecdsa.GenerateKey(elliptic.P256(), rand.Reader)
		if err != nil {
			return tls.Certificate{}, nil, nil, err
		}
		t := &x509.Certificate{SerialNumber: big.NewInt(serial), Subject: pkix.Name{CommonName: cn},
			NotBefore: time.Now().Add(-time.Hour), NotAfter: time.Now().Add(24 * time.Hour),
			KeyUsage: x509.KeyUsageDigitalSignature, ExtKeyUsage: []x509.ExtKeyUsage{usage},
			IPAddresses: []net.IP{net.ParseIP("127.0.0.1")}, DNSNames: []string{"localhost"}}
		der, err := x509.CreateCertificate(rand.Reader, t, caCert, &k.PublicKey, caKey)
		if err != nil {
			return tls.Certificate{}, nil, nil, err
		}
		kb, err := x509.MarshalECPrivateKey(k)
		if err != nil {
			return tls.Certificate{}, nil, nil, err
		}
		cp := pem.EncodeToMemory(&pem.Block{Type: "CERTIFICATE", Bytes: der})
		kp := pem.EncodeToMemory(&pem.Block{Type: "EC PRIVATE KEY", Bytes: kb})
		c, err := tls.X509KeyPair(cp, kp)
		return c, cp, kp, err
	}
	var cp, kp []byte
	if p.serverCert, cp, kp, err = leaf(2, "verif-c09 server", x509.ExtKeyUsageServerAuth); err != nil {
		return nil, err
	}
	if p.clientCert, _, _, err = leaf(3, "verif-c09 client", x509.ExtKeyUsageClientAuth); err != nil {
		return nil, err
	}
	if p.dir, err = os.MkdirTemp("", "verif-c09-pki-"); err != nil {
		return nil, err
	}
	p.certFile = filepath.Join(p.dir, "server.crt")
	p.keyFile = filepath.Join(p.dir, "server.key")
	if err = os.WriteFile(p.certFile, cp, 0o600); err != nil {
		return nil, err
	}
	if err = os.WriteFile(p.keyFile, kp, 0o600); err != nil {
		return nil, err
	}
	return p, nil
}

func pkiCleanup() {
	if pkiVal != nil && pkiVal.dir != "" {
		os.RemoveAll(pkiVal.dir)
	}
}

// clientTLS is what probes and request clients present (the client certificate is only asked for by mTLS).
func clientTLS() *tls.Config {
	p, err := pki()
	if err != nil {
		return &tls.Config{InsecureSkipVerify: true} //nolint:gosec // harness only
	}
	return &tls.Config{RootCAs: p.pool, Certificates: []tls.Certificate{p.clientCert}, MinVersion: tls.VersionTLS12}
}
