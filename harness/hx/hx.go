// Package hx holds what every per-property harness shares: the PRNG, the token encoder of the
// case-line protocol (DESIGN.md §2.9), coverage counters and the command-line conventions.
//
// Conventions for a harness binary `hCxx`:
//
//	hCxx gen  -seed S -n N [-tier quick|thorough]   generate N cases, run the real code, print case lines
//	hCxx replay < file                               re-run the inputs of the given case lines
//
// Every case line is `<id> <input tokens…> => <observation tokens…>`; lines starting with `#` are
// comments; a final `#stats {json}` line carries the measured input distribution.
package hx

import (
	"bufio"
	"encoding/hex"
	"encoding/json"
	"flag"
	"fmt"
	"hash/fnv"
	"os"
	"sort"
	"strconv"
	"strings"
)

// Rand is a splitmix64 PRNG: every random choice of a run derives from VERIF_SEED.
type Rand struct{ s uint64 }

func NewRand(seed uint64) *Rand {
	// scramble the seed (splitmix64 finalizer): consecutive seeds must give unrelated streams,
	// not the same stream shifted by one draw
	z := seed + 0x9E3779B97F4A7C15
	z = (z ^ (z >> 30)) * 0xBF58476D1CE4E5B9
	z = (z ^ (z >> 27)) * 0x94D049BB133111EB
	return &Rand{s: z ^ (z >> 31)}
}

func (r *Rand) U64() uint64 {
	r.s += 0x9E3779B97F4A7C15
	z := r.s
	z = (z ^ (z >> 30)) * 0xBF58476D1CE4E5B9
	z = (z ^ (z >> 27)) * 0x94D049BB133111EB
	return z ^ (z >> 31)
}

// Intn returns a value in [0,n).
func (r *Rand) Intn(n int) int {
	if n <= 0 {
		return 0
	}
	return int(r.U64() % uint64(n))
}

// Range returns a value in [lo,hi].
func (r *Rand) Range(lo, hi int) int { return lo + r.Intn(hi-lo+1) }

// Chance is true with probability num/den.
func (r *Rand) Chance(num, den int) bool { return r.Intn(den) < num }

// Pick returns one element.
func Pick[T any](r *Rand, xs []T) T { return xs[r.Intn(len(xs))] }

// Shuffle permutes in place.
func Shuffle[T any](r *Rand, xs []T) {
	for i := len(xs) - 1; i > 0; i-- {
		j := r.Intn(i + 1)
		xs[i], xs[j] = xs[j], xs[i]
	}
}

// Line builds one case line token by token.
type Line struct{ b strings.Builder }

func NewLine(id string) *Line { l := &Line{}; l.b.WriteString(id); return l }

func (l *Line) Tok(s string) *Line   { l.b.WriteByte(' '); l.b.WriteString(s); return l }
func (l *Line) Nat(n int) *Line      { return l.Tok(strconv.Itoa(n)) }
func (l *Line) I64(n int64) *Line    { return l.Tok(strconv.FormatInt(n, 10)) }
func (l *Line) Str(s string) *Line   { return l.Tok("h:" + hex.EncodeToString([]byte(s))) }
func (l *Line) Bytes(b []byte) *Line { return l.Tok("h:" + hex.EncodeToString(b)) }
func (l *Line) Bool(b bool) *Line {
	if b {
		return l.Tok("1")
	}
	return l.Tok("0")
}
func (l *Line) Sep() *Line { return l.Tok("=>") }
func (l *Line) Strs(ss []string) *Line {
	l.Nat(len(ss))
	for _, s := range ss {
		l.Str(s)
	}
	return l
}
func (l *Line) String() string { return l.b.String() }

// Unhex decodes an `h:` token.
func Unhex(tok string) (string, error) {
	if !strings.HasPrefix(tok, "h:") {
		return "", fmt.Errorf("not a string token: %q", tok)
	}
	b, err := hex.DecodeString(tok[2:])
	return string(b), err
}

// Toks is a cursor over the tokens of a case line (used by `replay`).
type Toks struct {
	T []string
	I int
}

func (t *Toks) Next() string {
	if t.I >= len(t.T) {
		panic("case line too short")
	}
	s := t.T[t.I]
	t.I++
	return s
}
func (t *Toks) Nat() int {
	n, err := strconv.Atoi(t.Next())
	if err != nil {
		panic(err)
	}
	return n
}
func (t *Toks) I64() int64 {
	n, err := strconv.ParseInt(t.Next(), 10, 64)
	if err != nil {
		panic(err)
	}
	return n
}
func (t *Toks) Bool() bool { return t.Next() == "1" }
func (t *Toks) Str() string {
	s, err := Unhex(t.Next())
	if err != nil {
		panic(err)
	}
	return s
}
func (t *Toks) Strs() []string {
	n := t.Nat()
	out := make([]string, n)
	for i := range out {
		out[i] = t.Str()
	}
	return out
}

// SplitCase returns id and the input tokens (before `=>`) of a case line.
func SplitCase(line string) (string, *Toks) {
	f := strings.Fields(line)
	if len(f) == 0 {
		return "", &Toks{}
	}
	in := f[1:]
	for i, t := range in {
		if t == "=>" {
			in = in[:i]
			break
		}
	}
	return f[0], &Toks{T: in}
}

// Stats accumulates the measured input distribution written to the evidence file.
type Stats struct {
	Evaluations int            `json:"evaluations"`
	Nontrivial  int            `json:"nontrivial"`
	Counters    map[string]int `json:"counters"`
	distinct    map[uint64]bool
	distinctNT  map[uint64]bool
}

func NewStats() *Stats {
	return &Stats{Counters: map[string]int{}, distinct: map[uint64]bool{}, distinctNT: map[uint64]bool{}}
}

func (s *Stats) Count(k string) { s.Counters[k]++ }

// Case records one generated case: `input` is the canonical input text (distinctness is its hash),
// nontrivial says whether it is non-trivial by the property's stated rule.
func (s *Stats) Case(input string, nontrivial bool) {
	h := fnv.New64a()
	h.Write([]byte(input))
	k := h.Sum64()
	s.Evaluations++
	s.distinct[k] = true
	if nontrivial {
		s.Nontrivial++
		s.distinctNT[k] = true
	}
}

func (s *Stats) Emit(w *bufio.Writer) {
	keys := make([]string, 0, len(s.Counters))
	for k := range s.Counters {
		keys = append(keys, k)
	}
	sort.Strings(keys)
	out := map[string]any{
		"evaluations":         s.Evaluations,
		"distinct":            len(s.distinct),
		"distinct_nontrivial": len(s.distinctNT),
		"counters":            s.Counters,
	}
	b, _ := json.Marshal(out)
	fmt.Fprintf(w, "#stats %s\n", b)
}

// Args are the common flags.
type Args struct {
	Cmd  string
	Seed uint64
	N    int
	Tier string
}

func ParseArgs() Args {
	if len(os.Args) < 2 {
		fmt.Fprintln(os.Stderr, "usage: gen|replay [-seed S] [-n N] [-tier T]")
		os.Exit(2)
	}
	a := Args{Cmd: os.Args[1]}
	fs := flag.NewFlagSet(a.Cmd, flag.ExitOnError)
	fs.Uint64Var(&a.Seed, "seed", 1, "PRNG seed")
	fs.IntVar(&a.N, "n", 1000, "number of cases")
	fs.StringVar(&a.Tier, "tier", "quick", "quick|thorough")
	_ = fs.Parse(os.Args[2:])
	return a
}

// Out is a buffered stdout; call Flush at the end (and after each line when a case may crash).
func Out() *bufio.Writer { return bufio.NewWriterSize(os.Stdout, 1<<16) }

// StdinLines reads case lines (non-empty, not comments) from stdin.
func StdinLines() []string {
	var out []string
	sc := bufio.NewScanner(os.Stdin)
	sc.Buffer(make([]byte, 1<<20), 1<<26)
	for sc.Scan() {
		l := strings.TrimSpace(sc.Text())
		if l == "" || strings.HasPrefix(l, "#") {
			continue
		}
		out = append(out, l)
	}
	return out
}

// Comment renders the concrete case as ` # {json}`; drivers ignore everything from the `#` token on.
func Comment(v any) string {
	b, err := json.Marshal(v)
	if err != nil {
		panic(err)
	}
	return " # " + string(b)
}

// CaseFromComment decodes the JSON comment of a case line into v and returns the case id.
func CaseFromComment(line string, v any) (string, error) {
	id := ""
	if f := strings.Fields(line); len(f) > 0 {
		id = f[0]
	}
	i := strings.Index(line, " # ")
	if i < 0 {
		return id, fmt.Errorf("no case comment")
	}
	return id, json.Unmarshal([]byte(line[i+3:]), v)
}
