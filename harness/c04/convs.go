package main

import (
	"errors"
	"net"
	"net/url"
	"reflect"
	"strings"
	"time"

	"rivaas.dev/binding"
	"verif/harness/hx"
)

// Custom converters (binding.WithConverter / WithTypeConverter): registered when a Binder is built or per
// call; a per-call converter replaces the Binder's for the same type, for that call only. Each converter
// is a function of this file; what it returns for a string is shipped in the case line (table column c).

type convDef struct {
	Key int // leaf type: 100 time.Time, otherwise the opaque kind
	T   reflect.Type
	F   func(string) (any, error)
}

var errConv = errors.New("harness converter: no")

func timeBy(layout string) func(string) (any, error) {
	return func(s string) (any, error) {
		t, err := time.Parse(layout, s)
		if err != nil {
			return nil, err
		}
		return t, nil
	}
}

var convDefs = []convDef{
	{100, timeT, timeBy("02/01/2006")},
	{100, timeT, timeBy("01/02/2006")},
	{4, opqTypes[4], func(s string) (any, error) {
		if len(s) == 1 && s[0] >= '1' && s[0] <= '4' {
			return OLevel(s[0] - '0'), nil
		}
		return nil, errConv
	}},
	{4, opqTypes[4], func(s string) (any, error) {
		if i := strings.Index("_diwe", s); len(s) == 1 && i > 0 {
			return OLevel(i), nil
		}
		return nil, errConv
	}},
	{5, opqTypes[5], func(s string) (any, error) {
		switch strings.ToLower(s) {
		case "red":
			return OColor("#ff0000"), nil
		case "green":
			return OColor("#00ff00"), nil
		}
		return nil, errConv
	}},
	{1, opqTypes[1], func(s string) (any, error) {
		if s == "localhost" {
			return net.IPv4(127, 0, 0, 1), nil
		}
		if ip := net.ParseIP(s); ip != nil {
			return ip, nil
		}
		return nil, errConv
	}},
	{0, opqTypes[0], func(s string) (any, error) {
		u, err := url.Parse("https://" + s)
		if err != nil {
			return nil, err
		}
		return *u, nil
	}},
	{1, opqTypes[1], func(s string) (any, error) {
		if ip := net.ParseIP(s); ip != nil && ip.To4() != nil && !strings.Contains(s, ":") {
			return ip, nil
		}
		return nil, errConv
	}},
}

func convOptions(ids []int) []binding.Option {
	var out []binding.Option
	for _, id := range ids {
		d := convDefs[id]
		if id == 0 {
			out = append(out, binding.WithConverter[time.Time](func(s string) (time.Time, error) {
				v, err := d.F(s)
				if err != nil {
					return time.Time{}, err
				}
				return v.(time.Time), nil
			}))
			continue
		}
		out = append(out, binding.WithTypeConverter(d.T, binding.TypeConverter(d.F)))
	}
	return out
}

// effConvs: the converters in force, by leaf type: later registrations replace earlier ones for a type.
func effConvs(lists ...[]int) [][2]int {
	var out [][2]int
	for _, ids := range lists {
		for _, id := range ids {
			k := convDefs[id].Key
			done := false
			for i := range out {
				if out[i][0] == k {
					out[i][1] = id
					done = true
				}
			}
			if !done {
				out = append(out, [2]int{k, id})
			}
		}
	}
	return out
}

func convRender(id int, s string) (string, bool) {
	v, err := convDefs[id].F(s)
	if err != nil {
		return "", false
	}
	rv := reflect.ValueOf(v)
	if convDefs[id].Key == 100 {
		return v.(time.Time).Format(time.RFC3339Nano), true
	}
	p := reflect.New(rv.Type())
	p.Elem().Set(rv)
	return opqRender(convDefs[id].Key, p.Elem()), true
}

// convsFor picks converters for leaf types that occur in the type.
func convsFor(r *hx.Rand, ct *corpusType) []int {
	var cand []int
	for id, d := range convDefs {
		if d.Key == 100 && ct.HasTime {
			cand = append(cand, id)
		}
		for _, k := range ct.Opq {
			if k == d.Key {
				cand = append(cand, id)
			}
		}
	}
	if len(cand) == 0 {
		return nil
	}
	var out []int
	for i := r.Range(1, 2); i > 0; i-- {
		out = append(out, hx.Pick(r, cand))
	}
	return out
}

var convHint bool // set while the source of a case with converters is generated

var convFriendly = map[string][]string{
	"t":  {"25/12/2024", "03/04/2024", "12/25/2024", "2024-01-15", "13/01/2024"},
	"o4": {"1", "4", "d", "e", "info", "9", "w"},
	"o5": {"RED", "green", "#fff", "blue"},
	"o1": {"localhost", "10.0.0.1", "::1", "1.2.3"},
	"o0": {"example.com/x", "http://a/b", "a b", "%zz"},
}
