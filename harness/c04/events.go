package main

import (
	"rivaas.dev/binding"
	"verif/harness/hx"
)

// Event hooks (binding.WithEvents): registered with the options of a call or of a Binder; a per-call WithEvents
// on a Binder replaces the Binder's hooks as a whole, for that call. Observed: how often each registered hook
// was invoked and the Stats the Done hook received.

type evCount struct {
	fb, uf, done int
	bound        int
}

func eventsOption(mask int, n *evCount) binding.Option {
	var ev binding.Events
	if mask&1 != 0 {
		ev.FieldBound = func(string, string) { n.fb++ }
	}
	if mask&2 != 0 {
		ev.UnknownField = func(string) { n.uf++ }
	}
	if mask&4 != 0 {
		ev.Done = func(s binding.Stats) { n.done++; n.bound = s.FieldsBound }
	}
	return binding.WithEvents(ev)
}

// the counters of the case that is running (cases run one after the other; concurrent first binds carry no hooks)
var evB, evC evCount

func writeEvents(l *hx.Line) {
	bound := -1
	if evB.done > 0 {
		bound = evB.bound
	}
	if evC.done > 0 {
		bound = evC.bound
	}
	l.Tok("V").Nat(evB.fb).Nat(evB.done).Nat(evC.fb).Nat(evC.done).Tok(itoa(bound))
}

func itoa(n int) string {
	if n < 0 {
		return "-" + itoa(-n)
	}
	if n < 10 {
		return string(rune('0' + n))
	}
	return itoa(n/10) + string(rune('0'+n%10))
}
