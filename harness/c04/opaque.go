package main

import (
	"errors"
	"net"
	"net/url"
	"reflect"
	"regexp"
	"strings"
	"sync/atomic"
	"time"

	"rivaas.dev/binding"
	"verif/harness/hx"
)

// Leaf types with their own text form (prim codes o0..o5 of the Ty term). The first four are parsed
// by the standard library inside binding (convert.go, "special types"); OLevel and OColor are types of
// this corpus that implement encoding.TextUnmarshaler. Values are observed through a canonical
// rendering; the zero value of every kind renders as "".

// OLevel is an int-kinded TextUnmarshaler: the text form is a level name, never a number.
type OLevel int

var levelNames = []string{"", "debug", "info", "warn", "error"}

// slowText makes UnmarshalText of the corpus's types take a while (set during concurrent first binds)
var slowText atomic.Bool

func (l *OLevel) UnmarshalText(b []byte) error {
	if slowText.Load() {
		time.Sleep(300 * time.Microsecond)
	}
	s := strings.ToLower(string(b))
	for i := 1; i < len(levelNames); i++ {
		if s == levelNames[i] {
			*l = OLevel(i)
			return nil
		}
	}
	return errors.New("unknown level")
}

// OColor is a string-kinded TextUnmarshaler: "#rgb", "#rrggbb" or one of three names; stored normalised.
type OColor string

func (c *OColor) UnmarshalText(b []byte) error {
	if slowText.Load() {
		time.Sleep(300 * time.Microsecond)
	}
	s := strings.ToLower(string(b))
	switch s {
	case "red":
		*c = "#ff0000"
		return nil
	case "green":
		*c = "#00ff00"
		return nil
	case "blue":
		*c = "#0000ff"
		return nil
	}
	if len(s) == 3 && s[0] == '#' {
		// application code at fault: a short form the parser was never written for (it half-writes the value and
		// panics, as an index out of range would). The bind may propagate the panic; it must not report success.
		*c = OColor("#" + s[1:2])
		userPanicSeen.Store(true)
		panic(errUserPanic)
	}
	if len(s) != 4 && len(s) != 7 || s[0] != '#' {
		return errors.New("bad colour")
	}
	for _, ch := range s[1:] {
		if !(ch >= '0' && ch <= '9' || ch >= 'a' && ch <= 'f') {
			return errors.New("bad colour")
		}
	}
	if len(s) == 4 {
		s = "#" + strings.Repeat(s[1:2], 2) + strings.Repeat(s[2:3], 2) + strings.Repeat(s[3:4], 2)
	}
	*c = OColor(s)
	return nil
}

var opqTypes = []reflect.Type{
	reflect.TypeFor[url.URL](), reflect.TypeFor[net.IP](), reflect.TypeFor[net.IPNet](), reflect.TypeFor[regexp.Regexp](),
	reflect.TypeFor[OLevel](), reflect.TypeFor[OColor](),
}

func opqKind(t reflect.Type) int {
	for k, ot := range opqTypes {
		if t == ot {
			return k
		}
	}
	return -1
}

// opqParse is the reference: what the text form of kind k denotes (a value of the kind), by the standard
// library or the type's own UnmarshalText.
func opqParse(k int, s string) (reflect.Value, bool) {
	switch k {
	case 0:
		u, err := url.Parse(s)
		if err != nil {
			return reflect.Value{}, false
		}
		return reflect.ValueOf(*u), true
	case 1:
		ip := net.ParseIP(s)
		if ip == nil {
			return reflect.Value{}, false
		}
		return reflect.ValueOf(ip), true
	case 2:
		_, n, err := net.ParseCIDR(s)
		if err != nil {
			return reflect.Value{}, false
		}
		return reflect.ValueOf(*n), true
	case 3:
		re, err := regexp.Compile(s)
		if err != nil {
			return reflect.Value{}, false
		}
		return reflect.ValueOf(*re), true //nolint:govet // the copy binding itself makes
	case 4:
		var l OLevel
		if l.UnmarshalText([]byte(s)) != nil {
			return reflect.Value{}, false
		}
		return reflect.ValueOf(l), true
	case 5:
		var c OColor
		if len(s) == 3 && s[0] == '#' {
			return reflect.Value{}, false // UnmarshalText panics on this form: no value
		}
		if c.UnmarshalText([]byte(s)) != nil {
			return reflect.Value{}, false
		}
		return reflect.ValueOf(c), true
	}
	panic("opqParse")
}

// opqRender is the canonical rendering of a value of kind k ("" for the zero value).
func opqRender(k int, v reflect.Value) string {
	v = readable(v)
	switch k {
	case 0:
		u := v.Interface().(url.URL)
		return u.String()
	case 1:
		ip := v.Interface().(net.IP)
		if len(ip) == 0 {
			return ""
		}
		return ip.String()
	case 2:
		n := v.Interface().(net.IPNet)
		if n.IP == nil && n.Mask == nil {
			return ""
		}
		return n.String()
	case 3:
		if v.CanAddr() {
			return v.Addr().Interface().(*regexp.Regexp).String()
		}
		c := reflect.New(v.Type())
		c.Elem().Set(v)
		return c.Interface().(*regexp.Regexp).String()
	case 4:
		l := int(v.Int())
		if l >= 0 && l < len(levelNames) {
			return levelNames[l]
		}
		return "level#" + v.String()
	case 5:
		return v.String()
	}
	panic("opqRender")
}

var opqPool = [][]string{
	{"http://example.com/a?b=c", "/rel/path", "mailto:x@y.z", "https://u:p@h.example:8443/p%20q?x=1&y=2#frag", "x", "", "//host", "a b", "?q=1"},
	{"10.0.0.1", "::1", "2001:db8::68", "127.0.0.1", "255.255.255.255", "::ffff:1.2.3.4", "0.0.0.0", "fe80::1"},
	{"10.0.0.0/8", "192.168.1.7/24", "::1/128", "fe80::/10", "0.0.0.0/0", "1.2.3.4/32"},
	{"^a+$", "[0-9]+", "x", "", "(a|b)*c", "\\d{2,3}", "(?i)hello", "a.b"},
	{"info", "WARN", "debug", "error", "Info", "wArN"},
	{"#fff", "red", "#A0b1C2", "blue", "GREEN", "#000000", "#abc"},
}
var opqBad = [][]string{
	{"http://[::1", "%zz", ":", "http://a b.com/", "\x7f", "http://host:port/"},
	{"256.1.1.1", "1.2.3", "", "10.0.0.1/8", "::g", " 10.0.0.1", "10.0.0.1 ", "1.2.3.4.5", "01.2.3.4"},
	{"10.0.0.1", "10.0.0.0/33", "", "/8", "::1/129", "10.0.0.0/ 8", "a/b"},
	{"(", "a{2,1}", "[z-a]", "*", "(?P<n>", "\\"},
	{"3", "verbose", "", "0", " info", "info ", "1", "-1"},
	{"#ggg", "blueish", "#12345", "", "fff", "#", "#1234567", "0", "#12", "#ab"},
}

func opqValue(r *hx.Rand, k int, bad bool) string {
	if bad {
		return hx.Pick(r, opqBad[k])
	}
	return hx.Pick(r, opqPool[k])
}

func opqPrefill(r *hx.Rand, k int, v reflect.Value) {
	if r.Chance(1, 2) {
		return
	}
	if pv, ok := opqParse(k, hx.Pick(r, opqPool[k])); ok {
		v.Set(pv)
	}
}

// userPanicSeen: the UnmarshalText of a corpus type panicked since the flag was last cleared
var userPanicSeen atomic.Bool
var errUserPanic = errors.New("harness: UnmarshalText of the application panics on this input")

// OBoom is a TextUnmarshaler whose UnmarshalText panics: application code at fault. faultT carries it with a
// default tag, so the fault strikes while the type's field table is built (the default is converted there).
type OBoom int

func (*OBoom) UnmarshalText([]byte) error { panic("harness: UnmarshalText at fault") }

type faultT struct {
	L OBoom `query:"l" form:"l" default:"x"`
}

// injectFault binds faultT once at start-up (the panic of the application's own code is recovered, as a server's
// recovery middleware would): whatever shared state binding keeps must survive it - every later first bind of
// another type of this process runs after this fault.
func injectFault() {
	for i := 0; i < 2; i++ {
		done := make(chan struct{})
		go func() {
			defer close(done)
			defer func() { _ = recover() }()
			_, _ = binding.Query[faultT](url.Values{})
		}()
		select {
		case <-done:
		case <-time.After(2 * time.Second):
			// the second bind of the faulty type does not return: the cases that follow run under their own
			// watchdog (runTimed / runConcurrent) and report what a request would see
			return
		}
	}
}
