package main

// The body side of binding (entries J and H of the case line, see lean/Rivaas/Driver/C04.lean):
//
//	J  binding.JSON / JSONTo / JSONReader / JSONReaderTo / XML… and the Binder's forms, alone or as a
//	   FromJSON / FromJSONReader / FromXML / FromXMLReader source of BindTo next to value sources;
//	   readers that deliver in chunks and may fail; an earlier request through the same entry point
//	H  app.Context.Bind / BindOnly / MustBind on a POST request with a body: Content-Type dispatch,
//	   several binds in one handler, the body replaced in between, ResetBinding
//
// What encoding/json and encoding/xml make of a document is the reference, computed here with the
// standard library directly (never through the binding package) on a copy of the destination as it is
// before the bind, and shipped in the case line.

import (
	"bytes"
	"encoding/json"
	"encoding/xml"
	"errors"
	"fmt"
	"io"
	"mime/multipart"
	"net/http"
	"net/http/httptest"
	"net/url"
	"reflect"
	"strconv"
	"strings"

	"rivaas.dev/app"
	"rivaas.dev/binding"
	"rivaas.dev/validation"
	"verif/harness/hx"
)

type bodyCase struct {
	Fmt       string // "j" JSON, "x" XML
	Via       string // to gen rto rgen bto bgen brto brgen from rfrom
	Policy    int    // 0 ignore, 1 warn, 2 error
	Spell     int    // how the policy is spelled (WithUnknownFields / WithStrictJSON / left out)
	Doc       []byte
	ReadFails int // 0 no, 1 inside the document, 2 after the whole document instead of EOF
	Chunk     int // bytes per Read
	Pos       int // from / rfrom: position of the body source among the value sources
	HasWarm   bool
	WarmDoc   []byte
	WarmFails int
}

type opT struct {
	K      string // b bind, s set body, r ResetBinding
	Strict bool
	Doc    int // s: index into Docs, -1: Body = nil
}

type httpCase struct {
	CT   string
	Docs [][]byte // Docs[0]: the body the request arrives with
	Ops  []opT
	Form [][2]string // the form body (for the form content type), encoded as Docs[0]
	// Before: the route has two WithBefore middlewares - the first binds the request (into a scratch value) and
	// returns, the second serves another request with the JSON body Inter (when not nil) on the same app from start
	// to end - before the handler runs on its own app.Context. The handler's binds are those of a fresh context on
	// the same request.
	Before bool   `json:",omitempty"`
	Inter  []byte `json:",omitempty"`
}

var bodyTypes []*corpusType // gen_types.py BodyGen

// ---------------------------------------------------------------- what the body can fill

type bodyField struct {
	JSON, XML string
	T         reflect.Type
	Sub       []bodyField
}

func bodyFieldsOf(t reflect.Type) []bodyField {
	var out []bodyField
	for i := 0; i < t.NumField(); i++ {
		f := t.Field(i)
		ft := f.Type
		if ft.Kind() == reflect.Pointer {
			ft = ft.Elem()
		}
		if f.Anonymous && ft.Kind() == reflect.Struct {
			out = append(out, bodyFieldsOf(ft)...) // promoted
			continue
		}
		j := strings.Split(f.Tag.Get("json"), ",")[0]
		if j == "" || j == "-" {
			continue
		}
		bf := bodyField{JSON: j, XML: strings.Split(f.Tag.Get("xml"), ",")[0], T: f.Type}
		if ft.Kind() == reflect.Struct && ft != timeT {
			bf.Sub = bodyFieldsOf(ft)
		}
		out = append(out, bf)
	}
	return out
}

func otherNames(t reflect.Type) []string {
	var out []string
	for i := 0; i < t.NumField(); i++ {
		if f := t.Field(i); f.Tag.Get("json") == "-" {
			out = append(out, f.Name, strings.ToLower(f.Name))
		}
	}
	return out
}

func jsonScalar(r *hx.Rand, t reflect.Type, bad bool) string {
	switch {
	case t == timeT:
		if bad {
			return hx.Pick(r, []string{`"2024-01-15"`, `"yesterday"`, `5`, `""`})
		}
		return hx.Pick(r, []string{`"2024-01-15T10:30:00Z"`, `"2001-02-03T04:05:06+02:00"`, `"2024-01-15T10:30:00.123456789Z"`, `null`})
	case t == durT:
		if bad {
			return hx.Pick(r, []string{`"1h"`, `1.5`, `true`})
		}
		return hx.Pick(r, []string{`1000000000`, `0`, `-5`, `90000000000`})
	}
	switch t.Kind() {
	case reflect.Int, reflect.Int8, reflect.Int16, reflect.Int32, reflect.Int64, reflect.Uint, reflect.Uint8, reflect.Uint16, reflect.Uint32, reflect.Uint64:
		if bad {
			return hx.Pick(r, []string{`300`, `-1`, `70000`, `1.5`, `"12"`, `1e3`, `99999999999999999999`, `true`, `-129`, `256`})
		}
		return hx.Pick(r, []string{`0`, `1`, `7`, `42`, `100`, `127`, `null`, `5`})
	case reflect.Float32, reflect.Float64:
		if bad {
			return hx.Pick(r, []string{`"x"`, `1e400`, `1e39`, `false`})
		}
		return hx.Pick(r, []string{`1.5`, `0`, `-2.25`, `3`, `1e10`, `null`})
	case reflect.Bool:
		if bad {
			return hx.Pick(r, []string{`"true"`, `1`, `0`})
		}
		return hx.Pick(r, []string{`true`, `false`, `null`})
	case reflect.String:
		if bad {
			return hx.Pick(r, []string{`5`, `true`, `{}`})
		}
		return hx.Pick(r, []string{`"x"`, `"hello"`, `""`, `"a b"`, `"héllo"`, `"q,r"`, `"{x}"`, `null`})
	}
	return `null`
}

func jsonValue(r *hx.Rand, f bodyField, t reflect.Type, pBad int) string {
	bad := r.Chance(pBad, 100)
	switch {
	case t.Kind() == reflect.Pointer:
		if r.Chance(1, 6) {
			return `null`
		}
		return jsonValue(r, f, t.Elem(), pBad)
	case t.Kind() == reflect.Struct && t != timeT:
		if bad {
			return hx.Pick(r, []string{`[]`, `5`, `"x"`})
		}
		if r.Chance(1, 10) {
			return `null`
		}
		return jsonObject(r, f.Sub, nil, pBad)
	case t.Kind() == reflect.Slice:
		if bad {
			return jsonScalar(r, t.Elem(), false) // a single value where an array is expected
		}
		n := r.Range(0, 3)
		parts := make([]string, n)
		for i := range parts {
			parts[i] = jsonScalar(r, t.Elem(), r.Chance(pBad, 100))
		}
		return "[" + strings.Join(parts, ",") + "]"
	case t.Kind() == reflect.Map:
		if bad {
			return hx.Pick(r, []string{`[]`, `5`})
		}
		n := r.Range(0, 3)
		parts := make([]string, n)
		for i := range parts {
			parts[i] = strconv.Quote(hx.Pick(r, []string{"a", "b", "k1", "x.y"})+strconv.Itoa(i)) + ":" + jsonScalar(r, t.Elem(), r.Chance(pBad, 100))
		}
		return "{" + strings.Join(parts, ",") + "}"
	}
	return jsonScalar(r, t, bad)
}

func jsonObject(r *hx.Rand, fs []bodyField, others []string, pBad int) string {
	var parts []string
	for _, f := range fs {
		if !r.Chance(6, 10) {
			continue
		}
		key := f.JSON
		if r.Chance(1, 12) {
			key = strings.ToUpper(key) // encoding/json matches keys case-insensitively
		}
		parts = append(parts, strconv.Quote(key)+":"+jsonValue(r, f, f.T, pBad))
		if r.Chance(1, 25) {
			parts = append(parts, strconv.Quote(f.JSON)+":"+jsonValue(r, f, f.T, pBad)) // duplicate key: the last one counts
		}
	}
	if r.Chance(1, 4) {
		// keys no field answers to: unknown fields
		for i := r.Range(1, 2); i > 0; i-- {
			k := hx.Pick(r, []string{"zz", "extra", "b0", "unknown_field", "B"})
			if len(others) > 0 && r.Chance(1, 3) {
				k = hx.Pick(r, others) // the name of a field that is excluded with json:"-"
			}
			parts = append(parts, strconv.Quote(k)+":"+hx.Pick(r, []string{`1`, `"v"`, `{"a":1}`, `[1,2]`, `null`}))
		}
	}
	hx.Shuffle(r, parts)
	return "{" + strings.Join(parts, ",") + "}"
}

func genJSONDoc(r *hx.Rand, ct *corpusType) []byte {
	rt := reflect.TypeOf(ct.E.New()).Elem()
	pBad := hx.Pick(r, []int{0, 0, 0, 5, 10, 25})
	doc := jsonObject(r, bodyFieldsOf(rt), otherNames(rt), pBad)
	switch k := r.Intn(40); {
	case k == 0:
		doc = doc[:r.Intn(len(doc))] // cut off
	case k == 1:
		doc = hx.Pick(r, []string{"", "null", "[]", "5", `"x"`, "{", "nul", "{}"})
	case k == 2:
		doc += hx.Pick(r, []string{" xyz", "}", ` {"b1":9}`, "\n[]", ","}) // something after the document
	case k == 3:
		doc = hx.Pick(r, []string{" ", "\n\t ", "\r\n"}) + doc + hx.Pick(r, []string{" ", "\n"})
	case k == 4:
		doc = strings.Replace(doc, ":", " : ", -1)
	}
	return []byte(doc)
}

func xmlText(r *hx.Rand, t reflect.Type, bad bool) string {
	switch {
	case t == timeT:
		if bad {
			return hx.Pick(r, []string{"2024-01-15", "yesterday"})
		}
		return hx.Pick(r, []string{"2024-01-15T10:30:00Z", "2001-02-03T04:05:06+02:00"})
	case t == durT:
		if bad {
			return "1h"
		}
		return hx.Pick(r, []string{"1000000000", "0", "-5"})
	}
	switch t.Kind() {
	case reflect.Int, reflect.Int8, reflect.Int16, reflect.Int32, reflect.Int64, reflect.Uint, reflect.Uint8, reflect.Uint16, reflect.Uint32, reflect.Uint64:
		if bad {
			return hx.Pick(r, []string{"300", "-1", "70000", "1.5", "abc", "", "-129", "256"})
		}
		return hx.Pick(r, []string{"0", "1", "7", "42", "100", "127", " 5 "})
	case reflect.Float32, reflect.Float64:
		if bad {
			return hx.Pick(r, []string{"x", "1e400", "1e39"})
		}
		return hx.Pick(r, []string{"1.5", "0", "-2.25", "3"})
	case reflect.Bool:
		if bad {
			return hx.Pick(r, []string{"maybe", "2"})
		}
		return hx.Pick(r, []string{"true", "false", "1", "0", " true "})
	case reflect.String:
		return hx.Pick(r, []string{"x", "hello", "", "a b", "q,r", "&lt;tag&gt;", "a&amp;b", "<![CDATA[<raw>]]>"})
	}
	return ""
}

func xmlElems(r *hx.Rand, fs []bodyField, pBad int) string {
	var parts []string
	for _, f := range fs {
		if f.XML == "" || f.XML == "-" || !r.Chance(6, 10) {
			continue
		}
		t := f.T
		if t.Kind() == reflect.Pointer {
			t = t.Elem()
		}
		open, end := "<"+f.XML+">", "</"+f.XML+">"
		if r.Chance(1, 15) {
			open = "<" + f.XML + ` a="1">`
		}
		switch {
		case t.Kind() == reflect.Struct && t != timeT:
			parts = append(parts, open+xmlElems(r, f.Sub, pBad)+end)
		case t.Kind() == reflect.Slice:
			for i := r.Range(0, 3); i > 0; i-- {
				parts = append(parts, open+xmlText(r, t.Elem(), r.Chance(pBad, 100))+end)
			}
		case t.Kind() == reflect.Map:
		default:
			parts = append(parts, open+xmlText(r, t, r.Chance(pBad, 100))+end)
		}
	}
	if r.Chance(1, 5) {
		parts = append(parts, hx.Pick(r, []string{"<zz>1</zz>", "<extra><a>1</a></extra>", "<!-- note -->", "text"}))
	}
	hx.Shuffle(r, parts)
	return strings.Join(parts, "")
}

func genXMLDoc(r *hx.Rand, ct *corpusType) []byte {
	rt := reflect.TypeOf(ct.E.New()).Elem()
	pBad := hx.Pick(r, []int{0, 0, 0, 5, 10, 25})
	inner := xmlElems(r, bodyFieldsOf(rt), pBad)
	doc := "<r>" + inner + "</r>"
	switch k := r.Intn(24); {
	case k == 0:
		doc = doc[:r.Intn(len(doc))]
	case k == 1:
		doc = hx.Pick(r, []string{"", "<r>", "<r/>", "r", "<r></s>", "<?xml version=\"1.0\"?><r></r>"})
	case k == 2:
		doc += hx.Pick(r, []string{" xyz", "<r></r>", "</r>"})
	case k == 3, k == 4, k == 5:
		// not well formed in ways a lenient parser lets pass: an element that is never closed, an entity that
		// is not defined, an attribute without quotes, a bare attribute
		doc = "<r>" + hx.Pick(r, []string{"<item>widget", "<p>&nbsp;</p>", "<p a=1>x</p>", "<p checked>x</p>", "<br>"}) + inner + "</r>"
	case k == 6:
		doc = "  \n" + doc + "\n"
	}
	return []byte(doc)
}

// ---------------------------------------------------------------- the standard library as the reference

func firstJSONObject(doc []byte) bool {
	var raw json.RawMessage
	if json.NewDecoder(bytes.NewReader(doc)).Decode(&raw) != nil {
		return false
	}
	return len(raw) > 0 && raw[0] == '{'
}

// refDecode writes `<Dec lax> <Dec strict> <object>` for the document on a fresh copy of the destination.
func refDecode(l *hx.Line, f string, doc []byte, mk func() any) (laxOK bool) {
	one := func(strict bool) bool {
		d := mk()
		var err error
		if f == "x" {
			err = xml.Unmarshal(doc, d)
		} else {
			dec := json.NewDecoder(bytes.NewReader(doc))
			if strict {
				dec.DisallowUnknownFields()
			}
			err = dec.Decode(d)
		}
		switch {
		case err == nil:
			l.Tok("O")
			render(reflect.ValueOf(d).Elem(), l)
			return true
		case strict && strings.Contains(err.Error(), "unknown field"):
			name := ""
			if i := strings.Index(err.Error(), `"`); i >= 0 {
				rest := err.Error()[i+1:]
				if j := strings.Index(rest, `"`); j >= 0 {
					name = rest[:j]
				}
			}
			l.Tok("U").Str(name)
		default:
			l.Tok("B")
		}
		return false
	}
	laxOK = one(false)
	one(true)
	var m map[string]json.RawMessage
	l.Bool(f == "x" || json.Unmarshal(doc, &m) == nil)
	return laxOK
}

var errFlaky = errors.New("harness: the connection broke")

type flakyReader struct {
	data   []byte
	pos    int
	chunk  int
	failAt int // the reader fails once this many bytes are delivered (-1: never)
}

func (f *flakyReader) Read(p []byte) (int, error) {
	if f.failAt >= 0 && f.pos >= f.failAt {
		return 0, errFlaky
	}
	if f.pos >= len(f.data) {
		return 0, io.EOF
	}
	n := len(f.data) - f.pos
	if f.failAt >= 0 && f.failAt-f.pos < n {
		n = f.failAt - f.pos
	}
	if f.chunk > 0 && f.chunk < n {
		n = f.chunk
	}
	if len(p) < n {
		n = len(p)
	}
	copy(p, f.data[f.pos:f.pos+n])
	f.pos += n
	return n, nil
}

func newReader(doc []byte, fails, chunk int) io.Reader {
	fr := &flakyReader{data: doc, chunk: chunk, failAt: -1}
	switch fails {
	case 1:
		fr.failAt = 0
		if len(doc) > 0 && (doc[0] == '{' || doc[0] == '<') {
			fr.failAt = 1
		}
	case 2:
		fr.failAt = len(doc)
	}
	return fr
}

// ---------------------------------------------------------------- generation

func genBodyCase(r *hx.Rand) caseT {
	ct := hx.Pick(r, bodyTypes)
	if r.Chance(2, 5) {
		return genHTTPCase(r, ct)
	}
	c := caseT{T: ct.E.Name, Entry: "J", Opts: genOpts(r), NT: true}
	b := &bodyCase{Fmt: "j", Chunk: hx.Pick(r, []int{0, 0, 1, 3, 7, 64})}
	if r.Chance(3, 10) {
		b.Fmt = "x"
	}
	b.Via = hx.Pick(r, []string{"to", "gen", "rto", "rto", "rgen", "rgen", "bto", "bgen", "brto", "brgen", "from", "from", "rfrom", "rfrom"})
	if b.Fmt == "j" {
		b.Policy = hx.Pick(r, []int{0, 0, 0, 1, 1, 2, 2, 2})
		b.Spell = r.Intn(2)
		b.Doc = genJSONDoc(r, ct)
	} else {
		b.Doc = genXMLDoc(r, ct)
	}
	reader := strings.HasPrefix(b.Via, "r") || strings.HasPrefix(b.Via, "br")
	if reader && r.Chance(1, 5) {
		b.ReadFails = 1
		if r.Chance(1, 2) && (b.Fmt == "j" && firstJSONObject(b.Doc) || b.Fmt == "x" && xml.Unmarshal(b.Doc, ct.E.New()) == nil) {
			b.ReadFails = 2
		}
	}
	if !strings.HasSuffix(b.Via, "gen") && r.Chance(1, 2) {
		c.Prefill = r.U64() | 1
	}
	if strings.HasPrefix(b.Via, "b") {
		c.Binder = true
	}
	if strings.HasSuffix(b.Via, "from") {
		// value sources around the body source: query / path / header / cookie
		n := hx.Pick(r, []int{0, 1, 1, 2, 2, 3})
		perm := []int{0, 1, 3, 4}
		hx.Shuffle(r, perm)
		for i := 0; i < n; i++ {
			tag := perm[i]
			c.Srcs = append(c.Srcs, srcCase{Tag: tag, KV: genSrc(r, ct.Shapes[tag], tag, c.Opts, &c.NT, r.Range(3, 8))})
		}
		b.Pos = r.Intn(n + 1)
	}
	// WithAllErrors: next to value sources that fail as well, more often than not
	c.AllErrors = r.Chance(1, 5) || (strings.HasSuffix(b.Via, "from") && len(c.Srcs) > 0 && r.Chance(1, 3))
	if c.AllErrors && strings.HasSuffix(b.Via, "from") && len(c.Srcs) > 0 && r.Chance(2, 3) {
		// every source fails: a value no numeric / bool leaf can hold in front of one value source, a body that
		// cannot be decoded
		i := r.Intn(len(c.Srcs))
		for _, lf := range ct.Shapes[c.Srcs[i].Tag].Leaves {
			if lf.Kind == "prim" && strings.ContainsAny(lf.Prim[:1], "iufb") {
				c.Srcs[i].KV = append([][2]string{{lf.Keys[0], "x!"}}, c.Srcs[i].KV...)
				break
			}
		}
		if b.ReadFails == 2 {
			b.ReadFails = 0
		}
		if b.Fmt == "j" {
			b.Doc = hx.Pick(r, [][]byte{[]byte("{"), b.Doc[:len(b.Doc)/2], []byte(`{"zz":`), []byte("[]"), []byte(`"x"`)})
		} else {
			b.Doc = hx.Pick(r, [][]byte{[]byte("<r>"), b.Doc[:len(b.Doc)/2], []byte("<r></s>")})
		}
	}
	if r.Chance(1, 2) {
		// an earlier request through the same entry point; its reader may have failed
		b.HasWarm = true
		if b.Fmt == "j" {
			b.WarmDoc = genJSONDoc(r, ct)
		} else {
			b.WarmDoc = genXMLDoc(r, ct)
		}
		if reader && r.Chance(1, 2) {
			b.WarmFails = r.Range(1, 2)
		}
	}
	c.Body = b
	return c
}

var contentTypes = []string{"application/json", "application/json", "application/json", "application/json; charset=utf-8", "APPLICATION/JSON",
	" application/json ;x=y", "", "application/merge-patch+json", "application/json-patch+json", "text/plain", "application/xml",
	"application/jsonx", "application/x-www-form-urlencoded", "application/x-www-form-urlencoded", "Application/X-WWW-Form-Urlencoded; charset=UTF-8",
	"multipart/form-data", "multipart/form-data", "Multipart/Form-Data"}

const mpBoundary = "c04boundary"

// multipartOK: the form-tagged fields of the type are leaves of the top level and no maps (a MultipartGetter is a form
// getter for those; map notation and nested structs go other ways)
func multipartOK(ct *corpusType) bool {
	sh := ct.Shapes[2]
	if len(sh.Structs) > 0 {
		return false
	}
	for _, lf := range sh.Leaves {
		if lf.Nested || lf.Kind == "map" || lf.Kind == "ptrmap" {
			return false
		}
	}
	return true
}

func multipartBody(kv [][2]string) []byte {
	var b bytes.Buffer
	w := multipart.NewWriter(&b)
	_ = w.SetBoundary(mpBoundary)
	for _, p := range kv {
		_ = w.WriteField(p[0], p[1])
	}
	_ = w.Close()
	return b.Bytes()
}

func genHTTPCase(r *hx.Rand, ct *corpusType) caseT {
	c := caseT{T: ct.E.Name, Entry: "H", Opts: optsT{MaxDepth: -1, MaxSlice: -1, MaxMap: -1}, NT: true}
	c.Via = hx.Pick(r, []string{"only", "bind", "bind", "must"})
	if r.Chance(1, 2) {
		c.Prefill = r.U64() | 1
	}
	h := &httpCase{CT: hx.Pick(r, contentTypes)}
	for _, tag := range []int{1, 0, 3, 4} {
		var kv [][2]string
		if !r.Chance(3, 10) {
			kv = genSrc(r, ct.Shapes[tag], tag, c.Opts, &c.NT, r.Range(2, 7))
		}
		if tag == 1 {
			seen := map[string]bool{}
			var keep [][2]string
			for _, p := range kv {
				if p[1] == "" || p[1] == "." || p[1] == ".." || strings.ContainsAny(p[1], "/") || strings.ContainsAny(p[0], "/:*{}") || seen[p[0]] {
					continue
				}
				seen[p[0]] = true
				keep = append(keep, p)
			}
			kv = keep
		}
		c.Srcs = append(c.Srcs, srcCase{Tag: tag, KV: kv})
	}
	if strings.Contains(strings.ToLower(h.CT), "multipart") && !multipartOK(ct) {
		h.CT = "application/x-www-form-urlencoded"
	}
	if strings.Contains(strings.ToLower(h.CT), "form") {
		h.Form = genSrc(r, ct.Shapes[2], 2, c.Opts, &c.NT, r.Range(2, 7))
		if len(h.Form) > 0 && r.Chance(1, 2) {
			// the URL carries parameters named like fields of the form, with other values
			for i := r.Range(1, 2); i > 0; i-- {
				p := hx.Pick(r, h.Form)
				c.Srcs[1].KV = append(c.Srcs[1].KV, [2]string{p[0], hx.Pick(r, []string{"from-the-url", "7", "", "true", p[1] + "0"})})
			}
		}
		if strings.Contains(strings.ToLower(h.CT), "multipart") {
			h.CT += "; boundary=" + mpBoundary
			h.Docs = [][]byte{multipartBody(h.Form)}
			h.Ops = []opT{{K: "b", Strict: r.Chance(1, 4)}}
			c.HTTP = h
			return c
		}
		q := url.Values{}
		for _, p := range h.Form {
			q.Add(p[0], p[1])
		}
		h.Docs = [][]byte{[]byte(q.Encode())}
		h.Ops = []opT{{K: "b", Strict: r.Chance(1, 4)}}
		c.HTTP = h
		return c
	}
	nd := r.Range(1, 3)
	for i := 0; i < nd; i++ {
		h.Docs = append(h.Docs, genJSONDoc(r, ct))
	}
	if r.Chance(1, 3) {
		h.Before = true
		if r.Chance(2, 3) {
			h.Inter = genJSONDoc(r, ct)
		}
	}
	// the handler: binds, body replacements, ResetBinding — always ending in a bind
	switch r.Intn(8) {
	case 0, 1, 2:
		h.Ops = []opT{{K: "b", Strict: r.Chance(1, 3)}}
	case 3:
		h.Ops = []opT{{K: "b"}, {K: "b", Strict: r.Chance(1, 3)}}
	case 4:
		h.Ops = []opT{{K: "b"}, {K: "s", Doc: r.Intn(nd)}, {K: "b", Strict: r.Chance(1, 3)}}
	case 5:
		h.Ops = []opT{{K: "b", Strict: r.Chance(1, 3)}, {K: "s", Doc: r.Intn(nd)}, {K: "r"}, {K: "b", Strict: r.Chance(1, 3)}}
	case 6:
		h.Ops = []opT{{K: "s", Doc: r.Intn(nd+1) - 1}, {K: "b", Strict: r.Chance(1, 3)}}
	default:
		for i := r.Range(2, 5); i > 0; i-- {
			switch r.Intn(3) {
			case 0:
				h.Ops = append(h.Ops, opT{K: "b", Strict: r.Chance(1, 3)})
			case 1:
				h.Ops = append(h.Ops, opT{K: "s", Doc: r.Intn(nd+1) - 1})
			default:
				h.Ops = append(h.Ops, opT{K: "r"})
			}
		}
		h.Ops = append(h.Ops, opT{K: "b", Strict: r.Chance(1, 3)})
	}
	c.HTTP = h
	return c
}

// ---------------------------------------------------------------- running

func policyOptions(b *bodyCase) []binding.Option {
	switch b.Policy {
	case 1:
		return []binding.Option{binding.WithUnknownFields(binding.UnknownWarn)}
	case 2:
		if b.Spell == 1 {
			return []binding.Option{binding.WithStrictJSON()}
		}
		return []binding.Option{binding.WithUnknownFields(binding.UnknownError)}
	}
	if b.Spell == 1 {
		return []binding.Option{binding.WithUnknownFields(binding.UnknownIgnore)}
	}
	return nil
}

var bodyBinders = map[string]*binding.Binder{}

func runBody(ct *corpusType, c *caseT, doc []byte, fails int, dest any) (res any, err error, panicked bool) {
	defer func() {
		if p := recover(); p != nil {
			panicked = true
		}
	}()
	b := c.Body
	o := append(c.Opts.options(), policyOptions(b)...)
	if c.AllErrors {
		o = append(o, binding.WithAllErrors())
	}
	rd := func() io.Reader { return newReader(doc, fails, b.Chunk) }
	var bd *binding.Binder
	if c.Binder {
		k := fmt.Sprintf("%+v/%d/%d/%v", c.Opts, b.Policy, b.Spell, c.AllErrors)
		if bd = bodyBinders[k]; bd == nil {
			var berr error
			if bd, berr = binding.New(o...); berr != nil {
				panic(berr)
			}
			bodyBinders[k] = bd
		}
	}
	x := b.Fmt == "x"
	switch b.Via {
	case "to":
		if x {
			return dest, binding.XMLTo(doc, dest, o...), false
		}
		return dest, binding.JSONTo(doc, dest, o...), false
	case "gen":
		if x {
			res, err = ct.E.XML(doc, o...)
		} else {
			res, err = ct.E.JSON(doc, o...)
		}
	case "rto":
		if x {
			return dest, binding.XMLReaderTo(rd(), dest, o...), false
		}
		return dest, binding.JSONReaderTo(rd(), dest, o...), false
	case "rgen":
		if x {
			res, err = ct.E.XMLReader(rd(), o...)
		} else {
			res, err = ct.E.JSONReader(rd(), o...)
		}
	case "bto":
		if x {
			return dest, bd.XMLTo(doc, dest), false
		}
		return dest, bd.JSONTo(doc, dest), false
	case "bgen":
		if x {
			res, err = ct.E.XMLWith(bd, doc)
		} else {
			res, err = ct.E.JSONWith(bd, doc)
		}
	case "brto":
		if x {
			return dest, bd.XMLReaderTo(rd(), dest), false
		}
		return dest, bd.JSONReaderTo(rd(), dest), false
	case "brgen":
		if x {
			res, err = ct.E.XMLReaderWith(bd, rd())
		} else {
			res, err = ct.E.JSONReaderWith(bd, rd())
		}
	case "from", "rfrom":
		var from []binding.Option
		body := func() binding.Option {
			switch {
			case b.Via == "from" && x:
				return binding.FromXML(doc)
			case b.Via == "from":
				return binding.FromJSON(doc)
			case x:
				return binding.FromXMLReader(rd())
			}
			return binding.FromJSONReader(rd())
		}
		vs := fromOptions(c)
		for i := 0; i <= len(vs); i++ {
			if i == b.Pos {
				from = append(from, body())
			}
			if i < len(vs) {
				from = append(from, vs[i])
			}
		}
		return dest, binding.BindTo(dest, append(from, o...)...), false
	}
	return
}

func classifyBody(err error) (string, func(l *hx.Line)) {
	var uf *binding.UnknownFieldError
	var ve *validation.Error
	var be *binding.BindError
	switch {
	case errors.Is(err, errFlaky):
		return "read", func(l *hx.Line) { l.Tok("F").Tok("R") }
	case errors.As(err, &uf):
		n := ""
		if len(uf.Fields) > 0 {
			n = uf.Fields[0]
		}
		return "unknown", func(l *hx.Line) { l.Tok("F").Tok("U").Str(n) }
	case errors.As(err, &ve) && len(ve.Fields) > 0 && ve.Fields[0].Code == "json.unknown_field":
		n := strings.TrimPrefix(ve.Fields[0].Message, "unknown field: ")
		return "unknown", func(l *hx.Line) { l.Tok("F").Tok("U").Str(n) }
	case errors.Is(err, binding.ErrUnsupportedContentType):
		return "ctype", func(l *hx.Line) { l.Tok("F").Tok("T") }
	case errors.Is(err, binding.ErrRequestBodyNil):
		return "nobody", func(l *hx.Line) { l.Tok("F").Tok("N") }
	case errors.As(err, &be) || errors.Is(err, binding.ErrNoSourcesProvided):
		names, cls := classify(err)
		return "bind_" + cls, func(l *hx.Line) { l.Tok("E").Strs(names).Tok(cls) }
	}
	return "decode", func(l *hx.Line) { l.Tok("F").Tok("D") }
}

func hasTagRef(t reflect.Type, tag string) bool {
	for i := 0; i < t.NumField(); i++ {
		f := t.Field(i)
		if !f.IsExported() {
			continue
		}
		if v := f.Tag.Get(tag); v != "" && v != "-" {
			return true
		}
		ft := f.Type
		if ft.Kind() == reflect.Pointer {
			ft = ft.Elem()
		}
		if f.Anonymous && ft.Kind() == reflect.Struct && hasTagRef(ft, tag) {
			return true
		}
	}
	return false
}

// writeTable writes `<n> { entry }*` for every string the model may have to convert.
func writeTable(l *hx.Line, ct *corpusType, srcs []*srcT, layouts []string) {
	seen := map[string]bool{}
	var strs []string
	note := func(x string) {
		if !seen[x] {
			seen[x] = true
			strs = append(strs, x)
		}
	}
	for _, s := range srcs {
		for _, kv := range s.kvs {
			for _, v := range kv[1].([]string) {
				note(v)
				for _, p := range strings.Split(v, ",") {
					note(strings.TrimSpace(p))
				}
			}
		}
	}
	for _, d := range ct.Dflts {
		note(d)
	}
	tl := hx.NewLine("")
	n := 0
	for i := 0; i < len(strs); i++ {
		var extra []string
		tableEntry(tl, strs[i], &extra, layouts, ct.Opq, nil)
		tl.Bool(false)
		n++
		for _, e := range extra {
			note(e)
		}
	}
	l.Nat(n).Tok(strings.TrimSpace(tl.String()))
}

func writeKVs(l *hx.Line, s *srcT) {
	l.Nat(len(s.kvs))
	for _, kv := range s.kvs {
		l.Str(kv[0].(string)).Strs(kv[1].([]string))
	}
}

func writeOutcome(l *hx.Line, st *hx.Stats, res any, err error, panicked bool, all bool) {
	l.Sep()
	switch {
	case !panicked && err != nil && all:
		writeAllErrors(l, err, true)
		if st != nil {
			st.Count("outcome_body_all_errors")
		}
	case panicked:
		l.Tok("X")
		if st != nil {
			st.Count("outcome_panic")
		}
	case err != nil:
		cls, w := classifyBody(err)
		w(l)
		if st != nil {
			st.Count("outcome_body_" + cls)
		}
	default:
		l.Tok("O")
		rv := reflect.ValueOf(res)
		if rv.Kind() == reflect.Pointer {
			rv = rv.Elem()
		} else {
			p := reflect.New(rv.Type())
			p.Elem().Set(rv)
			rv = p.Elem()
		}
		render(rv, l)
		if st != nil {
			st.Count("outcome_ok")
		}
	}
}

func emitBody(id string, c caseT, st *hx.Stats) string {
	ct := typeByName[c.T]
	if ct == nil {
		return "# unknown type " + c.T
	}
	mk := func() any {
		d := ct.E.New()
		if c.Prefill != 0 {
			prefill(hx.NewRand(c.Prefill), reflect.ValueOf(d).Elem())
		}
		return d
	}
	il := hx.NewLine("")
	render(reflect.ValueOf(mk()).Elem(), il)
	if c.Entry == "H" {
		return emitHTTP(id, c, ct, mk, strings.TrimSpace(il.String()), st)
	}
	b := c.Body
	md, ms, mm := c.Opts.effective()
	l := hx.NewLine(id).Tok("J").Nat(md).Nat(ms).Nat(mm).Bool(c.Opts.CSV).Bool(c.Opts.BaseAuto).Nat(0).Bool(c.AllErrors)
	ct.Node.tokens(l)
	l.Tok(strings.TrimSpace(il.String()))
	var srcs []*srcT
	for _, sc := range c.Srcs {
		srcs = append(srcs, buildSrc(sc.Tag, sc.KV))
	}
	reader := strings.HasPrefix(b.Via, "r") || strings.HasPrefix(b.Via, "br")
	l.Nat(len(srcs) + 1)
	for i := 0; i <= len(srcs); i++ {
		if i == b.Pos || (!strings.HasSuffix(b.Via, "from") && i == 0) {
			l.Tok("D").Tok(b.Fmt).Nat(b.Policy).Bool(reader).Nat(b.ReadFails)
			refDecode(l, b.Fmt, b.Doc, mk)
		}
		if i < len(srcs) {
			l.Tok("S").Nat(c.Srcs[i].Tag)
			writeKVs(l, srcs[i])
		}
	}
	writeTable(l, ct, srcs, c.Opts.Layouts)
	in := l.String()
	if b.HasWarm {
		func() {
			defer func() { _ = recover() }()
			_, _, _ = runBody(ct, &c, b.WarmDoc, b.WarmFails, ct.E.New())
		}()
	}
	res, err, panicked := runBody(ct, &c, b.Doc, b.ReadFails, mk())
	writeOutcome(l, st, res, err, panicked, c.AllErrors)
	if st != nil {
		st.Case(in[len(id):], true)
		st.Count("entry_J")
		st.Count("body_fmt_" + b.Fmt)
		st.Count("body_via_" + b.Via)
		st.Count(fmt.Sprintf("body_policy_%d", b.Policy))
		st.Count(fmt.Sprintf("body_read_fails_%d", b.ReadFails))
		if b.HasWarm {
			st.Count(fmt.Sprintf("body_earlier_request_fails_%d", b.WarmFails))
		}
	}
	return l.String() + hx.Comment(c)
}

func emitHTTP(id string, c caseT, ct *corpusType, mk func() any, init string, st *hx.Stats) string {
	h := c.HTTP
	a, aerr := app.New()
	if aerr != nil {
		panic(aerr)
	}
	pattern, path := "/bind", "/bind"
	for _, p := range c.Srcs[0].KV {
		pattern += "/:" + p[0]
		path += "/" + url.PathEscape(p[1])
	}
	var srcs []*srcT
	var form, mform *srcT
	var res any
	var err error
	var panicked, ran bool
	var ropts []app.RouteOption
	if h.Before {
		ropts = append(ropts, app.WithBefore(
			func(ctx *app.Context) {
				defer func() { _ = recover() }()
				_ = ctx.BindOnly(mk())
			},
			func(ctx *app.Context) {
				if h.Inter == nil {
					return
				}
				defer func() { _ = recover() }()
				other := httptest.NewRequest(http.MethodPost, "/c04-other", bytes.NewReader(h.Inter))
				other.Header.Set("Content-Type", "application/json")
				a.Router().ServeHTTP(httptest.NewRecorder(), other)
			},
		))
		a.POST("/c04-other", func(ctx *app.Context) {
			defer func() { _ = recover() }()
			_ = ctx.BindOnly(mk())
		})
	}
	a.POST(pattern, func(ctx *app.Context) {
		ran = true
		pm := map[string][]string{}
		for k, v := range ctx.AllParams() {
			pm[k] = []string{v}
		}
		cs := &srcT{}
		for _, ck := range ctx.Request.Cookies() {
			cs.kvs = append(cs.kvs, [2]any{ck.Name, []string{effectiveCookie(ck.Value)}})
		}
		srcs = []*srcT{{kvs: sortedKVs(pm)}, {kvs: sortedKVs(ctx.Request.URL.Query())}, {kvs: sortedKVs(ctx.Request.Header)}, cs}
		defer func() {
			if p := recover(); p != nil {
				panicked = true
			}
			form = &srcT{kvs: sortedKVs(ctx.Request.Form)}
		}()
		for _, op := range h.Ops {
			switch op.K {
			case "s":
				if op.Doc < 0 {
					ctx.Request.Body = nil
				} else {
					ctx.Request.Body = io.NopCloser(bytes.NewReader(h.Docs[op.Doc]))
				}
			case "r":
				ctx.ResetBinding()
			case "b":
				dest := mk()
				var opts []app.BindOption
				if op.Strict {
					opts = append(opts, app.WithStrict())
				}
				res = dest
				switch c.Via {
				case "bind":
					err = ctx.Bind(dest, opts...)
				case "must":
					err = nil
					if !ctx.MustBind(dest, opts...) {
						err = ctx.BindOnly(mk(), opts...)
						if err == nil {
							err = errors.New("MustBind failed, BindOnly on the same request succeeds")
						}
					}
				default:
					err = ctx.BindOnly(dest, opts...)
				}
			}
		}
	}, ropts...)
	req := httptest.NewRequest(http.MethodPost, path, bytes.NewReader(h.Docs[0]))
	q := url.Values{}
	for _, p := range c.Srcs[1].KV {
		q.Add(p[0], p[1])
	}
	req.URL.RawQuery = q.Encode()
	for _, p := range c.Srcs[2].KV {
		req.Header.Add(p[0], p[1])
	}
	if h.CT != "" {
		req.Header.Set("Content-Type", h.CT)
	}
	for _, p := range c.Srcs[3].KV {
		req.AddCookie(&http.Cookie{Name: p[0], Value: p[1]})
	}
	a.Router().ServeHTTP(httptest.NewRecorder(), req)
	if !ran {
		return "# " + id + " discarded: the request did not reach the handler"
	}
	if strings.HasPrefix(h.CT, "multipart/form-data") {
		// the fields of the multipart body, read with mime/multipart directly
		if f, ferr := multipart.NewReader(bytes.NewReader(h.Docs[0]), mpBoundary).ReadForm(32 << 20); ferr == nil {
			mform = &srcT{kvs: sortedKVs(f.Value)}
		}
	}
	rt := reflect.TypeOf(ct.E.New()).Elem()
	l := hx.NewLine(id).Tok("H")
	ct.Node.tokens(l)
	l.Tok(init)
	l.Bool(hasTagRef(rt, "json") || hasTagRef(rt, "form")).Str(h.CT)
	l.Nat(4)
	for i, tag := range []int{1, 0, 3, 4} {
		l.Nat(tag)
		writeKVs(l, srcs[i])
	}
	writeKVs(l, form)
	l.Bool(mform != nil)
	if mform != nil {
		writeKVs(l, mform)
	}
	l.Nat(len(h.Docs))
	for _, d := range h.Docs {
		refDecode(l, "j", d, mk)
	}
	l.Nat(len(h.Ops))
	for _, op := range h.Ops {
		switch op.K {
		case "b":
			l.Tok("b").Bool(op.Strict)
		case "s":
			l.Tok("s").Tok(strconv.Itoa(op.Doc))
		default:
			l.Tok("r")
		}
	}
	tsrcs := append(append([]*srcT(nil), srcs...), form)
	if mform != nil {
		tsrcs = append(tsrcs, mform)
	}
	writeTable(l, ct, tsrcs, nil)
	in := l.String()
	writeOutcome(l, st, res, err, panicked, false)
	if st != nil {
		st.Case(in[len(id):], true)
		st.Count("entry_H")
		st.Count("http_via_" + c.Via)
		st.Count(fmt.Sprintf("http_ops_%d", len(h.Ops)))
		st.Count("http_ct_" + strings.ToLower(strings.TrimSpace(strings.Split(h.CT, ";")[0])))
		if h.Before {
			st.Count("http_before_middleware_binds")
			if h.Inter != nil {
				st.Count("http_other_request_in_between")
			}
		}
	}
	return l.String() + hx.Comment(c)
}

// fixed body witnesses: a reader that failed in an earlier request must leave nothing behind; the reader and
// the byte entry points agree on XML that is not well formed; a re-bind after ResetBinding reads the body
// the request holds now
func fixedBodyCases() []caseT {
	var out []caseT
	// WithAllErrors over a value source and a body source that both fail: both are reported
	func() {
		for _, ct := range bodyTypes {
			for _, tag := range []int{0, 1, 3, 4} {
				for _, lf := range ct.Shapes[tag].Leaves {
					if lf.Kind == "prim" && strings.ContainsAny(lf.Prim[:1], "iufb") && !lf.Nested {
						for pos := 0; pos <= 1; pos++ {
							out = append(out, caseT{T: ct.E.Name, Entry: "J", Opts: optsT{-1, -1, -1, false, false, nil}, NT: true, AllErrors: true,
								Srcs: []srcCase{{Tag: tag, KV: [][2]string{{lf.Keys[0], "x!"}}}},
								Body: &bodyCase{Fmt: "j", Via: "from", Doc: []byte(`{"zz":`), Pos: pos}})
						}
						return
					}
				}
			}
		}
	}()
	for _, ct := range bodyTypes {
		rt := reflect.TypeOf(ct.E.New()).Elem()
		var f *bodyField
		for _, bf := range bodyFieldsOf(rt) {
			if k := bf.T.Kind(); (k == reflect.Int || k == reflect.Int64 || k == reflect.Int32 || k == reflect.String) && bf.T != durT && bf.XML != "-" {
				bf := bf
				f = &bf
				break
			}
		}
		if f == nil {
			continue
		}
		v1, v2 := "41", "42"
		if f.T.Kind() == reflect.String {
			v1, v2 = `"mallory"`, `"bob"`
		}
		d1, d2 := []byte(`{"`+f.JSON+`":`+v1+`}`), []byte(`{"`+f.JSON+`":`+v2+`}`)
		o := optsT{-1, -1, -1, false, false, nil}
		for _, via := range []string{"rto", "brgen"} {
			for wf := 1; wf <= 2; wf++ {
				out = append(out, caseT{T: ct.E.Name, Entry: "J", Opts: o, NT: true, Binder: via == "brgen",
					Body: &bodyCase{Fmt: "j", Via: via, Doc: d2, Chunk: 3, HasWarm: true, WarmDoc: d1, WarmFails: wf}})
			}
		}
		x := strings.Trim(v2, `"`)
		for _, via := range []string{"to", "rto", "rgen"} {
			out = append(out, caseT{T: ct.E.Name, Entry: "J", Opts: o, NT: true,
				Body: &bodyCase{Fmt: "x", Via: via, Doc: []byte("<r><item>widget<" + f.XML + ">" + x + "</" + f.XML + "></r>")}})
		}
		empty := []srcCase{{Tag: 1}, {Tag: 0}, {Tag: 3}, {Tag: 4}}
		out = append(out, caseT{T: ct.E.Name, Entry: "H", Opts: o, NT: true, Via: "only", Srcs: empty,
			HTTP: &httpCase{CT: "application/json", Docs: [][]byte{d1, d2}, Ops: []opT{{K: "b"}, {K: "s", Doc: 1}, {K: "r"}, {K: "b"}}}})
		out = append(out, caseT{T: ct.E.Name, Entry: "H", Opts: o, NT: true, Via: "bind", Srcs: empty,
			HTTP: &httpCase{CT: "application/json", Docs: [][]byte{d1, d2}, Ops: []opT{{K: "b"}, {K: "s", Doc: 1}, {K: "b"}}}})
		break
	}
	// a multipart body whose field is also named by a URL parameter: the form field is bound from the body
	nmp := 0
	for _, ct := range bodyTypes {
		if nmp >= 2 || !multipartOK(ct) {
			continue
		}
		for _, lf := range ct.Shapes[2].Leaves {
			if lf.Kind == "prim" && lf.Prim == "s" {
				nmp++
				o := optsT{-1, -1, -1, false, false, nil}
				kv := [][2]string{{lf.Keys[0], "from-the-form"}}
				out = append(out, caseT{T: ct.E.Name, Entry: "H", Opts: o, NT: true, Via: "only",
					Srcs: []srcCase{{Tag: 1}, {Tag: 0, KV: [][2]string{{lf.Keys[0], "from-the-url"}}}, {Tag: 3}, {Tag: 4}},
					HTTP: &httpCase{CT: "multipart/form-data; boundary=" + mpBoundary, Form: kv, Docs: [][]byte{multipartBody(kv)}, Ops: []opT{{K: "b"}}}})
				break
			}
		}
	}
	return out
}
