package main

import (
	"encoding/json"
	"reflect"
	"strconv"
	"strings"

	"verif/harness/hx"
)

// The nested-struct JSON shortcut (setNestedStructWithDepth): a nested struct field given as one JSON value
// under its own key. What encoding/json makes of the value on the field as it is before the bind is the
// reference (computed here with encoding/json directly) and shipped in the table (column nj).

// nestedJSONDoc builds a JSON object for the struct type t (Go field names, as encoding/json matches them):
// values every kind accepts, with explicit zero values as often as not (a field the document sets to 0 / false /
// "" holds that, not its default).
func nestedJSONDoc(r *hx.Rand, t reflect.Type) string {
	var parts []string
	for i := 0; i < t.NumField(); i++ {
		f := t.Field(i)
		if !f.IsExported() || f.Anonymous || !r.Chance(3, 4) {
			continue
		}
		ft := f.Type
		zero := r.Chance(1, 2)
		var v string
		switch {
		case ft == timeT:
			v = `"2024-01-15T10:30:00Z"`
		case ft == durT:
			v = hx.Pick(r, []string{"0", "1000000000"})
		case opqKind(ft) >= 0 || isFileT(ft):
			continue
		default:
			switch ft.Kind() {
			case reflect.Int, reflect.Int8, reflect.Int16, reflect.Int32, reflect.Int64, reflect.Uint, reflect.Uint8, reflect.Uint16, reflect.Uint32, reflect.Uint64:
				v = strconv.Itoa(r.Range(1, 100))
				if zero {
					v = "0"
				}
			case reflect.Float32, reflect.Float64:
				v = hx.Pick(r, []string{"1.5", "3"})
				if zero {
					v = hx.Pick(r, []string{"0", "0.0"})
				}
			case reflect.Bool:
				v = "true"
				if zero {
					v = "false"
				}
			case reflect.String:
				v = hx.Pick(r, []string{`"x"`, `"hello"`, `"C:\\"`, `"a\\\"b"`, `"{{#each}}[[[[[[[[[[[[[[[[[[[[[[[[[[[[[[[[[[[[[[[["`, `"}{"`})
				if zero {
					v = `""`
				}
			default:
				continue
			}
		}
		name := f.Name
		if r.Chance(1, 8) {
			name = strings.ToLower(name)
		}
		parts = append(parts, strconv.Quote(name)+":"+v)
	}
	if r.Chance(1, 4) {
		// members the struct does not have (encoding/json ignores them): a string that ends in a backslash in front,
		// a string full of brackets behind - one flat, valid value
		parts = append([]string{`"zzPath":"C:\\"`}, parts...)
		parts = append(parts, `"zzTpl":"`+strings.Repeat("[{", 20)+`"`)
	}
	doc := "{" + strings.Join(parts, ",") + "}"
	if r.Chance(1, 8) {
		doc = " " + doc + " "
	}
	return doc
}

// nestedJSONRef decodes v into the field `sel` of a fresh copy of the destination; the rendering of the struct
// (not of the pointer) when encoding/json accepts it.
func nestedJSONRef(dest any, sel, v string) (string, bool) {
	fv := reflect.ValueOf(dest).Elem().FieldByName(sel)
	if !fv.IsValid() || !fv.CanAddr() {
		return "", false
	}
	if json.Unmarshal([]byte(v), fv.Addr().Interface()) != nil {
		return "", false
	}
	if fv.Kind() == reflect.Pointer {
		if fv.IsNil() {
			return "", false
		}
		fv = fv.Elem()
	}
	l := hx.NewLine("")
	render(fv, l)
	return strings.TrimSpace(l.String()), true
}
