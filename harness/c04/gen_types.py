#!/usr/bin/env python3
"""Deterministic generator of the Go struct-type corpus for C04 (request binding).

  python3 gen_types.py [N [R [D]]] > types_gen.go    (N grammar types, default 400, then R request-shaped
                                                    types, default 80, then D types over defined scalar types, default 60)

Go cannot build struct types with promoted embedded fields at run time, so the harness carries a
generated, committed corpus. Every top-level type T<k> comes with
  * constructors / closures over the generic entry points (binding.Query[T] ... binding.Cookie[T]),
  * the `Ty` term of the type in the token format of the case line (DESIGN.md §2.9, C04); the
    harness re-derives the same term from reflect.Type at start-up and refuses to run when the two
    differ (so neither the generator nor the reflect walk is trusted alone).

Grammar: all int/uint/float widths, bool, string, time.Time, time.Duration; pointers to those;
slices of those; map[string]V; pointer to slice / map (rare); nested structs (value and pointer);
anonymous embedded structs (value and pointer, exported and unexported type names) with embedding
chains 1..5; tags query/path/form/header/cookie with aliases, omitempty, "-", missing tags,
different keys per tag; default tags (valid, boundary, out of range, malformed); unexported fields.
The PRNG is a local splitmix64 so the output does not depend on the Python version.
"""
import sys

MASK = (1 << 64) - 1


class Rng:
    def __init__(self, seed):
        self.s = (seed * 0x9E3779B97F4A7C15 + 0x1234567) & MASK

    def u64(self):
        self.s = (self.s + 0x9E3779B97F4A7C15) & MASK
        z = self.s
        z = ((z ^ (z >> 30)) * 0xBF58476D1CE4E5B9) & MASK
        z = ((z ^ (z >> 27)) * 0x94D049BB133111EB) & MASK
        return z ^ (z >> 31)

    def n(self, k):
        return self.u64() % k

    def rng(self, lo, hi):
        return lo + self.n(hi - lo + 1)

    def chance(self, a, b):
        return self.n(b) < a

    def pick(self, xs):
        return xs[self.n(len(xs))]


PRIMS = ["i0", "i8", "i16", "i32", "i64", "u0", "u8", "u16", "u32", "u64", "f32", "f64", "b", "s", "t", "d"]
GO = {"i0": "int", "i8": "int8", "i16": "int16", "i32": "int32", "i64": "int64",
      "u0": "uint", "u8": "uint8", "u16": "uint16", "u32": "uint32", "u64": "uint64",
      "f32": "float32", "f64": "float64", "b": "bool", "s": "string", "t": "time.Time", "d": "time.Duration"}
# narrow kinds are over-represented: that is where range checks matter
PRIM_W = ["i8", "i8", "u8", "u8", "i16", "u16", "i32", "u32", "f32", "f32", "i0", "i64", "u0", "u64", "f64",
          "b", "s", "s", "t", "d"]
TAGS = ["query", "path", "form", "header", "cookie"]

INT_RANGE = {"i8": (-128, 127), "i16": (-32768, 32767), "i32": (-2 ** 31, 2 ** 31 - 1), "i64": (-2 ** 63, 2 ** 63 - 1),
             "i0": (-2 ** 63, 2 ** 63 - 1), "u8": (0, 255), "u16": (0, 65535), "u32": (0, 2 ** 32 - 1),
             "u64": (0, 2 ** 64 - 1), "u0": (0, 2 ** 64 - 1)}


def hx(s):
    return "h:" + s.encode().hex()


def default_for(r, p):
    """a default tag value for prim p: mostly valid, sometimes boundary / out of range / malformed"""
    k = r.n(10)
    if p in INT_RANGE:
        lo, hi = INT_RANGE[p]
        if k < 5:
            return str(r.rng(0, 100))
        if k == 5:
            return str(hi)
        if k == 6:
            return str(lo)
        if k == 7:
            return str(hi + 1)          # out of range
        if k == 8:
            return "0x1f"               # valid only with WithIntBaseAuto
        return "12abc"                  # malformed
    if p in ("f32", "f64"):
        return ["1.5", "0.25", "-2", "1e10", "3.4e38", "1e39", "1e300", "1e400", "abc", "7"][k]
    if p == "b":
        return ["true", "1", "yes", "on", "false", "t", "Y", "maybe", "TRUE", "off"][k]
    if p == "s":
        return ["x", "hello", "a b", "d-1", "7", "zz", "q,r", "e", "val", "dflt"][k]
    if p == "t":
        return ["2024-01-15T10:30:00Z", "2024-01-15", "2024-01-15 10:30:00", "2001-02-03T04:05:06+02:00",
                "yesterday", "2024-13-01", "2024-01-15T10:30:00", "1999-12-31", "2024-01-15T10:30:00.123456789Z",
                "Mon, 02 Jan 2006 15:04:05 MST"][k]
    if p == "d":
        return ["1h", "90s", "1h30m", "500ms", "-2m", "5", "1d", "0", "2562047h47m16.854775807s", "2562048h"][k]
    if p in OPQ_DFLT:
        return OPQ_DFLT[p][k % 6]
    raise ValueError(p)


class TopGen:
    def __init__(self, r, k):
        self.r = r
        self.k = k
        self.fid = 0
        self.sid = 0
        self.decls = []   # helper type declarations (Go source)

    def new_field_id(self):
        self.fid += 1
        return self.fid

    def key_style(self, i):
        r = self.r
        s = r.n(12)
        if s < 5:
            return "k%d" % i
        if s == 5:
            return "Key%d" % i
        if s == 6:
            return "x-k%d" % i
        if s == 7:
            return "k_%d" % i
        if s == 8:
            return "X-Req-K%d" % i
        if s == 9:
            return "kE%dy" % i
        if s == 10:
            return "user_id%d" % i
        return "k%dz" % i

    def tags_for(self, i, leaf, allow_alias):
        """returns dict tag -> raw tag value (absent = no tag)"""
        r = self.r
        base = self.key_style(i)
        tv = {}
        mode = r.n(20)
        for t in TAGS:
            key = base
            if mode in (14, 15, 16) and r.chance(1, 2):
                key = base + t[0]          # a different key under this tag
            if mode in (17, 18, 19) and r.chance(1, 3):
                continue                   # tag missing
            tv[t] = key
        if leaf and allow_alias and r.chance(1, 4):
            style = r.n(5)
            for t in list(tv):
                a = tv[t] + "a"
                if style == 0:
                    tv[t] = tv[t] + "," + a
                elif style == 1:
                    tv[t] = tv[t] + ", " + a + " "
                elif style == 2:
                    tv[t] = tv[t] + ",," + a + "," + tv[t] + "b"
                elif style == 3:
                    tv[t] = tv[t] + "," + a if t != "form" else tv[t] + ",omitempty," + a
                else:
                    tv[t] = tv[t] + "," + a + ",omitempty"
        elif "form" in tv and r.chance(1, 10):
            tv["form"] = tv["form"] + ",omitempty"
        if "form" in tv and r.chance(1, 40):
            tv["form"] = "-"
        if "form" in tv and r.chance(1, 40):
            tv["form"] = ",omitempty"      # empty primary: the field name is used
        return tv

    def field_src(self, name, gotype, tv, dflt):
        parts = ['%s:"%s"' % (t, tv[t]) for t in TAGS if t in tv]
        if dflt != "":
            parts.append('default:"%s"' % dflt)
        tag = (" `" + " ".join(parts) + "`") if parts else ""
        return "\t%s %s%s" % (name, gotype, tag) if name else "\t%s%s" % (gotype, tag)

    def field_term(self, name, exported, anon, tv, dflt, ty):
        return " ".join([hx(name), "1" if exported else "0", "1" if anon else "0"] +
                        [hx(tv.get(t, "")) for t in TAGS] + [hx(dflt), ty])

    def gen_leaf(self):
        """returns (gotype, ty term, prim code or None for composite, kind)"""
        r = self.r
        p = r.pick(PRIM_W)
        k = r.n(100)
        if k < 52:
            return GO[p], "P " + p, p, "prim"
        if k < 66:
            return "*" + GO[p], "R P " + p, p, "ptr"
        if k < 82:
            return "[]" + GO[p], "L P " + p, p, "slice"
        if k < 94:
            return "map[string]" + GO[p], "M P " + p, p, "map"
        if k < 97:
            return "*[]" + GO[p], "R L P " + p, p, "ptrslice"
        return "*map[string]" + GO[p], "R M P " + p, p, "ptrmap"

    def gen_struct(self, depth, chain):
        """returns (list of Go field lines, Ty term). depth = struct levels above this one.
        chain > 0: this struct must contain an embedded struct continuing the chain."""
        r = self.r
        lines, terms = [], []
        nf = r.rng(1, 4)
        if chain == 0 and depth >= 3 and r.chance(2, 3):
            nf = r.rng(2, 4)               # innermost structs of deep chains: >= 2 fields (K04a)
        embed_at = r.n(nf) if chain > 0 else -1
        for j in range(nf):
            i = self.new_field_id()
            k = r.n(100)
            lim = [12, 10, 8, 6, 5, 0][min(depth, 5)]
            want_embed = (j == embed_at) or (depth < 5 and k < lim)
            want_nested = (not want_embed) and depth < 5 and k < 2 * lim
            if want_embed or want_nested:
                self.sid += 1
                mysid = self.sid
                sub_chain = chain - 1 if (j == embed_at and chain > 0) else 0
                sl, st = self.gen_struct(depth + 1, sub_chain)
                unexp = want_embed and sub_chain == 0 and r.chance(1, 12)
                tname = ("t%ds%d" if unexp else "T%dS%d") % (self.k, mysid)
                self.decls.append("type %s struct {\n%s\n}\n" % (tname, "\n".join(sl)))
                isptr = r.chance(2, 5)
                gotype = ("*" if isptr else "") + tname
                ty = ("R " if isptr else "") + st
                if want_embed:
                    tv = {}
                    if r.chance(1, 8):
                        tv = self.tags_for(i, False, False)   # tags on an embedded field are ignored
                    lines.append(self.field_src("", gotype, tv, ""))
                    terms.append(self.field_term(tname, not unexp, True, tv, "", ty))
                else:
                    tv = self.tags_for(i, False, False)
                    name = "N%d" % i
                    lines.append(self.field_src(name, gotype, tv, ""))
                    terms.append(self.field_term(name, True, False, tv, "", ty))
                continue
            gotype, ty, p, kind = self.gen_leaf()
            exported = not r.chance(1, 25)
            name = ("F%d" if exported else "f%d") % i
            tv = self.tags_for(i, True, kind in ("prim", "ptr", "slice"))
            dflt = ""
            if kind in ("prim", "ptr") and r.chance(1, 5):
                dflt = default_for(r, p)
            lines.append(self.field_src(name, gotype, tv, dflt))
            terms.append(self.field_term(name, exported, False, tv, dflt, ty))
        return lines, "T %d %s" % (len(terms), " ".join(terms))


class ReqGen(TopGen):
    """request-shaped types: every field answers to ONE source (sometimes two) and most carry a
    default - the shape handlers declare for app.Context.Bind (`cookie:"theme" default:"light"`).
    A default of such a field can only come from the pass of its own source."""

    def one_tag(self, i, forced=None):
        r = self.r
        base = self.key_style(i)
        t = forced if forced is not None else r.pick(TAGS)
        tv = {t: base}
        if forced is None and r.chance(1, 6):
            tv[r.pick(TAGS)] = base
        if r.chance(1, 8):
            tv[t] = base + "," + base + "a"
        return tv

    def nonzero_default(self, p):
        r = self.r
        if p in INT_RANGE:
            return str(r.rng(1, 99))
        if p in ("f32", "f64"):
            return r.pick(["1.5", "0.25", "7", "1e10"])
        if p == "b":
            return r.pick(["true", "1", "yes", "on"])
        if p == "s":
            return r.pick(["light", "en", "x", "dflt", "20"])
        if p == "t":
            return r.pick(["2024-01-15T10:30:00Z", "2024-01-15", "1999-12-31"])
        if p == "d":
            return r.pick(["1h", "90s", "500ms"])
        raise ValueError(p)

    def gen_struct(self, depth, forced=None):
        r = self.r
        lines, terms = [], []
        for _ in range(r.rng(2, 6) if depth == 0 else r.rng(1, 3)):
            i = self.new_field_id()
            k = r.n(100)
            if depth < 2 and k < 18:
                self.sid += 1
                mysid = self.sid
                embed = k < 9
                tag = forced if forced is not None else r.pick(TAGS)
                sl, st = self.gen_struct(depth + 1, forced if embed else tag)
                tname = "T%dS%d" % (self.k, mysid)
                self.decls.append("type %s struct {\n%s\n}\n" % (tname, "\n".join(sl)))
                isptr = r.chance(2, 5)
                gotype = ("*" if isptr else "") + tname
                ty = ("R " if isptr else "") + st
                if embed:
                    lines.append(self.field_src("", gotype, {}, ""))
                    terms.append(self.field_term(tname, True, True, {}, "", ty))
                else:
                    tv = {tag: self.key_style(i)}
                    name = "N%d" % i
                    lines.append(self.field_src(name, gotype, tv, ""))
                    terms.append(self.field_term(name, True, False, tv, "", ty))
                continue
            p = r.pick(PRIM_W)
            kk = r.n(100)
            if kk < 62:
                gotype, ty, kind = GO[p], "P " + p, "prim"
            elif kk < 80:
                gotype, ty, kind = "*" + GO[p], "R P " + p, "ptr"
            elif kk < 94:
                gotype, ty, kind = "[]" + GO[p], "L P " + p, "slice"
            else:
                gotype, ty, kind = "map[string]" + GO[p], "M P " + p, "map"
            name = "F%d" % i
            tv = self.one_tag(i, forced)
            dflt = ""
            if kind in ("prim", "ptr") and r.chance(3, 4):
                dflt = self.nonzero_default(p) if r.chance(9, 10) else default_for(r, p)
            lines.append(self.field_src(name, gotype, tv, dflt))
            terms.append(self.field_term(name, True, False, tv, dflt, ty))
        return lines, "T %d %s" % (len(terms), " ".join(terms))


# defined (named) scalar types: conversion goes by kind, the stored value must keep the named type
NAMED = {"s": "NStr", "i0": "NInt", "i8": "NI8", "i16": "NI16", "i32": "NI32", "i64": "NI64",
         "u0": "NUint", "u8": "NU8", "u16": "NU16", "u32": "NU32", "u64": "NU64",
         "f32": "NF32", "f64": "NF64", "b": "NBool"}
NAMED_DECLS = "".join("type %s %s\n\n" % (NAMED[p], GO[p]) for p in PRIMS if p in NAMED)


class NamedGen(TopGen):
    """types whose scalar fields, pointer targets, slice elements and map values are defined types
    (`type NStr string`, `type NI8 int8` ...). The Ty term is the same as for the underlying kind:
    binding converts by reflect.Kind; what can go wrong is the *type* of the value that is stored."""

    def gen_leaf(self):
        r = self.r
        p = r.pick(PRIM_W)
        g = NAMED.get(p, GO[p]) if r.chance(5, 6) else GO[p]
        k = r.n(100)
        if k < 34:
            return g, "P " + p, p, "prim"
        if k < 48:
            return "*" + g, "R P " + p, p, "ptr"
        if k < 66:
            return "[]" + g, "L P " + p, p, "slice"
        if k < 92:
            return "map[string]" + g, "M P " + p, p, "map"
        if k < 96:
            return "*[]" + g, "R L P " + p, p, "ptrslice"
        return "*map[string]" + g, "R M P " + p, p, "ptrmap"


# leaf types with their own text form (convert.go: url.URL, net.IP, net.IPNet, regexp.Regexp are parsed by the
# standard library; OLevel / OColor implement encoding.TextUnmarshaler, see opaque.go). Prim codes o<k>.
OPQ = {"o0": "url.URL", "o1": "net.IP", "o2": "net.IPNet", "o3": "regexp.Regexp", "o4": "OLevel", "o5": "OColor"}
OPQ_W = ["o0", "o0", "o1", "o1", "o1", "o2", "o3", "o4", "o4", "o4", "o5", "o5", "t", "t", "d", "d", "s", "i8", "u16", "b"]
OPQ_DFLT = {"o0": ["http://example.com/a?b=c", "/rel/path", "mailto:x@y.z", "http://[::1", "%zz", "x"],
            "o1": ["10.0.0.1", "::1", "2001:db8::68", "256.1.1.1", "1.2.3", "127.0.0.1"],
            "o2": ["10.0.0.0/8", "192.168.1.7/24", "::1/128", "10.0.0.1", "10.0.0.0/33", "fe80::/10"],
            "o3": ["^a+$", "[0-9]+", "x", "(", "a{2,1}", "\\d+"],
            "o4": ["info", "WARN", "debug", "3", "verbose", "error"],
            "o5": ["#fff", "red", "#A0b1C2", "#ggg", "blueish", "#12345"]}


class OpqGen(TopGen):
    """types with url.URL, net.IP, net.IPNet, regexp.Regexp and TextUnmarshaler leaves (also behind
    pointers, in slices and as map values), mixed with time, duration and a few plain kinds"""

    def gen_leaf(self):
        r = self.r
        p = r.pick(OPQ_W)
        g = OPQ.get(p) or GO[p]
        k = r.n(100)
        if k < 44:
            return g, "P " + p, p, "prim"
        if k < 62:
            return "*" + g, "R P " + p, p, "ptr"
        if k < 80:
            return "[]" + g, "L P " + p, p, "slice"
        if k < 94:
            return "map[string]" + g, "M P " + p, p, "map"
        if k < 97:
            return "*[]" + g, "R L P " + p, p, "ptrslice"
        return "*map[string]" + g, "R M P " + p, p, "ptrmap"


BODY_PRIMS = ["i8", "i8", "i16", "i32", "i64", "i0", "u8", "u8", "u16", "u0", "f32", "f64", "b", "s", "s", "s", "t", "d"]
PARAM_TAGS = ["query", "path", "header", "cookie"]


class BodyGen(TopGen):
    """body-shaped types: fields the request body fills (`json:"b3" xml:"b3"`, no source tag) next to fields
    that one of query / path / header / cookie fills (`json:"-" xml:"-"`, most with a default). The Ty term
    does not mention json / xml tags: decoding a body is the standard library's business (shipped per case)."""

    def body_leaf(self):
        r = self.r
        p = r.pick(BODY_PRIMS)
        k = r.n(100)
        if k < 56:
            return GO[p], "P " + p
        if k < 72:
            return "*" + GO[p], "R P " + p
        if k < 88:
            return "[]" + GO[p], "L P " + p
        return "map[string]" + GO[p], "M P " + p

    def raw_field(self, name, gotype, tagtext):
        return "\t%s %s `%s`" % (name, gotype, tagtext) if name else "\t%s `%s`" % (gotype, tagtext) if tagtext else "\t%s" % gotype

    def gen_struct(self, depth):
        r = self.r
        lines, terms = [], []
        nf = r.rng(3, 7) if depth == 0 else r.rng(1, 3)
        for j in range(nf):
            i = self.new_field_id()
            k = r.n(100)
            if depth < 2 and k < 16:
                self.sid += 1
                mysid = self.sid
                sl, st = self.gen_struct(depth + 1)
                tname = "T%dS%d" % (self.k, mysid)
                self.decls.append("type %s struct {\n%s\n}\n" % (tname, "\n".join(sl)))
                isptr = r.chance(2, 5)
                gotype = ("*" if isptr else "") + tname
                ty = ("R " if isptr else "") + st
                if k < 6:
                    lines.append("\t%s" % gotype)                       # embedded: json promotes its fields
                    terms.append(self.field_term(tname, True, True, {}, "", ty))
                else:
                    name = "N%d" % i
                    lines.append(self.raw_field(name, gotype, 'json:"n%d" xml:"n%d"' % (i, i)))
                    terms.append(self.field_term(name, True, False, {}, "", ty))
                continue
            if depth == 0 and (k < 46 or j == 0):
                # a parameter field
                p = r.pick(PRIM_W)
                kk = r.n(100)
                if kk < 70:
                    gotype, ty, kind = GO[p], "P " + p, "prim"
                elif kk < 85:
                    gotype, ty, kind = "*" + GO[p], "R P " + p, "ptr"
                else:
                    gotype, ty, kind = "[]" + GO[p], "L P " + p, "slice"
                t = r.pick(PARAM_TAGS)
                tv = {t: self.key_style(i)}
                dflt = ""
                if kind in ("prim", "ptr") and r.chance(2, 3):
                    dflt = ReqGen.nonzero_default(self, p)
                name = "F%d" % i
                tagtext = '%s:"%s" json:"-" xml:"-"' % (t, tv[t]) + (' default:"%s"' % dflt if dflt else "")
                lines.append(self.raw_field(name, gotype, tagtext))
                terms.append(self.field_term(name, True, False, tv, dflt, ty))
                continue
            gotype, ty = self.body_leaf()
            name = "B%d" % i
            opt = ",omitempty" if r.chance(1, 5) else ""
            xmlt = 'xml:"b%d"' % i if not gotype.startswith("map") else 'xml:"-"'
            lines.append(self.raw_field(name, gotype, 'json:"b%d%s" %s' % (i, opt, xmlt)))
            terms.append(self.field_term(name, True, False, {}, "", ty))
        return lines, "T %d %s" % (len(terms), " ".join(terms))


class UploadGen(TopGen):
    """upload-shaped types: `*binding.File` / `[]*binding.File` fields (`form:"doc"`) at the top level, in embedded
    value structs and inside nested structs (by value and by pointer), next to ordinary value fields. Sources
    that carry no files (everything but a multipart form) leave file fields alone: the Ty term presents them
    as fields the bind does not see (exported = 0), so they must come out exactly as they went in."""

    def gen_struct(self, depth, embedded=False):
        r = self.r
        lines, terms = [], []
        nf = r.rng(2, 5) if depth == 0 else r.rng(1, 3)
        have_file = False
        for j in range(nf + 1):
            i = self.new_field_id()
            k = r.n(100)
            if j == 0:
                # a value field with all tags: the struct always answers to every source
                p = r.pick(PRIM_W)
                tv = {t: self.key_style(i) for t in TAGS}
                name = "F%d" % i
                dflt = ReqGen.nonzero_default(self, p) if r.chance(1, 3) else ""
                lines.append(self.field_src(name, GO[p], tv, dflt))
                terms.append(self.field_term(name, True, False, tv, dflt, "P " + p))
                continue
            if depth < 2 and k < 30:
                self.sid += 1
                mysid = self.sid
                embed = k < 8
                sl, st = self.gen_struct(depth + 1, embed)
                tname = "T%dS%d" % (self.k, mysid)
                self.decls.append("type %s struct {\n%s\n}\n" % (tname, "\n".join(sl)))
                isptr = (not embed) and r.chance(1, 2)        # never an embedded pointer around a file field
                gotype = ("*" if isptr else "") + tname
                ty = ("R " if isptr else "") + st
                if embed:
                    lines.append(self.field_src("", gotype, {}, ""))
                    terms.append(self.field_term(tname, True, True, {}, "", ty))
                else:
                    tv = {t: self.key_style(i) for t in TAGS}
                    name = "N%d" % i
                    lines.append(self.field_src(name, gotype, tv, ""))
                    terms.append(self.field_term(name, True, False, tv, "", ty))
                continue
            if k < 65 or (j == nf and not have_file):
                have_file = True
                many = r.chance(1, 3)
                gotype = "[]*binding.File" if many else "*binding.File"
                tv = {"form": self.key_style(i)}
                name = "U%d" % i
                lines.append(self.field_src(name, gotype, tv, ""))
                terms.append(self.field_term(name, False, False, tv, "", "P s"))
                continue
            gotype, ty, p, kind = self.gen_leaf()
            name = "F%d" % i
            tv = self.tags_for(i, True, kind in ("prim", "ptr", "slice"))
            lines.append(self.field_src(name, gotype, tv, ""))
            terms.append(self.field_term(name, True, False, tv, "", ty))
        return lines, "T %d %s" % (len(terms), " ".join(terms))


def body_closures(k):
    return ("\t\tJSON: func(b []byte, o ...binding.Option) (any, error) { return binding.JSON[T%d](b, o...) },\n"
            "\t\tJSONReader: func(r io.Reader, o ...binding.Option) (any, error) { return binding.JSONReader[T%d](r, o...) },\n"
            "\t\tXML: func(b []byte, o ...binding.Option) (any, error) { return binding.XML[T%d](b, o...) },\n"
            "\t\tXMLReader: func(r io.Reader, o ...binding.Option) (any, error) { return binding.XMLReader[T%d](r, o...) },\n"
            "\t\tJSONWith: func(b *binding.Binder, d []byte) (any, error) { return binding.JSONWith[T%d](b, d) },\n"
            "\t\tJSONReaderWith: func(b *binding.Binder, r io.Reader) (any, error) { return binding.JSONReaderWith[T%d](b, r) },\n"
            "\t\tXMLWith: func(b *binding.Binder, d []byte) (any, error) { return binding.XMLWith[T%d](b, d) },\n"
            "\t\tXMLReaderWith: func(b *binding.Binder, r io.Reader) (any, error) { return binding.XMLReaderWith[T%d](b, r) },\n"
            % ((k,) * 8))


def main():
    n = int(sys.argv[1]) if len(sys.argv) > 1 else 400
    nreq = int(sys.argv[2]) if len(sys.argv) > 2 else 80
    nnamed = int(sys.argv[3]) if len(sys.argv) > 3 else 60
    nopq = int(sys.argv[4]) if len(sys.argv) > 4 else 60
    nbody = int(sys.argv[5]) if len(sys.argv) > 5 else 40
    nup = int(sys.argv[6]) if len(sys.argv) > 6 else 20
    r = Rng(20260926)
    out = []
    out.append("// Code generated by gen_types.py %d %d %d %d %d %d; DO NOT EDIT.\n" % (n, nreq, nnamed, nopq, nbody, nup))
    out.append("package main\n")
    out.append('import (\n\t"io"\n\t"net"\n\t"net/http"\n\t"net/url"\n\t"regexp"\n\t"time"\n\n\t"rivaas.dev/binding"\n)\n')
    out.append("var _ = time.Second\n")
    entries = []
    for k in range(n):
        g = TopGen(r, k)
        chain = 0
        c = r.n(10)
        if c < 4:
            chain = r.rng(1, 5)            # embedding chain of that length
        lines, term = g.gen_struct(0, chain)
        out.extend(g.decls)
        out.append("type T%d struct {\n%s\n}\n" % (k, "\n".join(lines)))
        entries.append((k, term))
    # request-shaped types, from their own stream (the first n types never change)
    r2 = Rng(20260927)
    for k in range(n, n + nreq):
        g = ReqGen(r2, k)
        lines, term = g.gen_struct(0)
        out.extend(g.decls)
        out.append("type T%d struct {\n%s\n}\n" % (k, "\n".join(lines)))
        entries.append((k, term))
    # types over defined scalar types, third stream
    out.append(NAMED_DECLS)
    r3 = Rng(20260928)
    for k in range(n + nreq, n + nreq + nnamed):
        g = NamedGen(r3, k)
        lines, term = g.gen_struct(0, r3.rng(1, 3) if r3.chance(1, 3) else 0)
        out.extend(g.decls)
        out.append("type T%d struct {\n%s\n}\n" % (k, "\n".join(lines)))
        entries.append((k, term))
    # types with opaque leaf kinds, fourth stream
    r4 = Rng(20260929)
    base = n + nreq + nnamed
    for k in range(base, base + nopq):
        g = OpqGen(r4, k)
        lines, term = g.gen_struct(0, r4.rng(1, 3) if r4.chance(1, 4) else 0)
        out.extend(g.decls)
        out.append("type T%d struct {\n%s\n}\n" % (k, "\n".join(lines)))
        entries.append((k, term))
    out.append("var _ = net.IP(nil)\nvar _ *regexp.Regexp\n")
    # body-shaped types, fifth stream
    r5 = Rng(20260930)
    bbase = base + nopq
    for k in range(bbase, bbase + nbody):
        g = BodyGen(r5, k)
        lines, term = g.gen_struct(0)
        out.extend(g.decls)
        out.append("type T%d struct {\n%s\n}\n" % (k, "\n".join(lines)))
        entries.append((k, term))
    # upload-shaped types, sixth stream
    r6 = Rng(20261001)
    ubase = bbase + nbody
    for k in range(ubase, ubase + nup):
        g = UploadGen(r6, k)
        lines, term = g.gen_struct(0)
        out.extend(g.decls)
        out.append("type T%d struct {\n%s\n}\n" % (k, "\n".join(lines)))
        entries.append((k, term))
    out.append("var corpus = []typeEntry{")
    for k, term in entries:
        out.append("\t{Name: \"T%d\", New: func() any { return new(T%d) },\n"
                   "\t\tQuery: func(v url.Values, o ...binding.Option) (any, error) { return binding.Query[T%d](v, o...) },\n"
                   "\t\tPath: func(v map[string]string, o ...binding.Option) (any, error) { return binding.Path[T%d](v, o...) },\n"
                   "\t\tForm: func(v url.Values, o ...binding.Option) (any, error) { return binding.Form[T%d](v, o...) },\n"
                   "\t\tHeader: func(v http.Header, o ...binding.Option) (any, error) { return binding.Header[T%d](v, o...) },\n"
                   "\t\tCookie: func(v []*http.Cookie, o ...binding.Option) (any, error) { return binding.Cookie[T%d](v, o...) },\n"
                   "\t\tBind: func(o ...binding.Option) (any, error) { return binding.Bind[T%d](o...) },\n"
                   "\t\tQueryWith: func(b *binding.Binder, v url.Values) (any, error) { return binding.QueryWith[T%d](b, v) },\n"
                   "\t\tPathWith: func(b *binding.Binder, v map[string]string) (any, error) { return binding.PathWith[T%d](b, v) },\n"
                   "\t\tFormWith: func(b *binding.Binder, v url.Values) (any, error) { return binding.FormWith[T%d](b, v) },\n"
                   "\t\tHeaderWith: func(b *binding.Binder, v http.Header) (any, error) { return binding.HeaderWith[T%d](b, v) },\n"
                   "\t\tCookieWith: func(b *binding.Binder, v []*http.Cookie) (any, error) { return binding.CookieWith[T%d](b, v) },\n"
                   "\t\tBindWith: func(b *binding.Binder, o ...binding.Option) (any, error) { return binding.BindWith[T%d](b, o...) },\n"
                   "%s"
                   "\t\tTy: %s},"
                   % ((k,) * 14 + (body_closures(k) if bbase <= k < ubase else "", '"' + term + '"',)))
    out.append("}\n")
    sys.stdout.write("\n".join(out))


if __name__ == "__main__":
    main()
