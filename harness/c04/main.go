// Harness for C04 (request binding is faithful, total and bounded).
//
// The destination types come from the generated corpus (types_gen.go, see gen_types.py); values,
// sources, options and pre-filled destinations are generated at run time from one PRNG. The real
// code is driven through the public API only: binding.Query/Path/Form/Header/Cookie[T] (generic) and
// binding.QueryTo/PathTo/FormTo/HeaderTo/CookieTo (into a possibly pre-filled destination).
//
// Everything the model treats as a parameter is evaluated here for real and shipped in the case
// line: strconv.ParseInt/ParseUint (base 10 and 0), strconv.ParseFloat (bits, float32 bits,
// overflow), the time layouts, time.ParseDuration, encoding/json into map[string]any + fmt.Sprint,
// url.QueryUnescape of cookie values, reflect's view of the struct type (the `Ty` term).
package main

import (
	"encoding/json"
	"errors"
	"fmt"
	"io"
	"log"
	"math"
	"net/http"
	"net/http/httptest"
	"net/url"
	"reflect"
	"sort"
	"strconv"
	"strings"
	"sync"
	"time"
	"unsafe"

	"rivaas.dev/app"
	"rivaas.dev/binding"
	"verif/harness/hx"
)

type typeEntry struct {
	Name   string
	New    func() any
	Query  func(url.Values, ...binding.Option) (any, error)
	Path   func(map[string]string, ...binding.Option) (any, error)
	Form   func(url.Values, ...binding.Option) (any, error)
	Header func(http.Header, ...binding.Option) (any, error)
	Cookie func([]*http.Cookie, ...binding.Option) (any, error)
	Bind   func(...binding.Option) (any, error)
	// the same through a reusable Binder object
	QueryWith  func(*binding.Binder, url.Values) (any, error)
	PathWith   func(*binding.Binder, map[string]string) (any, error)
	FormWith   func(*binding.Binder, url.Values) (any, error)
	HeaderWith func(*binding.Binder, http.Header) (any, error)
	CookieWith func(*binding.Binder, []*http.Cookie) (any, error)
	BindWith   func(*binding.Binder, ...binding.Option) (any, error)
	// body entry points (body-shaped types only)
	JSON           func([]byte, ...binding.Option) (any, error)
	JSONReader     func(io.Reader, ...binding.Option) (any, error)
	XML            func([]byte, ...binding.Option) (any, error)
	XMLReader      func(io.Reader, ...binding.Option) (any, error)
	JSONWith       func(*binding.Binder, []byte) (any, error)
	JSONReaderWith func(*binding.Binder, io.Reader) (any, error)
	XMLWith        func(*binding.Binder, []byte) (any, error)
	XMLReaderWith  func(*binding.Binder, io.Reader) (any, error)
	Ty             string
}

var tagNames = []string{"query", "path", "form", "header", "cookie"}

// ---------------------------------------------------------------- the Ty term, from reflect

type tyNode struct {
	K      byte // 'P' prim, 'R' pointer, 'L' slice, 'M' map[string]·, 'T' struct
	Prim   string
	Elem   *tyNode
	Fields []fieldNode
}

type fieldNode struct {
	Name           string
	Exported, Anon bool
	Tags           [5]string
	Dflt           string
	Ty             *tyNode
}

var (
	timeT      = reflect.TypeFor[time.Time]()
	durT       = reflect.TypeFor[time.Duration]()
	fileT      = reflect.TypeFor[*binding.File]()
	fileSliceT = reflect.TypeFor[[]*binding.File]()
)

// file fields (*binding.File, []*binding.File) are filled from multipart forms only; every source of this harness
// leaves them alone. The Ty term presents them as fields the bind does not see (exported = 0, a string leaf that
// renders "" for nil), so the oracle's frame rule applies: exactly as before the bind.
func isFileT(t reflect.Type) bool { return t == fileT || t == fileSliceT }

func describe(t reflect.Type) *tyNode {
	switch {
	case isFileT(t):
		return &tyNode{K: 'P', Prim: "s"}
	case t == timeT:
		return &tyNode{K: 'P', Prim: "t"}
	case t == durT:
		return &tyNode{K: 'P', Prim: "d"}
	case opqKind(t) >= 0:
		return &tyNode{K: 'P', Prim: "o" + strconv.Itoa(opqKind(t))}
	}
	switch t.Kind() {
	case reflect.Int:
		return &tyNode{K: 'P', Prim: "i0"}
	case reflect.Int8, reflect.Int16, reflect.Int32, reflect.Int64:
		return &tyNode{K: 'P', Prim: "i" + strconv.Itoa(t.Bits())}
	case reflect.Uint:
		return &tyNode{K: 'P', Prim: "u0"}
	case reflect.Uint8, reflect.Uint16, reflect.Uint32, reflect.Uint64:
		return &tyNode{K: 'P', Prim: "u" + strconv.Itoa(t.Bits())}
	case reflect.Float32:
		return &tyNode{K: 'P', Prim: "f32"}
	case reflect.Float64:
		return &tyNode{K: 'P', Prim: "f64"}
	case reflect.Bool:
		return &tyNode{K: 'P', Prim: "b"}
	case reflect.String:
		return &tyNode{K: 'P', Prim: "s"}
	case reflect.Pointer:
		return &tyNode{K: 'R', Elem: describe(t.Elem())}
	case reflect.Slice:
		return &tyNode{K: 'L', Elem: describe(t.Elem())}
	case reflect.Map:
		if t.Key().Kind() != reflect.String {
			panic("corpus: map key must be string")
		}
		return &tyNode{K: 'M', Elem: describe(t.Elem())}
	case reflect.Struct:
		n := &tyNode{K: 'T'}
		for i := 0; i < t.NumField(); i++ {
			f := t.Field(i)
			fn := fieldNode{Name: f.Name, Exported: f.IsExported() && !isFileT(f.Type), Anon: f.Anonymous, Dflt: f.Tag.Get("default"), Ty: describe(f.Type)}
			for k, tg := range tagNames {
				fn.Tags[k] = f.Tag.Get(tg)
			}
			n.Fields = append(n.Fields, fn)
		}
		return n
	}
	panic("corpus: type outside the grammar: " + t.String())
}

func (n *tyNode) tokens(l *hx.Line) {
	switch n.K {
	case 'P':
		l.Tok("P").Tok(n.Prim)
	case 'R', 'L', 'M':
		l.Tok(string(n.K))
		n.Elem.tokens(l)
	case 'T':
		l.Tok("T").Nat(len(n.Fields))
		for _, f := range n.Fields {
			l.Str(f.Name).Bool(f.Exported).Bool(f.Anon)
			for _, t := range f.Tags {
				l.Str(t)
			}
			l.Str(f.Dflt)
			f.Ty.tokens(l)
		}
	}
}

func (n *tyNode) structFields() []fieldNode {
	if n.K == 'T' {
		return n.Fields
	}
	if n.K == 'R' && n.Elem.K == 'T' {
		return n.Elem.Fields
	}
	return nil
}

// ---------------------------------------------------------------- leaves (what the generator aims at)

type leaf struct {
	Path   string   // Go selector path (field names), identifies the field across tags
	Keys   []string // full keys: primary, aliases
	Ty     *tyNode
	Kind   string // prim ptr slice map ptrslice ptrmap
	Prim   string
	Dflt   string
	Nested bool
	Depth  int
}

type structKey struct {
	Key   string // full key of a nested struct field
	Depth int
	Name  string // Go field name
	Top   bool   // a field of the top-level struct itself
}

type shape struct {
	Leaves     []leaf
	Structs    []structKey
	EmbedDepth int
	HasPSM     bool // a pointer / slice / map field
	NestDepth  int
}

func splitTag(tv, name string, isForm bool) (string, []string, bool) {
	if tv == "" && !isForm {
		return "", nil, false
	}
	if isForm && tv == "-" {
		return "", nil, false
	}
	parts := strings.Split(tv, ",")
	primary := strings.TrimSpace(parts[0])
	var al []string
	for _, p := range parts[1:] {
		p = strings.TrimSpace(p)
		if p == "" || (isForm && p == "omitempty") {
			continue
		}
		al = append(al, p)
	}
	if primary == "" && isForm {
		primary = name
	}
	return primary, al, true
}

func walkShape(sh *shape, fs []fieldNode, tag int, pre string, nested bool, depth, embed int, sel string) {
	if embed > sh.EmbedDepth {
		sh.EmbedDepth = embed
	}
	if depth > sh.NestDepth {
		sh.NestDepth = depth
	}
	for _, f := range fs {
		if !f.Exported {
			continue
		}
		if sub := f.Ty.structFields(); sub != nil {
			if f.Ty.K == 'R' {
				sh.HasPSM = true
			}
			if f.Anon {
				walkShape(sh, sub, tag, pre, nested, depth, embed+1, sel+"."+f.Name)
				continue
			}
			p, _, ok := splitTag(f.Tags[tag], f.Name, tag == 2)
			if !ok {
				continue
			}
			sh.Structs = append(sh.Structs, structKey{pre + p, depth + 1, f.Name, depth == 0 && embed == 0})
			walkShape(sh, sub, tag, pre+p+".", true, depth+1, embed, sel+"."+f.Name)
			continue
		}
		p, al, ok := splitTag(f.Tags[tag], f.Name, tag == 2)
		if !ok {
			continue
		}
		lf := leaf{Path: sel + "." + f.Name, Ty: f.Ty, Dflt: f.Dflt, Nested: nested, Depth: depth}
		for _, k := range append([]string{p}, al...) {
			lf.Keys = append(lf.Keys, pre+k)
		}
		t := f.Ty
		switch {
		case t.K == 'P':
			lf.Kind, lf.Prim = "prim", t.Prim
		case t.K == 'R' && t.Elem.K == 'P':
			lf.Kind, lf.Prim = "ptr", t.Elem.Prim
		case t.K == 'L':
			lf.Kind, lf.Prim = "slice", t.Elem.Prim
		case t.K == 'M':
			lf.Kind, lf.Prim = "map", t.Elem.Prim
		case t.K == 'R' && t.Elem.K == 'L':
			lf.Kind, lf.Prim = "ptrslice", t.Elem.Elem.Prim
		case t.K == 'R' && t.Elem.K == 'M':
			lf.Kind, lf.Prim = "ptrmap", t.Elem.Elem.Prim
		default:
			panic("corpus: leaf outside the grammar")
		}
		if lf.Kind != "prim" {
			sh.HasPSM = true
		}
		sh.Leaves = append(sh.Leaves, lf)
	}
}

// ---------------------------------------------------------------- corpus bookkeeping

type corpusType struct {
	E       *typeEntry
	Node    *tyNode
	Shapes  [5]*shape
	Dflts   []string
	Opq     []int // opaque leaf kinds that occur in the type
	HasTime bool
}

var types []*corpusType
var reqTypes []*corpusType    // the request-shaped part of the corpus (gen_types.py ReqGen)
var namedTypes []*corpusType  // the types over defined scalar types (gen_types.py NamedGen)
var timeTypes []*corpusType   // types with a time.Time leaf
var opqCorpus []*corpusType   // the types with opaque leaf kinds (gen_types.py OpqGen)
var uploadTypes []*corpusType // the types with file fields (gen_types.py UploadGen)
var typeByName = map[string]*corpusType{}

func collectOpq(n *tyNode, out *[]int) {
	switch n.K {
	case 'P':
		if n.Prim[0] == 'o' {
			k := int(n.Prim[1] - '0')
			for _, x := range *out {
				if x == k {
					return
				}
			}
			*out = append(*out, k)
			sort.Ints(*out)
		}
	case 'R', 'L', 'M':
		collectOpq(n.Elem, out)
	case 'T':
		for _, f := range n.Fields {
			collectOpq(f.Ty, out)
		}
	}
}

func collectDefaults(n *tyNode, out *[]string) {
	switch n.K {
	case 'R', 'L', 'M':
		collectDefaults(n.Elem, out)
	case 'T':
		for _, f := range n.Fields {
			if f.Dflt != "" {
				*out = append(*out, f.Dflt)
			}
			collectDefaults(f.Ty, out)
		}
	}
}

func loadCorpus() {
	for i := range corpus {
		e := &corpus[i]
		rt := reflect.TypeOf(e.New()).Elem()
		node := describe(rt)
		l := hx.NewLine("")
		node.tokens(l)
		got := strings.TrimSpace(l.String())
		if got != e.Ty {
			panic(fmt.Sprintf("corpus self-check: %s: generator term and reflect term differ\n gen: %s\n got: %s", e.Name, e.Ty, got))
		}
		ct := &corpusType{E: e, Node: node}
		for tag := 0; tag < 5; tag++ {
			sh := &shape{}
			walkShape(sh, node.Fields, tag, "", false, 0, 0, "")
			ct.Shapes[tag] = sh
		}
		collectDefaults(node, &ct.Dflts)
		collectOpq(node, &ct.Opq)
		types = append(types, ct)
		for _, lf := range ct.Shapes[0].Leaves {
			if lf.Prim == "t" {
				timeTypes = append(timeTypes, ct)
				ct.HasTime = true
				break
			}
		}
		switch {
		case i >= 640:
			uploadTypes = append(uploadTypes, ct)
		case i >= 600:
			bodyTypes = append(bodyTypes, ct)
		case i >= 540:
			opqCorpus = append(opqCorpus, ct)
		case i >= 480:
			namedTypes = append(namedTypes, ct)
		case i >= 400:
			reqTypes = append(reqTypes, ct)
		}
		typeByName[e.Name] = ct
	}
}

// ---------------------------------------------------------------- the concrete case

type optsT struct {
	MaxDepth, MaxSlice, MaxMap int // -1 = leave the default
	CSV, BaseAuto              bool
	Layouts                    []string // WithTimeLayouts (nil = leave the default)
}

// over returns o with the settings of the per-call options c applied on top (later options win).
func (o optsT) over(c *optsT) optsT {
	if c == nil {
		return o
	}
	if c.MaxDepth >= 0 {
		o.MaxDepth = c.MaxDepth
	}
	if c.MaxSlice >= 0 {
		o.MaxSlice = c.MaxSlice
	}
	if c.MaxMap >= 0 {
		o.MaxMap = c.MaxMap
	}
	if c.CSV {
		o.CSV = true
	}
	if c.BaseAuto {
		o.BaseAuto = true
	}
	if c.Layouts != nil {
		o.Layouts = c.Layouts
	}
	return o
}

type caseT struct {
	T             string // type name
	Tag           int    // 0 query 1 path 2 form 3 header 4 cookie
	Entry         string // G generic, T …To
	Opts          optsT
	Prefill       uint64      // 0 = zero destination; otherwise the seed of the pre-fill walk (entry T only)
	Src           [][2]string // key/value pairs in insertion order (cookie: raw cookie value)
	Srcs          []srcCase   // entry B: the sources of a Bind / BindTo call, in order
	Gen           bool        // entry B: the generic Bind[T] instead of BindTo
	Via           string      // entry A: only (BindOnly), bind (Bind), must (MustBind)
	Binder        bool        // through a reusable Binder built with Opts (QueryWith/…To methods/BindWith/Binder.BindTo)
	Call          *optsT      // entries B through a Binder: per-call options on top of the Binder's
	Warm          [][2]string // an earlier, different request bound the same way (same type, entry point, options) whose
	WarmS         []srcCase   // result is then written through (pointers, slices, maps): binds must not share state
	HasWarm       bool
	Post          bool      `json:",omitempty"` // the earlier request's content is bound once more - after the observed bind, by the same goroutine, before the observed result is rendered
	Twice         bool      `json:",omitempty"` // the very same source object (the same []*http.Cookie, url.Values, …) was bound once before, into a scratch value
	Warmup        int       `json:",omitempty"` // before the first bind of the type in this process: 1 WarmupCache, 2 MustWarmupCache
	WarmNorm      int       `json:",omitempty"` // the earlier request was bound with WithKeyNormalizer (1 LowerCase, 2 CanonicalMIME) - an option the package stores and never reads
	Norm          int       `json:",omitempty"` // (set on the copy of the case that runs the earlier request)
	Tmpl          bool      `json:",omitempty"` // the earlier request was bound into a copy of the same pre-filled template: its slices share their backing arrays with the observed destination (p := defaults; QueryTo(q, &p))
	NT            bool      // carries a boundary / out-of-range / malformed value (for the non-triviality rule)
	Convs         []int     `json:",omitempty"` // converters registered with the options of the call / of the Binder (convs.go)
	CallConvs     []int     `json:",omitempty"` // entry B through a Binder: converters registered per call
	WarmCallConvs []int     `json:",omitempty"` // the per-call converters of the earlier request
	HasWarmCall   bool      `json:",omitempty"`
	NJKey         string    `json:",omitempty"` // a nested struct field given as one JSON value under this key …
	NJName        string    `json:",omitempty"` // … the Go name of that field
	EvB           int       `json:",omitempty"` // event hooks registered with the options of the call / of the Binder (bit 0 FieldBound, 1 UnknownField, 2 Done)
	HasEvC        bool      `json:",omitempty"` // entry B through a Binder: a per-call WithEvents …
	EvC           int       `json:",omitempty"` // … with these hooks
	AllErrors     bool      `json:",omitempty"` // WithAllErrors (with the options of the call / of the Binder)
	Soak          int       `json:",omitempty"` // a long-lived Binder: this many slice elements are bound through it (same type, same method) before the observed bind
	Noise         bool      `json:",omitempty"` // with Conc: other goroutines bind the earlier request (Warm / WarmS) all the while
	Conc          int       `json:",omitempty"` // > 1: the bind is made from this many goroutines at once (first binds of a type)
	Body          *bodyCase `json:",omitempty"` // entry J (body.go)
	HTTP          *httpCase `json:",omitempty"` // entry H (body.go)
}

type srcCase struct {
	Tag int
	KV  [][2]string
}

// ---------------------------------------------------------------- value generation

var intRange = map[string][2]string{
	"i8": {"-128", "127"}, "i16": {"-32768", "32767"}, "i32": {"-2147483648", "2147483647"},
	"i64": {"-9223372036854775808", "9223372036854775807"}, "i0": {"-9223372036854775808", "9223372036854775807"},
	"u8": {"0", "255"}, "u16": {"0", "65535"}, "u32": {"0", "4294967295"},
	"u64": {"0", "18446744073709551615"}, "u0": {"0", "18446744073709551615"},
}

func addOne(s string, d int64) string {
	// decimal string ± 1 without overflow (math/big avoided: values are at most 20 digits)
	neg := strings.HasPrefix(s, "-")
	var u uint64
	u, _ = strconv.ParseUint(strings.TrimPrefix(s, "-"), 10, 64)
	if !neg {
		if d > 0 {
			if u == math.MaxUint64 {
				return "18446744073709551616"
			}
			return strconv.FormatUint(u+1, 10)
		}
		if u == 0 {
			return "-1"
		}
		return strconv.FormatUint(u-1, 10)
	}
	if d > 0 {
		return "-" + strconv.FormatUint(u-1, 10)
	}
	return "-" + strconv.FormatUint(u+1, 10)
}

var timePool = []string{"2024-01-15T10:30:00Z", "2024-01-15", "2024-01-15 10:30:00", "2001-02-03T04:05:06+02:00",
	"2024-01-15T10:30:00.123456789Z", "2024-01-15T10:30:00", "Mon, 02 Jan 2006 15:04:05 -0700", "02 Jan 06 15:04 -0700",
	" 2024-02-29 ", "1999-12-31T23:59:59-11:00", "0001-01-01T00:00:00Z", "9999-12-31T23:59:59Z"}
var timeBad = []string{"yesterday", "2024-13-01", "2023-02-29", "10:30", "2024-01-15T25:00:00Z", "", "  ", "2024/01/15", "1705314600"}
var durPool = []string{"1h", "90s", "1h30m", "500ms", "-2m", "0", "1.5h", "2562047h47m16.854775807s", "1ns", "+3s"}
var durBad = []string{"5", "1d", "", "h", "2562048h", "1 h", "abc", "--1s"}
var strPool = []string{"x", "hello", "a b", "", "d-1", "7", "q,r", " padded ", "héllo", "{x}", "[1", "a=b&c", "%41", "tab\there", "0x10", "true",
	"%2541", "a%2Bb", "100%2525"}
var boolPool = []string{"true", "false", "1", "0", "yes", "no", "on", "off", "t", "f", "y", "n", "TRUE", "False", " yes ", "On", ""}
var boolBad = []string{"2", "maybe", "tru", "yess", "-1", "0.0", "nil"}
var floatPool = []string{"1.5", "-0", "0", "3", "-2.25", "1e10", "1e38", "3.4028234663852886e38", "-3.4028234663852886e38", "1e-45", "1e-320",
	"4.9e-324", "1.7976931348623157e308", "Inf", "-Inf", "+inf", "NaN", "0x1p-2", "1_0", ".5", "5.", "+1.25", "16777217", "0.1"}
var floatOver32 = []string{"3.4028235e38", "3.4028235677973366e38", "3.5e38", "1e39", "-1e39", "1e300", "-1e308"}
var floatBad = []string{"abc", "", "1e400", "-1e400", "1,5", "1.2.3", " 1", "1 ", "0x", "--1", "1e", "infinit"}
var intOdd = []string{"+5", "007", "-0", "0x10", "0b101", "0o17", "017", "1_000", "0_7", "5.0", "1e3", " 5", "5 ", "", "abc", "12abc", "--1",
	"99999999999999999999", "-99999999999999999999", "0x", "٣"}

// ambiguousLayouts is set while the source of a case with day/month-ambiguous time layouts is generated.
var ambiguousLayouts bool

// longLayouts is set while the source of a case with a long custom layout list is generated.
var longLayouts bool

// genValue returns a value string for a leaf of the given prim. With bad it is out of range or
// malformed for the kind; otherwise representable (typical values and the exact boundaries). The
// second result says whether the value is a boundary, out-of-range or malformed one.
func genValue(r *hx.Rand, prim string, bad bool) (string, bool) {
	if vs, ok := convFriendly[prim]; ok && convHint && r.Chance(1, 2) {
		return hx.Pick(r, vs), true
	}
	k := r.Intn(100)
	switch prim[0] {
	case 'i', 'u':
		rg := intRange[prim]
		if !bad {
			switch {
			case k < 60:
				if prim[0] == 'i' && r.Chance(1, 3) {
					return strconv.Itoa(-r.Intn(100)), false
				}
				return strconv.Itoa(r.Intn(120)), false
			case k < 85:
				return hx.Pick(r, []string{rg[0], rg[1]}), true
			default:
				return hx.Pick(r, []string{"+5", "007", "-0", "0"}), true
			}
		}
		switch {
		case k < 40:
			return hx.Pick(r, []string{addOne(rg[0], -1), addOne(rg[1], 1)}), true
		case k < 65:
			// a value that fits a wider kind but perhaps not this one
			return hx.Pick(r, []string{"128", "-129", "255", "256", "300", "32768", "65536", "-32769", "2147483648", "4294967296", "-1", "1000", "70000", "-200"}), true
		default:
			return hx.Pick(r, intOdd), true
		}
	case 'f':
		if !bad {
			return hx.Pick(r, floatPool), k >= 50
		}
		if k < 50 {
			return hx.Pick(r, floatOver32), true
		}
		return hx.Pick(r, floatBad), true
	case 'b':
		if !bad {
			return hx.Pick(r, boolPool), false
		}
		return hx.Pick(r, boolBad), true
	case 's':
		return hx.Pick(r, strPool), false
	case 't':
		if ambiguousLayouts && r.Chance(7, 10) {
			// day/month layouts configured both ways round: values only one of them accepts, and values both do
			return hx.Pick(r, []string{"25/12/2024", "12/25/2024", "03/04/2024", "13/01/2024", "01/13/2024", "05/06/2024", "31/01/2024"}), true
		}
		if !bad {
			if r.Chance(1, 6) || (longLayouts && r.Chance(2, 3)) {
				return hx.Pick(r, []string{"01/15/2024", "2024.01.15", "Jan 2 2024", "15-01-2024 10:30", "2024/01/15", "10:30 15.01.2024"}), true // only with WithTimeLayouts
			}
			return hx.Pick(r, timePool), false
		}
		return hx.Pick(r, timeBad), true
	case 'd':
		if !bad {
			return hx.Pick(r, durPool), false
		}
		return hx.Pick(r, durBad), true
	case 'o':
		return opqValue(r, int(prim[1]-'0'), bad), bad
	}
	panic("prim " + prim)
}

func genOpts(r *hx.Rand) optsT {
	o := optsT{MaxDepth: -1, MaxSlice: -1, MaxMap: -1}
	if r.Chance(3, 10) {
		o.MaxDepth = r.Range(0, 5)
	}
	if r.Chance(1, 4) {
		o.MaxSlice = r.Range(0, 3)
	}
	if r.Chance(1, 4) {
		o.MaxMap = r.Range(0, 3)
	}
	o.CSV = r.Chance(3, 20)
	o.BaseAuto = r.Chance(3, 20)
	if r.Chance(1, 8) {
		o.Layouts = hx.Pick(r, [][]string{{"01/02/2006"}, {"2006.01.02", "Jan 2 2006"}, {}, {"01/02/2006", "02/01/2006"}, {"02/01/2006", "01/02/2006"},
			{"01/02/2006", "2006.01.02", "Jan 2 2006", "02-01-2006 15:04", "2006/01/02", "15:04 02.01.2006"},
			{time.RFC3339, "2006.01.02", time.DateOnly, "Jan 2 2006", time.DateTime, "01/02/2006", time.Kitchen}})
		o.Layouts = append([]string{}, o.Layouts...)
	}
	return o
}

func genCase(r *hx.Rand) caseT {
	c := genCase1(r)
	if c.Entry == "G" || c.Entry == "T" || c.Entry == "B" {
		if !firstSeen[c.T] {
			// nothing of this type has been bound in this process yet: several goroutines at once, no earlier request
			c.Conc = 4
			c.HasWarm, c.Warm, c.WarmS, c.Tmpl, c.WarmNorm = false, nil, nil, false, 0
			if r.Chance(1, 3) {
				c.Warmup = r.Range(1, 2)
			}
			c.EvB, c.HasEvC, c.EvC = 0, false, 0
		}
	}
	firstSeen[c.T] = true
	if c.Binder && (c.Entry == "G" || c.Entry == "T") && c.Opts.MaxSlice < 0 && !c.Opts.CSV && r.Chance(1, 40) {
		c.Soak = 120000
	}
	if c.Conc == 0 && c.HasWarm && (c.Entry == "G" || c.Entry == "T" || c.Entry == "B") && r.Chance(1, 8) {
		// the bind repeated from several goroutines while others bind the earlier request the same way
		c.Conc, c.Noise, c.Tmpl = 3, true, false
		c.EvB, c.HasEvC, c.EvC = 0, false, 0
	}
	return c
}

func genCase1(r *hx.Rand) caseT {
	if len(bodyTypes) > 0 && r.Chance(1, 6) {
		return genBodyCase(r)
	}
	ct := hx.Pick(r, types)
	if len(namedTypes) > 0 && r.Chance(1, 8) {
		ct = hx.Pick(r, namedTypes)
	}
	if len(opqCorpus) > 0 && r.Chance(1, 8) {
		ct = hx.Pick(r, opqCorpus)
	}
	if len(uploadTypes) > 0 && r.Chance(1, 16) {
		ct = hx.Pick(r, uploadTypes)
	}
	c := caseT{T: ct.E.Name, Tag: r.Intn(5), Opts: genOpts(r)}
	forceWarm := false
	if len(c.Opts.Layouts) >= 5 && len(timeTypes) > 0 {
		// a long application-wide layout list: on a type that has time fields
		ct = hx.Pick(r, timeTypes)
		c.T = ct.E.Name
	}
	if len(c.Opts.Layouts) == 2 && strings.Contains(c.Opts.Layouts[0], "/") && len(timeTypes) > 0 {
		// day/month-ambiguous layouts: on a type that has time fields, after an earlier request
		ct = hx.Pick(r, timeTypes)
		c.T = ct.E.Name
		forceWarm = true
	}
	switch k := r.Intn(20); {
	case k < 8:
		c.Entry = "G"
	case k < 15:
		c.Entry = "T"
	default:
		c.Entry = "B"
	}
	if c.Entry != "G" && r.Chance(7, 10) && (c.Entry == "T" || r.Chance(1, 2)) {
		c.Prefill = r.U64() | 1
	}
	if r.Chance(1, 4) {
		// through a reusable Binder: options at construction time, lowered limits more often than not
		c.Binder = true
		if r.Chance(1, 2) {
			c.Opts.MaxSlice = r.Range(1, 3)
		}
		if r.Chance(1, 3) {
			c.Opts.MaxMap = r.Range(1, 3)
		}
		if r.Chance(1, 4) {
			c.Opts.MaxDepth = r.Range(0, 4)
		}
		if c.Entry == "B" && r.Chance(1, 3) {
			call := genOpts(r) // per-call options on top of the Binder's
			c.Call = &call
		}
	}
	if (ct.HasTime || len(ct.Opq) > 0) && r.Chance(1, 3) {
		// custom converters for leaf types of this type: with the options of the call or of the Binder; per
		// call on top of a Binder's (another converter for the same type, or for another type); the earlier
		// request of a sequence may have registered different ones per call
		c.Convs = convsFor(r, ct)
		if r.Chance(1, 2) {
			// through a Binder's BindTo / BindWith, where per-call options exist
			c.Entry, c.Binder = "B", true
		}
		if c.Binder && c.Entry == "B" {
			if r.Chance(1, 2) {
				c.CallConvs = convsFor(r, ct)
			}
			if r.Chance(1, 3) {
				c.Convs = nil
			}
			if r.Chance(2, 3) {
				c.HasWarmCall = true
				forceWarm = true
				if r.Chance(2, 3) {
					c.WarmCallConvs = convsFor(r, ct)
					if r.Chance(1, 2) {
						c.WarmCallConvs = []int{r.Intn(len(convDefs))} // a converter for a type that may not even occur
					}
				}
			}
		}
	}
	c.AllErrors = r.Chance(1, 6)
	if r.Chance(1, 5) {
		// event hooks: with the options of the call / of the Binder; per call on top of a Binder's (another hook set)
		c.EvB = r.Intn(8)
		if r.Chance(1, 2) && c.Entry != "A" {
			c.Entry, c.Binder = "B", true
		}
		if c.Binder && c.Entry == "B" && r.Chance(2, 3) {
			c.HasEvC, c.EvC = true, r.Intn(8)
		}
	}
	convHint = len(c.Convs)+len(c.CallConvs) > 0
	defer func() { convHint = false }()
	if c.Entry == "B" && r.Chance(1, 4) {
		c.Convs, c.CallConvs, c.WarmCallConvs, c.HasWarmCall = nil, nil, nil, false
		c.AllErrors = false // bindInternal hands no options to these sources
		c.EvB, c.HasEvC, c.EvC = 0, false, 0
		convHint = false
		// app.Context.BindOnly: path, query, header, cookie of one request, in that order
		c.Entry = "A"
		c.Binder, c.Call = false, nil
		c.Via = hx.Pick(r, []string{"only", "bind", "bind", "must"})
		if r.Chance(3, 5) && len(reqTypes) > 0 {
			// request-shaped types: one source per field, defaults that only that source's pass can apply
			ct = hx.Pick(r, reqTypes)
			c.T = ct.E.Name
		}
		c.Opts = optsT{MaxDepth: -1, MaxSlice: -1, MaxMap: -1} // bindInternal passes no options to these sources
		bare := r.Chance(1, 4)                                 // nothing at all: no parameters, no query string, no headers, no Cookie header
		for _, tag := range []int{1, 0, 3, 4} {
			var kv [][2]string
			if !bare && !r.Chance(3, 10) { // each source is empty on its own now and then
				kv = genSrc(r, ct.Shapes[tag], tag, c.Opts, &c.NT, r.Range(2, 7))
			}
			if tag == 1 {
				// path parameters: one non-empty segment each
				seen := map[string]bool{}
				var keep [][2]string
				for _, p := range kv {
					if p[1] == "" || p[1] == "." || p[1] == ".." || strings.ContainsAny(p[1], "/") || strings.ContainsAny(p[0], "/:*{}") || seen[p[0]] {
						continue
					}
					seen[p[0]] = true
					keep = append(keep, p)
				}
				kv = keep
			}
			c.Srcs = append(c.Srcs, srcCase{Tag: tag, KV: kv})
		}
		return c
	}
	if c.Entry == "B" {
		// Bind / BindTo: 1..4 sources in any order (a kind may repeat)
		n := hx.Pick(r, []int{1, 2, 2, 2, 3, 3, 4})
		perm := []int{0, 1, 2, 3, 4}
		hx.Shuffle(r, perm)
		for i := 0; i < n; i++ {
			tag := perm[i%5]
			if r.Chance(1, 12) {
				tag = r.Intn(5)
			}
			c.Srcs = append(c.Srcs, srcCase{Tag: tag, KV: genSrc(r, ct.Shapes[tag], tag, c.Opts, &c.NT, r.Range(2, 7))})
		}
		if r.Chance(1, 60) {
			c.Srcs = nil // ErrNoSourcesProvided
		}
		c.Gen = c.Prefill == 0 && r.Chance(1, 2)
		if forceWarm || r.Chance(3, 5) {
			c.HasWarm = true
			var nt bool
			for _, sc := range c.Srcs {
				c.WarmS = append(c.WarmS, srcCase{Tag: sc.Tag, KV: genSrc(r, ct.Shapes[sc.Tag], sc.Tag, c.Opts.over(c.Call), &nt, r.Range(2, 7))})
			}
			c.Tmpl = c.Prefill != 0 && !c.Gen && r.Chance(1, 2)
			c.Post = r.Chance(1, 3)
			if r.Chance(1, 6) {
				c.WarmNorm = r.Range(1, 2)
			}
		}
		return c
	}
	c.Src = genSrc(r, ct.Shapes[c.Tag], c.Tag, c.Opts, &c.NT, r.Range(3, 9))
	c.Twice = r.Chance(1, 4)
	if (c.Tag == 0 || c.Tag == 2) && r.Chance(1, 3) {
		// one nested struct field of the top level given as a JSON value under its own key
		var tops []structKey
		for _, sk := range ct.Shapes[c.Tag].Structs {
			if sk.Top {
				tops = append(tops, sk)
			}
		}
		if len(tops) > 0 {
			sk := hx.Pick(r, tops)
			ft, _ := reflect.TypeOf(ct.E.New()).Elem().FieldByName(sk.Name)
			st := ft.Type
			if st.Kind() == reflect.Pointer {
				st = st.Elem()
			}
			var keep [][2]string
			for _, p := range c.Src {
				if p[0] != sk.Key {
					keep = append(keep, p)
				}
			}
			c.Src = append(keep, [2]string{sk.Key, nestedJSONDoc(r, st)})
			c.NJKey, c.NJName = sk.Key, sk.Name
		}
	}
	if forceWarm || r.Chance(3, 5) {
		c.HasWarm = true
		var nt bool
		c.Warm = genSrc(r, ct.Shapes[c.Tag], c.Tag, c.Opts, &nt, r.Range(2, 7))
		c.Tmpl = c.Prefill != 0 && c.Entry == "T" && r.Chance(1, 2)
		c.Post = r.Chance(1, 3)
		if r.Chance(1, 6) {
			c.WarmNorm = r.Range(1, 2)
		}
	}
	return c
}

// nestedHasTag: a nested (not embedded) struct type below t carries the tag on one of its fields
func nestedHasTag(t reflect.Type, tag string, depth int) bool {
	if depth > 6 {
		return false
	}
	for i := 0; i < t.NumField(); i++ {
		f := t.Field(i)
		ft := f.Type
		if ft.Kind() == reflect.Pointer {
			ft = ft.Elem()
		}
		if !f.IsExported() || ft.Kind() != reflect.Struct || ft == timeT || opqKind(ft) >= 0 || isFileT(f.Type) {
			continue
		}
		if !f.Anonymous && (hasTagRef(ft, tag) || nestedHasTag(ft, tag, depth+1)) {
			return true
		}
		if f.Anonymous && nestedHasTag(ft, tag, depth+1) {
			return true
		}
	}
	return false
}

// shareSlices makes every slice of dst share the backing array of the corresponding slice of src (two values of
// one type with equal content, as two prefill walks with one seed build them).
func shareSlices(dst, src reflect.Value) {
	if !dst.CanSet() || isFileT(dst.Type()) || opqKind(dst.Type()) >= 0 {
		return
	}
	switch dst.Kind() {
	case reflect.Slice:
		dst.Set(src)
	case reflect.Pointer:
		if !dst.IsNil() && !src.IsNil() && (dst.Elem().Kind() == reflect.Struct || dst.Elem().Kind() == reflect.Slice) {
			shareSlices(dst.Elem(), src.Elem())
		}
	case reflect.Struct:
		if dst.Type() == timeT || opqKind(dst.Type()) >= 0 {
			return
		}
		for i := 0; i < dst.NumField(); i++ {
			shareSlices(dst.Field(i), src.Field(i))
		}
	}
}

// scribble writes through everything a bound value points to: what a handler may do with its request
// struct. A later bind must not see any of it (no state shared through the struct-info cache or the source).
func scribble(v reflect.Value, depth int) {
	if depth > 8 {
		return
	}
	switch v.Kind() {
	case reflect.Pointer:
		if v.IsNil() {
			return
		}
		e := v.Elem()
		if e.CanSet() {
			garbage(e)
		}
		scribble(e, depth+1)
	case reflect.Struct:
		if v.Type() == timeT {
			return
		}
		for i := 0; i < v.NumField(); i++ {
			if v.Type().Field(i).IsExported() {
				scribble(v.Field(i), depth+1)
			}
		}
	case reflect.Slice:
		for i := 0; i < v.Len(); i++ {
			if v.Index(i).CanSet() {
				garbage(v.Index(i))
			}
		}
	case reflect.Map:
		if v.IsNil() {
			return
		}
		for _, k := range v.MapKeys() {
			e := reflect.New(v.Type().Elem()).Elem()
			garbage(e)
			v.SetMapIndex(k, e)
		}
	}
}

func garbage(e reflect.Value) {
	switch e.Kind() {
	case reflect.Int, reflect.Int8, reflect.Int16, reflect.Int32, reflect.Int64:
		e.SetInt(77)
	case reflect.Uint, reflect.Uint8, reflect.Uint16, reflect.Uint32, reflect.Uint64:
		e.SetUint(77)
	case reflect.Float32, reflect.Float64:
		e.SetFloat(77.5)
	case reflect.Bool:
		e.SetBool(!e.Bool())
	case reflect.String:
		e.SetString("scribbled")
	case reflect.Struct:
		if e.Type() == timeT {
			e.Set(reflect.ValueOf(time.Date(1977, 7, 7, 7, 7, 7, 0, time.UTC)))
		}
	}
}

// genSrc builds the content of one source of kind tag, aimed at the leaves the type has under it.
func genSrc(r *hx.Rand, sh *shape, tagKind int, opts optsT, ntFlag *bool, pPresent int) [][2]string {
	ambiguousLayouts = len(opts.Layouts) == 2 && strings.Contains(opts.Layouts[0], "/")
	longLayouts = len(opts.Layouts) >= 5
	defer func() { ambiguousLayouts, longLayouts = false, false }()
	var src [][2]string
	multi := tagKind != 1 // path parameters are single-valued
	qf := tagKind == 0 || tagKind == 2
	add := func(k, v string) { src = append(src, [2]string{k, v}) }
	pBad := hx.Pick(r, []int{0, 0, 0, 3, 3, 10, 10, 25, 50}) // per-leaf chance (percent) of an unrepresentable value
	genValue := func(r *hx.Rand, prim string) (string, bool) { return genValue(r, prim, r.Chance(pBad, 100)) }
	c := struct {
		NT   bool
		Opts optsT
	}{Opts: opts}
	defer func() { *ntFlag = *ntFlag || c.NT }()
	for _, lf := range sh.Leaves {
		if !r.Chance(pPresent, 10) {
			continue
		}
		key := lf.Keys[0]
		if len(lf.Keys) > 1 && r.Chance(1, 2) {
			key = lf.Keys[r.Range(1, len(lf.Keys)-1)]
			if r.Chance(1, 6) {
				// primary and alias both present: the primary wins
				v, nt := genValue(r, lf.Prim)
				add(lf.Keys[0], v)
				c.NT = c.NT || nt
			}
		}
		switch lf.Kind {
		case "prim", "ptr":
			v, nt := genValue(r, lf.Prim)
			c.NT = c.NT || nt
			add(key, v)
			if multi && r.Chance(1, 10) {
				v2, _ := genValue(r, lf.Prim)
				add(key, v2) // repeated: the first value counts
			}
		case "slice", "ptrslice":
			n := r.Range(1, 4)
			if !multi {
				n = 1
			}
			if c.Opts.CSV && r.Chance(2, 3) {
				var parts []string
				for i := 0; i < r.Range(1, 4); i++ {
					v, nt := genValue(r, lf.Prim)
					c.NT = c.NT || nt
					if strings.ContainsAny(v, ",") {
						v = "z"
					}
					if r.Chance(1, 4) {
						v = " " + v + " "
					}
					parts = append(parts, v)
				}
				add(key, strings.Join(parts, ","))
				break
			}
			if qf && r.Chance(1, 5) {
				key += "[]"
			}
			for i := 0; i < n; i++ {
				v, nt := genValue(r, lf.Prim)
				c.NT = c.NT || nt
				add(key, v)
			}
		case "map", "ptrmap":
			full := lf.Keys[0]
			switch m := r.Intn(13); {
			case m < 9:
				n := r.Range(1, 4)
				for i := 0; i < n; i++ {
					v, nt := genValue(r, lf.Prim)
					c.NT = c.NT || nt
					mk := hx.Pick(r, []string{"a", "b", "c", "d", "k1", "x.y", "A", "e-f"}) + strconv.Itoa(i)
					switch r.Intn(5) {
					case 0, 1:
						add(full+"."+mk, v)
					case 2:
						add(full+"["+mk+"]", v)
					case 3:
						add(full+"[\""+mk+"\"]", v)
					default:
						add(full+"['"+mk+"']", v)
					}
				}
			case m < 11:
				if r.Chance(1, 3) {
					// both notations for one map in one request: the dotted / bracketed keys count, the JSON object
					// under the bare key does not (and the size limit holds for what the field ends up with)
					for i, n := 0, r.Range(1, 3); i < n; i++ {
						v, nt := genValue(r, lf.Prim)
						c.NT = c.NT || nt
						mk := hx.Pick(r, []string{"a", "b", "q", "k1"}) + strconv.Itoa(i)
						if r.Chance(1, 2) {
							add(full+"."+mk, v)
						} else {
							add(full+"["+mk+"]", v)
						}
					}
				}
				// JSON-object notation under the bare key (documents of 1..4 entries, so that small
				// map-size limits are exceeded; all-string documents for string-valued maps)
				docs := []string{`{"a":1,"b":2}`, `{"a":"x"}`, `{"k":true,"z":1.5}`, `{"a":300}`, `{bad`, `[1,2]`, ``, `{"n":null}`, `{"o":{"p":1}}`,
					`{"a":1,"b":2,"c":3,"d":4}`, `{"a":"1","b":"2"}`, `{"a":"x","b":"y","c":"z"}`}
				if lf.Prim == "s" && r.Chance(2, 3) {
					docs = []string{`{"a":"x"}`, `{"a":"x","b":"y"}`, `{"a":"1","b":"2","c":"3"}`, `{"p":"q","r":"s","t":"u","v":"w"}`}
				}
				add(full, hx.Pick(r, docs))
				c.NT = true
			default:
				// malformed notation
				add(full+hx.Pick(r, []string{"[]", "[a", "[a][b]", "[\"\"]", ".", "[']"}), "1")
				c.NT = true
			}
		}
	}
	// a bare value under the key of a nested struct (never valid JSON: json.Unmarshal is not modelled)
	for _, sk := range sh.Structs {
		if r.Chance(1, 25) {
			add(sk.Key, hx.Pick(r, []string{"5", "{x}", "", "[1", "{\"a\":}"}))
		}
	}
	// unrelated keys
	for i := r.Intn(3); i > 0; i-- {
		add(hx.Pick(r, []string{"zz", "unrelated", "Zk", "k0", "q.w", "x-other"}), hx.Pick(r, strPool))
	}
	hx.Shuffle(r, src)
	return src
}

// ---------------------------------------------------------------- building the real inputs

func effectiveCookie(raw string) string {
	if u, err := url.QueryUnescape(raw); err == nil {
		return u
	}
	return raw
}

type srcT struct {
	vals    url.Values
	path    map[string]string
	hdr     http.Header
	cookies []*http.Cookie
	// what the model sees: key -> values (sorted keys), cookies in order with their effective values
	kvs [][2]any
}

func buildSrc(tag int, kv [][2]string) *srcT {
	c := struct {
		Tag int
		Src [][2]string
	}{tag, kv}
	s := &srcT{}
	switch c.Tag {
	case 0, 2:
		s.vals = url.Values{}
		for _, p := range c.Src {
			s.vals.Add(p[0], p[1])
		}
		s.kvs = sortedKVs(s.vals)
	case 1:
		s.path = map[string]string{}
		m := map[string][]string{}
		for _, p := range c.Src {
			s.path[p[0]] = p[1]
			m[p[0]] = []string{p[1]}
		}
		s.kvs = sortedKVs(m)
	case 3:
		s.hdr = http.Header{}
		for _, p := range c.Src {
			s.hdr.Add(p[0], p[1])
		}
		s.kvs = sortedKVs(s.hdr)
	case 4:
		for _, p := range c.Src {
			s.cookies = append(s.cookies, &http.Cookie{Name: p[0], Value: p[1]})
			s.kvs = append(s.kvs, [2]any{p[0], []string{effectiveCookie(p[1])}})
		}
	}
	return s
}

func sortedKVs(m map[string][]string) [][2]any {
	keys := make([]string, 0, len(m))
	for k := range m {
		keys = append(keys, k)
	}
	sort.Strings(keys)
	out := make([][2]any, 0, len(keys))
	for _, k := range keys {
		out = append(out, [2]any{k, m[k]})
	}
	return out
}

func (o optsT) options() []binding.Option {
	var out []binding.Option
	if o.MaxDepth >= 0 {
		out = append(out, binding.WithMaxDepth(o.MaxDepth))
	}
	if o.MaxSlice >= 0 {
		out = append(out, binding.WithMaxSliceLen(o.MaxSlice))
	}
	if o.MaxMap >= 0 {
		out = append(out, binding.WithMaxMapSize(o.MaxMap))
	}
	if o.CSV {
		out = append(out, binding.WithSliceMode(binding.SliceCSV))
	}
	if o.BaseAuto {
		out = append(out, binding.WithIntBaseAuto())
	}
	if o.Layouts != nil {
		out = append(out, binding.WithTimeLayouts(appLayouts(o.Layouts)...))
	}
	return out
}

// appLayouts returns the slice an application would hold for a layout list (`var layouts = []string{…}`,
// passed as WithTimeLayouts(layouts...) on every request): one long-lived slice per list, handed to the
// real code again and again. The reference (refParseTime) works on the case's own copy, so a bind that
// writes into its caller's slice shows in every later bind with that list.
var appLayoutSets = map[string][]string{}

func appLayouts(ls []string) []string {
	k := strings.Join(ls, "\x00")
	if s, ok := appLayoutSets[k]; ok {
		return s
	}
	s := append(make([]string, 0, len(ls)), ls...)
	appLayoutSets[k] = s
	return s
}

func (o optsT) effective() (int, int, int) {
	d, s, m := o.MaxDepth, o.MaxSlice, o.MaxMap
	if d < 0 {
		d = binding.DefaultMaxDepth
	}
	if s < 0 {
		s = binding.DefaultMaxSliceLen
	}
	if m < 0 {
		m = binding.DefaultMaxMapSize
	}
	return d, s, m
}

// ---------------------------------------------------------------- pre-fill and rendering (reflect)

var prefillTimes = []time.Time{time.Date(2020, 5, 6, 7, 8, 9, 0, time.UTC), time.Date(1970, 1, 1, 0, 0, 0, 0, time.UTC)}

func prefill(r *hx.Rand, v reflect.Value) {
	if !v.CanSet() {
		return
	}
	t := v.Type()
	switch {
	case isFileT(t):
		return
	case t == timeT:
		if r.Chance(1, 2) {
			v.Set(reflect.ValueOf(hx.Pick(r, prefillTimes)))
		}
		return
	case t == durT:
		v.SetInt(int64(r.Intn(5)) * int64(time.Second))
		return
	case opqKind(t) >= 0:
		opqPrefill(r, opqKind(t), v)
		return
	}
	switch t.Kind() {
	case reflect.Int, reflect.Int8, reflect.Int16, reflect.Int32, reflect.Int64:
		v.SetInt(int64(r.Intn(100)) - 20)
	case reflect.Uint, reflect.Uint8, reflect.Uint16, reflect.Uint32, reflect.Uint64:
		v.SetUint(uint64(r.Intn(100)))
	case reflect.Float32, reflect.Float64:
		v.SetFloat(hx.Pick(r, []float64{0, 1.5, -2, 1024, 0.25}))
	case reflect.Bool:
		v.SetBool(r.Chance(1, 2))
	case reflect.String:
		v.SetString(hx.Pick(r, []string{"", "old", "keep me", "0"}))
	case reflect.Pointer:
		if r.Chance(1, 2) {
			return
		}
		p := reflect.New(t.Elem())
		if t.Elem().Kind() == reflect.Map {
			p.Elem().Set(reflect.MakeMap(t.Elem())) // never a pointer to a nil map
		}
		if t.Elem().Kind() == reflect.Slice {
			p.Elem().Set(reflect.MakeSlice(t.Elem(), 0, 0))
		}
		v.Set(p)
		prefill(r, p.Elem())
	case reflect.Slice:
		if v.IsNil() && r.Chance(1, 2) {
			return
		}
		n := r.Range(0, 2)
		s := reflect.MakeSlice(t, n, n+6) // spare capacity, as a reused / pooled request struct has
		for i := 0; i < n; i++ {
			prefill(r, s.Index(i))
		}
		v.Set(s)
	case reflect.Map:
		if v.IsNil() && r.Chance(1, 2) {
			return
		}
		if v.IsNil() {
			v.Set(reflect.MakeMap(t))
		}
		for i := r.Range(0, 2); i > 0; i-- {
			e := reflect.New(t.Elem()).Elem()
			prefill(r, e)
			v.SetMapIndex(reflect.ValueOf(hx.Pick(r, []string{"p1", "p2", "a0", "b1"})), e)
		}
	case reflect.Struct:
		for i := 0; i < t.NumField(); i++ {
			prefill(r, v.Field(i))
		}
	}
}

func readable(v reflect.Value) reflect.Value {
	if v.CanInterface() {
		return v
	}
	if v.CanAddr() {
		return reflect.NewAt(v.Type(), unsafe.Pointer(v.UnsafeAddr())).Elem()
	}
	return v
}

func render(v reflect.Value, l *hx.Line) {
	t := v.Type()
	switch {
	case isFileT(t):
		if v.IsNil() {
			l.Tok("s").Str("")
		} else {
			l.Tok("s").Str("file")
		}
		return
	case t == timeT:
		l.Tok("t").Str(readable(v).Interface().(time.Time).Format(time.RFC3339Nano))
		return
	case t == durT:
		l.Tok("i").I64(v.Int())
		return
	case opqKind(t) >= 0:
		l.Tok("t").Str(opqRender(opqKind(t), v))
		return
	}
	switch t.Kind() {
	case reflect.Int, reflect.Int8, reflect.Int16, reflect.Int32, reflect.Int64:
		l.Tok("i").I64(v.Int())
	case reflect.Uint, reflect.Uint8, reflect.Uint16, reflect.Uint32, reflect.Uint64:
		l.Tok("u").Tok(strconv.FormatUint(v.Uint(), 10))
	case reflect.Float32:
		l.Tok("f").Tok(strconv.FormatUint(uint64(math.Float32bits(float32(v.Float()))), 10))
	case reflect.Float64:
		l.Tok("f").Tok(strconv.FormatUint(math.Float64bits(v.Float()), 10))
	case reflect.Bool:
		l.Tok("b").Bool(v.Bool())
	case reflect.String:
		l.Tok("s").Str(v.String())
	case reflect.Pointer:
		if v.IsNil() {
			l.Tok("n")
			return
		}
		l.Tok("p")
		render(v.Elem(), l)
	case reflect.Slice:
		if v.IsNil() {
			l.Tok("n")
			return
		}
		l.Tok("l").Nat(v.Len())
		for i := 0; i < v.Len(); i++ {
			render(v.Index(i), l)
		}
	case reflect.Map:
		if v.IsNil() {
			l.Tok("n")
			return
		}
		keys := make([]string, 0, v.Len())
		for _, k := range v.MapKeys() {
			keys = append(keys, k.String())
		}
		sort.Strings(keys)
		l.Tok("m").Nat(len(keys))
		for _, k := range keys {
			l.Str(k)
			render(v.MapIndex(reflect.ValueOf(k)), l)
		}
	case reflect.Struct:
		l.Tok("S").Nat(t.NumField())
		for i := 0; i < t.NumField(); i++ {
			render(v.Field(i), l)
		}
	default:
		panic("render: " + t.String())
	}
}

// ---------------------------------------------------------------- the standard library as a table

var timeLayouts = []string{time.RFC3339, time.RFC3339Nano, time.DateOnly, time.DateTime, time.RFC1123, time.RFC1123Z,
	time.RFC822, time.RFC822Z, time.RFC850, "2006-01-02T15:04:05",
	// the default custom layouts of the package (binding.DefaultTimeLayouts)
	time.RFC3339, time.RFC3339Nano, time.DateOnly, time.DateTime, "2006-01-02T15:04:05"}

func refParseTime(s string, custom []string) (string, bool) {
	s = strings.TrimSpace(s)
	if s == "" {
		return "", false
	}
	layouts := timeLayouts
	if custom != nil {
		// WithTimeLayouts replaces the package's custom list; the ten built-in formats stay in front
		layouts = append(append([]string(nil), timeLayouts[:10]...), custom...)
	}
	for _, f := range layouts {
		if t, err := time.Parse(f, s); err == nil {
			return t.Format(time.RFC3339Nano), true
		}
	}
	return "", false
}

func tableEntry(l *hx.Line, s string, extra *[]string, layouts []string, opq []int, convs []int) {
	defer func() {
		// registered converters: converter, rendering of its result (absent: it returns an error)
		var ks []int
		var rs []string
		for _, id := range convs {
			if x, ok := convRender(id, s); ok {
				ks = append(ks, id)
				rs = append(rs, x)
			}
		}
		l.Nat(len(ks))
		for i, k := range ks {
			l.Nat(k).Str(rs[i])
		}
	}()
	defer func() {
		// opaque kinds that occur in the type: kind, rendering of the parsed value (absent: the parse fails)
		var ks []int
		var rs []string
		for _, k := range opq {
			if v, ok := opqParse(k, s); ok {
				ks = append(ks, k)
				rs = append(rs, opqRender(k, v))
			}
		}
		l.Nat(len(ks))
		for i, k := range ks {
			l.Nat(k).Str(rs[i])
		}
	}()
	l.Str(s)
	for _, base := range []int{10, 0} {
		if i, err := strconv.ParseInt(s, base, 64); err == nil {
			l.Bool(true).I64(i)
		} else {
			l.Bool(false)
		}
	}
	for _, base := range []int{10, 0} {
		if u, err := strconv.ParseUint(s, base, 64); err == nil {
			l.Bool(true).Tok(strconv.FormatUint(u, 10))
		} else {
			l.Bool(false)
		}
	}
	if f, err := strconv.ParseFloat(s, 64); err == nil {
		a := math.Abs(f)
		ovf := a > math.MaxFloat32 && !math.IsInf(f, 0)
		inf32 := math.IsInf(float64(float32(f)), 0) && !math.IsInf(f, 0)
		l.Bool(true).Tok(strconv.FormatUint(math.Float64bits(f), 10)).Tok(strconv.FormatUint(uint64(math.Float32bits(float32(f))), 10)).Bool(ovf).Bool(inf32)
	} else {
		l.Bool(false)
	}
	if t, ok := refParseTime(s, layouts); ok {
		l.Bool(true).Str(t)
	} else {
		l.Bool(false)
	}
	if d, err := time.ParseDuration(s); err == nil {
		l.Bool(true).I64(int64(d))
	} else {
		l.Bool(false)
	}
	var m map[string]any
	if s != "" && json.Unmarshal([]byte(s), &m) == nil {
		keys := make([]string, 0, len(m))
		for k := range m {
			keys = append(keys, k)
		}
		sort.Strings(keys)
		l.Bool(true).Nat(len(keys))
		for _, k := range keys {
			sv := fmt.Sprint(m[k])
			l.Str(k).Str(sv)
			if extra != nil {
				*extra = append(*extra, sv)
			}
		}
	} else {
		l.Bool(false)
	}
}

// ---------------------------------------------------------------- running the real code

// flattenErrs walks what a collecting bind returns (MultiError, errors.Join, BindError chains) and lists the
// leaf errors in order, each with the field names above it.
func flattenErrs(err error, prefix []string, body bool, out *[]func(*hx.Line)) {
	switch e := err.(type) {
	case *binding.BindError:
		p := append(append([]string(nil), prefix...), e.Field)
		if e.Err == nil {
			*out = append(*out, func(l *hx.Line) { l.Tok("E").Strs(p).Tok("C") })
			return
		}
		flattenErrs(e.Err, p, body, out)
		return
	case *binding.MultiError:
		for _, c := range e.Errors {
			flattenErrs(c, prefix, body, out)
		}
		return
	case interface{ Unwrap() []error }:
		for _, c := range e.Unwrap() {
			flattenErrs(c, prefix, body, out)
		}
		return
	}
	var be *binding.BindError
	if errors.As(err, &be) {
		// a BindError wrapped by something else: its chain counts
		names, cls := classify(err)
		p := append(append([]string(nil), prefix...), names...)
		*out = append(*out, func(l *hx.Line) { l.Tok("E").Strs(p).Tok(cls) })
		return
	}
	if body && len(prefix) == 0 && !errors.Is(err, binding.ErrNoSourcesProvided) {
		_, w := classifyBody(err)
		*out = append(*out, w)
		return
	}
	_, cls := classify(err)
	p := append([]string(nil), prefix...)
	*out = append(*out, func(l *hx.Line) { l.Tok("E").Strs(p).Tok(cls) })
}

func writeAllErrors(l *hx.Line, err error, body bool) {
	var items []func(*hx.Line)
	flattenErrs(err, nil, body, &items)
	l.Tok("A").Nat(len(items))
	for _, w := range items {
		w(l)
	}
}

func classify(err error) ([]string, string) {
	var names []string
	for {
		var be *binding.BindError
		if !errors.As(err, &be) {
			break
		}
		names = append(names, be.Field)
		if be.Err == nil {
			return names, "C"
		}
		err = be.Err
	}
	switch {
	case errors.Is(err, binding.ErrMaxDepthExceeded):
		return names, "D"
	case errors.Is(err, binding.ErrSliceExceedsMaxLength):
		return names, "L"
	case errors.Is(err, binding.ErrMapExceedsMaxSize):
		return names, "M"
	}
	return names, "C"
}

func run(ct *corpusType, c *caseT, s *srcT, dest any) (res any, err error, panicked bool) {
	defer func() {
		if p := recover(); p != nil {
			panicked = true
		}
	}()
	o := append(c.Opts.options(), convOptions(c.Convs)...)
	if c.AllErrors {
		o = append(o, binding.WithAllErrors())
	}
	if c.EvB != 0 {
		o = append(o, eventsOption(c.EvB, &evB))
	}
	switch c.Norm {
	case 1:
		o = append(o, binding.WithKeyNormalizer(binding.LowerCase))
	case 2:
		o = append(o, binding.WithKeyNormalizer(binding.CanonicalMIME))
	}
	if c.Binder {
		return runBinder(ct, c, s, dest)
	}
	if c.Entry == "B" {
		from := fromOptions(c)
		from = append(from, o...)
		if c.Gen {
			res, err = ct.E.Bind(from...)
			return
		}
		err = binding.BindTo(dest, from...)
		return dest, err, false
	}
	if c.Entry == "G" {
		switch c.Tag {
		case 0:
			res, err = ct.E.Query(s.vals, o...)
		case 1:
			res, err = ct.E.Path(s.path, o...)
		case 2:
			res, err = ct.E.Form(s.vals, o...)
		case 3:
			res, err = ct.E.Header(s.hdr, o...)
		case 4:
			res, err = ct.E.Cookie(s.cookies, o...)
		}
		return
	}
	switch c.Tag {
	case 0:
		err = binding.QueryTo(s.vals, dest, o...)
	case 1:
		err = binding.PathTo(s.path, dest, o...)
	case 2:
		err = binding.FormTo(s.vals, dest, o...)
	case 3:
		err = binding.HeaderTo(s.hdr, dest, o...)
	case 4:
		err = binding.CookieTo(s.cookies, dest, o...)
	}
	return dest, err, false
}

// runApp drives app.Context.BindOnly through a real app and request. It returns what bindInternal hands
// to the binding package (captured inside the handler, so that routing, query parsing and cookie
// parsing are not re-implemented here) together with the outcome.
func runApp(c *caseT, dest any, again func() any) (srcs []*srcT, tags []int, err error, panicked bool, ran bool) {
	a, aerr := app.New()
	if aerr != nil {
		panic(aerr)
	}
	pattern := "/bind"
	path := "/bind"
	for _, p := range c.Srcs[0].KV {
		pattern += "/:" + p[0]
		path += "/" + url.PathEscape(p[1])
	}
	a.GET(pattern, func(ctx *app.Context) {
		ran = true
		pm := map[string][]string{}
		for k, v := range ctx.AllParams() {
			pm[k] = []string{v}
		}
		ps := &srcT{kvs: sortedKVs(pm)}
		qs := &srcT{kvs: sortedKVs(ctx.Request.URL.Query())}
		hs := &srcT{kvs: sortedKVs(ctx.Request.Header)}
		cs := &srcT{}
		for _, ck := range ctx.Request.Cookies() {
			cs.kvs = append(cs.kvs, [2]any{ck.Name, []string{effectiveCookie(ck.Value)}})
		}
		srcs = []*srcT{ps, qs, hs, cs}
		tags = []int{1, 0, 3, 4}
		defer func() {
			if p := recover(); p != nil {
				panicked = true
			}
		}()
		switch c.Via {
		case "bind":
			err = ctx.Bind(dest)
		case "must":
			if !ctx.MustBind(dest) {
				// MustBind answers the request itself and keeps the error: ask the same context again
				err = ctx.BindOnly(again())
				if err == nil {
					err = errors.New("MustBind failed, BindOnly on the same request succeeds")
				}
			}
		default:
			err = ctx.BindOnly(dest)
		}
	})
	// a type whose own fields carry a body tag gets an empty JSON document; a type that is bound from the URL, the
	// headers and the cookies only gets a plain GET without body and Content-Type: there is nothing to decode
	rt := reflect.TypeOf(dest).Elem()
	hasBody := hasTagRef(rt, "json") || hasTagRef(rt, "form")
	var body io.Reader
	if hasBody {
		body = strings.NewReader("{}")
	}
	req := httptest.NewRequest(http.MethodGet, path, body)
	q := url.Values{}
	for _, p := range c.Srcs[1].KV {
		q.Add(p[0], p[1])
	}
	req.URL.RawQuery = q.Encode()
	for _, p := range c.Srcs[2].KV {
		req.Header.Add(p[0], p[1])
	}
	if hasBody {
		req.Header.Set("Content-Type", "application/json")
	}
	for _, p := range c.Srcs[3].KV {
		req.AddCookie(&http.Cookie{Name: p[0], Value: p[1]})
	}
	a.Router().ServeHTTP(httptest.NewRecorder(), req)
	return
}

// binders are reusable: one per option set for the whole run (as an application would keep them)
var binders = map[string]*binding.Binder{}

func binderFor(o optsT, convs []int, all bool, ev int) *binding.Binder {
	k := fmt.Sprintf("%+v %v %v %d", o, convs, all, ev)
	if b, ok := binders[k]; ok {
		return b
	}
	bo := append(o.options(), convOptions(convs)...)
	if all {
		bo = append(bo, binding.WithAllErrors())
	}
	if ev != 0 {
		bo = append(bo, eventsOption(ev, &evB)) // the hooks count into the counters of the running case
	}
	b, err := binding.New(bo...)
	if err != nil {
		panic(err)
	}
	binders[k] = b
	return b
}

func fromOptions(c *caseT) []binding.Option {
	var from []binding.Option
	for _, sc := range c.Srcs {
		b := buildSrc(sc.Tag, sc.KV)
		switch sc.Tag {
		case 0:
			from = append(from, binding.FromQuery(b.vals))
		case 1:
			from = append(from, binding.FromPath(b.path))
		case 2:
			from = append(from, binding.FromForm(b.vals))
		case 3:
			from = append(from, binding.FromHeader(b.hdr))
		case 4:
			from = append(from, binding.FromCookie(b.cookies))
		}
	}
	return from
}

// runBinder: the same binds through a Binder object — QueryWith[T] … / Binder.QueryTo … for one source,
// BindWith[T] / Binder.BindTo (config cloned per call, per-call options on top) for several.
func runBinder(ct *corpusType, c *caseT, s *srcT, dest any) (res any, err error, panicked bool) {
	b := binderFor(c.Opts, c.Convs, c.AllErrors, c.EvB)
	switch c.Entry {
	case "B":
		from := fromOptions(c)
		if c.Call != nil {
			from = append(from, c.Call.options()...)
		}
		from = append(from, convOptions(c.CallConvs)...)
		if c.HasEvC {
			from = append(from, eventsOption(c.EvC, &evC))
		}
		if c.Gen {
			res, err = ct.E.BindWith(b, from...)
			return
		}
		err = b.BindTo(dest, from...)
		return dest, err, false
	case "G":
		switch c.Tag {
		case 0:
			res, err = ct.E.QueryWith(b, s.vals)
		case 1:
			res, err = ct.E.PathWith(b, s.path)
		case 2:
			res, err = ct.E.FormWith(b, s.vals)
		case 3:
			res, err = ct.E.HeaderWith(b, s.hdr)
		case 4:
			res, err = ct.E.CookieWith(b, s.cookies)
		}
		return
	}
	switch c.Tag {
	case 0:
		err = b.QueryTo(s.vals, dest)
	case 1:
		err = b.PathTo(s.path, dest)
	case 2:
		err = b.FormTo(s.vals, dest)
	case 3:
		err = b.HeaderTo(s.hdr, dest)
	case 4:
		err = b.CookieTo(s.cookies, dest)
	}
	return dest, err, false
}

func emit(id string, c caseT, st *hx.Stats) string {
	if hung {
		return "# " + id + " not run: an earlier bind of this process did not return"
	}
	defer func() { firstSeen[c.T] = true }()
	userPanicSeen.Store(false)
	if c.Entry == "J" || c.Entry == "H" {
		return emitBody(id, c, st)
	}
	ct := typeByName[c.T]
	if ct == nil {
		return "# unknown type " + c.T
	}
	if c.Warmup != 0 {
		// the application warms the cache up for its request types at start-up
		func() {
			defer func() { _ = recover() }()
			if c.Warmup == 2 {
				binding.MustWarmupCache(ct.E.New())
			} else {
				binding.WarmupCache(ct.E.New())
			}
		}()
	}
	var srcs []*srcT
	var srcTags []int
	switch c.Entry {
	case "B":
		for _, sc := range c.Srcs {
			srcs = append(srcs, buildSrc(sc.Tag, sc.KV))
			srcTags = append(srcTags, sc.Tag)
		}
	case "A":
	default:
		srcs = []*srcT{buildSrc(c.Tag, c.Src)}
	}
	s := &srcT{}
	if len(srcs) > 0 {
		s = srcs[0]
	}
	dest := ct.E.New()
	if c.Entry != "G" && c.Prefill != 0 {
		prefill(hx.NewRand(c.Prefill), reflect.ValueOf(dest).Elem())
	}
	// the destination as it is before the bind
	il := hx.NewLine("")
	render(reflect.ValueOf(dest).Elem(), il)
	var appErr error
	var appPanicked bool
	if c.Entry == "A" {
		var ran bool
		srcs, srcTags, appErr, appPanicked, ran = runApp(&c, dest, func() any {
			d := ct.E.New()
			if c.Prefill != 0 {
				prefill(hx.NewRand(c.Prefill), reflect.ValueOf(d).Elem())
			}
			return d
		})
		if !ran {
			return "# " + id + " discarded: the request did not reach the handler"
		}
	}
	eff := c.Opts.over(c.Call) // what the bind runs with: the Binder's / call's options, per-call ones on top
	md, ms, mm := eff.effective()
	l := hx.NewLine(id).Tok(c.Entry).Nat(c.Tag).Nat(md).Nat(ms).Nat(mm).Bool(eff.CSV).Bool(eff.BaseAuto)
	ec := effConvs(c.Convs)
	if c.Binder && c.Entry == "B" {
		ec = effConvs(c.Convs, c.CallConvs)
	}
	l.Nat(len(ec))
	var convIDs []int
	for _, e := range ec {
		l.Nat(e[0]).Nat(e[1])
		convIDs = append(convIDs, e[1])
	}
	l.Bool(c.AllErrors)
	if c.Binder && c.Entry == "B" && c.HasEvC {
		l.Nat(c.EvB).Nat(c.EvC)
	} else {
		l.Nat(c.EvB).Tok("-1")
	}
	l.Bool(c.Binder)
	ct.Node.tokens(l)
	l.Tok(strings.TrimSpace(il.String()))
	// source(s) as the model sees them
	multiEntry := c.Entry == "B" || c.Entry == "A"
	if multiEntry {
		l.Nat(len(srcs))
	}
	seen := map[string]bool{}
	var strs []string
	note := func(x string) {
		if !seen[x] {
			seen[x] = true
			strs = append(strs, x)
		}
	}
	for i, s := range srcs {
		if multiEntry {
			l.Nat(srcTags[i])
		}
		l.Nat(len(s.kvs))
		for _, kv := range s.kvs {
			vs := kv[1].([]string)
			l.Str(kv[0].(string)).Strs(vs)
			for _, v := range vs {
				note(v)
				for _, p := range strings.Split(v, ",") { // the elements SliceCSV would convert
					note(strings.TrimSpace(p))
				}
			}
		}
	}
	for _, d := range ct.Dflts {
		note(d)
	}
	// table (JSON-derived strings are appended while the table is written)
	tl := hx.NewLine("")
	n := 0
	for i := 0; i < len(strs); i++ {
		var extra []string
		tableEntry(tl, strs[i], &extra, eff.Layouts, ct.Opq, convIDs)
		// the nested-struct JSON shortcut: what encoding/json makes of the value under the struct's own key
		if c.NJKey != "" && len(srcs) == 1 && srcs[0].vals != nil && strs[i] == srcs[0].vals.Get(c.NJKey) && strs[i] != "" {
			nd := ct.E.New()
			if c.Entry != "G" && c.Prefill != 0 {
				prefill(hx.NewRand(c.Prefill), reflect.ValueOf(nd).Elem())
			}
			if rv, ok := nestedJSONRef(nd, c.NJName, strs[i]); ok {
				tl.Bool(true).Tok(rv)
			} else {
				tl.Bool(false)
			}
		} else {
			tl.Bool(false)
		}
		n++
		for _, e := range extra {
			note(e)
		}
	}
	l.Nat(n).Tok(strings.TrimSpace(tl.String()))
	in := l.String()
	if c.Soak > 0 && c.Binder && (c.Entry == "G" || c.Entry == "T") && c.Tag != 1 && c.Tag != 4 {
		// a Binder that has been in service for a while: many requests with a long list, through the same method
		func() {
			defer func() { _ = recover() }()
			for _, lf := range ct.Shapes[c.Tag].Leaves {
				if lf.Kind != "slice" || lf.Nested || !strings.ContainsAny(lf.Prim[:1], "ius") {
					continue
				}
				w := c
				w.Prefill, w.Conc, w.Noise = 0, 0, false
				w.Src = nil
				for i := 0; i < 1000; i++ {
					w.Src = append(w.Src, [2]string{lf.Keys[0], "1"})
				}
				ws := buildSrc(w.Tag, w.Src)
				for n := 0; n < c.Soak; n += 1000 {
					_, _, _ = run(ct, &w, ws, ct.E.New())
				}
				break
			}
		}()
	}
	if c.HasWarm && c.Entry != "A" {
		// the earlier request: bound the same way into a scratch value, which is then written through
		func() {
			defer func() { _ = recover() }()
			w := c
			w.Src, w.Srcs, w.Prefill = c.Warm, c.WarmS, 0
			if c.HasWarmCall {
				w.CallConvs = c.WarmCallConvs
			}
			if c.WarmNorm != 0 {
				// the earlier request used the key normalizer option: through the package-level entry point
				w.Norm, w.Binder, w.Call, w.CallConvs = c.WarmNorm, false, nil, nil
			}
			ws := &srcT{}
			if w.Entry != "B" {
				ws = buildSrc(w.Tag, w.Src)
			}
			wdest := ct.E.New()
			if c.Tmpl && c.Prefill != 0 {
				// a copy of the same template: equal content, slices sharing their backing arrays with the
				// observed destination (what p := defaults does); nothing is written through afterwards -
				// whatever the observed destination shows differently from before is the earlier bind's doing
				prefill(hx.NewRand(c.Prefill), reflect.ValueOf(wdest).Elem())
				shareSlices(reflect.ValueOf(wdest).Elem(), reflect.ValueOf(dest).Elem())
			}
			wres, _, _ := run(ct, &w, ws, wdest)
			if c.Tmpl {
				return
			}
			if wres != nil {
				rv := reflect.ValueOf(wres)
				if rv.Kind() != reflect.Pointer {
					p := reflect.New(rv.Type())
					p.Elem().Set(rv)
					rv = p
				}
				scribble(rv, 0)
			}
		}()
	}
	if c.Twice && c.Conc == 0 && (c.Entry == "G" || c.Entry == "T") {
		// the same source object is bound once before (a middleware and a handler binding the same parsed cookies,
		// query values, headers …): a bind must leave its source as it found it
		func() {
			defer func() { _ = recover() }()
			w := c
			w.Entry, w.Binder, w.Conc, w.EvB = "T", false, 0, 0
			_, _, _ = run(ct, &w, s, ct.E.New())
		}()
	}
	var res any
	var err error
	var panicked bool
	var others []concOut
	evB, evC = evCount{}, evCount{}
	if c.Entry != "A" {
		userPanicSeen.Store(false) // whatever the earlier request did
	}
	switch {
	case c.Entry == "A":
		res, err, panicked = dest, appErr, appPanicked
	case c.Conc > 1:
		// the first binds of the type, from several goroutines at once: one case line per goroutine
		outs := runConcurrent(ct, &c, s)
		res, err, panicked = outs[0].res, outs[0].err, outs[0].panicked
		others = outs[1:]
	default:
		var post func()
		if c.Post && c.HasWarm {
			// a later, different request bound the same way (same goroutine) before the observed result is rendered:
			// what a bind returned is the caller's - no later bind may change it
			post = func() {
				defer func() { _ = recover() }()
				w := c
				w.Src, w.Srcs, w.Prefill = c.Warm, c.WarmS, 0
				w.EvB, w.HasEvC, w.EvC = 0, false, 0 // the observed request's hooks count the observed request only
				if c.HasWarmCall {
					w.CallConvs = c.WarmCallConvs
				}
				ws := &srcT{}
				if w.Entry != "B" {
					ws = buildSrc(w.Tag, w.Src)
				}
				_, _, _ = run(ct, &w, ws, ct.E.New())
			}
		}
		res, err, panicked = runTimed(ct, &c, s, dest, post)
	}
	anyPanicked := panicked
	for _, o := range others {
		anyPanicked = anyPanicked || o.panicked
	}
	if userPanicSeen.Load() && anyPanicked && !hung {
		// the application's own UnmarshalText panicked and the bind let the panic through: nothing to judge
		// (a bind that swallows it is judged like any other outcome: the value cannot be represented)
		if st != nil {
			st.Count("discarded_application_code_panicked")
		}
		return "# " + id + " discarded: the UnmarshalText of the application panicked and the bind propagated the panic"
	}
	outcome := "ok"
	writeObs := func(l *hx.Line, res any, err error, panicked bool) {
		l.Sep()
		switch {
		case panicked:
			l.Tok("X")
			outcome = "panic"
		case err != nil && c.AllErrors:
			writeAllErrors(l, err, false)
			outcome = "err_all"
		case err != nil:
			names, cls := classify(err)
			l.Tok("E").Strs(names).Tok(cls)
			outcome = "err_" + cls
		default:
			l.Tok("O")
			rv := reflect.ValueOf(res)
			if rv.Kind() == reflect.Pointer {
				rv = rv.Elem()
			} else {
				// generic entry points return the struct by value: make it addressable for rendering
				p := reflect.New(rv.Type())
				p.Elem().Set(rv)
				rv = p.Elem()
			}
			render(rv, l)
		}
	}
	writeObs(l, res, err, panicked)
	writeEvents(l)
	// the other concurrent binds: one more line for every outcome that differs from the first
	var more string
	seenObs := map[string]bool{strings.TrimPrefix(l.String(), in): true}
	for i, o := range others {
		ol := hx.NewLine(fmt.Sprintf("%s-g%d", id, i+1)).Tok(strings.TrimSpace(in[len(id):]))
		pre := ol.String()
		writeObs(ol, o.res, o.err, o.panicked)
		writeEvents(ol)
		if k := strings.TrimPrefix(ol.String(), pre); !seenObs[k] {
			seenObs[k] = true
			more += "\n" + ol.String() + hx.Comment(c)
		}
	}
	if st != nil {
		sh := ct.Shapes[c.Tag]
		st.Case(in[len(id):], (sh.EmbedDepth >= 2 || sh.HasPSM) && c.NT)
		st.Count("outcome_" + outcome)
		st.Count("tag_" + tagNames[c.Tag])
		st.Count("entry_" + c.Entry)
		if c.Entry == "B" {
			st.Count(fmt.Sprintf("multi_sources_%d", len(c.Srcs)))
		}
		if c.Entry == "A" {
			st.Count("app_via_" + c.Via)
			empty := 0
			for _, sc := range c.Srcs {
				if len(sc.KV) == 0 {
					empty++
				}
			}
			st.Count(fmt.Sprintf("app_empty_sources_%d", empty))
			if len(c.Srcs) == 4 && len(c.Srcs[3].KV) == 0 {
				st.Count("app_no_cookie_header")
			}
		}
		st.Count(fmt.Sprintf("embed_depth_%d", sh.EmbedDepth))
		st.Count(fmt.Sprintf("nest_depth_%d", sh.NestDepth))
		if c.Prefill != 0 {
			st.Count("prefilled")
		}
		if c.HasWarm && !c.Tmpl {
			st.Count("earlier_request_scribbled")
		}
		if c.Tmpl {
			st.Count("earlier_request_into_template_copy")
		}
		if c.WarmNorm != 0 {
			st.Count("earlier_request_with_key_normalizer")
		}
		if c.Warmup != 0 {
			st.Count("first_bind_after_WarmupCache")
		}
		if c.Post && c.HasWarm && c.Conc == 0 && c.Entry != "A" {
			st.Count("later_request_before_result_is_read")
		}
		if c.Twice && c.Conc == 0 && (c.Entry == "G" || c.Entry == "T") {
			st.Count("same_source_object_bound_before")
		}
		if c.Binder {
			st.Count("binder_" + c.Entry)
			if c.Call != nil {
				st.Count("binder_call_options")
			}
		}
		if eff.Layouts != nil {
			st.Count("opt_time_layouts")
		}
		if c.Opts.CSV {
			st.Count("opt_csv")
		}
		if c.Opts.BaseAuto {
			st.Count("opt_base_auto")
		}
		if c.Opts.MaxDepth >= 0 || c.Opts.MaxSlice >= 0 || c.Opts.MaxMap >= 0 {
			st.Count("opt_limits")
		}
	}
	return l.String() + hx.Comment(c) + more
}

type concOut struct {
	res      any
	err      error
	panicked bool
}

// runConcurrent performs the bind of the case from c.Conc goroutines at the same time, each into its own
// destination. While it runs, the UnmarshalText of the corpus's own types is slow (application code may be).
func runConcurrent(ct *corpusType, c *caseT, s *srcT) []concOut {
	if c.Binder {
		binderFor(c.Opts, c.Convs, c.AllErrors, c.EvB)
	}
	if c.Opts.Layouts != nil {
		appLayouts(c.Opts.Layouts)
	}
	if c.Call != nil && c.Call.Layouts != nil {
		appLayouts(c.Call.Layouts)
	}
	reps := 1
	stop := make(chan struct{})
	var nwg sync.WaitGroup
	if c.Noise {
		// other goroutines bind the earlier request through the same entry point, Binder and options, over and
		// over, while the observed binds run (each observed goroutine binds several times)
		reps = 6
		w := *c
		w.Src, w.Srcs, w.Prefill = c.Warm, c.WarmS, 0
		if c.HasWarmCall {
			w.CallConvs = c.WarmCallConvs
		}
		ws := &srcT{}
		if w.Entry != "B" {
			ws = buildSrc(w.Tag, w.Src)
		}
		for k := 0; k < 2; k++ {
			nwg.Add(1)
			go func() {
				defer nwg.Done()
				for {
					select {
					case <-stop:
						return
					default:
					}
					_, _, _ = run(ct, &w, ws, ct.E.New())
				}
			}()
		}
	} else {
		slowText.Store(true)
		defer slowText.Store(false)
	}
	outs := make([]concOut, c.Conc*reps)
	start := make(chan struct{})
	var wg sync.WaitGroup
	for i := 0; i < c.Conc; i++ {
		wg.Add(1)
		go func(i int) {
			defer wg.Done()
			<-start
			for k := 0; k < reps; k++ {
				dest := ct.E.New()
				if c.Entry != "G" && c.Prefill != 0 {
					prefill(hx.NewRand(c.Prefill), reflect.ValueOf(dest).Elem())
				}
				o := &outs[i*reps+k]
				o.res, o.err, o.panicked = run(ct, c, s, dest)
			}
		}(i)
	}
	close(start)
	done := make(chan struct{})
	go func() { wg.Wait(); close(done) }()
	select {
	case <-done:
	case <-time.After(hangAfter):
		// a bind that does not return: reported like a panic (the oracle never admits it)
		hung = true
		close(stop)
		return []concOut{{panicked: true}}
	}
	close(stop)
	nwg.Wait()
	return outs
}

// hung: a bind of this process did not return within hangAfter; the cases after it are not run
var hung bool

const hangAfter = 10 * time.Second

// runTimed is run with a watchdog: a bind that does not return is reported like a panic.
func runTimed(ct *corpusType, c *caseT, s *srcT, dest any, post func()) (res any, err error, panicked bool) {
	type out struct {
		res      any
		err      error
		panicked bool
	}
	ch := make(chan out, 1)
	go func() {
		r, e, p := run(ct, c, s, dest)
		if post != nil {
			post() // a later request, bound by the same goroutine, before the result is looked at
		}
		ch <- out{r, e, p}
	}()
	select {
	case o := <-ch:
		return o.res, o.err, o.panicked
	case <-time.After(hangAfter):
		hung = true
		return nil, nil, true
	}
}

// firstSeen: the types that have been bound in this process (generation marks the first case of a type)
var firstSeen = map[string]bool{}

// fixed witnesses: the K04 findings on the smallest corpus types that exhibit them are found by
// scanning the corpus for the shape (so that regenerating the corpus cannot silently lose them)
func fixedCases() []caseT {
	var out []caseT
	// first binds of a type from several goroutines at once, with every key absent (defaults apply): types with a
	// TextUnmarshaler field that carries a default — these come first, nothing of the types is bound before
	nconc := 0
	for _, ct := range opqCorpus {
		for tag := 0; tag < 5 && nconc < 6; tag++ {
			hit := false
			for _, lf := range ct.Shapes[tag].Leaves {
				if lf.Kind == "prim" && (lf.Prim == "o4" || lf.Prim == "o5") && lf.Dflt != "" {
					if _, ok := opqParse(int(lf.Prim[1]-'0'), lf.Dflt); ok {
						hit = true
					}
				}
			}
			if hit {
				nconc++
				out = append(out, caseT{T: ct.E.Name, Tag: tag, Entry: hx.Pick(hx.NewRand(uint64(nconc)), []string{"G", "T"}), Opts: optsT{-1, -1, -1, false, false, nil}, NT: true, Conc: 4})
				break
			}
		}
	}
	// K04b on every narrow kind: first leaf of that prim in the corpus, generic query
	want := map[string]string{"i8": "300", "u8": "256", "f32": "1e300", "i16": "40000", "u16": "65536", "i32": "2147483648", "u32": "4294967296"}
	done := map[string]bool{}
	for _, ct := range types {
		for _, lf := range ct.Shapes[0].Leaves {
			if v, ok := want[lf.Prim]; ok && lf.Kind == "prim" && !done[lf.Prim] && !lf.Nested {
				done[lf.Prim] = true
				out = append(out, caseT{T: ct.E.Name, Tag: 0, Entry: "G", Opts: optsT{-1, -1, -1, false, false, nil}, Src: [][2]string{{lf.Keys[0], v}}, NT: true})
				if lf.Prim == "i8" {
					// event hooks: a Binder with a FieldBound hook and a per-call WithEvents without one (and the other way
					// round); a package-level call with all three hooks
					one := []srcCase{{Tag: 0, KV: [][2]string{{lf.Keys[0], "5"}}}}
					out = append(out, caseT{T: ct.E.Name, Tag: 0, Entry: "B", Binder: true, Opts: optsT{-1, -1, -1, false, false, nil}, Srcs: one, NT: true, EvB: 1, HasEvC: true, EvC: 4})
					out = append(out, caseT{T: ct.E.Name, Tag: 0, Entry: "B", Binder: true, Gen: true, Opts: optsT{-1, -1, 9, false, false, nil}, Srcs: one, NT: true, EvB: 0, HasEvC: true, EvC: 1})
					out = append(out, caseT{T: ct.E.Name, Tag: 0, Entry: "T", Opts: optsT{-1, -1, -1, false, false, nil}, Src: one[0].KV, NT: true, EvB: 7})
				}
			}
		}
	}
	// K04a / K04c: for the first types with embedding depth >= 3, bind every promoted scalar leaf
	k := 0
	for _, ct := range types {
		sh := ct.Shapes[0]
		if sh.EmbedDepth < 3 || k >= 6 {
			continue
		}
		c := caseT{T: ct.E.Name, Tag: 0, Entry: "G", Opts: optsT{-1, -1, -1, false, false, nil}, NT: true}
		for _, lf := range sh.Leaves {
			switch lf.Prim[0] {
			case 'i', 'u', 'f':
				c.Src = append(c.Src, [2]string{lf.Keys[0], "7"})
			case 's':
				c.Src = append(c.Src, [2]string{lf.Keys[0], "seven"})
			}
		}
		if len(c.Src) >= 2 {
			out = append(out, c)
			k++
		}
	}
	// K04d: a slice leaf with an alias, value only under the alias
	k = 0
	for _, ct := range types {
		for _, lf := range ct.Shapes[0].Leaves {
			if lf.Kind == "slice" && len(lf.Keys) > 1 && lf.Prim == "s" && k < 2 {
				out = append(out, caseT{T: ct.E.Name, Tag: 0, Entry: "G", Opts: optsT{-1, -1, -1, false, false, nil},
					Src: [][2]string{{lf.Keys[1], "a"}, {lf.Keys[1], "b"}}, NT: true})
				k++
			}
		}
	}
	// K04h: a JSON object with two keys under WithMaxMapSize(1)
	for _, ct := range types {
		if len(ct.Shapes[0].Leaves) == 0 {
			continue
		}
		if lf := ct.Shapes[0].Leaves[0]; lf.Kind == "map" && lf.Prim[0] == 'i' {
			out = append(out, caseT{T: ct.E.Name, Tag: 0, Entry: "G", Opts: optsT{-1, -1, 1, false, false, nil}, Src: [][2]string{{lf.Keys[0], `{"a":1,"b":2}`}}, NT: true})
			break
		}
	}
	// K04i: a defaulted int field bound from the query, then a header source that lacks the key
	for _, ct := range types {
		found := false
		for _, q := range ct.Shapes[0].Leaves {
			if q.Kind != "prim" || q.Prim != "i0" || q.Dflt == "" || q.Nested {
				continue
			}
			if _, err := strconv.Atoi(q.Dflt); err != nil || q.Dflt == "7" {
				continue
			}
			for _, h := range ct.Shapes[3].Leaves {
				if h.Path == q.Path {
					out = append(out, caseT{T: ct.E.Name, Entry: "B", Opts: optsT{-1, -1, -1, false, false, nil}, NT: true,
						Srcs: []srcCase{{Tag: 0, KV: [][2]string{{q.Keys[0], "7"}}}, {Tag: 3, KV: nil}}})
					found = true
					break
				}
			}
			if found {
				break
			}
		}
		if found {
			break
		}
	}
	// the JSON-object notation and the size limit on a string-valued map (all values strings)
	for _, ct := range types {
		found := false
		for _, lf := range ct.Shapes[0].Leaves {
			if lf.Kind == "map" && lf.Prim == "s" && !lf.Nested {
				out = append(out, caseT{T: ct.E.Name, Tag: 0, Entry: "G", Opts: optsT{-1, -1, 1, false, false, nil}, Src: [][2]string{{lf.Keys[0], `{"a":"x","b":"y"}`}}, NT: true})
				// both notations in one request, each within the limit of 2: the dotted key counts alone
				out = append(out, caseT{T: ct.E.Name, Tag: 0, Entry: "G", Opts: optsT{-1, -1, 2, false, false, nil}, NT: true,
					Src: [][2]string{{lf.Keys[0], `{"a":"x","b":"y"}`}, {lf.Keys[0] + ".c", "z"}}})
				found = true
				break
			}
		}
		if found {
			break
		}
	}
	// a map over a defined string type with a dot key (the stored value must have the named type), and a
	// slice limit set on a Binder and exceeded through Binder.BindTo / BindWith
	for _, ct := range namedTypes {
		found := false
		for _, lf := range ct.Shapes[0].Leaves {
			if lf.Kind == "map" && lf.Prim == "s" && !lf.Nested {
				out = append(out, caseT{T: ct.E.Name, Tag: 0, Entry: "G", Opts: optsT{-1, -1, -1, false, false, nil}, Src: [][2]string{{lf.Keys[0] + ".env", "prod"}, {lf.Keys[0] + "[tier]", "gold"}}, NT: true})
				found = true
				break
			}
		}
		if found {
			break
		}
	}
	for _, ct := range types {
		found := false
		for _, lf := range ct.Shapes[0].Leaves {
			if lf.Kind == "slice" && lf.Prim == "s" && !lf.Nested {
				kv := [][2]string{{lf.Keys[0], "a"}, {lf.Keys[0], "b"}, {lf.Keys[0], "c"}}
				for _, gen := range []bool{false, true} {
					out = append(out, caseT{T: ct.E.Name, Entry: "B", Binder: true, Gen: gen, Opts: optsT{-1, 2, -1, false, false, nil}, NT: true,
						Srcs: []srcCase{{Tag: 0, KV: kv}}})
				}
				// a Binder that has bound 120 000 slice elements before: the next request binds as the first did
				out = append(out, caseT{T: ct.E.Name, Tag: 0, Entry: "T", Binder: true, Opts: optsT{-1, -1, 11, false, false, nil}, NT: true, Src: kv, Soak: 120000})
				out = append(out, caseT{T: ct.E.Name, Tag: 0, Entry: "G", Binder: true, Opts: optsT{-1, -1, 12, false, false, nil}, NT: true, Src: kv, Soak: 120000})
				found = true
				break
			}
		}
		if found {
			break
		}
	}
	// sequences: a pointer field with a default, absent twice (the first result is written through); and a
	// day/month-ambiguous layout pair after an earlier request that only the second layout accepts
	var seqP, seqT, seqIP, seqNet bool
	for _, ct := range types {
		for _, lf := range ct.Shapes[0].Leaves {
			// K04j: a net.IP / net.IPNet field with a default, absent twice (the first result is written through)
			if lf.Kind == "prim" && !lf.Nested && lf.Dflt != "" && (lf.Prim == "o1" && !seqIP || lf.Prim == "o2" && !seqNet) {
				if _, ok := opqParse(int(lf.Prim[1]-'0'), lf.Dflt); ok {
					if lf.Prim == "o1" {
						seqIP = true
					} else {
						seqNet = true
					}
					out = append(out, caseT{T: ct.E.Name, Tag: 0, Entry: "G", Opts: optsT{-1, -1, -1, false, false, nil}, HasWarm: true, NT: true})
				}
			}
			if !seqP && lf.Kind == "ptr" && lf.Prim[0] == 'i' && !lf.Nested && lf.Dflt != "" {
				if _, err := strconv.Atoi(lf.Dflt); err == nil && lf.Dflt != "77" && len(lf.Dflt) < 3 {
					seqP = true
					out = append(out, caseT{T: ct.E.Name, Tag: 0, Entry: "G", Opts: optsT{-1, -1, -1, false, false, nil}, HasWarm: true, NT: true})
				}
			}
			if !seqT && lf.Kind == "prim" && lf.Prim == "t" && !lf.Nested {
				// a Binder's per-call converter for time.Time, after a call that registered one for another type
				out = append(out, caseT{T: ct.E.Name, Tag: 0, Entry: "B", Binder: true, Opts: optsT{-1, -1, -1, false, false, nil}, NT: true,
					CallConvs: []int{0}, HasWarmCall: true, WarmCallConvs: []int{2}, HasWarm: true,
					WarmS: []srcCase{{Tag: 0, KV: [][2]string{{lf.Keys[0], "2024-01-15"}}}},
					Srcs:  []srcCase{{Tag: 0, KV: [][2]string{{lf.Keys[0], "25/12/2024"}}}}})
				// … and the other way round: no converter in this call, one in the earlier call
				out = append(out, caseT{T: ct.E.Name, Tag: 0, Entry: "B", Binder: true, Opts: optsT{-1, -1, 7, false, false, nil}, NT: true,
					HasWarmCall: true, WarmCallConvs: []int{1}, HasWarm: true,
					WarmS: []srcCase{{Tag: 0, KV: [][2]string{{lf.Keys[0], "03/04/2024"}}}},
					Srcs:  []srcCase{{Tag: 0, KV: [][2]string{{lf.Keys[0], "2024-01-15"}}}}})
				// a layout list an application keeps and passes again: the second bind still knows its layouts
				out = append(out, caseT{T: ct.E.Name, Tag: 0, Entry: "G", NT: true, HasWarm: true,
					Opts: optsT{-1, -1, -1, false, false, []string{"01/02/2006", "2006.01.02", "Jan 2 2006", "02-01-2006 15:04", "2006/01/02", "15:04 02.01.2006"}},
					Warm: [][2]string{{lf.Keys[0], "01/15/2024"}}, Src: [][2]string{{lf.Keys[0], "2024.01.15"}}})
				seqT = true
				out = append(out, caseT{T: ct.E.Name, Tag: 0, Entry: "G", Opts: optsT{-1, -1, -1, false, false, []string{"01/02/2006", "02/01/2006"}},
					HasWarm: true, Warm: [][2]string{{lf.Keys[0], "25/12/2024"}}, Src: [][2]string{{lf.Keys[0], "03/04/2024"}}, NT: true})
			}
		}
	}
	out = append(out, fixedBodyCases()...)
	// a nested struct given as one JSON value under its own key: a field the JSON sets to 0 holds 0, not its default
	func() {
		for _, ct := range types {
			rt := reflect.TypeOf(ct.E.New()).Elem()
			for _, sk := range ct.Shapes[0].Structs {
				if !sk.Top {
					continue
				}
				ft, _ := rt.FieldByName(sk.Name)
				st := ft.Type
				if st.Kind() == reflect.Pointer {
					st = st.Elem()
				}
				for i := 0; i < st.NumField(); i++ {
					f := st.Field(i)
					d := f.Tag.Get("default")
					if n, err := strconv.Atoi(d); err == nil && n > 0 && n < 100 && f.IsExported() && f.Type.Kind() >= reflect.Int && f.Type.Kind() <= reflect.Uint64 && f.Tag.Get("query") != "" {
						for _, e := range []string{"G", "T"} {
							out = append(out, caseT{T: ct.E.Name, Tag: 0, Entry: e, Opts: optsT{-1, -1, -1, false, false, nil}, NT: true,
								Src: [][2]string{{sk.Key, `{"` + f.Name + `":0}`}}, NJKey: sk.Key, NJName: sk.Name})
						}
						return
					}
				}
			}
		}
	}()
	// file fields at the top level and inside nested structs, bound from sources that carry no files
	for i, ct := range uploadTypes {
		if i < 4 {
			out = append(out, caseT{T: ct.E.Name, Tag: 2, Entry: "G", Opts: optsT{-1, -1, -1, false, false, nil}, NT: true})
			out = append(out, caseT{T: ct.E.Name, Entry: "B", Opts: optsT{-1, -1, -1, false, false, nil}, NT: true, Srcs: []srcCase{{Tag: 0}, {Tag: 2}}})
		}
	}
	// K04e: pointer to slice with a value; K04g: an empty map field under WithMaxMapSize(3);
	// K04f: a map field of a nested struct addressed with dot notation
	var e, g, f bool
	for _, ct := range types {
		for _, lf := range ct.Shapes[0].Leaves {
			switch {
			case lf.Kind == "ptrslice" && lf.Prim == "s" && !e:
				e = true
				out = append(out, caseT{T: ct.E.Name, Tag: 0, Entry: "G", Opts: optsT{-1, -1, -1, false, false, nil}, Src: [][2]string{{lf.Keys[0], "a"}}, NT: true})
			case lf.Kind == "map" && !lf.Nested && !g:
				g = true
				out = append(out, caseT{T: ct.E.Name, Tag: 0, Entry: "G", Opts: optsT{-1, -1, 3, false, false, nil}, NT: true})
			case lf.Kind == "map" && lf.Nested && lf.Prim == "s" && !f:
				f = true
				out = append(out, caseT{T: ct.E.Name, Tag: 0, Entry: "G", Opts: optsT{-1, -1, -1, false, false, nil}, Src: [][2]string{{lf.Keys[0] + ".a", "v"}}, NT: true})
			}
		}
	}
	// K04k: a nested struct given as one JSON value under its own key, beyond the depth limit (WithMaxDepth(0))
	nk := 0
	for _, ct := range types {
		if nk >= 2 {
			break
		}
		for _, sk := range ct.Shapes[0].Structs {
			if !sk.Top {
				continue
			}
			ft, _ := reflect.TypeOf(ct.E.New()).Elem().FieldByName(sk.Name)
			st := ft.Type
			if st.Kind() == reflect.Pointer {
				st = st.Elem()
			}
			doc := nestedJSONDoc(hx.NewRand(uint64(7+nk)), st)
			if doc == "{}" {
				continue
			}
			nk++
			out = append(out, caseT{T: ct.E.Name, Tag: 0, Entry: hx.Pick(hx.NewRand(uint64(nk)), []string{"G", "T"}), Opts: optsT{0, -1, -1, false, false, nil},
				Src: [][2]string{{sk.Key, doc}}, NJKey: sk.Key, NJName: sk.Name, NT: true})
			break
		}
	}
	// a []string field bound from a comma-separated value (CSV mode), then a later request with another list before
	// the result is read: what the first bind returned is the caller's
	ncsv := 0
	for _, ct := range types {
		if ncsv >= 3 {
			break
		}
		for _, lf := range ct.Shapes[0].Leaves {
			if lf.Kind == "slice" && lf.Prim == "s" && !lf.Nested {
				ncsv++
				out = append(out, caseT{T: ct.E.Name, Tag: 0, Entry: hx.Pick(hx.NewRand(uint64(ncsv)), []string{"G", "T"}), Opts: optsT{-1, -1, -1, true, false, nil},
					Src: [][2]string{{lf.Keys[0], "go, web ,api"}}, HasWarm: true, Warm: [][2]string{{lf.Keys[0], "x,y,z"}}, Post: true, NT: true})
				break
			}
		}
	}
	// app.Context.Bind on a bare request for a type whose own fields carry no body tag but whose nested struct
	// types do: there is no body to bind
	nnb := 0
	for _, ct := range types {
		if nnb >= 2 {
			break
		}
		rt := reflect.TypeOf(ct.E.New()).Elem()
		if hasTagRef(rt, "json") || hasTagRef(rt, "form") || !nestedHasTag(rt, "form", 0) {
			continue
		}
		nnb++
		out = append(out, caseT{T: ct.E.Name, Entry: "A", Via: hx.Pick(hx.NewRand(uint64(nnb)), []string{"only", "bind", "must"}), Opts: optsT{-1, -1, -1, false, false, nil},
			Srcs: []srcCase{{Tag: 1}, {Tag: 0}, {Tag: 3}, {Tag: 4}}, NT: true})
	}
	// the same parsed cookies bound twice: a bind leaves its source as it found it (a value that still looks escaped
	// after one unescape)
	ntw := 0
	for _, ct := range types {
		if ntw >= 2 {
			break
		}
		for _, lf := range ct.Shapes[4].Leaves {
			if lf.Kind == "prim" && lf.Prim == "s" && !lf.Nested {
				ntw++
				out = append(out, caseT{T: ct.E.Name, Tag: 4, Entry: hx.Pick(hx.NewRand(uint64(ntw)), []string{"G", "T"}), Opts: optsT{-1, -1, -1, false, false, nil},
					Src: [][2]string{{lf.Keys[0], hx.Pick(hx.NewRand(uint64(ntw)), []string{"a%2Bb", "100%2525"})}}, NT: true, Twice: true})
				break
			}
		}
	}
	// a value on which the application's own UnmarshalText panics: the bind may propagate the panic (the case is then
	// discarded) - it must not report success
	nup := 0
	for _, ct := range opqCorpus {
		if nup >= 3 {
			break
		}
		for _, lf := range ct.Shapes[0].Leaves {
			if lf.Prim == "o5" && !lf.Nested && (lf.Kind == "prim" || lf.Kind == "slice" || lf.Kind == "ptr") {
				nup++
				out = append(out, caseT{T: ct.E.Name, Tag: 0, Entry: hx.Pick(hx.NewRand(uint64(nup)), []string{"G", "T"}), Opts: optsT{-1, -1, -1, false, false, nil},
					Src: [][2]string{{lf.Keys[0], "#12"}}, NT: true})
				break
			}
		}
	}
	// the earlier request bound into a copy of the same pre-filled template (shared slice backing arrays): the
	// observed request lacks the key, so the slice must come out as it went in
	nt := 0
	for _, ct := range types {
		if nt >= 3 {
			break
		}
		for _, lf := range ct.Shapes[0].Leaves {
			if lf.Kind != "slice" || lf.Nested || strings.Count(lf.Path, ".") != 1 || !strings.ContainsAny(lf.Prim[:1], "iu") {
				continue
			}
			for seed := uint64(1); seed < 200; seed += 2 {
				d := ct.E.New()
				prefill(hx.NewRand(seed), reflect.ValueOf(d).Elem())
				if reflect.ValueOf(d).Elem().FieldByName(lf.Path[1:]).Len() == 0 {
					continue
				}
				nt++
				out = append(out, caseT{T: ct.E.Name, Tag: 0, Entry: "T", Opts: optsT{-1, -1, -1, false, false, nil}, Prefill: seed,
					Src: [][2]string{{"x-unrelated", "1"}}, HasWarm: true, Tmpl: true, Warm: [][2]string{{lf.Keys[0], "5"}, {lf.Keys[0], "6"}}, NT: true})
				break
			}
			break
		}
	}
	return out
}

func main() {
	a := hx.ParseArgs()
	w := hx.Out()
	defer w.Flush()
	log.SetOutput(io.Discard) // net/http reports every cookie byte it sanitises
	loadCorpus()
	injectFault()
	switch a.Cmd {
	case "gen":
		r := hx.NewRand(a.Seed)
		st := hx.NewStats()
		for i, c := range fixedCases() {
			fmt.Fprintln(w, emit(fmt.Sprintf("c04-fix-%d", i), c, st))
		}
		for i := 0; i < a.N; i++ {
			fmt.Fprintln(w, emit(fmt.Sprintf("c04-%d-%d", a.Seed, i), genCase(r), st))
		}
		st.Emit(w)
	case "replay":
		for _, line := range hx.StdinLines() {
			var c caseT
			id, err := hx.CaseFromComment(line, &c)
			if err != nil {
				fmt.Fprintf(w, "# cannot replay %q: %v\n", id, err)
				continue
			}
			fmt.Fprintln(w, emit(id, c, nil))
		}
	case "types":
		for _, ct := range types {
			fmt.Fprintln(w, ct.E.Name, ct.E.Ty)
		}
	}
}
