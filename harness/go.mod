module verif/harness

go 1.25.7
