// Harness for C17 (request-gating and redirect middleware). Drives the real middleware through the
// public API of the rivaas modules: a router with the middleware installed and a terminal handler that
// records what it saw. One generator per gate; the first token after the case id is the gate kind
// (B bodylimit, A basicauth, C cors, M methodoverride, T trailingslash).
package main

import (
	"bufio"
	"context"
	"encoding/base64"
	"encoding/json"
	"errors"
	"fmt"
	"io"
	"net/http"
	"net/http/httptest"
	"net/url"
	"sort"
	"strconv"
	"strings"
	"sync"
	"time"

	"rivaas.dev/middleware/basicauth"
	"rivaas.dev/middleware/bodylimit"
	"rivaas.dev/middleware/cors"
	"rivaas.dev/middleware/methodoverride"
	"rivaas.dev/middleware/trailingslash"
	"rivaas.dev/router"
	"verif/harness/hx"
)

// B is a byte string that survives JSON (base64) whatever its content.
type B = []byte

// caseT is the concrete case; it travels as JSON in the trailing comment of the case line so that
// `replay` can re-run exactly the same configuration and request.
type caseT struct {
	Kind string
	Body *bodyCase    `json:",omitempty"`
	Auth *authCase    `json:",omitempty"`
	Cors *corsCase    `json:",omitempty"`
	Seq  *corsSeq     `json:",omitempty"`
	BSeq *bodySeq     `json:",omitempty"`
	Meth *methodCase  `json:",omitempty"`
	Sl   *slashCase   `json:",omitempty"`
	Err  *errCase     `json:",omitempty"`
	MPar *methodPar   `json:",omitempty"`
	AOv  *authOverlap `json:",omitempty"`
	AStk *authStack   `json:",omitempty"`
}

// errCase: the default rejection of bodylimit (Which = "B": a declared size over Limit) or of basicauth (Which = "A":
// no credentials) as it appears on the wire — status, Content-Type, body, WWW-Authenticate.
type errCase struct {
	Which string
	Limit int64 `json:",omitempty"`
	Realm B     `json:",omitempty"`
}

func genErr(r *hx.Rand) *errCase {
	if r.Chance(1, 4) {
		return &errCase{Which: "A", Realm: hx.Pick(r, []B{B("Restricted"), B(""), B("Admin Area"), B("a\"b"), B("r\u00e9alm"), B("x, y=z")})}
	}
	const kb, mb, gb = int64(1024), int64(1024 * 1024), int64(1024 * 1024 * 1024)
	unit := hx.Pick(r, []int64{1, kb, mb, gb})
	var n int64
	switch r.Intn(6) {
	case 0: // around a unit boundary
		n = hx.Pick(r, []int64{kb, mb, gb})*int64(hx.Pick(r, []int{1, 1, 2, 10, 1000, 1023, 1024})) + int64(r.Range(0, 2)) - 1
	case 1: // an exact tie of the first decimal: bytes*10 = unit*(m + 1/2)
		m := int64(r.Range(10, 20000))
		if v := (unit/2 + m*unit); unit > 1 && v%10 == 0 {
			n = v / 10
		} else {
			n = unit*m/10 + 1
		}
	case 2: // next to the rounding boundaries x.x5
		n = unit*int64(r.Range(1, 5000)) + unit*int64(r.Range(0, 19))/20 + int64(r.Range(0, 2)) - 1
	case 3:
		n = int64(r.Range(1, 1023))
	case 4: // large, still exactly representable as float64
		n = (int64(1) << uint(r.Range(31, 52))) + int64(r.Range(0, 1<<20))
	default:
		n = int64(r.Range(1, 1<<30))
	}
	if n <= 0 {
		n = 1
	}
	return &errCase{Which: "B", Limit: n}
}

func (c *errCase) emit(id string, st *hx.Stats) string {
	l := hx.NewLine(id).Tok("E").Tok(c.Which)
	rec := httptest.NewRecorder()
	ran := false
	r := router.MustNew()
	var req *http.Request
	if c.Which == "B" {
		l.I64(c.Limit)
		r.Use(bodylimit.New(bodylimit.WithLimit(c.Limit)))
		req = httptest.NewRequest(http.MethodPost, "/up", strings.NewReader("x"))
		req.Header.Set("Content-Length", strconv.FormatInt(c.Limit, 10)+"0") // ten times the limit
	} else {
		l.Bytes(c.Realm)
		r.Use(basicauth.New(basicauth.WithUsers(map[string]string{"u": "p"}), basicauth.WithRealm(string(c.Realm))))
		req = httptest.NewRequest(http.MethodPost, "/up", nil)
	}
	r.POST("/up", func(*router.Context) { ran = true })
	if guard(func() { r.ServeHTTP(rec, req) }) {
		return l.Sep().Tok("P").String() + hx.Comment(caseT{Kind: "E", Err: c})
	}
	res := rec.Result()
	body, _ := io.ReadAll(res.Body)
	st0 := res.StatusCode
	if ran {
		st0 = 0 // the handler must not run: shows up as a status the model never produces
	}
	l.Sep().Nat(st0).Str(res.Header.Get("Content-Type")).Bytes(body)
	optStr(l, res.Header.Values("WWW-Authenticate"))
	if st != nil {
		st.Case(l.String(), true)
		st.Count("E." + c.Which)
	}
	return l.String() + hx.Comment(caseT{Kind: "E", Err: c})
}

func guard(f func()) (panicked bool) {
	defer func() {
		if p := recover(); p != nil {
			panicked = true
		}
	}()
	f()
	return false
}

func optStr(l *hx.Line, vals []string) {
	if len(vals) == 0 {
		l.Bool(false)
	} else {
		l.Bool(true).Str(vals[0])
	}
}

// ---------------------------------------------------------------------------------------------
// bodylimit

type stepT struct {
	K string // D, Z, F
	N int
}

type bodyCase struct {
	Limit       int64
	Skip        bool
	CL          *string // Content-Length header value, nil = no header
	Body        B
	EofWithLast bool
	Script      []stepT
	Dflt        int
	Caps        []int
	// Real: the request travels over a loopback connection to a real net/http server (chunked when CL
	// is nil, else with a truthful Content-Length); the client writes the body in pieces of Chunks bytes.
	// The transport's own chunking is unknown — for a well-behaved transport the theorems say it is
	// irrelevant — so the case line carries an empty script.
	Real   bool  `json:",omitempty"`
	Chunks []int `json:",omitempty"`
	// Outer: a second, router-wide bodylimit.New(WithLimit(Outer)) in front of the route-level one (Limit).
	// Two stacked limiters with different limits behave like one with the smaller limit (the case line
	// carries min(Outer, Limit)); only with a well-behaved transport and Outer != Limit.
	Outer int64 `json:",omitempty"`
	// PoisonRead ≥ 0 (sequence cases): BEFORE this request, one more request is sent through the same
	// middleware instance whose handler reads that many body bytes and then panics (recovered by the harness
	// like a recovery middleware). It yields no case line; this request must be served as if nothing happened.
	PoisonRead *int `json:",omitempty"`
	// Style: how the handler consumes the body. "" = its own Read loop with the buffer sizes Caps / Dflt;
	// "copy" = io.Copy(plain writer, c.Request.Body) — the body itself is handed to io.Copy, so that an io.WriterTo it
	// may offer is used (32 KiB buffer otherwise: the case line says Dflt = 32768, no Caps); "readall" = io.ReadAll
	// through a reader that records the buffer size of every call (those sizes become the Caps of the case line).
	Style string `json:",omitempty"`
	// Method: "" = POST; a body is a body whatever the method says (GET, OPTIONS, DELETE … with a chunked body)
	Method string `json:",omitempty"`
	shared *bodyShared
}

// capRecorder forwards Read and remembers len(p) of every call.
type capRecorder struct {
	r    io.Reader
	caps []int
}

func (c *capRecorder) Read(p []byte) (int, error) {
	c.caps = append(c.caps, len(p))
	return c.r.Read(p)
}

// plainSink is an io.Writer and nothing else (no io.ReaderFrom: io.Copy decides by the source alone).
type plainSink struct{ b []byte }

func (p *plainSink) Write(b []byte) (int, error) { p.b = append(p.b, b...); return len(b), nil }

// bodyShared is one router + middleware instance used by all requests of a sequence.
type bodyShared struct {
	r       *router.Router
	handler func(*router.Context)
}

var errTransport = errors.New("transport failure")

// under is the request body below the middleware: a scripted io.ReadCloser (Model: Body.Under).
type under struct {
	rem         []byte
	script      []stepT
	eofWithLast bool
}

func (u *under) Read(p []byte) (int, error) {
	if len(u.rem) == 0 {
		return 0, io.EOF
	}
	k := len(p)
	if len(u.script) > 0 {
		s := u.script[0]
		u.script = u.script[1:]
		switch s.K {
		case "Z":
			return 0, nil
		case "F":
			return 0, errTransport
		case "X": // bytes AND a transport error in one call
			n := min(min(len(p), max(s.N, 1)), len(u.rem))
			copy(p, u.rem[:n])
			u.rem = u.rem[n:]
			return n, errTransport
		default:
			k = min(len(p), max(s.N, 1))
		}
	}
	n := min(k, len(u.rem))
	copy(p, u.rem[:n])
	u.rem = u.rem[n:]
	if len(u.rem) == 0 && u.eofWithLast {
		return n, io.EOF
	}
	return n, nil
}

func (u *under) Close() error { return nil }

// pieces is the client-side body of a Real case: it hands the body to the HTTP client in pieces.
type pieces struct {
	rem   []byte
	sizes []int
}

func (p *pieces) Read(b []byte) (int, error) {
	if len(p.rem) == 0 {
		return 0, io.EOF
	}
	k := len(b)
	if len(p.sizes) > 0 {
		k = min(k, max(p.sizes[0], 1))
		p.sizes = p.sizes[1:]
	}
	n := copy(b[:k], p.rem)
	p.rem = p.rem[n:]
	return n, nil
}

func genBody(r *hx.Rand) *bodyCase {
	c := &bodyCase{}
	c.Limit = int64(hx.Pick(r, []int{1, 2, 3, 4, 5, 8, 16, 33}))
	lim := int(c.Limit)
	// body length around the limit
	var n int
	switch r.Intn(8) {
	case 0:
		n = 0
	case 1:
		n = lim
	case 2:
		n = lim + 1
	case 3:
		n = max(lim-1, 0)
	case 4:
		n = r.Range(0, lim)
	default:
		n = r.Range(0, lim+6)
	}
	c.Body = make([]byte, n)
	for i := range c.Body {
		c.Body[i] = byte(r.Intn(256))
	}
	c.EofWithLast = r.Chance(1, 2)
	// chunk script: boundaries near the limit are forced often
	ns := r.Range(0, 6)
	ill := r.Chance(1, 5)
	for i := 0; i < ns; i++ {
		switch {
		case ill && r.Chance(1, 4):
			c.Script = append(c.Script, stepT{K: "X", N: hx.Pick(r, []int{lim, lim - 1, lim + 1, 1, r.Range(1, lim+3)})})
		case ill && r.Chance(1, 3):
			c.Script = append(c.Script, stepT{K: hx.Pick(r, []string{"Z", "F", "Z"})})
		case r.Chance(1, 3):
			c.Script = append(c.Script, stepT{K: "D", N: hx.Pick(r, []int{lim, lim - 1, lim + 1, 1, 0})})
		default:
			c.Script = append(c.Script, stepT{K: "D", N: r.Range(1, lim+3)})
		}
	}
	if r.Chance(1, 6) {
		// a reader that misbehaves exactly where the look-ahead byte is read: `lim` bytes, then
		// (0, nil) reads (sometimes more than the reader retries) and/or a transport failure
		c.Script = []stepT{{K: "D", N: lim}}
		if r.Chance(1, 2) {
			c.Script = []stepT{{K: "D", N: max(lim-1, 1)}, {K: "D", N: 1}}
		}
		if r.Chance(1, 4) {
			// the read that reaches the limit exactly also reports a transport error
			c.Script = []stepT{{K: "X", N: lim}}
			if r.Chance(1, 2) {
				c.Script = []stepT{{K: "D", N: max(lim-1, 1)}, {K: "X", N: 1}}
			}
		}
		nz := hx.Pick(r, []int{0, 1, 2, 3, 99, 100, 101})
		for i := 0; i < nz; i++ {
			c.Script = append(c.Script, stepT{K: "Z"})
		}
		if r.Chance(1, 2) {
			c.Script = append(c.Script, stepT{K: "F"})
		}
		if r.Chance(1, 2) {
			c.Script = append(c.Script, stepT{K: "D", N: 1})
		}
	}
	c.Dflt = hx.Pick(r, []int{1, 2, 3, 7, 512, lim, lim + 1})
	if r.Chance(1, 5) {
		c.Method = hx.Pick(r, []string{"GET", "OPTIONS", "DELETE", "PUT", "PATCH", "HEAD", "GET"})
	}
	switch r.Intn(7) {
	case 0:
		c.Style = "copy"
	case 1:
		c.Style = "readall"
	}
	for i, nc := 0, r.Range(0, 4); i < nc; i++ {
		c.Caps = append(c.Caps, hx.Pick(r, []int{1, 2, lim, lim + 1, max(lim-1, 1), 64, 0}))
	}
	// Content-Length: absent / truthful / lying / malformed
	switch r.Intn(10) {
	case 0, 1, 2:
	case 3, 4, 5:
		s := strconv.Itoa(n)
		c.CL = &s
	case 6:
		s := strconv.Itoa(hx.Pick(r, []int{0, 1, lim - 1, lim, lim + 1, lim + 100, n + 1, max(n-1, 0)}))
		c.CL = &s
	case 7:
		s := hx.Pick(r, []string{"", "abc", " 5", "5 ", "+5", "-1", "1e3", "0x10", "99999999999999999999", "9223372036854775807", "-9223372036854775808", "٣", "5,5", "05"})
		c.CL = &s
	default:
		s := strconv.Itoa(r.Range(0, lim+4))
		c.CL = &s
	}
	c.Skip = r.Chance(1, 12)
	if !c.Skip && !ill && r.Chance(1, 6) {
		wb := true
		for _, st := range c.Script {
			if st.K != "D" {
				wb = false
			}
		}
		if wb {
			c.Outer = c.Limit + int64(hx.Pick(r, []int{1, 2, 5, 100, -1, -2}))
			if c.Outer < 1 {
				c.Outer = c.Limit + 3
			}
		}
	}
	if r.Chance(1, 25) {
		c.Real, c.Script, c.EofWithLast = true, nil, false
		if c.CL != nil {
			t := strconv.Itoa(n)
			c.CL = &t
		}
		for i, k := 0, r.Range(0, 4); i < k; i++ {
			c.Chunks = append(c.Chunks, hx.Pick(r, []int{1, 2, lim, lim + 1, max(lim-1, 1)}))
		}
	}
	return c
}

func (c *bodyCase) emit(id string, st *hx.Stats) string {
	eff := c.Limit
	if c.Outer > 0 && c.Outer < eff {
		eff = c.Outer
	}
	l := hx.NewLine(id).Tok("B").Nat(int(eff)).Bool(c.Skip)
	declared := "absent"
	if c.CL == nil || *c.CL == "" {
		l.Tok("A")
	} else if v, err := strconv.ParseInt(*c.CL, 10, 64); err != nil {
		l.Tok("G")
		declared = "garbage"
	} else {
		l.Tok("V").I64(v)
		switch {
		case v == int64(len(c.Body)):
			declared = "truthful"
		default:
			declared = "lying"
		}
	}
	l.Bytes(c.Body).Bool(c.EofWithLast).Nat(len(c.Script))
	ill := false
	boundaryAtLimit := false
	pos := 0
	for _, s := range c.Script {
		switch s.K {
		case "D":
			l.Tok("D").Nat(s.N)
			pos += max(s.N, 1)
			if pos == int(c.Limit) {
				boundaryAtLimit = true
			}
		case "X":
			l.Tok("X").Nat(s.N)
			ill = true
			pos += max(s.N, 1)
			if pos == int(c.Limit) {
				boundaryAtLimit = true
			}
		default:
			l.Tok(s.K)
			ill = true
		}
	}
	in := l.String()
	dfltOut, capsOut := c.Dflt, c.Caps
	if c.Style == "copy" {
		dfltOut, capsOut = 32*1024, nil
	}

	// run the real middleware
	var (
		ran  bool
		data []byte
		ec   = "N"
	)
	opts := []bodylimit.Option{bodylimit.WithLimit(c.Limit)}
	if c.Skip {
		opts = append(opts, bodylimit.WithSkipPaths("/up"))
	}
	rec := httptest.NewRecorder()
	realErr := false
	panicked := guard(func() {
		var r *router.Router
		chain := []router.HandlerFunc{}
		if c.shared != nil {
			r = c.shared.r
		} else {
			r = router.MustNew()
			if c.Outer > 0 {
				r.Use(bodylimit.New(bodylimit.WithLimit(c.Outer))) // router-wide, generous or tight
				chain = append(chain, bodylimit.New(opts...))      // route-level
			} else {
				r.Use(bodylimit.New(opts...))
			}
		}
		if c.shared != nil && c.PoisonRead != nil {
			// the poisoning request: reads some bytes, then its handler panics
			c.shared.handler = func(ctx *router.Context) {
				buf := make([]byte, *c.PoisonRead)
				if len(buf) > 0 {
					io.ReadFull(ctx.Request.Body, buf)
				}
				panic("handler failed mid-body")
			}
			guard(func() {
				preq := httptest.NewRequest(http.MethodPost, "/up", strings.NewReader(strings.Repeat("x", int(c.Limit))))
				preq.ContentLength = -1
				r.ServeHTTP(httptest.NewRecorder(), preq)
			})
		}
		fuel := len(c.Body) + len(c.Script) + 3
		classify := func(err error) {
			switch {
			case err == nil || err == io.EOF:
				ec = "E"
			case errors.Is(err, bodylimit.ErrBodyLimitExceeded):
				ec = "L"
			default:
				ec = "O"
			}
		}
		chain = append(chain, func(ctx *router.Context) {
			ran = true
			switch c.Style {
			case "copy":
				sink := &plainSink{}
				_, err := io.Copy(sink, ctx.Request.Body)
				data = sink.b
				classify(err)
				return
			case "readall":
				rec := &capRecorder{r: ctx.Request.Body}
				b, err := io.ReadAll(rec)
				data = b
				capsOut = rec.caps
				classify(err)
				return
			}
			buf := make([]byte, 1024)
			for i := 0; i < fuel; i++ {
				k := c.Dflt
				if i < len(c.Caps) {
					k = c.Caps[i]
				}
				k = max(1, k)
				n, err := ctx.Request.Body.Read(buf[:k])
				data = append(data, buf[:n]...)
				if err != nil {
					switch {
					case err == io.EOF:
						ec = "E"
					case errors.Is(err, bodylimit.ErrBodyLimitExceeded):
						ec = "L"
					default:
						ec = "O"
					}
					break
				}
			}
		})
		if c.shared != nil {
			c.shared.handler = chain[len(chain)-1]
		} else {
			r.POST("/up", chain...)
			if c.Method != "" {
				r.GET("/up", chain...)
				r.PUT("/up", chain...)
				r.PATCH("/up", chain...)
				r.DELETE("/up", chain...)
				r.OPTIONS("/up", chain...)
				r.HEAD("/up", chain...)
			}
		}
		if c.Real {
			srv := httptest.NewServer(r)
			defer srv.Close()
			req, err := http.NewRequest(http.MethodPost, srv.URL+"/up", &pieces{rem: append([]byte(nil), c.Body...), sizes: c.Chunks})
			if err != nil {
				panic(err)
			}
			req.ContentLength = -1 // chunked
			if c.CL != nil {
				req.ContentLength = int64(len(c.Body))
				if len(c.Body) == 0 {
					req.Body = http.NoBody
				}
			}
			resp, err := http.DefaultClient.Do(req)
			if err != nil {
				realErr = true // e.g. the server answered 413 and closed while the client was still writing
				return
			}
			io.Copy(io.Discard, resp.Body)
			resp.Body.Close()
			rec.Code = resp.StatusCode
			return
		}
		req := httptest.NewRequest(http.MethodPost, "/up", nil)
		if c.Method != "" && c.shared == nil {
			req.Method = c.Method
		}
		req.Body = &under{rem: append([]byte(nil), c.Body...), script: append([]stepT(nil), c.Script...), eofWithLast: c.EofWithLast}
		req.ContentLength = -1
		if c.CL != nil {
			req.Header["Content-Length"] = []string{*c.CL}
		}
		r.ServeHTTP(rec, req)
	})
	if realErr {
		if st != nil {
			st.Count("B.discarded_real_client_error")
		}
		return ""
	}
	l.Nat(dfltOut).Nat(len(capsOut))
	for _, k := range capsOut {
		l.Nat(k)
	}
	l.Sep()
	if panicked {
		l.Tok("P")
	} else {
		l.Nat(rec.Code).Bool(ran).Tok(ec).Bytes(data)
	}
	if st != nil {
		if c.Style != "" {
			st.Count("B.handler_" + c.Style)
		}
		if c.Method != "" {
			st.Count("B.method_other_than_POST")
		}
		in += " " + c.Style + fmt.Sprint(dfltOut, capsOut)
		n, lim := len(c.Body), int(c.Limit)
		near := n >= lim-1 && n <= lim+1
		st.Case(in[len(id):], near || boundaryAtLimit || ill || declared == "lying" || declared == "garbage")
		st.Count("B.cl_" + declared)
		switch {
		case n < lim:
			st.Count("B.len<limit")
		case n == lim:
			st.Count("B.len=limit")
		default:
			st.Count("B.len>limit")
		}
		if ill {
			st.Count("B.ill_behaved_reader")
		}
		if c.Real {
			st.Count("B.real_http_server_transport")
		}
		if c.Outer > 0 {
			st.Count("B.two_stacked_limiters")
		}
		if boundaryAtLimit {
			st.Count("B.chunk_boundary_at_limit")
		}
		if !panicked {
			st.Count("B.obs_" + strconv.Itoa(rec.Code) + "_" + ec)
		}
	}
	return l.String() + hx.Comment(caseT{Kind: "B", Body: c})
}

// bodySeq: several requests through ONE bodylimit instance (kind R in the comment); every request is judged
// as an ordinary B case line — the middleware is specified per request.
type bodySeq struct {
	Limit int64
	Items []*bodyCase
}

func (q *bodySeq) emit(id string, st *hx.Stats) string {
	sh := &bodyShared{r: router.MustNew()}
	sh.r.Use(bodylimit.New(bodylimit.WithLimit(q.Limit)))
	sh.r.POST("/up", func(ctx *router.Context) { sh.handler(ctx) })
	var lines []string
	for i, it := range q.Items {
		it.Limit, it.Skip, it.Outer, it.Real, it.shared = q.Limit, false, 0, false, sh
		line := it.emit(fmt.Sprintf("%s.r%d", id, i), nil)
		it.shared = nil
		if line == "" {
			continue
		}
		if j := strings.Index(line, " # "); j >= 0 {
			line = line[:j]
		}
		lines = append(lines, line+hx.Comment(caseT{Kind: "R", BSeq: q}))
	}
	if st != nil {
		b, _ := json.Marshal(q)
		st.Case(string(b), true)
		st.Count("B.sequence_on_one_instance")
		for _, it := range q.Items {
			if it.PoisonRead != nil {
				st.Count("B.request_after_a_handler_that_panicked_mid_body")
			}
		}
	}
	return strings.Join(lines, "\n")
}

func genBodySeq(r *hx.Rand) *bodySeq {
	q := &bodySeq{Limit: int64(hx.Pick(r, []int{1, 2, 3, 5, 8}))}
	for i, n := 0, r.Range(2, 5); i < n; i++ {
		it := genBody(r)
		it.Limit = q.Limit
		// bodies around this sequence's limit
		nb := hx.Pick(r, []int{0, 1, int(q.Limit) - 1, int(q.Limit), int(q.Limit), int(q.Limit) + 1, int(q.Limit) + 3})
		if nb < 0 {
			nb = 0
		}
		it.Body = make([]byte, nb)
		for j := range it.Body {
			it.Body[j] = byte('a' + r.Intn(26))
		}
		if it.CL != nil && r.Chance(1, 2) {
			t := strconv.Itoa(nb)
			it.CL = &t
		}
		if r.Chance(1, 2) {
			p := hx.Pick(r, []int{0, 1, int(q.Limit), int(q.Limit) - 1, int(q.Limit)})
			if p < 0 {
				p = 0
			}
			it.PoisonRead = &p
		}
		q.Items = append(q.Items, it)
	}
	return q
}

// ---------------------------------------------------------------------------------------------
// basicauth

type authCase struct {
	Users [][2]B
	Realm B
	Auth  *B // nil = no header
	// Skip: basicauth.WithSkipPaths(...); Target: the request target as sent on the request line ("" = /p)
	Skip   []string `json:",omitempty"`
	Target string   `json:",omitempty"`
	// Validator: basicauth.WithValidator(authValidator) instead of the user table.
	// CtxDone: the request arrives with an already cancelled context, on a router built with
	// router.WithoutCancellationCheck() (so that the chain is not cut short before the middleware)
	Validator bool `json:",omitempty"`
	CtxDone   bool `json:",omitempty"`
	// Method ("" = GET) and Extra request headers (CORS preflight headers, proxy / upgrade / forwarded-user headers,
	// credentials in Proxy-Authorization, a second Authorization line): none of them is part of the decision
	Method string      `json:",omitempty"`
	Extra  [][2]string `json:",omitempty"`
}

var authMethods = []string{"GET", "POST", "PUT", "PATCH", "DELETE", "OPTIONS", "HEAD"}

func genAuthExtras(r *hx.Rand, c *authCase) {
	if r.Chance(1, 2) {
		c.Method = hx.Pick(r, []string{"OPTIONS", "OPTIONS", "HEAD", "POST", "PUT", "DELETE", "PATCH"})
	}
	good := "Basic " + b64("admin:secret")
	if len(c.Users) > 0 {
		good = "Basic " + b64(string(c.Users[0][0])+":"+string(c.Users[0][1]))
	}
	pool := [][2]string{{"Origin", "https://app.example.com"}, {"Access-Control-Request-Method", "POST"},
		{"Access-Control-Request-Headers", "authorization"}, {"Upgrade", "websocket"}, {"Connection", "Upgrade"},
		{"X-Forwarded-User", "admin"}, {"X-Remote-User", "admin"}, {"Proxy-Authorization", good}, {"X-Authorization", good},
		{"Cookie", "session=1"}, {"X-Requested-With", "XMLHttpRequest"}, {"Sec-Fetch-Mode", "cors"}, {"Authorization", good},
		{"X-Health-Check", "1"}, {"User-Agent", "kube-probe/1.29"}, {"X-Forwarded-For", "127.0.0.1"}}
	switch r.Intn(3) {
	case 0: // a complete CORS preflight
		c.Method = "OPTIONS"
		c.Extra = [][2]string{pool[0], pool[1]}
		if r.Chance(1, 2) {
			c.Extra = append(c.Extra, pool[2])
		}
	default:
		for range r.Range(1, 3) {
			c.Extra = append(c.Extra, hx.Pick(r, pool))
		}
	}
}

// authValidator is the user-supplied validator of the Validator cases: the password must be the user name
// backwards followed by "!" (any user name).
func authValidator(u, p string) bool {
	b := []byte(u)
	for i, j := 0, len(b)-1; i < j; i, j = i+1, j-1 {
		b[i], b[j] = b[j], b[i]
	}
	return p == string(b)+"!"
}

var authSkipPool = []string{"/health", "/public/", "/reports/../health", "/p", "/a/b", "/"}
var authTargetPool = []string{"/health", "/health/", "/reports/../health", "/reports/%2e%2e/health", "/reports/%2E%2E/health", "//health",
	"/Health", "/public/../admin", "/public/", "/public", "/public/x", "/p", "/a/./b", "/a//b", "/a/b", "/a/b/../../health", "/./health", "/health?x=/public/", "/"}

var userPool = [][2]string{
	{"admin", "secret"}, {"user", "pass"}, {"", "empty-user"}, {"nopass", ""}, {"colon", "a:b:c"},
	{"ünï", "pässwörd"}, {"a:b", "x"}, {"Admin", "Secret"}, {"sp ace", "p w"}, {"bin", "\x00\xff"},
}

func b64(s string) string { return base64.StdEncoding.EncodeToString([]byte(s)) }

func genAuth(r *hx.Rand) *authCase {
	c := genAuth0(r)
	if r.Chance(1, 3) {
		genAuthExtras(r, c)
	}
	return c
}

func genAuth0(r *hx.Rand) *authCase {
	c := &authCase{Realm: B(hx.Pick(r, []string{"Restricted", "", "a\"b", "Admin Area"}))}
	if r.Chance(1, 5) {
		c.Validator = true
	}
	c.CtxDone = r.Chance(1, 6)
	if r.Chance(1, 4) {
		// skip paths and request paths that are equal only after cleaning / decoding / case folding
		for i, n := 0, r.Range(1, 3); i < n; i++ {
			c.Skip = append(c.Skip, hx.Pick(r, authSkipPool))
		}
		c.Target = hx.Pick(r, authTargetPool)
	}
	perm := append([][2]string(nil), userPool...)
	hx.Shuffle(r, perm)
	nu := r.Range(0, 5)
	for _, up := range perm[:nu] {
		c.Users = append(c.Users, [2]B{B(up[0]), B(up[1])})
	}
	// a credential: mostly a configured pair, sometimes a near miss
	cred := func() string {
		up := hx.Pick(r, userPool)
		if nu > 0 && r.Chance(3, 4) {
			up = perm[r.Intn(nu)]
		}
		u, p := up[0], up[1]
		switch r.Intn(14) {
		case 0:
			p += "x"
		case 1:
			u = strings.ToUpper(u)
		case 2:
			return u + p // no colon
		case 3:
			return u + ":" + p + ":" // extra colon at the end
		case 4:
			return ":" + p
		case 5:
			return u + ":"
		case 6:
			if len(p) > 0 {
				p = p[:len(p)-1]
			}
		case 7:
			return u + "::" + p
		case 8:
			// wrong password of the right length
			if len(p) > 0 {
				b := []byte(p)
				i := r.Intn(len(b))
				b[i] ^= byte(1 << uint(r.Intn(7)))
				p = string(b)
			}
		case 9:
			// another configured user's password
			if nu > 0 {
				p = perm[r.Intn(nu)][1]
			}
		}
		return u + ":" + p
	}
	if c.Validator && r.Chance(1, 2) {
		u := hx.Pick(r, []string{"admin", "bob", "", "a:b", "ünï"})
		rb := []byte(u)
		for i, j := 0, len(rb)-1; i < j; i, j = i+1, j-1 {
			rb[i], rb[j] = rb[j], rb[i]
		}
		ab := B("Basic " + b64(u+":"+string(rb)+"!"))
		c.Auth = &ab
		return c
	}
	var a string
	switch r.Intn(16) {
	case 0:
		c.Auth = nil
		return c
	case 1:
		a = ""
	case 2:
		a = hx.Pick(r, []string{"basic ", "BASIC ", "bASIC ", "Basic", "Basic\t", "Basic  ", " Basic ", "Bearer ", "Digest ", "Basi c "}) + b64(cred())
	case 3:
		a = "Basic " + strings.TrimRight(b64(cred()), "=") // unpadded
	case 4:
		a = "Basic " + base64.URLEncoding.EncodeToString([]byte(cred()))
	case 5:
		e := b64(cred())
		i := r.Intn(len(e) + 1)
		a = "Basic " + e[:i] + hx.Pick(r, []string{"\n", "\r\n", " ", "!", "=", "\x00", "é"}) + e[i:]
	case 6:
		a = "Basic " + hx.Pick(r, []string{"", "=", "====", "Og==", "Og", ":", "%3A", "YQ==", "YTpi", "YTpi\n"})
	case 7:
		a = "Basic " + b64(cred()) + hx.Pick(r, []string{" ", "\n", "=", ", Basic " + b64("admin:secret")})
	case 8:
		a = b64(cred())
	default:
		a = "Basic " + b64(cred())
	}
	ab := B(a)
	c.Auth = &ab
	return c
}

func (c *authCase) emit(id string, st *hx.Stats) string {
	users := map[string]string{}
	for _, up := range c.Users {
		users[string(up[0])] = string(up[1])
	}
	keys := make([]string, 0, len(users))
	for k := range users {
		keys = append(keys, k)
	}
	sort.Strings(keys)
	// the request, parsed by net/http itself; skip = the path is literally one of the configured skip paths
	target := c.Target
	if target == "" {
		target = "/p"
	}
	areq, rerr := http.ReadRequest(bufio.NewReader(strings.NewReader("GET " + target + " HTTP/1.1\r\nHost: site.example\r\n\r\n")))
	if rerr != nil {
		if st != nil {
			st.Count("A.discarded_unparsable_target")
		}
		return ""
	}
	skip := false
	for _, sp := range c.Skip {
		if sp == areq.URL.Path {
			skip = true
		}
	}
	l := hx.NewLine(id).Tok("A").Bool(skip).Nat(len(keys))
	for _, k := range keys {
		l.Str(k).Str(users[k])
	}
	l.Bytes(c.Realm)
	auth := ""
	if c.Auth != nil {
		auth = string(*c.Auth)
	}
	l.Str(auth)
	decOK := false
	if len(auth) >= 6 {
		if d, err := base64.StdEncoding.DecodeString(auth[6:]); err == nil {
			l.Bool(true).Bytes(d)
			decOK = true
		}
	}
	if !decOK {
		l.Bool(false)
	}
	if c.Validator {
		verdict := false
		if decOK {
			d, _ := base64.StdEncoding.DecodeString(auth[6:])
			if u, p, ok := strings.Cut(string(d), ":"); ok {
				verdict = authValidator(u, p)
			}
		}
		l.Bool(true).Bool(verdict)
	} else {
		l.Bool(false)
	}
	in := l.String()

	var ran bool
	var seenUser string
	rec := httptest.NewRecorder()
	panicked := guard(func() {
		r := router.MustNew()
		aopts := []basicauth.Option{basicauth.WithUsers(users), basicauth.WithRealm(string(c.Realm))}
		if c.Validator {
			aopts = append(aopts, basicauth.WithValidator(authValidator))
		}
		if c.CtxDone {
			r = router.MustNew(router.WithoutCancellationCheck())
			cctx, cancel := context.WithCancel(context.Background())
			cancel()
			areq = areq.WithContext(cctx)
		}
		if len(c.Skip) > 0 {
			aopts = append(aopts, basicauth.WithSkipPaths(c.Skip...))
		}
		r.Use(basicauth.New(aopts...))
		h := func(ctx *router.Context) {
			ran = true
			seenUser = basicauth.Username(ctx)
		}
		r.GET("/", h)
		r.GET("/*", h)
		for _, p := range []string{"/", "/*"} {
			r.POST(p, h)
			r.PUT(p, h)
			r.PATCH(p, h)
			r.DELETE(p, h)
			r.OPTIONS(p, h)
			r.HEAD(p, h)
		}
		req := areq
		if c.Method != "" {
			req.Method = c.Method
		}
		if c.Auth != nil {
			req.Header["Authorization"] = []string{auth}
		}
		for _, kv := range c.Extra {
			if c.Auth == nil && http.CanonicalHeaderKey(kv[0]) == "Authorization" {
				continue // the case is "no Authorization header"
			}
			// a second Authorization line goes AFTER the one the case is about (Header.Get reads the first)
			req.Header[http.CanonicalHeaderKey(kv[0])] = append(req.Header[http.CanonicalHeaderKey(kv[0])], kv[1])
		}
		r.ServeHTTP(rec, req)
	})
	l.Sep()
	if panicked {
		l.Tok("P")
	} else {
		l.Bool(ran).Nat(rec.Code)
		optStr(l, sent(rec).Values("WWW-Authenticate"))
		l.Str(seenUser)
	}
	if st != nil {
		canonical := ran || c.Auth == nil
		st.Case(in[len(id):], !canonical)
		switch {
		case c.Auth == nil:
			st.Count("A.no_header")
		case !strings.HasPrefix(auth, "Basic "):
			st.Count("A.other_prefix")
		case !decOK:
			st.Count("A.bad_base64")
		default:
			st.Count("A.decodes")
		}
		if ran {
			st.Count("A.ran")
		} else {
			st.Count("A.rejected")
		}
		if c.Validator {
			st.Count("A.with_validator")
		}
		if c.Method != "" || len(c.Extra) > 0 {
			st.Count("A.other_method_or_extra_headers")
		}
		if c.CtxDone {
			st.Count("A.request_context_already_cancelled")
		}
		if len(c.Skip) > 0 {
			st.Count("A.with_skip_paths")
			if skip {
				st.Count("A.path_is_a_skip_path")
			}
		}
	}
	return l.String() + hx.Comment(caseT{Kind: "A", Auth: c})
}

// ---------------------------------------------------------------------------------------------
// cors

type corsOpt struct {
	K string // O A M H E K X F
	L []B    `json:",omitempty"`
	B bool   `json:",omitempty"`
	N int    `json:",omitempty"`
}

type corsCase struct {
	Opts   []corsOpt
	Origin *B // nil = no header
	Method string
	// OwnHost: the request names the Origin's own host as its host (Host header and absolute-form target), HTTP10: as an
	// HTTP/1.0 request — being "same origin" by the request's own account is not a reason to emit the header
	OwnHost bool `json:",omitempty"`
	HTTP10  bool `json:",omitempty"`
}

var originPool = []string{
	"https://*.example.com", "https://evilexample.com", "https://evil-example.com", "https://a.example.com", "https://example.com", "*.example.com",
	"https://app.example.com", "https://evil.example.org", "http://app.example.com", "https://app.example.com:8443",
	"*", "null", "https://APP.example.com", "https://app.example.com/", " https://app.example.com", "https://sub.app.example.com",
	"https://xn--e1afmkfd.example", "file://", "https://app.example.com.evil.org", "https://例え.example", "\x00",
	"http://evil.test", "http://example.com", "http://evil.test:8080",
}

// the user-supplied origin function used whenever a case configures one
func originFn(o string) bool {
	return strings.HasSuffix(o, ".example.com") || o == "*" || o == "null"
}

func genCors(r *hx.Rand) *corsCase {
	c := &corsCase{Method: hx.Pick(r, []string{"GET", "GET", "POST", "OPTIONS", "OPTIONS"})}
	pickList := func(pool []string, maxN int) []B {
		n := r.Range(0, maxN)
		out := make([]B, n)
		for i := range out {
			out[i] = B(hx.Pick(r, pool))
		}
		return out
	}
	for i, n := 0, r.Range(0, 5); i < n; i++ {
		switch r.Intn(10) {
		case 0, 1, 2:
			c.Opts = append(c.Opts, corsOpt{K: "O", L: pickList(originPool, 3)})
		case 3, 4:
			c.Opts = append(c.Opts, corsOpt{K: "A", B: r.Chance(3, 4)})
		case 5, 6:
			c.Opts = append(c.Opts, corsOpt{K: "K", B: r.Chance(3, 4)})
		case 7:
			c.Opts = append(c.Opts, corsOpt{K: "F", B: r.Chance(4, 5)})
		case 8:
			switch r.Intn(3) {
			case 0:
				c.Opts = append(c.Opts, corsOpt{K: "M", L: pickList([]string{"GET", "PUT", "delete", ""}, 3)})
			case 1:
				c.Opts = append(c.Opts, corsOpt{K: "H", L: pickList([]string{"X-A", "Content-Type", ""}, 3)})
			default:
				c.Opts = append(c.Opts, corsOpt{K: "E", L: pickList([]string{"X-Request-Id", "ETag", ""}, 3)})
			}
		default:
			c.Opts = append(c.Opts, corsOpt{K: "X", N: hx.Pick(r, []int{0, 1, 600, 86400})})
		}
	}
	if !r.Chance(1, 10) {
		o := B(hx.Pick(r, originPool))
		if r.Chance(1, 12) {
			o = B("")
		}
		c.Origin = &o
	}
	if r.Chance(1, 8) {
		o := B(hx.Pick(r, []string{"http://evil.test", "http://example.com", "http://evil.test:8080", "http://app.example.com"}))
		c.Origin = &o
		c.OwnHost, c.HTTP10 = true, r.Chance(1, 2)
	}
	return c
}

func strs(l []B) []string {
	out := make([]string, len(l))
	for i, b := range l {
		out[i] = string(b)
	}
	return out
}

// sent returns the headers of the response as it was sent (the snapshot net/http takes at WriteHeader),
// not the recorder's live map: a header set after the status line never reaches a client.
func sent(rec *httptest.ResponseRecorder) http.Header { return rec.Result().Header }

// build renders the configuration tokens and the cors options; fn is the origin function used
// whenever the case configures one.
func (c *corsCase) build(id string, opts0 []corsOpt, fn func(string) bool) (l *hx.Line, opts []cors.Option, cred, all bool) {
	l = hx.NewLine(id).Tok("C").Nat(len(opts0))
	for _, o := range opts0 {
		l.Tok(o.K)
		switch o.K {
		case "O":
			l.Strs(strs(o.L))
			opts = append(opts, cors.WithAllowedOrigins(strs(o.L)...))
			all = false
		case "A":
			l.Bool(o.B)
			opts = append(opts, cors.WithAllowAllOrigins(o.B))
			all = o.B
		case "M":
			l.Strs(strs(o.L))
			opts = append(opts, cors.WithAllowedMethods(strs(o.L)...))
		case "H":
			l.Strs(strs(o.L))
			opts = append(opts, cors.WithAllowedHeaders(strs(o.L)...))
		case "E":
			l.Strs(strs(o.L))
			opts = append(opts, cors.WithExposedHeaders(strs(o.L)...))
		case "K":
			l.Bool(o.B)
			opts = append(opts, cors.WithAllowCredentials(o.B))
			cred = o.B
		case "X":
			l.Nat(o.N)
			opts = append(opts, cors.WithMaxAge(o.N))
		case "F":
			l.Bool(o.B)
			if o.B {
				opts = append(opts, cors.WithAllowOriginFunc(fn))
			} else {
				opts = append(opts, cors.WithAllowOriginFunc(nil))
			}
		}
	}
	return l, opts, cred, all
}

func corsRouter(opts []cors.Option, ran *bool) *router.Router {
	r := router.MustNew()
	r.Use(cors.New(opts...))
	h := func(ctx *router.Context) { *ran = true }
	r.GET("/c", h)
	r.POST("/c", h)
	r.OPTIONS("/c", h)
	return r
}

var corsHeaders = []string{"Access-Control-Allow-Origin", "Access-Control-Allow-Credentials", "Access-Control-Expose-Headers",
	"Access-Control-Allow-Methods", "Access-Control-Allow-Headers", "Access-Control-Max-Age"}

func corsObs(l *hx.Line, ran bool, rec *httptest.ResponseRecorder) {
	l.Bool(ran).Nat(rec.Code)
	h := sent(rec)
	for _, name := range corsHeaders {
		optStr(l, h.Values(name))
	}
}

func (c *corsCase) emit(id string, st *hx.Stats) string {
	l, opts, cred, all := c.build(id, c.Opts, originFn)
	origin := ""
	if c.Origin != nil {
		origin = string(*c.Origin)
	}
	l.Str(origin).Bool(originFn(origin)).Bool(c.Method == http.MethodOptions)
	in := l.String()

	var ran bool
	rec := httptest.NewRecorder()
	panicked := guard(func() {
		r := corsRouter(opts, &ran)
		req := httptest.NewRequest(c.Method, "/c", nil)
		if c.Origin != nil {
			req.Header["Origin"] = []string{origin}
		}
		if c.OwnHost {
			// the request names the Origin's host as its own (Host header / absolute-form target, HTTP/1.0 or 1.1)
			if u, err := url.Parse(origin); err == nil && u.Host != "" {
				req.Host = u.Host
				req.URL.Host, req.URL.Scheme = u.Host, u.Scheme
				if c.HTTP10 {
					req.Proto, req.ProtoMajor, req.ProtoMinor = "HTTP/1.0", 1, 0
				}
			}
		}
		r.ServeHTTP(rec, req)
	})
	l.Sep()
	if panicked {
		l.Tok("P")
	} else {
		corsObs(l, ran, rec)
	}
	if st != nil {
		st.Case(in[len(id):], origin != "https://app.example.com" || (cred && all))
		if cred && all {
			st.Count("C.allow_all+credentials")
		}
		if origin == "*" {
			st.Count("C.origin_literal_star")
		}
		if c.Method == http.MethodOptions {
			st.Count("C.preflight")
		}
		if len(sent(rec).Values("Access-Control-Allow-Origin")) > 0 {
			st.Count("C.acao_emitted")
		} else {
			st.Count("C.acao_absent")
		}
	}
	return l.String() + hx.Comment(caseT{Kind: "C", Cors: c})
}

// ---- sequences of requests on ONE middleware instance (kind Q in the comment; every request of the
// sequence is judged as an ordinary C case line: the middleware is specified to be stateless)

type seqReq struct {
	Origin B
	Method string
	// Fault injected into the user's origin function at its next call for this origin:
	// "block": the call blocks until the following request of the sequence has been answered
	//          (two overlapping requests); "panic": the call panics once (recovered by the harness,
	//          as a recovery middleware would; that request yields no case line)
	Fault string `json:",omitempty"`
}

type corsSeq struct {
	Opts []corsOpt
	Reqs []seqReq
	// AliasExtra: every origin list of Opts is passed to the middleware as a slice with spare capacity, and
	// after the instance has been built a SECOND instance is built from append(thatSlice, AliasExtra...) —
	// the two lists share one backing array (configuration code that derives lists from a common base)
	AliasExtra []B `json:",omitempty"`
}

func (q *corsSeq) emit(id string, st *hx.Stats) string {
	var (
		mu      sync.Mutex
		armed   = map[string]string{}
		entered chan struct{}
		release chan struct{}
	)
	policy := func(o string) bool {
		mu.Lock()
		f := armed[o]
		delete(armed, o)
		en, re := entered, release
		mu.Unlock()
		switch f {
		case "block":
			close(en)
			<-re
		case "panic":
			panic("origin lookup failed")
		}
		return originFn(o)
	}
	cc := &corsCase{}
	_, opts, _, _ := cc.build(id, q.Opts, policy)
	var aliased [][]string
	if len(q.AliasExtra) > 0 {
		// rebuild the origin-list options on slices with spare capacity
		opts = opts[:0]
		for _, o := range q.Opts {
			if o.K == "O" {
				base := make([]string, len(o.L), len(o.L)+len(q.AliasExtra)+2)
				copy(base, strs(o.L))
				aliased = append(aliased, base)
				opts = append(opts, cors.WithAllowedOrigins(base...))
				continue
			}
			_, one, _, _ := cc.build(id, []corsOpt{o}, policy)
			opts = append(opts, one...)
		}
	}
	r := router.MustNew()
	r.Use(cors.New(opts...))
	type ranKey struct{}
	h := func(ctx *router.Context) {
		if p, ok := ctx.Request.Context().Value(ranKey{}).(*bool); ok {
			*p = true
		}
	}
	r.GET("/c", h)
	r.POST("/c", h)
	r.OPTIONS("/c", h)
	for _, base := range aliased {
		// the second instance: its list extends the first one's in the same backing array
		_ = cors.New(cors.WithAllowedOrigins(append(base, strs(q.AliasExtra)...)...))
	}

	type resT struct {
		ran      bool
		rec      *httptest.ResponseRecorder
		panicked bool
	}
	res := make([]*resT, len(q.Reqs))
	serve := func(i int) {
		rq := q.Reqs[i]
		out := &resT{rec: httptest.NewRecorder()}
		res[i] = out
		out.panicked = guard(func() {
			req := httptest.NewRequest(rq.Method, "/c", nil)
			req.Header["Origin"] = []string{string(rq.Origin)}
			req = req.WithContext(context.WithValue(req.Context(), ranKey{}, &out.ran))
			r.ServeHTTP(out.rec, req)
		})
	}
	overlapped := false
	for i := 0; i < len(q.Reqs); i++ {
		rq := q.Reqs[i]
		switch rq.Fault {
		case "block":
			mu.Lock()
			armed[string(rq.Origin)] = "block"
			entered, release = make(chan struct{}), make(chan struct{})
			en, re := entered, release
			mu.Unlock()
			done := make(chan struct{})
			go func(i int) { defer close(done); serve(i) }(i)
			select {
			case <-en: // request i is inside the origin function
				if i+1 < len(q.Reqs) {
					i++
					serve(i)
					overlapped = true
				}
				close(re)
				<-done
			case <-done: // the configuration never asked the origin function
				mu.Lock()
				delete(armed, string(rq.Origin))
				mu.Unlock()
			}
		case "panic":
			mu.Lock()
			armed[string(rq.Origin)] = "panic"
			mu.Unlock()
			serve(i)
			mu.Lock()
			delete(armed, string(rq.Origin))
			mu.Unlock()
		default:
			serve(i)
		}
	}
	var lines []string
	for i, rq := range q.Reqs {
		out := res[i]
		if out == nil || (out.panicked && rq.Fault == "panic") {
			continue // the injected fault itself is not a case
		}
		l, _, _, _ := cc.build(fmt.Sprintf("%s.q%d", id, i), q.Opts, originFn)
		origin := string(rq.Origin)
		l.Str(origin).Bool(originFn(origin)).Bool(rq.Method == http.MethodOptions)
		l.Sep()
		if out.panicked {
			l.Tok("P")
		} else {
			corsObs(l, out.ran, out.rec)
		}
		lines = append(lines, l.String()+hx.Comment(caseT{Kind: "Q", Seq: q}))
	}
	if st != nil {
		b, _ := json.Marshal(q)
		st.Case(string(b), true)
		st.Count("C.sequence_on_one_instance")
		if len(q.AliasExtra) > 0 {
			st.Count("C.second_instance_built_from_an_aliasing_origin_list")
		}
		if overlapped {
			st.Count("C.request_served_while_another_is_inside_the_origin_function")
		}
	}
	return strings.Join(lines, "\n")
}

func genCorsSeq(r *hx.Rand) *corsSeq {
	q := &corsSeq{}
	if r.Chance(3, 4) {
		q.Opts = append(q.Opts, corsOpt{K: "F", B: true})
	}
	base := genCors(r)
	for _, o := range base.Opts {
		if o.K == "A" && o.B && r.Chance(3, 4) {
			continue // allow-all hides the origin decision
		}
		q.Opts = append(q.Opts, o)
	}
	if r.Chance(2, 3) {
		q.Opts = append(q.Opts, corsOpt{K: "K", B: true})
	}
	if r.Chance(1, 2) {
		q.Opts = append(q.Opts, corsOpt{K: "F", B: true})
	}
	if r.Chance(1, 3) {
		// an origin list, and a second instance whose list extends it with origins that sort in front
		q.Opts = []corsOpt{{K: "O", L: []B{B("https://m.example.com"), B("https://z.example.com"), B("https://app.example.com")}[:r.Range(1, 3)]}}
		if r.Chance(1, 2) {
			q.Opts = append(q.Opts, corsOpt{K: "K", B: true})
		}
		q.AliasExtra = []B{B("https://admin.example.com"), B("https://a.example.com"), B("http://b.test")}[:r.Range(1, 3)]
		for i, n := 0, r.Range(2, 5); i < n; i++ {
			q.Reqs = append(q.Reqs, seqReq{Origin: B(hx.Pick(r, []string{"https://admin.example.com", "https://a.example.com", "https://m.example.com",
				"https://z.example.com", "https://app.example.com", "http://b.test"})), Method: hx.Pick(r, []string{"GET", "OPTIONS"})})
		}
		return q
	}
	good := []string{"https://app.example.com", "https://sub.app.example.com", "null"}
	evil := []string{"https://evil.example.org", "https://app.example.com.evil.org", "http://b.test", "https://app.example.com:8443"}
	meth := func() string { return hx.Pick(r, []string{"GET", "GET", "POST", "OPTIONS"}) }
	for i, n := 0, r.Range(0, 2); i < n; i++ {
		q.Reqs = append(q.Reqs, seqReq{Origin: B(hx.Pick(r, append(good, evil...))), Method: meth()})
	}
	q.Reqs = append(q.Reqs, seqReq{Origin: B(hx.Pick(r, good)), Method: meth()})
	e := hx.Pick(r, evil)
	q.Reqs = append(q.Reqs, seqReq{Origin: B(e), Method: meth(), Fault: hx.Pick(r, []string{"block", "panic", "block", ""})})
	q.Reqs = append(q.Reqs, seqReq{Origin: B(e), Method: meth()})
	for i, n := 0, r.Range(0, 2); i < n; i++ {
		q.Reqs = append(q.Reqs, seqReq{Origin: B(hx.Pick(r, append(good, evil...))), Method: meth(), Fault: hx.Pick(r, []string{"", "", "block", "panic"})})
	}
	return q
}

// ---------------------------------------------------------------------------------------------
// methodoverride

type methOpt struct {
	K string // H Q A O B C
	S B      `json:",omitempty"`
	L []B    `json:",omitempty"`
	B bool   `json:",omitempty"`
}

type methodCase struct {
	// Stack: options of a SECOND instance mounted after the first one (router mode only)
	Stack    []methOpt `json:",omitempty"`
	Opts     []methOpt
	Method   string
	Direct   bool // call the middleware on a bare router.Context (any method string) instead of through a router
	Hdr      map[string]B
	RawQuery B
	CLen     int64
}

var stdMethods = []string{"GET", "POST", "PUT", "PATCH", "DELETE", "HEAD", "OPTIONS"}
var oddMethods = []string{"post", "Post", "poſt", "POST ", "", "BREW", "pOsT", "get"}
var overrideVals = []string{"DELETE", "delete", "Delete", " PUT ", "\tpatch\n", "PATCH", "put", "GET", "POST", "TRACE", "CONNECT", "", " ", "DELETE,PUT",
	"deleteı", "ſ", "PUT\x00", "dElEtE", "HEAD", "OPTIONS", "BREW", "  "}
var hdrNamePool = []string{"X-HTTP-Method-Override", "X-Method", "x-http-method", "X-HTTP-Method"}
var qryNamePool = []string{"_method", "method", "m", ""}

func genMethod(r *hx.Rand) *methodCase {
	c := &methodCase{Hdr: map[string]B{}}
	mlist := func() []B {
		n := r.Range(0, 4)
		out := make([]B, n)
		for i := range out {
			out[i] = B(hx.Pick(r, []string{"PUT", "PATCH", "DELETE", "delete", "Put", "POST", "post", "GET", "", "BREW", "poſt", "TRACE"}))
		}
		return out
	}
	for i, n := 0, r.Range(0, 4); i < n; i++ {
		switch r.Intn(8) {
		case 0:
			c.Opts = append(c.Opts, methOpt{K: "H", S: B(hx.Pick(r, hdrNamePool))})
		case 1:
			c.Opts = append(c.Opts, methOpt{K: "Q", S: B(hx.Pick(r, qryNamePool))})
		case 2, 3:
			c.Opts = append(c.Opts, methOpt{K: "A", L: mlist()})
		case 4, 5:
			c.Opts = append(c.Opts, methOpt{K: "O", L: mlist()})
		case 6:
			c.Opts = append(c.Opts, methOpt{K: "B", B: r.Chance(2, 3)})
		default:
			c.Opts = append(c.Opts, methOpt{K: "C", B: r.Chance(1, 2)})
		}
	}
	if r.Chance(1, 6) {
		// a second instance behind the first, with its own header / lists
		c.Stack = []methOpt{{K: "H", S: B(hx.Pick(r, hdrNamePool))}}
		if r.Chance(1, 2) {
			c.Stack = append(c.Stack, methOpt{K: "A", L: mlist()})
		}
		if r.Chance(1, 3) {
			c.Stack = append(c.Stack, methOpt{K: "O", L: mlist()})
		}
	}
	if len(c.Stack) == 0 && r.Chance(1, 4) {
		c.Direct = true
		c.Method = hx.Pick(r, append(append([]string(nil), oddMethods...), stdMethods...))
	} else if r.Chance(2, 3) {
		c.Method = "POST"
	} else {
		c.Method = hx.Pick(r, stdMethods)
	}
	for _, h := range hdrNamePool {
		if r.Chance(1, 2) {
			c.Hdr[h] = B(hx.Pick(r, overrideVals))
		}
	}
	q := url.Values{}
	for _, p := range qryNamePool {
		if r.Chance(1, 3) {
			q.Add(p, hx.Pick(r, overrideVals))
			if r.Chance(1, 5) {
				q.Add(p, hx.Pick(r, overrideVals))
			}
		}
	}
	c.RawQuery = B(q.Encode())
	if r.Chance(1, 10) {
		c.RawQuery = B(hx.Pick(r, []string{"_method=%zz", "_method", "_method=DELETE;x=1", "_method=a&_method=DELETE", "%5Fmethod=PUT", "_method=PUT+"}))
	}
	if r.Chance(1, 5) {
		// look-alikes of the override parameter: names that END in a parameter name a configuration can ask
		// for, the text `name=` inside another parameter's value, repeated and percent-encoded occurrences —
		// all carrying methods an allow-list may contain; usually no override header, so the query decides
		name := hx.Pick(r, []string{"_method", "_method", "method", "m"})
		for _, o := range c.Opts {
			if o.K == "Q" && len(o.S) > 0 && r.Chance(2, 3) {
				name = string(o.S)
			}
		}
		v := func() string {
			return hx.Pick(r, []string{"PUT", "put", "DELETE", "delete", "PATCH", "Patch", "TRACE", "GET", "POST"})
		}
		pre := hx.Pick(r, []string{"payment", "http", "x", "old", "form", "_", "%5F", "a.b", "return"})
		var parts []string
		for i, n := 0, r.Range(1, 3); i < n; i++ {
			switch r.Intn(8) {
			case 0, 1, 2:
				parts = append(parts, pre+name+"="+v()) // longer key ending in the name
			case 3:
				parts = append(parts, "return_to=/items/7?"+name+"="+v()) // inside a value, unescaped
			case 4:
				parts = append(parts, "next="+url.QueryEscape("/x?"+name+"="+v())) // inside a value, escaped
			case 5:
				parts = append(parts, name+"="+v()) // the real parameter
			case 6:
				parts = append(parts, url.QueryEscape(name)+"="+url.QueryEscape(" "+v()+" "), strings.ToUpper(name)+"="+v())
			default:
				parts = append(parts, name+"x="+v(), "q="+name)
			}
		}
		c.RawQuery = B(strings.Join(parts, hx.Pick(r, []string{"&", "&", ";"})))
		if r.Chance(4, 5) {
			c.Hdr = map[string]B{}
		}
		if r.Chance(3, 4) {
			c.Method = "POST"
			c.Direct = false
		}
	}
	if r.Chance(1, 12) {
		// header and query parameter disagree: one names a method the allow-list refuses (or nothing usable), the other
		// an allowed one — the header alone decides when it is not empty
		bad := hx.Pick(r, []string{"TRACE", "CONNECT", "GET", "trace", " ", "PU T", "DELETE,PUT", "OPTIONS"})
		good := hx.Pick(r, []string{"DELETE", "PUT", "PATCH", "delete", " put "})
		hv, qv := bad, good
		if r.Chance(1, 3) {
			hv, qv = good, bad
		}
		c.Hdr = map[string]B{"X-HTTP-Method-Override": B(hv)}
		c.RawQuery = B("_method=" + url.QueryEscape(qv))
		c.Method = "POST"
		c.Direct = false
	}
	c.CLen = int64(hx.Pick(r, []int{0, 0, 5, -1}))
	return c
}

// methLine renders one method-override instance's configuration, the method it finds on the request, the
// original-method mark an outer instance left in the context and the parameter tables (evaluated with the
// real library functions on the request).
func methLine(id string, mopts []methOpt, method, ctxOrig string, req *http.Request) (*hx.Line, []methodoverride.Option) {
	l := hx.NewLine(id).Tok("M").Nat(len(mopts))
	var opts []methodoverride.Option
	hdrNames := map[string]bool{"X-HTTP-Method-Override": true}
	qryNames := map[string]bool{"_method": true}
	methods := map[string]bool{method: true, "PUT": true, "PATCH": true, "DELETE": true, "POST": true}
	for _, o := range mopts {
		l.Tok(o.K)
		switch o.K {
		case "H":
			l.Bytes(o.S)
			opts = append(opts, methodoverride.WithHeader(string(o.S)))
			hdrNames[string(o.S)] = true
		case "Q":
			l.Bytes(o.S)
			opts = append(opts, methodoverride.WithQueryParam(string(o.S)))
			qryNames[string(o.S)] = true
		case "A":
			l.Strs(strs(o.L))
			opts = append(opts, methodoverride.WithAllow(strs(o.L)...))
			for _, m := range o.L {
				methods[string(m)] = true
			}
		case "O":
			l.Strs(strs(o.L))
			opts = append(opts, methodoverride.WithOnlyOn(strs(o.L)...))
			for _, m := range o.L {
				methods[string(m)] = true
			}
		case "B":
			l.Bool(o.B)
			opts = append(opts, methodoverride.WithRespectBody(o.B))
		case "C":
			l.Bool(o.B)
			opts = append(opts, methodoverride.WithRequireCSRFToken(o.B))
		}
	}
	l.Str(method).Str(ctxOrig).Bool(false).Bool(req.ContentLength == 0)
	sorted := func(m map[string]bool) []string {
		out := make([]string, 0, len(m))
		for k := range m {
			out = append(out, k)
		}
		sort.Strings(out)
		return out
	}
	vals := map[string]bool{}
	hn := sorted(hdrNames)
	l.Nat(len(hn))
	for _, h := range hn {
		v := req.Header.Get(h)
		l.Str(h).Str(v)
		vals[v] = true
	}
	qn := sorted(qryNames)
	l.Nat(len(qn))
	for _, p := range qn {
		v := req.URL.Query().Get(p)
		l.Str(p).Str(v)
		vals[v] = true
	}
	ms := sorted(methods)
	l.Nat(len(ms))
	for _, m := range ms {
		l.Str(m).Str(strings.ToUpper(m))
	}
	vs := sorted(vals)
	l.Nat(len(vs))
	for _, v := range vs {
		l.Str(v).Str(strings.ToUpper(strings.TrimSpace(v)))
	}
	return l, opts
}

func (c *methodCase) emit(id string, st *hx.Stats) string {
	// the request
	req := httptest.NewRequest(http.MethodGet, "/m", nil)
	req.Method = c.Method
	req.URL.RawQuery = string(c.RawQuery)
	req.ContentLength = c.CLen
	for k, v := range c.Hdr {
		req.Header.Set(k, string(v))
	}
	if len(c.Stack) > 0 && !c.Direct {
		return c.emitStacked(id, st, req)
	}
	l, opts := methLine(id, c.Opts, c.Method, "", req)
	in := l.String()

	var ran bool
	var seen, orig string
	panicked := guard(func() {
		mw := methodoverride.New(opts...)
		if c.Direct {
			ctx := router.NewContext(httptest.NewRecorder(), req)
			mw(ctx)
			ran = !ctx.IsAborted()
			seen = ctx.Request.Method
			orig = methodoverride.OriginalMethod(ctx)
			return
		}
		r := router.MustNew()
		r.Use(mw)
		h := func(ctx *router.Context) {
			ran = true
			seen = ctx.Request.Method
			orig = methodoverride.OriginalMethod(ctx)
		}
		r.GET("/m", h)
		r.POST("/m", h)
		r.PUT("/m", h)
		r.PATCH("/m", h)
		r.DELETE("/m", h)
		r.HEAD("/m", h)
		r.OPTIONS("/m", h)
		r.ServeHTTP(httptest.NewRecorder(), req)
	})
	l.Sep()
	if panicked {
		l.Tok("P")
	} else {
		l.Bool(ran).Str(seen).Str(orig)
	}
	if st != nil {
		hv := string(c.Hdr["X-HTTP-Method-Override"])
		canonical := len(c.Opts) == 0 && c.Method == "POST" && (hv == "DELETE" || hv == "PUT" || hv == "PATCH")
		st.Case(in[len(id):], !canonical)
		if seen != c.Method {
			st.Count("M.overridden")
		} else {
			st.Count("M.kept")
		}
		if c.Direct {
			st.Count("M.direct_context")
		}
	}
	return l.String() + hx.Comment(caseT{Kind: "M", Meth: c})
}

// methodPar (kind P): G goroutines send their requests at the same time through ONE methodoverride.New instance (and one
// router); every request is an ordinary M case line judged on its own — the middleware is specified per request, so what
// one request is rewritten to must not depend on the others. Lines that are identical (same input, same observation)
// are printed once.
type methodPar struct {
	Opts []methOpt
	Reqs []parReq
	G, K int
}

type parReq struct {
	Method string
	Hdr    B `json:",omitempty"`
	Query  B `json:",omitempty"`
}

func genMethodPar(r *hx.Rand) *methodPar {
	q := &methodPar{G: r.Range(6, 12), K: r.Range(40, 120)}
	if r.Chance(1, 3) {
		q.Opts = []methOpt{{K: "A", L: []B{B("PUT"), B("DELETE")}}}
	}
	pool := []parReq{{Method: "POST", Hdr: B("DELETE")}, {Method: "POST", Hdr: B("TRACE")}, {Method: "GET", Hdr: B("DELETE")},
		{Method: "POST", Hdr: B("PUT")}, {Method: "POST"}, {Method: "PUT", Hdr: B("PATCH")}, {Method: "POST", Query: B("_method=PATCH")},
		{Method: "DELETE"}, {Method: "POST", Hdr: B("CONNECT")}, {Method: "HEAD", Hdr: B("PUT")}}
	for _, i := range []int{0, 1, 2} {
		q.Reqs = append(q.Reqs, pool[i])
	}
	for range r.Range(1, 4) {
		q.Reqs = append(q.Reqs, hx.Pick(r, pool))
	}
	return q
}

func (q *methodPar) emit(id string, st *hx.Stats) string {
	type obsT struct {
		ran        bool
		seen, orig string
	}
	mkReq := func(p parReq) *http.Request {
		req := httptest.NewRequest(http.MethodGet, "/m", nil)
		req.Method = p.Method
		req.URL.RawQuery = string(p.Query)
		req.ContentLength = 5
		if p.Hdr != nil {
			req.Header.Set("X-HTTP-Method-Override", string(p.Hdr))
		}
		return req
	}
	_, opts := methLine(id, q.Opts, "POST", "", mkReq(parReq{Method: "POST"}))
	r := router.MustNew()
	r.Use(methodoverride.New(opts...))
	type key struct{}
	h := func(ctx *router.Context) {
		o := ctx.Request.Context().Value(key{}).(*obsT)
		o.ran, o.seen, o.orig = true, ctx.Request.Method, methodoverride.OriginalMethod(ctx)
	}
	for _, reg := range []func(string, ...router.HandlerFunc) any{
		func(p string, hs ...router.HandlerFunc) any { return r.GET(p, hs...) }, func(p string, hs ...router.HandlerFunc) any { return r.POST(p, hs...) },
		func(p string, hs ...router.HandlerFunc) any { return r.PUT(p, hs...) }, func(p string, hs ...router.HandlerFunc) any { return r.PATCH(p, hs...) },
		func(p string, hs ...router.HandlerFunc) any { return r.DELETE(p, hs...) }, func(p string, hs ...router.HandlerFunc) any { return r.HEAD(p, hs...) },
		func(p string, hs ...router.HandlerFunc) any { return r.OPTIONS(p, hs...) }} {
		reg("/m", h)
	}
	results := make([][]obsT, q.G)
	var wg sync.WaitGroup
	start := make(chan struct{})
	for g := 0; g < q.G; g++ {
		results[g] = make([]obsT, q.K)
		wg.Add(1)
		go func(g int) {
			defer wg.Done()
			<-start
			for j := 0; j < q.K; j++ {
				p := q.Reqs[(g+j)%len(q.Reqs)]
				req := mkReq(p)
				o := &results[g][j]
				req = req.WithContext(context.WithValue(req.Context(), key{}, o))
				guard(func() { r.ServeHTTP(httptest.NewRecorder(), req) })
			}
		}(g)
	}
	close(start)
	wg.Wait()
	seenLine := map[string]bool{}
	var lines []string
	n := 0
	for g := 0; g < q.G; g++ {
		for j := 0; j < q.K; j++ {
			p := q.Reqs[(g+j)%len(q.Reqs)]
			o := results[g][j]
			l, _ := methLine("", q.Opts, p.Method, "", mkReq(p))
			body := l.Sep().Bool(o.ran).Str(o.seen).Str(o.orig).String()
			if seenLine[body] {
				continue
			}
			seenLine[body] = true
			lines = append(lines, fmt.Sprintf("%s.p%d", id, n)+body+hx.Comment(caseT{Kind: "P", MPar: q}))
			n++
		}
	}
	if st != nil {
		b, _ := json.Marshal(q)
		st.Case(string(b), true)
		st.Count("M.parallel_groups")
	}
	return strings.Join(lines, "\n")
}

// authOverlap (kind V): basicauth.New with a validator on ONE instance; the genuine request of a user is inside the
// validator (it blocks there) while a request of the same user with a wrong password arrives; both are ordinary A case
// lines judged on their own.
type authOverlap struct {
	User, Pass, Wrong string
}

func (q *authOverlap) emit(id string, st *hx.Stats) string {
	entered := make(chan struct{}, 4)
	release := make(chan struct{})
	validator := func(u, p string) bool {
		if u == q.User && p == q.Pass {
			entered <- struct{}{}
			<-release
			return true
		}
		return false
	}
	r := router.MustNew()
	r.Use(basicauth.New(basicauth.WithValidator(validator), basicauth.WithRealm("Restricted")))
	type obsT struct {
		ran  bool
		user string
	}
	type key struct{}
	r.GET("/p", func(ctx *router.Context) {
		o := ctx.Request.Context().Value(key{}).(*obsT)
		o.ran, o.user = true, basicauth.Username(ctx)
	})
	run := func(pass string) (obsT, *httptest.ResponseRecorder) {
		var o obsT
		rec := httptest.NewRecorder()
		req := httptest.NewRequest(http.MethodGet, "/p", nil)
		req.Header.Set("Authorization", "Basic "+b64(q.User+":"+pass))
		req = req.WithContext(context.WithValue(req.Context(), key{}, &o))
		guard(func() { r.ServeHTTP(rec, req) })
		return o, rec
	}
	type resT struct {
		o   obsT
		rec *httptest.ResponseRecorder
	}
	good := make(chan resT, 1)
	bad := make(chan resT, 1)
	go func() { o, rec := run(q.Pass); good <- resT{o, rec} }()
	<-entered
	go func() { o, rec := run(q.Wrong); bad <- resT{o, rec} }()
	var b resT
	select {
	case b = <-bad: // answered while the genuine request is still being validated
		close(release)
	case <-time.After(50 * time.Millisecond): // it waits for the other request's verdict: let that one finish
		close(release)
		b = <-bad
	}
	g := <-good
	line := func(sfx, pass string, verdict bool, x resT) string {
		l := hx.NewLine(id + sfx).Tok("A").Bool(false).Nat(0).Str("Restricted")
		auth := "Basic " + b64(q.User+":"+pass)
		l.Str(auth).Bool(true).Str(q.User + ":" + pass).Bool(true).Bool(verdict)
		l.Sep().Bool(x.o.ran).Nat(x.rec.Code)
		optStr(l, sent(x.rec).Values("WWW-Authenticate"))
		l.Str(x.o.user)
		return l.String() + hx.Comment(caseT{Kind: "V", AOv: q})
	}
	if st != nil {
		st.Case(fmt.Sprint(*q), true)
		st.Count("A.overlap_same_user_validator")
	}
	return line(".v0", q.Pass, true, g) + "\n" + line(".v1", q.Wrong, false, b)
}

// authStack (kind S): two basicauth instances on one route with different user tables (router-wide, then route-level).
// Each instance is judged on its own as an ordinary A line: the outer one by whether the chain went on behind it, the inner
// one — reached only when the outer one accepted — by what the terminal handler saw. That an earlier instance has put a
// user name into the request context is not an input of the model.
type authStack struct {
	Outer, Inner [][2]B
	Auth         B
}

func authInput(id string, users [][2]B, realm, auth string) *hx.Line {
	m := map[string]string{}
	for _, up := range users {
		m[string(up[0])] = string(up[1])
	}
	keys := make([]string, 0, len(m))
	for k := range m {
		keys = append(keys, k)
	}
	sort.Strings(keys)
	l := hx.NewLine(id).Tok("A").Bool(false).Nat(len(keys))
	for _, k := range keys {
		l.Str(k).Str(m[k])
	}
	l.Str(realm).Str(auth)
	if len(auth) >= 6 {
		if d, err := base64.StdEncoding.DecodeString(auth[6:]); err == nil {
			return l.Bool(true).Bytes(d).Bool(false)
		}
	}
	return l.Bool(false).Bool(false)
}

func usersMap(users [][2]B) map[string]string {
	m := map[string]string{}
	for _, up := range users {
		m[string(up[0])] = string(up[1])
	}
	return m
}

func (q *authStack) emit(id string, st *hx.Stats) string {
	var reachedInner, ran bool
	var userAtProbe, userAtHandler string
	rec := httptest.NewRecorder()
	r := router.MustNew()
	r.Use(basicauth.New(basicauth.WithUsers(usersMap(q.Outer)), basicauth.WithRealm("outer")))
	probe := func(c *router.Context) { reachedInner, userAtProbe = true, basicauth.Username(c); c.Next() }
	inner := basicauth.New(basicauth.WithUsers(usersMap(q.Inner)), basicauth.WithRealm("inner"))
	r.GET("/p", probe, inner, func(c *router.Context) { ran, userAtHandler = true, basicauth.Username(c) })
	req := httptest.NewRequest(http.MethodGet, "/p", nil)
	req.Header.Set("Authorization", string(q.Auth))
	if guard(func() { r.ServeHTTP(rec, req) }) {
		return ""
	}
	www := sent(rec).Values("WWW-Authenticate")
	l1 := authInput(id+".s0", q.Outer, "outer", string(q.Auth)).Sep()
	if reachedInner {
		l1.Bool(true).Nat(200).Bool(false).Str(userAtProbe)
	} else {
		l1.Bool(false).Nat(rec.Code)
		optStr(l1, www)
		l1.Str("")
	}
	out := l1.String() + hx.Comment(caseT{Kind: "S", AStk: q})
	if reachedInner {
		l2 := authInput(id+".s1", q.Inner, "inner", string(q.Auth)).Sep()
		if ran {
			l2.Bool(true).Nat(200).Bool(false).Str(userAtHandler)
		} else {
			l2.Bool(false).Nat(rec.Code)
			optStr(l2, www)
			l2.Str("")
		}
		out += "\n" + l2.String() + hx.Comment(caseT{Kind: "S", AStk: q})
	}
	if st != nil {
		b, _ := json.Marshal(q)
		st.Case(string(b), true)
		st.Count("A.two_stacked_instances")
	}
	return out
}

func genAuthStack(r *hx.Rand) *authStack {
	pool := [][2]B{{B("admin"), B("secret")}, {B("alice"), B("wonder")}, {B("bob"), B("builder")}, {B("admin"), B("other")}, {B("root"), B("toor")}}
	q := &authStack{}
	for _, up := range pool {
		if r.Chance(1, 2) {
			q.Outer = append(q.Outer, up)
		}
		if r.Chance(1, 2) {
			q.Inner = append(q.Inner, up)
		}
	}
	if len(q.Outer) == 0 {
		q.Outer = pool[:2]
	}
	who := hx.Pick(r, q.Outer)
	q.Auth = B("Basic " + b64(string(who[0])+":"+string(who[1])))
	return q
}

// emitStacked: two method-override instances mounted one after the other (c.Opts, then c.Stack) with a probe
// between them. Two ordinary case lines: the first instance on the request as sent (what the probe saw), the
// second instance on what it found (method = what the probe saw; the first instance's recorded original in
// the context) judged by what the terminal handler saw.
func (c *methodCase) emitStacked(id string, st *hx.Stats, req *http.Request) string {
	l1, opts1 := methLine(id, c.Opts, c.Method, "", req)
	var ran1, ran2 bool
	var seen1, orig1, seen2, orig2 string
	_, opts2 := methLine(id, c.Stack, "", "", req)
	panicked := guard(func() {
		r := router.MustNew()
		r.Use(methodoverride.New(opts1...))
		r.Use(func(ctx *router.Context) {
			ran1, seen1, orig1 = true, ctx.Request.Method, methodoverride.OriginalMethod(ctx)
			ctx.Next()
		})
		r.Use(methodoverride.New(opts2...))
		h := func(ctx *router.Context) {
			ran2, seen2, orig2 = true, ctx.Request.Method, methodoverride.OriginalMethod(ctx)
		}
		r.GET("/m", h)
		r.POST("/m", h)
		r.PUT("/m", h)
		r.PATCH("/m", h)
		r.DELETE("/m", h)
		r.HEAD("/m", h)
		r.OPTIONS("/m", h)
		r.ServeHTTP(httptest.NewRecorder(), req)
	})
	req.Method = c.Method // the middleware rewrote it on the shared request: the tables below are about the original request
	ctxOrig := ""
	if seen1 != c.Method {
		ctxOrig = orig1
	}
	l2, _ := methLine(id+".s2", c.Stack, seen1, ctxOrig, req)
	in := l1.String() + l2.String()
	l1.Sep()
	l2.Sep()
	if panicked {
		l1.Tok("P")
		l2.Tok("P")
	} else {
		l1.Bool(ran1).Str(seen1).Str(orig1)
		l2.Bool(ran2).Str(seen2).Str(orig2)
	}
	if st != nil {
		st.Case(in, true)
		st.Count("M.two_stacked_instances")
		if seen1 != c.Method && seen2 != seen1 {
			st.Count("M.both_stacked_instances_rewrote")
		}
	}
	cm := hx.Comment(caseT{Kind: "M", Meth: c})
	return l1.String() + cm + "\n" + l2.String() + cm
}

// ---------------------------------------------------------------------------------------------
// trailingslash

type slashCase struct {
	Variant string // N = trailingslash.New on a router, W = trailingslash.Wrap
	Policy  int
	Target  B // request target as sent on the request line (parsed by http.ReadRequest) …
	Path    B // … or, when Target is empty, a URL built directly with this Path (a rewriting middleware upstream)
	Query   B
	// Extra request headers a client (or a proxy) may send: forwarded prefix / host / proto, rewrite headers, another
	// Host — the Location depends on the request's own URL only, none of them is an input of the model
	Extra [][2]string `json:",omitempty"`
	// HTTP10: the request line says HTTP/1.0; Host: the Host header ("" = site.example)
	HTTP10 bool   `json:",omitempty"`
	Host   string `json:",omitempty"`
}

var slashExtraPool = [][2]string{{"X-Forwarded-Prefix", "/\\evil.example"}, {"X-Forwarded-Prefix", "//evil.example"}, {"X-Forwarded-Prefix", "/app"},
	{"X-Forwarded-Prefix", "https://evil.example"}, {"X-Forwarded-Host", "evil.example"}, {"X-Forwarded-Proto", "https"},
	{"X-Forwarded-Proto", "javascript"}, {"X-Original-URL", "//evil.example/"}, {"X-Rewrite-URL", "/\\evil.example/"},
	{"Forwarded", "host=evil.example;proto=https"}, {"X-Forwarded-Path", "//evil.example"}, {"X-Forwarded-Uri", "//evil.example/x/"},
	{"Referer", "https://evil.example/"}, {"Origin", "https://evil.example"}, {"X-Forwarded-Port", "8443"}, {"X-Script-Name", "/\\evil.example"}}

var segPool = []string{"a", "users", "evil.com", "", "", ".", "..", "%2f", "%2F", "%5c", "%5C", "\\", "a:b", "x y", "%20", "%", "%zz", "é", "%c3%a9", "*", "@", "a;b", "%00", "%09", "%3F", "%23", "#", "~", "+", "%2e%2e"}

func genSlash(r *hx.Rand) *slashCase {
	c := &slashCase{Variant: hx.Pick(r, []string{"N", "W"}), Policy: hx.Pick(r, []int{0, 0, 0, 1, 1, 1, 2, 3})}
	if r.Chance(1, 4) {
		for range r.Range(1, 2) {
			c.Extra = append(c.Extra, hx.Pick(r, slashExtraPool))
		}
	}
	if r.Chance(1, 6) {
		c.HTTP10 = r.Chance(2, 3)
		c.Host = hx.Pick(r, []string{"evil.test", "evil.test:8080", "", "site.example", "a.b.evil.test"})
	}
	n := r.Range(0, 4)
	var b strings.Builder
	for i := 0; i < n; i++ {
		b.WriteString(hx.Pick(r, []string{"/", "/", "/", "//", "/\\", "/%2f", "/%5C"}))
		b.WriteString(hx.Pick(r, segPool))
	}
	if r.Chance(1, 2) {
		b.WriteString("/")
	}
	p := b.String()
	if p == "" || p[0] != '/' {
		p = "/" + p
	}
	if r.Chance(1, 10) {
		// directly constructed URL.Path: any bytes, not necessarily rooted
		raw := strings.ReplaceAll(p, "%", "")
		if r.Chance(1, 3) {
			raw = strings.TrimLeft(raw, "/")
		}
		if r.Chance(1, 4) {
			raw += hx.Pick(r, []string{"\t", "\n", " ", "\x7f", "?", "\\"}) + "/"
		}
		c.Path = B(raw)
		if r.Chance(1, 3) {
			c.Query = B(hx.Pick(r, []string{"a=1", "x", "a=b&c=d"}))
		}
		return c
	}
	t := p
	switch r.Intn(12) {
	case 0:
		t = "http://site.example" + p
	case 1:
		t = "https://site.example:8443" + p
	case 3:
		// a scheme without a host: "http:" + path, "http://" + "/" + path (empty authority), more slashes
		t = hx.Pick(r, []string{"http:", "http://", "https://", "http:///", "HTTP://", "ftp:", "javascript:"}) + p
	case 2:
		t = hx.Pick(r, []string{"*", "http://site.example", "/", "//", "///", "/\\", "//evil.com/", "//evil.com", "/%2F/", "/%2Fevil.com/", "/\\evil.com/", "/.//evil.com/"})
	}
	switch r.Intn(6) {
	case 0:
		t += "?"
	case 1:
		t += "?" + hx.Pick(r, []string{"a=1", "next=//evil.com", "a=b&c=d", "%2F", "?", "\\"})
	}
	c.Target = B(t)
	return c
}

func (c *slashCase) request() (*http.Request, string) {
	req, why := c.request0()
	if req != nil {
		for _, kv := range c.Extra {
			req.Header.Set(kv[0], kv[1])
		}
	}
	return req, why
}

func (c *slashCase) request0() (*http.Request, string) {
	if len(c.Target) == 0 {
		req := httptest.NewRequest(http.MethodGet, "/", nil)
		req.URL = &url.URL{Path: string(c.Path), RawQuery: string(c.Query)}
		return req, ""
	}
	proto, host := "HTTP/1.1", "site.example"
	if c.HTTP10 {
		proto = "HTTP/1.0"
	}
	if c.Host != "" {
		host = c.Host
	}
	req, err := http.ReadRequest(bufio.NewReader(strings.NewReader("GET " + string(c.Target) + " " + proto + "\r\nHost: " + host + "\r\n\r\n")))
	if err != nil {
		return nil, "unparsable_target"
	}
	u := req.URL
	// a scheme without a host ("http:///evil.com/x/", "http:/evil.com/x/") is a request target net/http accepts: modelled
	// (hostSet = false, nothing may precede the path of the Location); a host without a scheme does not come out of a request line
	if u.Opaque != "" || u.User != nil || u.Fragment != "" || (u.Scheme == "" && u.Host != "") {
		return nil, "url_form_not_modelled"
	}
	return req, ""
}

// emit returns "" when the request target is not accepted by net/http (counted, not a case).
func (c *slashCase) emit(id string, st *hx.Stats) string {
	req, why := c.request()
	if req == nil {
		if st != nil {
			st.Count("T.discarded_" + why)
		}
		return ""
	}
	u := req.URL
	pre := url.URL{Scheme: u.Scheme, Host: u.Host}
	path := u.Path
	l := hx.NewLine(id).Tok("T").Nat(c.Policy).Str(path).Str(pre.String()).Bool(u.Host != "").Str(u.RawQuery).Bool(u.ForceQuery)
	in := l.String()

	var ran bool
	rec := httptest.NewRecorder()
	panicked := guard(func() {
		pol := trailingslash.WithPolicy(trailingslash.Policy(c.Policy))
		if c.Variant == "W" {
			h := trailingslash.Wrap(http.HandlerFunc(func(http.ResponseWriter, *http.Request) { ran = true }), pol)
			h.ServeHTTP(rec, req)
			return
		}
		if !strings.HasPrefix(path, "/") {
			// a path the router cannot match: call the middleware on a bare context
			ctx := router.NewContext(rec, req)
			trailingslash.New(pol)(ctx)
			ran = !ctx.IsAborted()
			return
		}
		r := router.MustNew()
		r.Use(trailingslash.New(pol))
		r.GET("/", func(*router.Context) { ran = true })
		r.GET("/*", func(*router.Context) { ran = true })
		r.ServeHTTP(rec, req)
	})
	l.Sep()
	if panicked {
		l.Tok("P")
	} else {
		l.Bool(ran).Nat(rec.Code)
		optStr(l, sent(rec).Values("Location"))
	}
	if st != nil {
		plain := true
		for i := 0; i < len(path); i++ {
			ch := path[i]
			if !(ch == '/' || ch >= 'a' && ch <= 'z') || (i > 0 && ch == '/' && path[i-1] == '/') {
				plain = false
			}
		}
		st.Case(in[len(id):]+" "+c.Variant, !plain || u.Host != "")
		if len(c.Extra) > 0 {
			st.Count("T.extra_request_headers")
		}
		st.Count("T.variant_" + c.Variant)
		st.Count("T.policy_" + strconv.Itoa(c.Policy))
		if strings.HasPrefix(path, "//") || strings.HasPrefix(path, "/\\") {
			st.Count("T.path_starts_with_two_slashes")
		}
		if u.RawPath != "" {
			st.Count("T.rawpath_set")
		}
		if u.Host != "" {
			st.Count("T.absolute_form")
		}
		if rec.Code == http.StatusPermanentRedirect {
			st.Count("T.redirected")
		} else {
			st.Count("T.passed")
		}
	}
	return l.String() + hx.Comment(caseT{Kind: "T", Sl: c})
}

// ---------------------------------------------------------------------------------------------

func emitCase(id string, k caseT, st *hx.Stats) string {
	switch k.Kind {
	case "B":
		return k.Body.emit(id, st)
	case "A":
		return k.Auth.emit(id, st)
	case "C":
		return k.Cors.emit(id, st)
	case "Q":
		if i := strings.LastIndex(id, ".q"); i > 0 {
			id = id[:i]
		}
		return k.Seq.emit(id, st)
	case "R":
		if i := strings.LastIndex(id, ".r"); i > 0 {
			id = id[:i]
		}
		return k.BSeq.emit(id, st)
	case "M":
		return k.Meth.emit(strings.TrimSuffix(id, ".s2"), st)
	case "T":
		return k.Sl.emit(id, st)
	case "E":
		return k.Err.emit(id, st)
	case "P":
		if i := strings.LastIndex(id, ".p"); i > 0 {
			id = id[:i]
		}
		return k.MPar.emit(id, st)
	case "V":
		if i := strings.LastIndex(id, ".v"); i > 0 {
			id = id[:i]
		}
		return k.AOv.emit(id, st)
	case "S":
		if i := strings.LastIndex(id, ".s"); i > 0 {
			id = id[:i]
		}
		return k.AStk.emit(id, st)
	}
	return ""
}

func bp(s string) *B      { b := B(s); return &b }
func sp(s string) *string { return &s }

// fixed witnesses: the K-findings of DESIGN.md §7 for C17 and boundary cases, emitted before the random cases
func fixedCases() []caseT {
	d := func(n int) stepT { return stepT{K: "D", N: n} }
	return []caseT{
		// K17: open redirect through a path that starts with two slashes
		{Kind: "T", Sl: &slashCase{Variant: "W", Policy: 0, Target: B("//evil.com/")}},
		{Kind: "T", Sl: &slashCase{Variant: "N", Policy: 0, Target: B("//evil.com/")}},
		{Kind: "T", Sl: &slashCase{Variant: "W", Policy: 1, Target: B("//evil.com")}},
		{Kind: "T", Sl: &slashCase{Variant: "W", Policy: 0, Target: B("/%2Fevil.com/")}},
		{Kind: "T", Sl: &slashCase{Variant: "W", Policy: 0, Target: B("/\\evil.com/")}},
		{Kind: "T", Sl: &slashCase{Variant: "W", Policy: 0, Target: B("/users/?page=2&sort=name")}},
		{Kind: "T", Sl: &slashCase{Variant: "W", Policy: 0, Target: B("http://site.example//evil.com/")}},
		// K17d: a scheme but no host in the request target
		{Kind: "T", Sl: &slashCase{Variant: "N", Policy: 0, Target: B("http:///evil.com/x/")}},
		{Kind: "T", Sl: &slashCase{Variant: "W", Policy: 0, Target: B("http:/evil.com/x/")}},
		{Kind: "T", Sl: &slashCase{Variant: "W", Policy: 1, Target: B("https:///evil.com/x")}},
		{Kind: "T", Sl: &slashCase{Variant: "N", Policy: 0, Target: B("http:////evil.com/x/")}},
		// HTTP/1.0 with a Host header chosen by the client: still a path reference
		{Kind: "T", Sl: &slashCase{Variant: "N", Policy: 0, Target: B("/users/"), HTTP10: true, Host: "evil.test"}},
		{Kind: "T", Sl: &slashCase{Variant: "W", Policy: 1, Target: B("/users"), HTTP10: true, Host: "evil.test"}},
		// a forwarded prefix supplied by the client is not part of the request's own path
		{Kind: "T", Sl: &slashCase{Variant: "N", Policy: 0, Target: B("/users/"), Extra: [][2]string{{"X-Forwarded-Prefix", "/\\evil.example"}}}},
		{Kind: "T", Sl: &slashCase{Variant: "W", Policy: 1, Target: B("/users"), Extra: [][2]string{{"X-Forwarded-Host", "evil.example"}, {"X-Forwarded-Proto", "https"}}}},
		// K17b: literal `Origin: *` reflected together with credentials
		{Kind: "C", Cors: &corsCase{Opts: []corsOpt{{K: "A", B: true}, {K: "K", B: true}}, Origin: bp("*"), Method: "GET"}},
		{Kind: "C", Cors: &corsCase{Opts: []corsOpt{{K: "O", L: []B{B("*")}}, {K: "K", B: true}}, Origin: bp("*"), Method: "GET"}},
		{Kind: "C", Cors: &corsCase{Opts: []corsOpt{{K: "F", B: true}, {K: "K", B: true}}, Origin: bp("*"), Method: "OPTIONS"}},
		{Kind: "C", Cors: &corsCase{Opts: []corsOpt{{K: "A", B: true}, {K: "K", B: true}}, Origin: bp("https://app.example.com"), Method: "GET"}},
		{Kind: "C", Cors: &corsCase{Opts: []corsOpt{{K: "A", B: true}}, Origin: bp("https://app.example.com"), Method: "GET"}},
		// cors on one instance with an origin function: an allowed origin, then a disallowed one whose lookup
		// blocks while a second request from it is served / whose lookup fails once
		{Kind: "Q", Seq: &corsSeq{Opts: []corsOpt{{K: "F", B: true}, {K: "K", B: true}}, Reqs: []seqReq{
			{Origin: B("https://app.example.com"), Method: "GET"}, {Origin: B("https://evil.example.org"), Method: "GET", Fault: "block"},
			{Origin: B("https://evil.example.org"), Method: "GET"}}}},
		{Kind: "Q", Seq: &corsSeq{Opts: []corsOpt{{K: "F", B: true}, {K: "K", B: true}}, Reqs: []seqReq{
			{Origin: B("https://app.example.com"), Method: "GET"}, {Origin: B("https://evil.example.org"), Method: "GET", Fault: "panic"},
			{Origin: B("https://evil.example.org"), Method: "GET"}, {Origin: B("https://evil.example.org"), Method: "OPTIONS"}}}},
		// bodylimit boundaries: exactly at the limit, one over, look-ahead byte in its own chunk, lying Content-Length
		{Kind: "B", Body: &bodyCase{Limit: 5, Body: B("12345"), Script: []stepT{d(2), d(1), d(4)}, Dflt: 3}},
		{Kind: "B", Body: &bodyCase{Limit: 5, Body: B("123456"), Script: []stepT{d(5), d(1)}, EofWithLast: true, Dflt: 8}},
		{Kind: "B", Body: &bodyCase{Limit: 5, Body: B("123456"), CL: sp("3"), Dflt: 512}},
		{Kind: "B", Body: &bodyCase{Limit: 5, Body: B("123"), CL: sp("6"), Dflt: 512}},
		{Kind: "B", Body: &bodyCase{Limit: 5, Body: B("123456"), Script: []stepT{d(5), {K: "Z"}}, Dflt: 8}},
		{Kind: "B", Body: &bodyCase{Limit: 5, Body: B("123456"), Script: []stepT{d(5), {K: "F"}}, Dflt: 8}},
		// default error responses: 2 MiB (the default limit), a tie of the first decimal (1.25 KB), just below a unit
		{Kind: "E", Err: &errCase{Which: "B", Limit: 2 * 1024 * 1024}},
		{Kind: "E", Err: &errCase{Which: "B", Limit: 1280}},
		{Kind: "E", Err: &errCase{Which: "B", Limit: 1048575}},
		{Kind: "E", Err: &errCase{Which: "B", Limit: 1023}},
		{Kind: "E", Err: &errCase{Which: "A", Realm: B("Restricted")}},
		// a GET / OPTIONS request with a chunked body over the limit is limited like any other
		{Kind: "B", Body: &bodyCase{Limit: 5, Body: B("1234567"), Method: "GET", Dflt: 8}},
		{Kind: "B", Body: &bodyCase{Limit: 5, Body: B("1234567"), Method: "OPTIONS", Style: "readall", Dflt: 8}},
		// the read that reaches the limit exactly hands out its bytes together with a transport error
		{Kind: "B", Body: &bodyCase{Limit: 5, Body: B("1234567"), Script: []stepT{{K: "X", N: 5}}, Dflt: 8}},
		{Kind: "B", Body: &bodyCase{Limit: 5, Body: B("12345"), Script: []stepT{d(4), {K: "X", N: 1}}, Dflt: 8}},
		// the handler streams the body with io.Copy / reads it with io.ReadAll: one over the limit without Content-Length
		{Kind: "B", Body: &bodyCase{Limit: 5, Body: B("123456"), Style: "copy", Dflt: 8}},
		{Kind: "B", Body: &bodyCase{Limit: 5, Body: B("12345"), Style: "copy", EofWithLast: true, Dflt: 8}},
		{Kind: "B", Body: &bodyCase{Limit: 5, Body: B("123456"), Style: "readall", Script: []stepT{d(5), d(1)}, Dflt: 8}},
		// basic auth: password with colons, lower-case scheme, user name with a colon
		{Kind: "A", Auth: &authCase{Users: [][2]B{{B("colon"), B("a:b:c")}}, Realm: B("Restricted"), Auth: bp("Basic " + b64("colon:a:b:c"))}},
		{Kind: "A", Auth: &authCase{Users: [][2]B{{B("admin"), B("secret")}}, Realm: B("Restricted"), Auth: bp("basic " + b64("admin:secret"))}},
		{Kind: "A", Auth: &authCase{Users: [][2]B{{B("a:b"), B("x")}, {B("a"), B("b:x")}}, Realm: B("Restricted"), Auth: bp("Basic " + b64("a:b:x"))}},
		// a CORS preflight is a request like any other: no credentials, no handler
		{Kind: "A", Auth: &authCase{Users: [][2]B{{B("admin"), B("secret")}}, Realm: B("Restricted"), Method: "OPTIONS",
			Extra: [][2]string{{"Origin", "https://app.example.com"}, {"Access-Control-Request-Method", "DELETE"}}}},
		{Kind: "A", Auth: &authCase{Users: [][2]B{{B("admin"), B("secret")}}, Realm: B("Restricted"), Auth: bp("Basic " + b64("admin:wrong")),
			Extra: [][2]string{{"Authorization", "Basic " + b64("admin:secret")}, {"Proxy-Authorization", "Basic " + b64("admin:secret")}}}},
		// skip paths are literal: a path that only cleans to a skip path is still protected
		{Kind: "A", Auth: &authCase{Users: [][2]B{{B("admin"), B("secret")}}, Realm: B("Restricted"), Skip: []string{"/health"}, Target: "/reports/../health"}},
		{Kind: "A", Auth: &authCase{Users: [][2]B{{B("admin"), B("secret")}}, Realm: B("Restricted"), Skip: []string{"/health"}, Target: "/health"}},
		// method override: GET is not an allowed source; TRACE is not an allowed target
		{Kind: "M", Meth: &methodCase{Method: "GET", Hdr: map[string]B{"X-HTTP-Method-Override": B("DELETE")}}},
		{Kind: "M", Meth: &methodCase{Method: "POST", Hdr: map[string]B{"X-HTTP-Method-Override": B("TRACE")}}},
		{Kind: "M", Meth: &methodCase{Method: "POST", Hdr: map[string]B{"X-HTTP-Method-Override": B(" delete ")}}},
		// two stacked instances: the second one finds PUT (not in its only-on list) and must leave it alone
		{Kind: "M", Meth: &methodCase{Method: "POST", Hdr: map[string]B{"X-HTTP-Method-Override": B("PUT"), "X-Method": B("DELETE")},
			Stack: []methOpt{{K: "H", S: B("X-Method")}}}},
		// look-alikes of the override parameter must not override
		{Kind: "M", Meth: &methodCase{Method: "POST", Hdr: map[string]B{}, RawQuery: B("payment_method=put")}},
		{Kind: "M", Meth: &methodCase{Method: "POST", Hdr: map[string]B{}, RawQuery: B("return_to=/items/7?_method=DELETE")}},
		{Kind: "M", Meth: &methodCase{Method: "POST", Hdr: map[string]B{}, RawQuery: B("x_method=PUT&_method=TRACE"), Opts: []methOpt{{K: "A", L: []B{B("PUT")}}}}},
		{Kind: "M", Meth: &methodCase{Method: "POST", Hdr: map[string]B{}, RawQuery: B("old_method=DELETE&_method=PUT")}},
	}
}

func main() {
	a := hx.ParseArgs()
	w := hx.Out()
	defer w.Flush()
	switch a.Cmd {
	case "gen":
		r := hx.NewRand(a.Seed)
		st := hx.NewStats()
		for i, k := range fixedCases() {
			if s := emitCase(fmt.Sprintf("c17-fix-%d", i), k, st); s != "" {
				fmt.Fprintln(w, s)
			}
		}
		for i := 0; i < a.N; i++ {
			var k caseT
			switch i % 5 {
			case 0:
				if r.Chance(1, 15) {
					k = caseT{Kind: "R", BSeq: genBodySeq(r)}
				} else if r.Chance(1, 12) {
					k = caseT{Kind: "E", Err: genErr(r)}
				} else {
					k = caseT{Kind: "B", Body: genBody(r)}
				}
			case 1:
				if i%25 == 6 {
					k = caseT{Kind: "S", AStk: genAuthStack(r)}
				} else if i%500 == 1 {
					k = caseT{Kind: "V", AOv: &authOverlap{User: hx.Pick(r, []string{"admin", "alice", "u"}), Pass: "secret", Wrong: hx.Pick(r, []string{"wrong", "", "secret ", "Secret"})}}
				} else {
					k = caseT{Kind: "A", Auth: genAuth(r)}
				}
			case 2:
				if r.Chance(1, 12) {
					k = caseT{Kind: "Q", Seq: genCorsSeq(r)}
				} else {
					k = caseT{Kind: "C", Cors: genCors(r)}
				}
			case 3:
				if i%600 == 3 {
					k = caseT{Kind: "P", MPar: genMethodPar(r)}
				} else {
					k = caseT{Kind: "M", Meth: genMethod(r)}
				}
			default:
				k = caseT{Kind: "T", Sl: genSlash(r)}
			}
			if s := emitCase(fmt.Sprintf("c17-%d-%d", a.Seed, i), k, st); s != "" {
				fmt.Fprintln(w, s)
			}
		}
		st.Emit(w)
	case "replay":
		for _, line := range hx.StdinLines() {
			var k caseT
			id, err := hx.CaseFromComment(line, &k)
			if err != nil {
				fmt.Fprintf(w, "# cannot replay %q: %v\n", id, err)
				continue
			}
			if s := emitCase(id, k, nil); s != "" {
				fmt.Fprintln(w, s)
			}
		}
	}
}
