// Harness for C05 (validation: presence, leaf paths, partial validation, capping, redaction,
// determinism). Drives the real code through the public API of rivaas.dev/validation:
// ComputePresence, PresenceMap.LeafPaths, Validator.ValidatePartial / Validate with per-call options.
//
// Parameters of the Lean model that are evaluated here for real and shipped in the case line:
// encoding/json (the body travels decoded), reflect + go-playground/validator (per dotted path:
// does it resolve to a value that has a rule of its own, and which tags does Var report).
package main

import (
	"bytes"
	"context"
	"encoding/json"
	"errors"
	"fmt"
	"net/http/httptest"
	"os"
	"reflect"
	"regexp"
	"sort"
	"strconv"
	"strings"
	"sync"
	"time"
	"sync/atomic"

	"github.com/go-playground/validator/v10"
	"rivaas.dev/app"
	"rivaas.dev/validation"
	"verif/harness/hx"
)

// ---------------------------------------------------------------- type descriptions

// FieldT describes one struct field of a generated type.
type FieldT struct {
	JSON string // json name (exact)
	Tag  string // validate tag
	Kind string // string int bool pstring struct pstruct sstring sint sstruct ssstring map
	Sub  *TypeT `json:",omitempty"`
	// Embed: an embedded struct (or pointer to struct) without json tag — encoding/json promotes its
	// fields to the enclosing object, so they occur in the body (and in presence) without a prefix
	Embed bool `json:",omitempty"`
	// TagForm: 0 json:"name"; 1 json:"name,omitempty"; 2 json:",omitempty" and 3 no json tag at all —
	// in both the JSON name is the Go field name, which is then what JSON says; 4 json:"-": the field is
	// not part of the JSON document at all (the body may still carry a key equal to its Go name);
	// 5 json:"-,": the field is named "-"
	TagForm int `json:",omitempty"`
}

// TypeT describes a struct type; the Go field names are F0, F1, ….
type TypeT struct {
	Fields []FieldT
}

func (t *TypeT) reflectType() reflect.Type {
	fs := make([]reflect.StructField, len(t.Fields))
	for i, f := range t.Fields {
		var ft reflect.Type
		switch f.Kind {
		case "string":
			ft = reflect.TypeOf("")
		case "int":
			ft = reflect.TypeOf(0)
		case "bool":
			ft = reflect.TypeOf(false)
		case "pstring":
			ft = reflect.PointerTo(reflect.TypeOf(""))
		case "struct":
			ft = f.Sub.reflectType()
		case "pstruct":
			ft = reflect.PointerTo(f.Sub.reflectType())
		case "sstring":
			ft = reflect.SliceOf(reflect.TypeOf(""))
		case "ssstring":
			ft = reflect.SliceOf(reflect.SliceOf(reflect.TypeOf("")))
		case "sint":
			ft = reflect.SliceOf(reflect.TypeOf(0))
		case "sstruct":
			ft = reflect.SliceOf(f.Sub.reflectType())
		case "map":
			ft = reflect.TypeOf(map[string]string{})
		case "astring":
			ft = reflect.TypeOf([2]string{})
		case "spstruct":
			ft = reflect.SliceOf(reflect.PointerTo(f.Sub.reflectType()))
		case "psstruct":
			ft = reflect.PointerTo(reflect.SliceOf(f.Sub.reflectType()))
		case "imap":
			ft = reflect.TypeOf(map[int]string{})
		case "sany":
			ft = reflect.TypeOf([]any{})
		case "many":
			ft = reflect.TypeOf(map[string]any{})
		default:
			panic("kind " + f.Kind)
		}
		tag := `json:"` + f.JSON + `"`
		switch f.TagForm {
		case 1:
			tag = `json:"` + f.JSON + `,omitempty"`
		case 2:
			tag = `json:",omitempty"`
		case 3:
			tag = ``
		case 4:
			tag = `json:"-"`
		case 5:
			tag = `json:"-,"`
		}
		if f.Tag != "" {
			tag += ` validate:"` + f.Tag + `"`
		}
		tag = strings.TrimSpace(tag)
		if f.Embed {
			fs[i] = reflect.StructField{Name: "E" + strconv.Itoa(i), Type: ft, Anonymous: true}
			continue
		}
		fs[i] = reflect.StructField{Name: "F" + strconv.Itoa(i), Type: ft, Tag: reflect.StructTag(tag)}
	}
	return reflect.StructOf(fs)
}

// named types for full-mode validation (the validator's namespace starts with the type name)
type FullInner struct {
	Name   string `json:"name" validate:"required,min=3"`
	Secret string `json:"secret" validate:"omitempty,min=6"`
	N      int    `json:"n" validate:"max=10"`
}
type FullA struct {
	Email string      `json:"email" validate:"required,email"`
	Pass  string      `json:"pass_word" validate:"required,min=8"`
	Age   int         `json:"age" validate:"min=1,max=5"`
	User  FullInner   `json:"user"`
	Ptr   *FullInner  `json:"ptr" validate:"omitempty"`
	Items []FullInner `json:"items" validate:"omitempty,dive"`
	Tags  []string    `json:"tags" validate:"omitempty,dive,min=2"`
	Color string      `json:"color" validate:"omitempty,oneof=red green"`
	Dash  string      `json:"user-id" validate:"omitempty,max=4"`
}
type FullB struct {
	Z string    `json:"z" validate:"required"`
	A string    `json:"a" validate:"required,max=3"`
	M string    `json:"m" validate:"min=2"`
	B FullInner `json:"b"`
	K int       `json:"k" validate:"oneof=1 2 3"`
}

type FullC struct {
	UserName string      `json:"userName" validate:"required,min=3"`
	APIKey   string      `json:"apiKey" validate:"omitempty,len=12"`
	Owner    *FullInner  `json:"Owner" validate:"required"`
	Rows     [][]string  `json:"rows" validate:"omitempty,dive,dive,min=2"`
	Kids     []FullInner `json:"kidsList" validate:"max=1,dive"`
	Plain    string      `validate:"omitempty,max=2"`
}

// FullE embeds a struct (by value) and another one by pointer: their fields are promoted in JSON.
type EBase struct {
	ID   string `json:"id" validate:"required,min=3"`
	Kind string `json:"kind" validate:"omitempty,oneof=a b"`
}
type EMeta struct {
	Token string `json:"token" validate:"omitempty,min=8"`
}
type FullE struct {
	EBase
	*EMeta
	Name string  `json:"name" validate:"required,min=3"`
	Kids []EBase `json:"kids" validate:"omitempty,max=1,dive"`
}

// FullU: users embed a struct of an unexported type; encoding/json promotes its exported fields.
type ucreds struct {
	Password string `json:"password" validate:"omitempty,min=8"`
	Pin      string `json:"pin" validate:"omitempty,len=4"`
}
type UUser struct {
	Name string `json:"name" validate:"required,min=2"`
	ucreds
}
type FullU struct {
	Owner UUser   `json:"owner"`
	Users []UUser `json:"users" validate:"omitempty,max=1,dive"`
}

// Env is generic; the name of an instantiation with a named type argument contains dots and slashes.
type Env[T any] struct {
	Token string `json:"token" validate:"required,min=12"`
	Note  string `json:"note" validate:"omitempty,max=3"`
	V     T      `json:"v"`
}

// FullS has a field tagged with the name of the embedded struct type that follows it: the body key "EBase" is the
// tagged field's (encoding/json never uses an untagged embedded struct's own name)
type FullS struct {
	B string `json:"EBase" validate:"min=3"`
	EBase
	Note string `json:"note" validate:"max=4"`
}

// FullV has a Validate() method of its own (interface strategy, and WithRunAll together with tags).
type FullV struct {
	Email string `json:"email" validate:"required,email"`
	Name  string `json:"name" validate:"required,min=3"`
	Age   int    `json:"age" validate:"min=1,max=5"`
	NErr  int    `json:"nerr"`
}

// Validate returns NErr errors, deliberately not in sorted order.
func (f *FullV) Validate() error {
	if f.NErr <= 0 {
		return nil
	}
	var e validation.Error
	for i := f.NErr; i > 0; i-- {
		e.Add("_c"+strconv.Itoa(i%3)+"_", "custom.k"+strconv.Itoa(i), "custom rule "+strconv.Itoa(i), nil)
	}
	return &e
}

var namedTypes = map[string]reflect.Type{
	"FullV": reflect.TypeOf(FullV{}),
	"FullS": reflect.TypeOf(FullS{}),
	"FullE": reflect.TypeOf(FullE{}),
	"FullU": reflect.TypeOf(FullU{}),
	"FullG": reflect.TypeOf(Env[FullInner]{}),
	"FullA": reflect.TypeOf(FullA{}),
	"FullB": reflect.TypeOf(FullB{}),
	"FullC": reflect.TypeOf(FullC{}),
}

// describe builds the TypeT of a compiled type (full mode).
func describe(t reflect.Type) *TypeT {
	out := &TypeT{}
	for i := 0; i < t.NumField(); i++ {
		f := t.Field(i)
		name, _, _ := strings.Cut(f.Tag.Get("json"), ",")
		if name == "" {
			name = f.Name
		}
		ft := FieldT{JSON: name, Tag: f.Tag.Get("validate")}
		if f.Anonymous && f.Tag.Get("json") == "" {
			ft.Embed = true
		}
		switch {
		case f.Type.Kind() == reflect.String:
			ft.Kind = "string"
		case f.Type.Kind() == reflect.Int:
			ft.Kind = "int"
		case f.Type.Kind() == reflect.Bool:
			ft.Kind = "bool"
		case f.Type.Kind() == reflect.Struct:
			ft.Kind, ft.Sub = "struct", describe(f.Type)
		case f.Type.Kind() == reflect.Pointer && f.Type.Elem().Kind() == reflect.Struct:
			ft.Kind, ft.Sub = "pstruct", describe(f.Type.Elem())
		case f.Type.Kind() == reflect.Pointer && f.Type.Elem().Kind() == reflect.String:
			ft.Kind = "pstring"
		case f.Type.Kind() == reflect.Slice && f.Type.Elem().Kind() == reflect.Struct:
			ft.Kind, ft.Sub = "sstruct", describe(f.Type.Elem())
		case f.Type.Kind() == reflect.Slice && f.Type.Elem().Kind() == reflect.String:
			ft.Kind = "sstring"
		case f.Type.Kind() == reflect.Slice && f.Type.Elem().Kind() == reflect.Slice:
			ft.Kind = "ssstring"
		case f.Type.Kind() == reflect.Slice && f.Type.Elem().Kind() == reflect.Int:
			ft.Kind = "sint"
		case f.Type.Kind() == reflect.Map:
			ft.Kind = "map"
		default:
			panic("describe: " + f.Type.String())
		}
		out.Fields = append(out.Fields, ft)
	}
	return out
}

// ---------------------------------------------------------------- the case

type caseT struct {
	Body      string
	T         *TypeT `json:",omitempty"` // generated type (partial mode, and full mode when Named == "")
	Named     string `json:",omitempty"` // compiled type
	Mode      int    // 0 partial, 1 full (tags), 2 all strategies (WithRunAll), 3 interface strategy only
	MaxErrors int
	MaxFields int
	Redact    []string // exact paths the redactor covers
	RedactSub string   `json:",omitempty"` // additionally: every path containing this substring
	Pkg       bool     // use the package-level functions (default validator) instead of a Validator value
	ViaApp    bool     `json:",omitempty"` // partial mode through app.Context on a PATCH request
	// AppVia: how the handler asks for partial validation: 0 Bind(WithPartial()); 1 BindOnly then
	// Validate(validation.WithPartial(true)); 2 Bind(WithValidationOptions(validation.WithPartial(true)));
	// 3 Bind(WithPartial(), WithPresence(pm)) with the presence map computed by the handler;
	// 4 the body is first bound into a map with BindOnly (body and presence are cached for the request), then Bind(WithPartial());
	// 5 another JSON request is served first (the pooled context comes back), then as 0; Presence() must be nil before the handler binds;
	// 6 the generic helper app.BindPatch[T] (compiled types only)
	AppVia int `json:",omitempty"`
	// Variant: 1 = the options are given to validation.New (base configuration of a fresh Validator), the call
	// passes none of them; 2 = as 1, and the call overrides a different base WithMaxErrors;
	// 3 = partial mode through Validate(WithPartial(true), WithPresence(pm)) instead of ValidatePartial;
	// 4 = the value is handed over as a pointer to the pointer to the struct
	Variant int  `json:",omitempty"`
	Auto    bool // StrategyAuto instead of StrategyTags
	// Interfere: between the repetitions of the case another call is made on the same Validator (the case's own,
	// the shared one, or the package-level default) for the same type with other per-call options — 1 WithMessageFunc
	// for the common tags, 2 WithMessages, 3 WithFieldNameMapper, 4 a redactor that covers everything, 5 other limits,
	// 6 all of them, 7 a per-call JSON schema under StrategyAuto. Nothing of that call may show in the next one: the repetitions (messages and meta included)
	// must stay identical. With variants 1 and 2 the Validator's base configuration then also carries a message
	// function and a message for a tag the generated rules do not use.
	Interfere int `json:",omitempty"`
	// Ctx: the context the call is made under — 0 a live one; 1 a cancelled context as the ctx argument; 2 a cancelled
	// context through validation.WithContext; 3 one past its deadline through WithContext. Through the app layer the
	// request's context is replaced inside the handler, before it binds. The result is no function of the context.
	Ctx int `json:",omitempty"`
	// Load: that many other validations are in flight (blocked inside a ValidateContext method) on the same
	// Validator while the case's call is made
	Load int `json:",omitempty"`
	// Bulk: the body is generated — an array of that many small objects under "items" plus a top-level field that
	// violates its rule (bodies with more than 10 000 paths)
	Bulk int `json:",omitempty"`
	// Limits: how "no limit" is spelled in the call — 0 the options are left out; 1 WithMaxErrors(0) and
	// WithMaxFields(0) are passed explicitly (documented: unlimited / the default of 10000); 2 a per-call
	// WithMaxErrors(-1) (never validated for a call: every test on it is `> 0`, so it means unlimited too).
	// Applies where the case's own limit is 0.
	Limits int `json:",omitempty"`
	// Custom: a WithCustomValidator function is passed — 1 it accepts the value; 2..4 it returns a *validation.Error
	// with Custom-1 field errors (deliberately unsorted), which ends the call before any strategy runs; 5..7 it returns
	// a validation.Error VALUE with Custom-3 field errors (wrapped as one generic error)
	Custom int `json:",omitempty"`
	// Mapper: the call passes WithFieldNameMapper (partial mode only: there the reported paths are the JSON paths of
	// the presence map, and the redactor is asked about those)
	Mapper bool `json:",omitempty"`
	// BOM: the request body sent through the app starts with a UTF-8 byte order mark. encoding/json refuses such a
	// body, so today the bind fails and nothing is validated (the case is skipped); a binding layer that starts to
	// tolerate the mark must still give partial validation over the body's presence
	BOM bool `json:",omitempty"`
}

func customErrs(n int) [][2]string {
	var out [][2]string
	for i := n; i > 0; i-- {
		out = append(out, [2]string{"zz_custom." + strconv.Itoa(i%2), "custom.rule" + strconv.Itoa(i)})
	}
	return out
}

// blocker: a value whose ValidateContext parks until released (a slow database lookup)
type blocker struct {
	in *atomic.Int32
	ch chan struct{}
}

func (b *blocker) ValidateContext(context.Context) error {
	b.in.Add(1)
	<-b.ch
	return nil
}

// underLoad runs f while n other validations are blocked inside the Validator the case uses.
func underLoad(c *caseT, n int, f func()) {
	var in, gone atomic.Int32
	ch := make(chan struct{})
	var wg sync.WaitGroup
	vv := sharedValidator
	if caseValidator != nil {
		vv = caseValidator
	}
	pkg := c.Pkg || c.ViaApp
	for i := 0; i < n; i++ {
		wg.Add(1)
		go func() {
			defer wg.Done()
			defer gone.Add(1) // a call that was refused never parks
			defer func() { _ = recover() }()
			b := &blocker{in: &in, ch: ch}
			if pkg {
				_ = validation.Validate(context.Background(), b, validation.WithStrategy(validation.StrategyInterface))
			} else {
				_ = vv.Validate(context.Background(), b, validation.WithStrategy(validation.StrategyInterface))
			}
		}()
	}
	for deadline := time.Now().Add(5 * time.Second); int(in.Load())+int(gone.Load()) < n && time.Now().Before(deadline); {
		time.Sleep(time.Millisecond)
	}
	f()
	close(ch)
	wg.Wait()
}

func caseContext(c *caseT) context.Context {
	switch c.Ctx {
	case 1, 2:
		ctx, cancel := context.WithCancel(context.Background())
		cancel()
		return ctx
	case 3:
		ctx, cancel := context.WithDeadline(context.Background(), time.Unix(1, 0))
		_ = cancel
		return ctx
	}
	return context.Background()
}

// ---------------------------------------------------------------- generators

var keyPool = []string{"user", "name", "user-id", "user id", "user!x", "user#1", "user,z", "a", "b", "a-b", "a.b", "id",
	"items", "tags", "x", "", "0", "1", "UserName", "email", "a b", "user.name", "items-x", "items.0", "tags!", "a!", "a.0", "é", "N", "n"}

var lowSuffix = []string{"-id", " id", "!x", "#1", ",z", "-", "!", "+", "$", "%z", "&", "(", ")", "*", "'"}

var secretCtr int

func secret(r *hx.Rand, n int) string {
	secretCtr++
	s := "q" + strconv.FormatInt(int64(secretCtr), 36) + "_wvxkjq"
	if n <= 0 {
		return ""
	}
	for len(s) < n {
		s += "z"
	}
	s = s[:n]
	if n >= 6 && strings.Contains(s[:n-1], "_") && r.Chance(1, 4) {
		// a character that quoting or JSON encoding escapes (the prefix with the counter stays intact)
		b := []byte(s)
		b[n-1] = "\"\\\t'<"[r.Intn(5)]
		s = string(b)
	}
	return s
}

var tagsFor = map[string][]string{
	"string":   {"", "required", "min=3", "max=5", "required,min=3", "omitempty,min=4", "email", "oneof=red green", "required,max=8", "omitempty,email", "len=4"},
	"int":      {"", "required", "min=5", "max=10", "oneof=1 2 3", "gte=0,lte=7", "required,max=3"},
	"bool":     {"", "required"},
	"pstring":  {"", "required", "omitempty,min=3"},
	"struct":   {"", "required", ""},
	"pstruct":  {"", "required", "omitempty"},
	"sstring":  {"", "min=1", "max=2", "required", "dive,min=3", "min=1,dive,required", "omitempty,dive,max=4", "min=2", "dive,oneof=red green", "max=5,dive,oneof=dive jump", "omitempty,max=5,dive,oneof=dive jump"},
	"ssstring": {"", "dive,dive,min=2", "min=1,dive,max=1,dive,max=3", "dive,min=1"},
	"astring":  {"", "dive,min=3", "dive,required", "required"},
	"spstruct": {"", "max=1", "dive", "required,dive", "min=1", "dive,required"},
	"psstruct": {"", "omitempty,dive", "required,dive", "omitempty,max=1,dive"},
	"imap":     {"", "max=1", "min=1", "required", "max=1,dive,min=9"},
	"sany":     {"", "max=1", "min=1", "required", "omitempty,max=2"},
	"many":     {"", "max=1", "min=1", "required"},
	"sint":     {"", "dive,min=5", "max=3", "min=1,dive,max=9"},
	"sstruct":  {"", "max=1", "dive", "required,dive", "min=1", "omitempty,max=2,dive"},
	"map":      {"", "min=1", "required"},
}

var kinds = []string{"string", "string", "string", "int", "int", "bool", "pstring", "struct", "struct", "pstruct", "sstring", "sstring", "ssstring", "sint", "sstruct", "sstruct", "map", "sany", "many", "astring", "spstruct", "imap", "psstruct"}

func genType(r *hx.Rand, depth int) *TypeT {
	return genTypeIn(r, depth, map[string]bool{}, depth < 2 && r.Chance(1, 3))
}

// genTypeIn generates a struct type whose field names avoid `used`. With `embeds` the struct may
// embed other structs: they share its JSON namespace, and names are then kept distinct
// case-insensitively (encoding/json matches names that way and drops colliding promoted fields).
func genTypeIn(r *hx.Rand, depth int, used map[string]bool, embeds bool) *TypeT {
	n := r.Range(1, 5)
	t := &TypeT{}
	key := func(name string) string {
		if embeds {
			return strings.ToLower(name)
		}
		return name
	}
	for i := 0; i < n; i++ {
		var name string
		for tries := 0; ; tries++ {
			name = hx.Pick(r, keyPool)
			// json tag names: encoding/json accepts letters, digits and !#$%&()*+-./:;<=>?@[]^_{|}~ and space;
			// no comma, no quote, not empty, not "-"
			if name == "" || strings.ContainsAny(name, ",\"'\\") || used[key(name)] || !validTagName(name) {
				if tries > 300 {
					return t // the name pool is exhausted at this level
				}
				continue
			}
			break
		}
		k := hx.Pick(r, kinds)
		if depth >= 3 && (k == "struct" || k == "pstruct" || k == "sstruct" || k == "spstruct" || k == "psstruct") {
			k = "string"
		}
		f := FieldT{JSON: name, Kind: k, Tag: hx.Pick(r, tagsFor[k])}
		if r.Chance(1, 6) {
			f.TagForm = r.Range(1, 5)
			if f.TagForm == 5 {
				f.JSON = "-"
				if used[key(f.JSON)] {
					f.TagForm, f.JSON = 1, name
				}
			} else if f.TagForm >= 2 {
				// the JSON name is the Go field name: F<index>
				f.JSON = "F" + strconv.Itoa(len(t.Fields))
				if used[key(f.JSON)] {
					f.TagForm, f.JSON = 1, name
				}
			}
		}
		name = f.JSON
		switch {
		case embeds && (k == "struct" || k == "pstruct") && r.Chance(1, 2):
			// embedded: its fields live in this struct's JSON object
			f.Embed, f.Tag = true, ""
			f.Sub = genTypeIn(r, depth+1, used, true)
			if len(f.Sub.Fields) == 0 {
				continue
			}
			// sometimes the embedded struct also declares a name the embedding struct has itself:
			// the direct field shadows the promoted one (encoding/json and the validator must agree)
			if len(t.Fields) > 0 && r.Chance(1, 4) {
				if own := t.Fields[r.Intn(len(t.Fields))]; !own.Embed {
					f.Sub.Fields = append(f.Sub.Fields, FieldT{JSON: own.JSON, Kind: "string", Tag: hx.Pick(r, tagsFor["string"])})
				}
			}
		case k == "struct" || k == "pstruct" || k == "sstruct" || k == "spstruct" || k == "psstruct":
			used[key(name)] = true
			f.Sub = genType(r, depth+1)
		default:
			used[key(name)] = true
		}
		t.Fields = append(t.Fields, f)
	}
	// two embedded structs that declare the same JSON name at the same depth: encoding/json drops both,
	// the validator must at least be consistent about which one it means (first in declaration order)
	var embedded []*TypeT
	for i := range t.Fields {
		if t.Fields[i].Embed {
			embedded = append(embedded, t.Fields[i].Sub)
		}
	}
	if len(embedded) >= 2 && r.Chance(1, 2) {
		a, b := embedded[0], embedded[len(embedded)-1]
		for _, fa := range a.Fields {
			if !fa.Embed && fa.TagForm <= 1 {
				b.Fields = append(b.Fields, FieldT{JSON: fa.JSON, Kind: "string", Tag: hx.Pick(r, []string{"min=4", "max=2", "required", "len=3"})})
				break
			}
		}
	}
	return t
}

func validTagName(s string) bool {
	for _, c := range s {
		switch {
		case strings.ContainsRune("!#$%&()*+-./:;<=>?@[]^_{|}~ ", c):
		case c >= '0' && c <= '9', c >= 'a' && c <= 'z', c >= 'A' && c <= 'Z', c > 127:
		default:
			return false
		}
	}
	return true
}

// genValue produces a JSON value for a field, mostly of the right shape, with boundary sizes.
func genValue(r *hx.Rand, f FieldT, depth int) any {
	if r.Chance(1, 25) {
		return nil
	}
	if r.Chance(1, 40) {
		return hx.Pick(r, []any{1.5, "str", true, []any{}, map[string]any{}, []any{[]any{map[string]any{"b": 1}}}})
	}
	switch f.Kind {
	case "string", "pstring":
		if strings.Contains(f.Tag, "oneof") && r.Chance(1, 3) {
			return secret(r, r.Range(6, 9)) // a value the oneof message could quote
		}
		switch r.Intn(8) {
		case 0:
			return hx.Pick(r, []string{"red", "green", "blue"})
		case 1:
			return hx.Pick(r, []string{"a@b.co", "x@y.zz", "not-an-email"})
		default:
			return secret(r, hx.Pick(r, []int{0, 1, 2, 3, 4, 5, 6, 7, 8, 9, 12}))
		}
	case "int":
		if r.Chance(1, 10) {
			secretCtr++
			return 1000000 + secretCtr // unique, recognisable
		}
		return hx.Pick(r, []int{0, 1, 2, 3, 4, 5, 6, 7, 8, 10, 11, -1})
	case "bool":
		return r.Chance(1, 2)
	case "struct", "pstruct":
		return genObject(r, f.Sub, depth+1)
	case "sstring":
		n := r.Range(0, 3)
		out := make([]any, n)
		for i := range out {
			if r.Chance(1, 5) {
				out[i] = hx.Pick(r, []string{"red", "blue", "dive", "jump"})
			} else {
				out[i] = secret(r, hx.Pick(r, []int{0, 1, 2, 3, 4, 5, 6}))
			}
		}
		return out
	case "ssstring":
		n := r.Range(0, 2)
		out := make([]any, n)
		for i := range out {
			m := r.Range(0, 2)
			in := make([]any, m)
			for j := range in {
				in[j] = secret(r, hx.Pick(r, []int{0, 1, 2, 3, 4}))
			}
			out[i] = in
		}
		return out
	case "sint":
		n := r.Range(0, 4)
		out := make([]any, n)
		for i := range out {
			out[i] = hx.Pick(r, []int{0, 3, 5, 9, 10, 77})
		}
		return out
	case "sstruct", "spstruct", "psstruct":
		n := r.Range(0, 3)
		out := make([]any, n)
		for i := range out {
			out[i] = genObject(r, f.Sub, depth+1)
			if f.Kind == "spstruct" && r.Chance(1, 4) {
				out[i] = nil // a nil pointer in the middle of a path
			}
		}
		return out
	case "astring":
		n := r.Range(0, 3) // the third element does not fit into [2]string: present in the body, absent in the value
		out := make([]any, n)
		for i := range out {
			out[i] = secret(r, hx.Pick(r, []int{0, 1, 2, 3, 5, 6}))
		}
		return out
	case "map":
		n := r.Range(0, 2)
		out := map[string]any{}
		for i := 0; i < n; i++ {
			out[hx.Pick(r, keyPool)] = secret(r, 3)
		}
		return out
	case "imap":
		n := r.Range(0, 3)
		out := map[string]any{}
		for i := 0; i < n; i++ {
			out[strconv.Itoa(r.Intn(4))] = secret(r, r.Range(5, 9))
		}
		return out
	case "sany":
		// a list of whatever encoding/json makes of it: objects with secrets below an interface slot
		n := r.Range(0, 3)
		out := make([]any, n)
		for i := range out {
			if r.Chance(2, 3) {
				out[i] = map[string]any{hx.Pick(r, []string{"password", "token", "a", "user"}): secret(r, r.Range(5, 9)), "n": r.Intn(9)}
			} else {
				out[i] = secret(r, r.Range(0, 7))
			}
		}
		return out
	case "many":
		n := r.Range(0, 3)
		out := map[string]any{}
		for i := 0; i < n; i++ {
			k := hx.Pick(r, []string{"auth", "token", "a", "user", "x y"})
			if r.Chance(1, 2) {
				out[k] = map[string]any{hx.Pick(r, []string{"token", "key"}): secret(r, r.Range(5, 9))}
			} else {
				out[k] = secret(r, r.Range(0, 7))
			}
		}
		return out
	}
	return nil
}

// kv keeps the key order of the generated body (duplicates allowed: encoding/json keeps the last).
type kv struct {
	K string
	V any
}
type objT []kv

func (o objT) MarshalJSON() ([]byte, error) {
	var b strings.Builder
	b.WriteByte('{')
	for i, e := range o {
		if i > 0 {
			b.WriteByte(',')
		}
		k, _ := json.Marshal(e.K)
		v, err := json.Marshal(e.V)
		if err != nil {
			return nil, err
		}
		b.Write(k)
		b.WriteByte(':')
		b.Write(v)
	}
	b.WriteByte('}')
	return []byte(b.String()), nil
}

func genObject(r *hx.Rand, t *TypeT, depth int) objT {
	var o objT
	for _, f := range t.Fields {
		if f.Embed {
			if f.Kind == "pstruct" && r.Chance(1, 3) {
				continue // none of its fields present: the embedded pointer stays nil
			}
			o = append(o, genObject(r, f.Sub, depth)...)
			continue
		}
		if r.Chance(2, 5) {
			continue // absent
		}
		key := f.JSON
		if r.Chance(1, 30) {
			key = strings.ToUpper(key) // encoding/json matches case-insensitively, presence does not
		}
		o = append(o, kv{key, genValue(r, f, depth)})
		// siblings that sort between the parent and its children
		if (f.Kind == "struct" || f.Kind == "pstruct" || f.Kind == "sstruct" || f.Kind == "sstring" || f.Kind == "map" || f.Kind == "sany" || f.Kind == "many" || f.Kind == "spstruct" || f.Kind == "astring" || f.Kind == "imap" || f.Kind == "psstruct") && r.Chance(1, 2) {
			for n := r.Range(1, 2); n > 0; n-- {
				o = append(o, kv{f.JSON + hx.Pick(r, lowSuffix), genJunk(r, depth+2)})
			}
		}
	}
	for r.Chance(1, 3) {
		o = append(o, kv{hx.Pick(r, keyPool), genJunk(r, depth+1)})
	}
	hx.Shuffle(r, o)
	return o
}

func genJunk(r *hx.Rand, depth int) any {
	if depth > 5 {
		return 1
	}
	switch r.Intn(9) {
	case 0, 1, 2:
		return r.Intn(10)
	case 3:
		return secret(r, r.Range(0, 6))
	case 4:
		return nil
	case 5, 6:
		n := r.Range(0, 3)
		var o objT
		for i := 0; i < n; i++ {
			k := hx.Pick(r, keyPool)
			o = append(o, kv{k, genJunk(r, depth+1)})
			if r.Chance(1, 3) {
				o = append(o, kv{k + hx.Pick(r, lowSuffix), genJunk(r, depth+1)})
			}
		}
		if o == nil {
			return map[string]any{}
		}
		return o
	default:
		n := r.Range(0, 3)
		out := make([]any, n)
		for i := range out {
			out[i] = genJunk(r, depth+1)
		}
		return out
	}
}

// deepBody nests `depth` objects (alternating plain nesting and nesting through an array).
func deepBody(r *hx.Rand, depth int) any {
	var cur any = map[string]any{"leaf": 1, "leaf-x": 2}
	for i := 0; i < depth; i++ {
		k := hx.Pick(r, []string{"a", "b", "user", "0"})
		if r.Chance(1, 4) {
			cur = map[string]any{k: []any{cur, 1}}
		} else {
			cur = map[string]any{k: cur, k + "-s": i}
		}
	}
	return cur
}

func genCase(r *hx.Rand, tier string) caseT {
	var c caseT
	switch r.Intn(10) {
	case 0, 1: // full mode on a compiled named type
		c.Mode = 1
		c.Named = hx.Pick(r, []string{"FullA", "FullB", "FullC", "FullE", "FullU", "FullG", "FullS"})
		t := describe(namedTypes[c.Named])
		b, _ := json.Marshal(genObject(r, t, 0))
		c.Body = string(b)
	case 3: // the type's own Validate() method: alone, or together with the tags (WithRunAll)
		if r.Chance(1, 2) {
			c.Mode = hx.Pick(r, []int{2, 2, 3, 1}) // 1: full mode; under StrategyAuto the Validate() method wins
			c.Named = "FullV"
			o := genObject(r, describe(namedTypes[c.Named]), 0)
			o = append(o, kv{"nerr", r.Range(0, 4)})
			b, _ := json.Marshal(o)
			c.Body = string(b)
			break
		}
		fallthrough
	case 2: // full mode on a generated (anonymous) struct type
		c.Mode = 1
		c.T = genType(r, 0)
		b, _ := json.Marshal(genObject(r, c.T, 0))
		c.Body = string(b)
	case 4:
		if r.Chance(1, 2) { // partial mode on a compiled type (embedded structs of exported and unexported types)
			c.Named = hx.Pick(r, []string{"FullE", "FullU", "FullA", "FullS"})
			b, _ := json.Marshal(genObject(r, describe(namedTypes[c.Named]), 0))
			c.Body = string(b)
			break
		}
		fallthrough
	default:
		c.T = genType(r, 0)
		var body any = genObject(r, c.T, 0)
		if r.Chance(1, 40) {
			d := r.Range(3, 12)
			if r.Chance(1, 4) {
				d = r.Range(97, 104) // across the recursion limit
			} else if tier == "thorough" && r.Chance(1, 4) {
				d = r.Range(13, 96)
			}
			body = deepBody(r, d)
		}
		b, _ := json.Marshal(body)
		c.Body = string(b)
	}
	if r.Chance(1, 8) {
		// JSON allows white space around the value
		c.Body = hx.Pick(r, []string{" ", "\n", "\t", "\r\n", "  \n "}) + c.Body + hx.Pick(r, []string{"", " ", "\n"})
	}
	if r.Chance(1, 2) {
		c.MaxErrors = r.Range(1, 3)
	}
	if r.Chance(1, 12) {
		c.MaxFields = r.Range(1, 4)
	}
	c.Pkg = r.Chance(1, 4)
	c.ViaApp = c.Mode == 0 && r.Chance(1, 4)
	if c.ViaApp {
		c.AppVia = hx.Pick(r, []int{0, 1, 2, 3, 4, 5, 7})
		if c.Named != "" && r.Chance(1, 2) {
			c.AppVia = 6
		}
	}
	if !c.ViaApp && r.Chance(1, 6) {
		c.Variant = r.Range(1, 4)
		if c.Variant == 3 && c.Mode != 0 {
			c.Variant = 1
		}
		if c.Variant == 4 && c.Mode >= 2 {
			c.Variant = 1 // the interface strategy looks for Validate() on the value it is given
		}
	}
	c.Auto = r.Chance(1, 2)
	// redactor: a random subset of the paths that occur, sometimes a substring rule
	if r.Chance(2, 3) {
		pm, err := validation.ComputePresence([]byte(c.Body))
		if err == nil {
			ps := sortedKeys(pm)
			dense := r.Chance(1, 3) // sometimes most paths are covered, those deep below containers too
			for _, p := range ps {
				if r.Chance(1, 3) || (dense && r.Chance(1, 2)) {
					c.Redact = append(c.Redact, p)
				}
			}
		}
		if r.Chance(1, 4) {
			c.RedactSub = hx.Pick(r, []string{"secret", "pass", "user", "name", "a"})
		}
	}
	if r.Chance(1, 6) {
		c.Ctx = r.Range(1, 3)
	}
	if r.Chance(1, 5) {
		c.Limits = r.Range(1, 2)
	}
	if c.Mode == 0 && r.Chance(1, 6) {
		c.Mapper = true
	}
	if c.ViaApp && r.Chance(1, 30) {
		c.BOM = true
	}
	if !c.ViaApp && c.Variant == 0 && r.Chance(1, 8) {
		c.Custom = r.Range(1, 7)
	}
	if r.Chance(1, 150) {
		c.Load = 1001
	}
	// other calls with other per-call options on the same Validator between the repetitions
	if r.Chance(1, 4) {
		c.Interfere = r.Range(1, 7)
	}
	return c
}

func sortedKeys(pm validation.PresenceMap) []string {
	out := make([]string, 0, len(pm))
	for k := range pm {
		out = append(out, k)
	}
	sort.Strings(out)
	return out
}

// ---------------------------------------------------------------- the model's parameters, evaluated for real

var ownValidator = newOwnValidator()

func newOwnValidator() *validator.Validate {
	v := validator.New(validator.WithRequiredStructEnabled())
	v.RegisterTagNameFunc(func(fld reflect.StructField) string {
		name, _, _ := strings.Cut(fld.Tag.Get("json"), ",")
		if name == "-" {
			return ""
		}
		if name == "" {
			return fld.Name
		}
		return name
	})
	return v
}

// elementRule returns the part of a validate tag that applies to the elements `levels` index
// steps below the tagged field: what follows the levels-th `dive`.
func elementRule(tag string, levels int) string {
	for ; levels > 0; levels-- {
		toks := strings.Split(tag, ",")
		at := -1
		for i, t := range toks {
			if t == "dive" {
				at = i
				break
			}
		}
		if at < 0 {
			return ""
		}
		tag = strings.Join(toks[at+1:], ",")
	}
	return tag
}

// varEnt: what validator.Var reports for the value at a location (field and element indices from the root)
// under a tag; the paths a violation reveals are relative to the location ("" itself, ".a.0" nested)
type varEnt struct {
	loc   []int
	tag   string
	viols []valViol
}

// valViol: one validator error of a Var call: its tag and the value it reports (e.Value())
type valViol struct {
	tag string
	val reflect.Value
}

// varVals runs validator.Var and keeps, per error, the tag and e.Value().
func varVals(v reflect.Value, tag string) (out []valViol, panicked bool) {
	defer func() {
		if p := recover(); p != nil {
			out, panicked = nil, true
		}
	}()
	err := ownValidator.Var(v.Interface(), tag)
	if err == nil {
		return nil, false
	}
	var verrs validator.ValidationErrors
	if errors.As(err, &verrs) {
		for _, e := range verrs {
			out = append(out, valViol{e.Tag(), reflect.ValueOf(e.Value())})
		}
	}
	return out, false
}

// encValShape writes the shape of a reported value as the redaction walk sees it: pointers, interfaces, structs
// (fields as reflect shows them), slices / arrays, maps (keys as fmt.Sprint prints them, sorted here).
func encValShape(l *hx.Line, v reflect.Value, depth int) {
	if !v.IsValid() || depth > 120 {
		l.Tok("X")
		return
	}
	switch v.Kind() {
	case reflect.Pointer:
		if v.IsNil() {
			l.Tok("Z")
			return
		}
		l.Tok("Q")
		encValShape(l, v.Elem(), depth+1)
	case reflect.Interface:
		if v.IsNil() {
			l.Tok("N")
			return
		}
		l.Tok("I")
		encValShape(l, v.Elem(), depth+1)
	case reflect.Struct:
		t := v.Type()
		l.Tok("T").Nat(t.NumField())
		for i := 0; i < t.NumField(); i++ {
			f := t.Field(i)
			ft := f.Type
			if ft.Kind() == reflect.Pointer {
				ft = ft.Elem()
			}
			l.Str(f.Name).Str(f.Tag.Get("json")).Bool(f.Anonymous).Bool(ft.Kind() == reflect.Struct).Str(f.Tag.Get("validate"))
			encValShape(l, v.Field(i), depth+1)
		}
	case reflect.Slice, reflect.Array:
		l.Tok("S").Nat(v.Len())
		for j := 0; j < v.Len(); j++ {
			encValShape(l, v.Index(j), depth+1)
		}
	case reflect.Map:
		keys := v.MapKeys()
		sort.Slice(keys, func(a, b int) bool { return fmt.Sprint(keys[a]) < fmt.Sprint(keys[b]) })
		l.Tok("M").Nat(len(keys))
		for _, k := range keys {
			l.Str(fmt.Sprint(k))
			encValShape(l, v.MapIndex(k), depth+1)
		}
	default:
		l.Tok("X")
	}
}

func addVar(tab *[]varEnt, loc []int, tag string, v reflect.Value) {
	if tag == "" || !v.IsValid() || !v.CanInterface() {
		return
	}
	viols, panicked := varVals(v, tag)
	if panicked {
		return
	}
	*tab = append(*tab, varEnt{append([]int(nil), loc...), tag, viols})
}

// encShape writes the shape of v (reflect API only) and collects the Var table. tag is the validate tag of the
// last struct field passed, lv the index steps since (the harness's own elementRule gives the element's rule).
func encShape(l *hx.Line, v reflect.Value, loc []int, tag string, lv int, tab *[]varEnt) {
	switch v.Kind() {
	case reflect.Pointer:
		if v.IsNil() {
			l.Tok("Z")
			return
		}
		l.Tok("Q")
		encShape(l, v.Elem(), loc, tag, lv, tab)
	case reflect.Struct:
		t := v.Type()
		l.Tok("T").Nat(t.NumField())
		for i := 0; i < t.NumField(); i++ {
			f := t.Field(i)
			ft := f.Type
			if ft.Kind() == reflect.Pointer {
				ft = ft.Elem()
			}
			vt := f.Tag.Get("validate")
			l.Str(f.Name).Str(f.Tag.Get("json")).Bool(f.Anonymous).Bool(ft.Kind() == reflect.Struct).Str(vt)
			cl := append(append([]int(nil), loc...), i)
			addVar(tab, cl, vt, v.Field(i))
			encShape(l, v.Field(i), cl, vt, 0, tab)
		}
	case reflect.Slice, reflect.Array:
		l.Tok("S").Nat(v.Len())
		et := elementRule(tag, lv+1)
		for j := 0; j < v.Len(); j++ {
			cl := append(append([]int(nil), loc...), j)
			addVar(tab, cl, et, v.Index(j))
			encShape(l, v.Index(j), cl, tag, lv+1, tab)
		}
	default:
		l.Tok("X")
	}
}

// violT is one validator error: its tag and the paths whose values printing e.Value() reveals.
type violT struct {
	tag   string
	shows []string
}

// showsOf lists base and the path of everything nested in v (struct fields by json name, slice
// and array elements by index, map entries by key).
func showsOf(base string, v reflect.Value, depth int, out *[]string) {
	*out = append(*out, base)
	if depth > 100 {
		return
	}
	for v.Kind() == reflect.Pointer || v.Kind() == reflect.Interface {
		if v.IsNil() {
			return
		}
		v = v.Elem()
	}
	switch v.Kind() {
	case reflect.Struct:
		t := v.Type()
		for i := 0; i < t.NumField(); i++ {
			name, _, _ := strings.Cut(t.Field(i).Tag.Get("json"), ",")
			if isPromoted(t.Field(i)) {
				showsOf(base, v.Field(i), depth+1, out) // its fields belong to the enclosing JSON object
				continue
			}
			if t.Field(i).Tag.Get("json") == "-" {
				continue // has no JSON path: nothing a redactor could cover
			}
			if name == "" {
				name = t.Field(i).Name
			}
			showsOf(base+"."+name, v.Field(i), depth+1, out)
		}
	case reflect.Slice, reflect.Array:
		for i := 0; i < v.Len(); i++ {
			showsOf(base+"."+strconv.Itoa(i), v.Index(i), depth+1, out)
		}
	case reflect.Map:
		for _, k := range v.MapKeys() {
			showsOf(base+"."+fmt.Sprint(k), v.MapIndex(k), depth+1, out)
		}
	}
}

// isPromoted: an embedded struct (or pointer to struct) without json tag, whose fields
// encoding/json promotes to the enclosing object.
func isPromoted(f reflect.StructField) bool {
	if !f.Anonymous || f.Tag.Get("json") != "" {
		return false
	}
	t := f.Type
	if t.Kind() == reflect.Pointer {
		t = t.Elem()
	}
	return t.Kind() == reflect.Struct
}

// findField looks a JSON name up in a struct value the way encoding/json does for our types: direct
// fields first, then the fields promoted from embedded structs (a nil embedded pointer has none).
func findField(cur reflect.Value, part string) (reflect.Value, reflect.StructField, bool) {
	fv, sf, _, ok := findField2(cur, part)
	return fv, sf, ok
}

// findField2 also says whether the field was reached through an embedded struct.
func findField2(cur reflect.Value, part string) (fv reflect.Value, sf reflect.StructField, promoted bool, ok bool) {
	t := cur.Type()
	for i := t.NumField() - 1; i >= 0; i-- {
		if isPromoted(t.Field(i)) || t.Field(i).Tag.Get("json") == "-" {
			continue // json:"-": no JSON key addresses this field
		}
		name, _, _ := strings.Cut(t.Field(i).Tag.Get("json"), ",")
		if name == "" {
			name = t.Field(i).Name
		}
		if name == part {
			return cur.Field(i), t.Field(i), false, true
		}
	}
	for i := 0; i < t.NumField(); i++ {
		if !isPromoted(t.Field(i)) {
			continue
		}
		ev := cur.Field(i)
		for ev.Kind() == reflect.Pointer {
			if ev.IsNil() {
				break
			}
			ev = ev.Elem()
		}
		if ev.Kind() != reflect.Struct {
			continue
		}
		if fv, sf, ok := findField(ev, part); ok {
			return fv, sf, true, true
		}
	}
	return reflect.Value{}, reflect.StructField{}, false, false
}

func violOf(path string, e validator.FieldError) violT {
	var sh []string
	showsOf(path, reflect.ValueOf(e.Value()), 0, &sh)
	sort.Strings(sh)
	return violT{e.Tag(), uniq(sh)}
}

type ruleT struct {
	path      string
	resolves  bool
	tags      []violT
	num       bool
	emb       bool
	cresolves bool
	cpanic    bool
	ctags     []string
}

// varViols runs validator.Var under the path's own rule.
func varViols(path string, v reflect.Value, tag string) (out []violT, panicked bool) {
	defer func() {
		if p := recover(); p != nil {
			out, panicked = nil, true
		}
	}()
	err := ownValidator.Var(v.Interface(), tag)
	if err == nil {
		return nil, false
	}
	var verrs validator.ValidationErrors
	if errors.As(err, &verrs) {
		for _, e := range verrs {
			out = append(out, violOf(path, e))
		}
	}
	return out, false
}

// varTags runs validator.Var and returns the tags it reports; panicked = Var panicked.
func varTags(v reflect.Value, tag string) (tags []string, panicked bool) {
	defer func() {
		if p := recover(); p != nil {
			tags, panicked = nil, true
		}
	}()
	err := ownValidator.Var(v.Interface(), tag)
	if err == nil {
		return nil, false
	}
	var verrs validator.ValidationErrors
	if errors.As(err, &verrs) {
		for _, e := range verrs {
			tags = append(tags, e.Tag())
		}
	}
	return tags, false
}

// resolveOwn walks a dotted path through the value, independently of the code under test: struct
// fields by exact json name, slice/array elements by index. It returns the value, the validate tag
// of the last struct field passed and the number of index steps taken since.
func resolveOwn(root reflect.Value, path string) (val reflect.Value, fieldTag string, levels int, ok bool) {
	val, fieldTag, levels, _, ok = resolveOwn2(root, path)
	return
}

// resolveOwn2 additionally reports whether a struct field with a numeric json name was passed
// (as shipped, resolvePath treats every numeric segment as an index and gives up on a struct: K05d).
func resolveOwn2(root reflect.Value, path string) (val reflect.Value, fieldTag string, levels int, numericField bool, ok bool) {
	val, fieldTag, levels, numericField, _, ok = resolveOwn3(root, path)
	return
}

// resolveOwn3 additionally reports whether a field promoted from an embedded struct lies on the
// path (as shipped, resolvePath did not look into embedded structs: K05h).
func resolveOwn3(root reflect.Value, path string) (val reflect.Value, fieldTag string, levels int, numericField, promoted bool, ok bool) {
	cur := root
	for _, part := range strings.Split(path, ".") {
		for cur.Kind() == reflect.Pointer {
			if cur.IsNil() {
				return reflect.Value{}, "", 0, false, false, false
			}
			cur = cur.Elem()
		}
		switch cur.Kind() {
		case reflect.Slice, reflect.Array:
			idx, err := strconv.Atoi(part)
			if err != nil || idx < 0 || idx >= cur.Len() {
				return reflect.Value{}, "", 0, false, false, false
			}
			cur = cur.Index(idx)
			levels++
		case reflect.Struct:
			fv, sf, prom, found := findField2(cur, part)
			promoted = promoted || prom
			if !found {
				return reflect.Value{}, "", 0, false, false, false
			}
			fieldTag = sf.Tag.Get("validate")
			cur = fv
			levels = 0
			if _, err := strconv.Atoi(part); err == nil {
				numericField = true
			}
		default:
			return reflect.Value{}, "", 0, false, false, false
		}
	}
	return cur, fieldTag, levels, numericField, promoted, true
}

func ruleFor(root reflect.Value, path string) ruleT {
	rt := ruleT{path: path}
	val, fieldTag, levels, numericField, promoted, ok := resolveOwn3(root, path)
	if !ok {
		return rt
	}
	rt.emb = promoted
	own := fieldTag
	if levels > 0 {
		own = elementRule(fieldTag, levels)
	}
	if own != "" {
		tags, panicked := varViols(path, val, own)
		if panicked {
			// the generator only pairs tags with kinds they apply to; a panic here is a harness bug
			panic(fmt.Sprintf("own rule %q panics on %v at %q", own, val.Type(), path))
		}
		rt.resolves, rt.tags = true, tags
	}
	rt.num = numericField
	if fieldTag != "" {
		rt.cresolves = true
		rt.ctags, rt.cpanic = varTags(val, fieldTag)
	}
	return rt
}

// fullErrs runs the validator on the whole struct and maps every error to (json path, path as
// shipped, tag). The JSON path is computed here, independently of the code under test, by walking
// the StructNamespace (Go field names, "Items[0].Name") through the type: json names joined with
// ".", an index as a segment of its own ("items.0.name"). The path as shipped (before the repair of
// K05e) is the lower-cased Namespace without the top struct name ("items[0].name").
type fullT struct {
	path, apath string
	v           violT
	val         reflect.Value // e.Value(): the model walks its shape itself (redaction)
}

func fullErrs(ptr any, t reflect.Type) (out []fullT, ok bool) {
	err := ownValidator.Struct(ptr)
	if err == nil {
		return nil, true
	}
	var verrs validator.ValidationErrors
	if !errors.As(err, &verrs) {
		return nil, false
	}
	for _, e := range verrs {
		ns := e.Namespace()
		sns := e.StructNamespace()
		if i := strings.Index(sns, "."); i >= 0 {
			ns = ns[i+1:]
		}
		if t.Name() != "" {
			sns = strings.TrimPrefix(sns, t.Name()+".")
		}
		jp := jsonPathOf(sns, t)
		// the path as the code reported it before the repair of K05h: the validator's namespace with the
		// top struct name dropped and indices as segments — the names of embedded structs included
		ap := e.Namespace()
		if t.Name() != "" {
			ap = strings.TrimPrefix(ap, t.Name()+".")
		}
		ap = strings.NewReplacer("[", ".", "]", "").Replace(ap)
		_ = ns
		out = append(out, fullT{jp, ap, violOf(jp, e), reflect.ValueOf(e.Value())})
	}
	return out, true
}

// jsonPathOf walks "Items[0].Name" through the struct type.
func jsonPathOf(sns string, t reflect.Type) string {
	var segs []string
	cur := t
	for _, part := range strings.Split(sns, ".") {
		name, idx, _ := strings.Cut(part, "[")
		for cur.Kind() == reflect.Pointer {
			cur = cur.Elem()
		}
		f, found := cur.FieldByName(name)
		if !found {
			panic("jsonPathOf: no field " + name + " in " + cur.String())
		}
		jn, _, _ := strings.Cut(f.Tag.Get("json"), ",")
		if jn == "" || f.Tag.Get("json") == "-" {
			jn = f.Name
		}
		cur = f.Type
		if isPromoted(f) {
			continue // the embedded struct itself is not part of the JSON path
		}
		segs = append(segs, jn)
		for idx != "" {
			var one string
			one, idx, _ = strings.Cut(idx, "[")
			segs = append(segs, strings.TrimSuffix(one, "]"))
			for cur.Kind() == reflect.Pointer {
				cur = cur.Elem()
			}
			cur = cur.Elem()
		}
	}
	return strings.Join(segs, ".")
}

// ---------------------------------------------------------------- observation

type obsT struct {
	pm     []string
	leaves []string
	kind   string // N, P, E
	trunc  bool
	fields [][3]string // path, code, hidden
	leak   bool
	other  string
	// clobbered: the callee wrote into the spare capacity of the caller's option slice
	clobbered bool
	// texts: messages and meta of every field error, in order (determinism bit only)
	texts []string
}

func (o *obsT) key() string {
	return fmt.Sprint(o.pm, "|", o.leaves, "|", o.kind, o.trunc, o.fields, o.leak, o.other)
}

// detKey: everything of the result that must not differ between repetitions
func (o *obsT) detKey() string { return o.key() + fmt.Sprintf("|%q", o.texts) }

var addrRe = regexp.MustCompile(`0x[0-9a-f]{6,}`)

func interferingOptions(kind int) []validation.Option {
	var out []validation.Option
	if kind == 1 || kind == 6 {
		for _, tag := range []string{"required", "min", "max", "email", "oneof", "len", "gte", "lte", "alpha", "numeric"} {
			out = append(out, validation.WithMessageFunc(tag, func(param string, _ reflect.Kind) string { return "INTERFERED " + param }))
		}
	}
	if kind == 2 || kind == 6 {
		out = append(out, validation.WithMessages(map[string]string{"required": "INTERFERED", "min": "INTERFERED", "max": "INTERFERED", "email": "INTERFERED", "oneof": "INTERFERED"}))
	}
	if kind == 3 || kind == 6 {
		out = append(out, validation.WithFieldNameMapper(func(s string) string { return "X_" + strings.ToUpper(s) }))
	}
	if kind == 4 || kind == 6 {
		out = append(out, validation.WithRedactor(func(string) bool { return true }))
	}
	if kind == 5 || kind == 6 {
		out = append(out, validation.WithMaxErrors(1), validation.WithMaxFields(1))
	}
	if kind == 7 {
		out = append(out, validation.WithCustomSchema("c05-interfering", `{"type":"object"}`))
	}
	return out
}

// interfere makes one call with other per-call options on the Validator the case uses, for the same type and body.
func interfere(c *caseT, rt reflect.Type) {
	defer func() { _ = recover() }()
	body := []byte(c.Body)
	ptr := reflect.New(rt)
	_ = json.Unmarshal(body, ptr.Interface())
	opts := interferingOptions(c.Interfere)
	switch {
	case c.Mode == 2:
		opts = append(opts, validation.WithRunAll(true))
	case c.Mode == 3:
		opts = append(opts, validation.WithStrategy(validation.StrategyInterface))
	case !c.Auto && c.Interfere != 7:
		opts = append(opts, validation.WithStrategy(validation.StrategyTags))
	}
	ctx := context.Background()
	pm, _ := validation.ComputePresence(body)
	vv := sharedValidator
	if caseValidator != nil {
		vv = caseValidator
	}
	pkg := c.Pkg || c.ViaApp
	switch {
	case c.Mode == 0 && pkg:
		_ = validation.ValidatePartial(ctx, ptr.Interface(), pm, opts...)
	case c.Mode == 0:
		_ = vv.ValidatePartial(ctx, ptr.Interface(), pm, opts...)
	case pkg:
		_ = validation.Validate(ctx, ptr.Interface(), opts...)
	default:
		_ = vv.Validate(ctx, ptr.Interface(), opts...)
	}
}

var sharedValidator = validation.MustNew()

// the application the ViaApp cases go through: PATCH /c05 runs whatever appHandler is set to
var (
	appOnce    sync.Once
	theApp     *app.App
	appHandler func(c *app.Context)
)

func getApp() *app.App {
	appOnce.Do(func() {
		theApp = app.MustNew(app.WithServiceName("verif-c05"), app.WithoutDefaultMiddleware())
		theApp.PATCH("/c05", func(c *app.Context) {
			if h := appHandler; h != nil {
				h(c)
			}
		})
		// the same behind a before-handler that has a look at the JSON body first (an audit / tenant guard)
		theApp.PATCH("/c05b", func(c *app.Context) {
			if h := appHandler; h != nil {
				h(c)
			}
		}, app.WithBefore(func(c *app.Context) {
			var seen map[string]any
			_ = c.BindOnly(&seen)
			c.Next()
		}))
	})
	return theApp
}

func redactor(c *caseT) validation.Redactor {
	if len(c.Redact) == 0 && c.RedactSub == "" {
		return nil
	}
	set := map[string]bool{}
	for _, p := range c.Redact {
		set[p] = true
	}
	sub := c.RedactSub
	return func(p string) bool { return set[p] || (sub != "" && strings.Contains(p, sub)) }
}

// caseValidator is the Validator built from the case's options (variants 1 and 2): one per case,
// used for every repetition, so that a call that writes into the Validator's base configuration
// shows as a difference between repetitions.
var caseValidator *validation.Validator

func observe(c *caseT, rt reflect.Type, secrets []string) (o obsT) {
	body := []byte(c.Body)
	pm, err := validation.ComputePresence(body)
	if err != nil {
		// the body is a JSON object (emit checked that): refusing it is an observation — an empty
		// presence set, which the oracle rejects whenever the body has a key
		pm = validation.PresenceMap{}
	}
	o.pm = sortedKeys(pm)
	o.leaves = pm.LeafPaths()
	ptr := reflect.New(rt)
	if !c.ViaApp {
		_ = json.Unmarshal(body, ptr.Interface())
	}
	// the option list has spare capacity: a callee that appends to it in place writes into the
	// caller's backing array (checked after the call)
	opts := make([]validation.Option, 0, 12)
	switch {
	case c.Mode == 2:
		opts = append(opts, validation.WithRunAll(true))
	case c.Mode == 3:
		opts = append(opts, validation.WithStrategy(validation.StrategyInterface))
	case !c.Auto:
		opts = append(opts, validation.WithStrategy(validation.StrategyTags))
	}
	if c.MaxErrors > 0 {
		opts = append(opts, validation.WithMaxErrors(c.MaxErrors))
	} else if c.Limits == 1 {
		opts = append(opts, validation.WithMaxErrors(0))
	} else if c.Limits == 2 && c.Variant != 1 && c.Variant != 2 {
		opts = append(opts, validation.WithMaxErrors(-1))
	}
	if c.MaxFields > 0 {
		opts = append(opts, validation.WithMaxFields(c.MaxFields))
	} else if c.Limits == 1 {
		opts = append(opts, validation.WithMaxFields(0))
	}
	if rd := redactor(c); rd != nil {
		opts = append(opts, validation.WithRedactor(rd))
	}
	if c.Mapper && c.Mode == 0 {
		opts = append(opts, validation.WithFieldNameMapper(func(s string) string { return "Label(" + strings.ToUpper(s) + ")" }))
	}
	if c.Custom > 0 {
		n := c.Custom - 1
		byValue := c.Custom >= 5
		if byValue {
			n = c.Custom - 3 // 2..4 field errors, returned as a validation.Error VALUE
		}
		opts = append(opts, validation.WithCustomValidator(func(any) error {
			if n == 0 {
				return nil
			}
			var e validation.Error
			for _, f := range customErrs(n) {
				e.Add(f[0], f[1], "custom", nil)
			}
			if byValue {
				return e
			}
			return &e
		}))
	}
	var verr error
	func() {
		defer func() {
			if p := recover(); p != nil {
				o.kind = "P"
			}
		}()
		ctx := context.Background()
		if c.Ctx == 1 {
			ctx = caseContext(c)
		} else if c.Ctx >= 2 {
			opts = append(opts, validation.WithContext(caseContext(c)))
		}
		switch {
		case c.Mode == 0 && c.ViaApp:
			// the whole path of a PATCH handler: bind the body, presence from the raw body, partial validation
			target := "/c05"
			if c.AppVia == 7 {
				target = "/c05b"
			}
			sent := body
			if c.BOM {
				sent = append([]byte("\xef\xbb\xbf"), body...)
			}
			req := httptest.NewRequest("PATCH", target, bytes.NewReader(sent))
			req.Header.Set("Content-Type", []string{"application/json", "application/json; charset=utf-8", "application/merge-patch+json",
				"Application/JSON", "application/merge-patch+json; charset=utf-8"}[len(c.Body)%5])
			if c.AppVia == 5 {
				// an earlier request with another body: nothing of it may be left in the context that serves the next one
				appHandler = func(ac *app.Context) {
					var prev map[string]any
					_ = ac.Bind(&prev, app.WithPartial())
				}
				decoy := httptest.NewRequest("PATCH", "/c05", strings.NewReader(`{"zz-prev":{"x":1},"name":"zz","user":{"name":"p"},"a":[1]}`))
				decoy.Header.Set("Content-Type", "application/json")
				getApp().Router().ServeHTTP(httptest.NewRecorder(), decoy)
			}
			ran := false
			appHandler = func(ac *app.Context) {
				ran = true
				if c.Ctx != 0 {
					ac.Request = ac.Request.WithContext(caseContext(c))
				}
				if ac.Presence() != nil && c.AppVia != 7 {
					o.clobbered = true // presence of an earlier request (nothing has been bound in this one yet)
				}
				defer func() {
					if p := recover(); p != nil {
						o.kind = "P"
					}
				}()
				switch c.AppVia {
				case 1:
					if verr = ac.BindOnly(ptr.Interface()); verr == nil {
						verr = ac.Validate(ptr.Interface(), append([]validation.Option{validation.WithPartial(true)}, opts...)...)
					}
				case 2:
					verr = ac.Bind(ptr.Interface(), app.WithValidationOptions(append([]validation.Option{validation.WithPartial(true)}, opts...)...))
				case 3:
					verr = ac.Bind(ptr.Interface(), app.WithPartial(), app.WithPresence(pm), app.WithValidationOptions(opts...))
				case 4:
					var first map[string]any
					_ = ac.BindOnly(&first)
					verr = ac.Bind(ptr.Interface(), app.WithPartial(), app.WithValidationOptions(opts...))
				case 6:
					// the bind options come as a slice with spare capacity (a shared `common` list): a helper that
					// appends to it in place writes into the caller's backing array
					bopts := append(make([]app.BindOption, 0, 4), app.WithValidationOptions(opts...))
					switch c.Named {
					case "FullA":
						_, verr = app.BindPatch[FullA](ac, bopts...)
					case "FullE":
						_, verr = app.BindPatch[FullE](ac, bopts...)
					case "FullU":
						_, verr = app.BindPatch[FullU](ac, bopts...)
					default:
						verr = ac.Bind(ptr.Interface(), append(bopts, app.WithPartial())...)
						bopts = bopts[:2]
					}
					for _, spare := range bopts[len(bopts):cap(bopts)] {
						if spare != nil {
							o.clobbered = true
						}
					}
				default:
					verr = ac.Bind(ptr.Interface(), app.WithPartial(), app.WithValidationOptions(opts...))
				}
				if apm := ac.Presence(); apm != nil {
					o.pm = sortedKeys(apm)
					o.leaves = apm.LeafPaths()
				} else {
					o.pm, o.leaves = nil, nil
				}
			}
			getApp().Router().ServeHTTP(httptest.NewRecorder(), req)
			appHandler = nil
			if !ran {
				o.other = "app: handler did not run"
			}
		case c.Variant == 1 || c.Variant == 2:
			// options in the Validator's base configuration (cloned for every call that passes options)
			base, call := opts, []validation.Option(nil)
			if c.Variant == 2 {
				base = append([]validation.Option{}, opts...)
				base = append(base, validation.WithMaxErrors(c.MaxErrors+1))
				call = []validation.Option{validation.WithMaxErrors(c.MaxErrors)}
			}
			if c.Interfere > 0 {
				base = append(append([]validation.Option{}, base...),
					validation.WithMessageFunc("uuid4", func(string, reflect.Kind) string { return "must be a version 4 UUID" }),
					validation.WithMessages(map[string]string{"uuid4": "uuid"}))
			}
			vv := caseValidator
			if vv == nil {
				var nerr error
				vv, nerr = validation.New(base...)
				if nerr != nil {
					o.other = "New: " + nerr.Error()
					return
				}
				caseValidator = vv
			}
			if c.Mode == 0 {
				verr = vv.ValidatePartial(ctx, ptr.Interface(), pm, call...)
			} else {
				verr = vv.Validate(ctx, ptr.Interface(), call...)
			}
		case c.Variant == 4:
			pp := reflect.New(ptr.Type())
			pp.Elem().Set(ptr)
			if c.Mode == 0 {
				verr = sharedValidator.ValidatePartial(ctx, pp.Interface(), pm, opts...)
			} else {
				verr = sharedValidator.Validate(ctx, pp.Interface(), opts...)
			}
		case c.Mode == 0 && c.Variant == 3:
			verr = sharedValidator.Validate(ctx, ptr.Interface(), append([]validation.Option{validation.WithPartial(true), validation.WithPresence(pm)}, opts...)...)
		case c.Mode == 0 && c.Pkg:
			verr = validation.ValidatePartial(ctx, ptr.Interface(), pm, opts...)
		case c.Mode == 0:
			verr = sharedValidator.ValidatePartial(ctx, ptr.Interface(), pm, opts...)
		case c.Pkg:
			verr = validation.Validate(ctx, ptr.Interface(), opts...)
		default:
			verr = sharedValidator.Validate(ctx, ptr.Interface(), opts...)
		}
	}()
	for _, spare := range opts[len(opts):cap(opts)] {
		if spare != nil {
			o.other = "" // not a skip: report it through the determinism bit
			o.clobbered = true
		}
	}
	if o.kind == "P" {
		return o
	}
	if verr == nil {
		o.kind = "N"
		return o
	}
	var ve *validation.Error
	if !errors.As(verr, &ve) {
		o.other = "error:" + verr.Error()
		return o
	}
	o.kind = "E"
	o.trunc = ve.Truncated
	text := ve.Error()
	for _, f := range ve.Fields {
		hidden := "0"
		if fmt.Sprint(f.Meta["value"]) == "***REDACTED***" {
			hidden = "1"
		}
		o.fields = append(o.fields, [3]string{f.Path, f.Code, hidden})
		mk := make([]string, 0, len(f.Meta))
		for k, mv := range f.Meta {
			// no addresses: a value with pointers inside is compared through its JSON rendering
			if js, jerr := json.Marshal(mv); jerr == nil {
				mk = append(mk, k+"="+string(js))
			} else {
				mk = append(mk, k+"="+fmt.Sprintf("%T", mv))
			}
		}
		sort.Strings(mk)
		// every repetition unmarshals the body afresh: the addresses of pointer fields differ, and the code's
		// fmt.Sprint of a struct value prints them
		o.texts = append(o.texts, addrRe.ReplaceAllString(f.Message, "PTR"), addrRe.ReplaceAllString(strings.Join(mk, ","), "PTR"))
		text += "\x00" + f.Message + "\x00" + f.Error()
		for _, mv := range f.Meta {
			text += "\x00" + fmt.Sprint(mv)
		}
	}
	if js, jerr := json.Marshal(ve); jerr == nil {
		text += "\x00" + string(js)
	}
	for _, s := range secrets {
		// the value as it is, as %q / strconv.Quote render it, and as encoding/json renders it
		quoted := strings.Trim(strconv.Quote(s), `"`)
		js, _ := json.Marshal(s)
		if strings.Contains(text, s) || strings.Contains(text, quoted) || strings.Contains(text, strings.Trim(string(js), `"`)) {
			o.leak = true
		}
	}
	return o
}

// resolveDeep is resolveOwn continued through interface values and string-keyed maps (what
// encoding/json puts into any, []any and map[string]any): a secret may sit below such a slot and is
// printed with the container's value. Longest-first split for map keys that contain dots.
func resolveDeep(root reflect.Value, path string) (reflect.Value, bool) {
	if v, _, _, ok := resolveOwn(root, path); ok {
		return v, true
	}
	parts := strings.Split(path, ".")
	for i := len(parts) - 1; i >= 1; i-- {
		head, _, _, ok := resolveOwn(root, strings.Join(parts[:i], "."))
		if !ok {
			continue
		}
		cur := head
		rest := parts[i:]
		for len(rest) > 0 {
			for (cur.Kind() == reflect.Pointer || cur.Kind() == reflect.Interface) && !cur.IsNil() {
				cur = cur.Elem()
			}
			switch cur.Kind() {
			case reflect.Slice, reflect.Array:
				idx, err := strconv.Atoi(rest[0])
				if err != nil || idx < 0 || idx >= cur.Len() {
					return reflect.Value{}, false
				}
				cur, rest = cur.Index(idx), rest[1:]
			case reflect.Map:
				if cur.Type().Key().Kind() != reflect.String {
					return reflect.Value{}, false
				}
				found := false
				for n := len(rest); n >= 1 && !found; n-- {
					mv := cur.MapIndex(reflect.ValueOf(strings.Join(rest[:n], ".")).Convert(cur.Type().Key()))
					if mv.IsValid() {
						cur, rest, found = mv, rest[n:], true
					}
				}
				if !found {
					return reflect.Value{}, false
				}
			default:
				return reflect.Value{}, false
			}
		}
		return cur, true
	}
	return reflect.Value{}, false
}

// secretsOf returns the distinctive values (length >= 5) found at the redacted paths of the body.
func secretsOf(root reflect.Value, redacted []string) []string {
	var out []string
	for _, p := range redacted {
		val, ok := resolveDeep(root, p)
		if !ok {
			continue
		}
		for (val.Kind() == reflect.Pointer || val.Kind() == reflect.Interface) && !val.IsNil() {
			val = val.Elem()
		}
		switch val.Kind() {
		case reflect.String:
			// only values of secret(): unique per run once the counter and its terminator are in
			if s := val.String(); len(s) >= 5 && s[0] == 'q' && strings.Contains(s, "_") {
				out = append(out, s)
			}
		case reflect.Int:
			if val.Int() >= 1000000 {
				out = append(out, strconv.FormatInt(val.Int(), 10))
			}
		}
	}
	return out
}

// ---------------------------------------------------------------- case line

func jsonTerm(l *hx.Line, v any) {
	switch x := v.(type) {
	case map[string]any:
		keys := make([]string, 0, len(x))
		for k := range x {
			keys = append(keys, k)
		}
		sort.Strings(keys)
		l.Tok("O").Nat(len(keys))
		for _, k := range keys {
			l.Str(k)
			jsonTerm(l, x[k])
		}
	case []any:
		l.Tok("A").Nat(len(x))
		for _, it := range x {
			jsonTerm(l, it)
		}
	default:
		l.Tok("L")
	}
}

func hasLowSibling(v any) bool {
	switch x := v.(type) {
	case map[string]any:
		for k, val := range x {
			switch val.(type) {
			case map[string]any, []any:
				for k2 := range x {
					if k2 != k && strings.HasPrefix(k2, k) && len(k2) > len(k) && k2[len(k)] < '.' {
						return true
					}
				}
			}
			if hasLowSibling(val) {
				return true
			}
		}
	case []any:
		for _, it := range x {
			if hasLowSibling(it) {
				return true
			}
		}
	}
	return false
}

var bulkT = &TypeT{Fields: []FieldT{
	{JSON: "items", Kind: "sstruct", Tag: "", Sub: &TypeT{Fields: []FieldT{{JSON: "sku", Kind: "string", Tag: "min=1"}, {JSON: "qty", Kind: "int", Tag: "min=1"}}}},
	{JSON: "name", Kind: "string", Tag: "min=3"},
	{JSON: "zip", Kind: "string", Tag: "min=5"},
}}

func bulkBody(n int) string {
	var b strings.Builder
	b.WriteString(`{"items":[`)
	for i := 0; i < n; i++ {
		if i > 0 {
			b.WriteByte(',')
		}
		fmt.Fprintf(&b, `{"sku":"s%d","qty":%d}`, i, 1+i%7)
	}
	b.WriteString(`],"name":"ab","zip":"12"}`)
	return b.String()
}

func emit(id string, c caseT, st *hx.Stats) string {
	if c.Bulk > 0 {
		c.T, c.Named, c.Body = bulkT, "", bulkBody(c.Bulk)
	}
	var rt reflect.Type
	if c.Named != "" {
		rt = namedTypes[c.Named]
	} else {
		rt = c.T.reflectType()
	}
	var data map[string]any
	if err := json.Unmarshal([]byte(c.Body), &data); err != nil {
		return "# skipped " + id + ": body is not a JSON object"
	}
	// the struct value as the handler would have it
	ptr := reflect.New(rt)
	if uerr := json.Unmarshal([]byte(c.Body), ptr.Interface()); uerr != nil && c.ViaApp {
		c.ViaApp = false // binding refuses the body before validation: this case goes to the validator directly
	}
	if c.ViaApp && c.T != nil {
		// app.Context.Bind reads a JSON body only into structs that declare a json tag somewhere at the top
		tagged := false
		for _, f := range c.T.Fields {
			if !f.Embed && f.TagForm != 3 && f.TagForm != 4 {
				tagged = true
			}
		}
		if !tagged {
			c.ViaApp = false
		}
	}
	root := ptr.Elem()

	// candidate paths: brute-force enumeration of the decoded body (dotted)
	var paths []string
	var walk func(m map[string]any, pre string, top bool)
	walk = func(m map[string]any, pre string, top bool) {
		for k, v := range m {
			p := k
			if !top {
				p = pre + "." + k
			}
			paths = append(paths, p)
			switch x := v.(type) {
			case map[string]any:
				walk(x, p, false)
			case []any:
				for i, it := range x {
					ip := p + "." + strconv.Itoa(i)
					paths = append(paths, ip)
					if mm, ok := it.(map[string]any); ok {
						walk(mm, ip, false)
					}
				}
			}
		}
	}
	walk(data, "", true)
	// plus whatever the implementation marked (so that the model can look every leaf up)
	if pm, err := validation.ComputePresence([]byte(c.Body)); err == nil {
		for p := range pm {
			paths = append(paths, p)
		}
	}
	sort.Strings(paths)
	paths = uniq(paths)

	l := hx.NewLine(id).Tok("J")
	jsonTerm(l, data)
	single := true
	violations := 0
	var rules []ruleT
	if c.Mode == 0 {
		for _, p := range paths {
			r := ruleFor(root, p)
			if r.resolves || r.cresolves {
				rules = append(rules, r)
			}
		}
	}
	l.Tok("R").Nat(len(rules))
	elemRule, contPanic, promotedRule := false, false, false
	for _, r := range rules {
		l.Str(r.path).Bool(r.resolves).Nat(len(r.tags))
		var tagNames []string
		for _, t := range r.tags {
			l.Str(t.tag).Strs(t.shows)
			tagNames = append(tagNames, t.tag)
		}
		l.Bool(r.num).Bool(r.emb).Bool(r.cresolves).Bool(r.cpanic).Strs(r.ctags)
		if len(r.tags) > 1 || len(r.ctags) > 1 {
			single = false
		}
		violations += len(r.tags)
		if r.cresolves && (r.resolves != r.cresolves || fmt.Sprint(tagNames) != fmt.Sprint(r.ctags)) {
			elemRule = true
		}
		if r.cpanic {
			contPanic = true
		}
		if r.emb {
			promotedRule = true
		}
	}
	// the shape of the value as reflect shows it, and validator.Var at every location that has a rule: the
	// model resolves the paths itself (partial mode)
	l.Tok("T")
	var vtab []varEnt
	if c.Mode == 0 {
		encShape(l, ptr, nil, "", 0, &vtab)
	} else {
		l.Tok("X")
	}
	l.Tok("W").Nat(len(vtab))
	for _, e := range vtab {
		l.Nat(len(e.loc))
		for _, i := range e.loc {
			l.Nat(i)
		}
		l.Str(e.tag).Nat(len(e.viols))
		for _, t := range e.viols {
			l.Str(t.tag)
			encValShape(l, t.val, 0)
		}
	}
	var full []fullT
	if c.Mode == 1 || c.Mode == 2 {
		var ok bool
		full, ok = fullErrs(ptr.Interface(), rt)
		if !ok {
			return "# skipped " + id + ": validator.Struct returned a non-validation error"
		}
		violations = len(full)
	}
	rd := redactor(&c)
	var red []string
	if rd != nil {
		cand := append([]string(nil), paths...)
		for _, f := range full {
			cand = append(cand, f.path, f.apath)
			cand = append(cand, f.v.shows...)
		}
		for _, r := range rules {
			for _, t := range r.tags {
				cand = append(cand, t.shows...)
			}
		}
		sort.Strings(cand)
		for _, p := range uniq(cand) {
			if rd(p) {
				red = append(red, p)
			}
		}
	}
	if c.Custom >= 5 {
		// the one generic error such a call returns has the empty path and carries no value: a redactor that happens
		// to cover a body key "" has nothing to hide in it
		kept := red[:0:0]
		for _, p := range red {
			if p != "" {
				kept = append(kept, p)
			}
		}
		red = kept
	}
	l.Tok("O").Nat(c.Mode).Nat(c.MaxErrors).Nat(c.MaxFields).Strs(red).Bool(single)
	l.Tok("F").Nat(len(full))
	for _, f := range full {
		l.Str(f.path).Str(f.apath).Str(f.v.tag).Strs(f.v.shows)
		encValShape(l, f.val, 0)
	}
	// what the type's own Validate() returns (user code: a parameter)
	var iface [][2]string
	hasIface := false
	if _, ok := ptr.Interface().(interface{ Validate() error }); ok && c.Variant != 4 {
		hasIface = true // (a pointer to the pointer does not carry the method: isApplicable looks one level deep)
	}
	if c.Mode >= 2 || (hasIface && c.Auto) {
		if vi, ok := ptr.Interface().(interface{ Validate() error }); ok {
			var ve *validation.Error
			if err := vi.Validate(); err != nil && errors.As(err, &ve) {
				for _, f := range ve.Fields {
					iface = append(iface, [2]string{f.Path, f.Code})
				}
			}
		}
		violations += len(iface)
	}
	l.Tok("I").Nat(len(iface))
	for _, f := range iface {
		l.Str(f[0]).Str(f[1])
	}
	// Validate's own glue: the strategy asked for (0 auto, 1 interface, 2 tags), WithRunAll, what isApplicable finds
	// (computed here with reflect, independently), what the custom validator returns
	strat := 0
	switch {
	case c.Mode == 3:
		strat = 1
	case c.Mode == 2:
		strat = 0
	case !c.Auto:
		strat = 2
	}
	tagsApply := false
	for i := 0; i < rt.NumField(); i++ {
		if rt.Field(i).Tag.Get("validate") != "" {
			tagsApply = true
		}
	}
	l.Tok("C").Nat(strat).Bool(c.Mode == 2).Bool(hasIface).Bool(tagsApply)
	if c.Custom >= 5 {
		// an Error returned by value is not a *validation.Error: coerceToValidationErrors wraps it as one generic error
		l.Bool(true).Nat(1).Str("").Str("validation_error")
	} else if c.Custom >= 2 {
		ce := customErrs(c.Custom - 1)
		l.Bool(true).Nat(len(ce))
		for _, f := range ce {
			l.Str(f[0]).Str(f[1])
		}
	} else {
		l.Bool(false)
	}
	// through the app layer: which entry point and options the handler uses (the model folds them itself)
	if c.ViaApp && c.Mode == 0 {
		l.Bool(true).Nat(c.AppVia)
	} else {
		l.Bool(false)
	}
	in := l.String()

	secrets := secretsOf(root, red)
	caseValidator = nil
	if c.Interfere == 7 && c.Variant != 1 && c.Variant != 2 {
		// the call with the per-call schema comes first: it is the first thing the Validator ever sees of this type
		interfere(&c, rt)
	}
	o := observe(&c, rt, secrets)
	det := !o.clobbered
	if c.Load > 0 {
		// the same call while many other validations are in flight on the same Validator
		underLoad(&c, c.Load, func() {
			o2 := observe(&c, rt, secrets)
			if o2.detKey() != o.detKey() {
				det = false
			}
		})
	}
	for i := 0; i < 8; i++ {
		if c.Interfere > 0 && i%2 == 0 {
			interfere(&c, rt)
		}
		o2 := observe(&c, rt, secrets)
		if o2.detKey() != o.detKey() || o2.clobbered {
			det = false
			if os.Getenv("C05_DEBUG") != "" {
				fmt.Fprintf(os.Stderr, "DET %d\n%s\n%s\n", i, o.detKey(), o2.detKey())
			}
		}
	}
	if o.other != "" {
		return "# skipped " + id + ": " + o.other
	}
	l.Sep().Tok("PM").Strs(o.pm).Tok("LV").Strs(o.leaves).Tok("V").Tok(o.kind)
	if o.kind == "E" {
		l.Bool(o.trunc).Nat(len(o.fields))
		for _, f := range o.fields {
			l.Str(f[0]).Str(f[1]).Tok(f[2])
		}
	}
	l.Tok("K").Bool(o.leak).Tok("D").Bool(det)

	if st != nil {
		low := hasLowSibling(data)
		st.Case(in[len(id):], low || violations >= 2)
		st.Count("mode_" + []string{"partial", "full", "runall", "interface"}[c.Mode])
		st.Count("obs_" + o.kind)
		if c.ViaApp {
			st.Count("via_app_context_" + []string{"bind_withpartial", "bindonly_then_validate", "bind_validationoption_partial", "bind_withpresence", "second_bind_in_request", "after_another_request", "generic_bindpatch", "behind_a_before_handler_that_binds"}[c.AppVia])
		}
		if c.Ctx > 0 {
			st.Count("context_" + []string{"", "cancelled_argument", "cancelled_withcontext", "deadline_exceeded_withcontext"}[c.Ctx])
		}
		if c.Limits > 0 && (c.MaxErrors == 0 || c.MaxFields == 0) {
			st.Count("no_limit_spelled_" + []string{"", "explicit_zero", "negative_maxerrors"}[c.Limits])
		}
		if c.Mapper && c.Mode == 0 {
			st.Count("partial_with_field_name_mapper")
		}
		if c.BOM {
			st.Count("body_with_byte_order_mark_accepted_by_the_binder")
		}
		if c.Custom > 0 {
			st.Count("custom_validator_" + []string{"", "accepts", "rejects", "rejects", "rejects", "rejects_by_value", "rejects_by_value", "rejects_by_value"}[c.Custom])
		}
		if hasIface && c.Auto && c.Mode <= 1 {
			st.Count("auto_strategy_on_a_type_with_validate_method")
		}
		if c.Load > 0 {
			st.Count("under_load_1001_validations_in_flight")
		}
		if c.Bulk > 0 {
			st.Count("bulk_body_over_10000_paths")
		}
		if c.Interfere > 0 {
			st.Count("interfering_call_between_repetitions_" + []string{"", "messagefunc", "messages", "fieldnamemapper", "redactor", "limits", "all", "customschema"}[c.Interfere])
		}
		if c.Variant != 0 {
			st.Count("variant_" + []string{"", "base_options", "base_options_overridden", "validate_with_partial_option", "pointer_to_pointer"}[c.Variant])
		}
		if low {
			st.Count("low_sibling_next_to_nested")
		}
		if violations >= 2 {
			st.Count("violations_ge2")
		}
		if violations == 0 {
			st.Count("violations_0")
		}
		if o.trunc {
			st.Count("truncated")
		}
		if len(red) > 0 {
			st.Count("redactor_covers_some_path")
		}
		if len(secrets) > 0 {
			st.Count("secret_under_redacted_path")
		}
		if elemRule {
			st.Count("element_leaf_under_tagged_container")
		}
		if contPanic {
			st.Count("container_rule_panics_on_element")
		}
		if promotedRule {
			st.Count("rule_on_field_promoted_from_embedded_struct")
		}
		if hasEmbed(c.T) || c.Named == "FullE" {
			st.Count("type_embeds_a_struct")
		}
		if c.MaxFields > 0 && len(o.leaves) > c.MaxFields {
			st.Count("field_limit_cuts")
		}
		if len(o.pm) == 0 {
			st.Count("empty_presence")
		}
		st.Count("depth_" + depthBucket(data))
	}
	if c.Bulk > 0 {
		c.Body, c.T = "", nil // regenerated from Bulk on replay
	}
	return l.String() + hx.Comment(c)
}

func hasEmbed(t *TypeT) bool {
	if t == nil {
		return false
	}
	for _, f := range t.Fields {
		if f.Embed || hasEmbed(f.Sub) {
			return true
		}
	}
	return false
}

func depthBucket(v any) string {
	d := depthOf(v)
	switch {
	case d <= 2:
		return "le2"
	case d <= 6:
		return "3to6"
	case d <= 100:
		return "7to100"
	default:
		return "gt100"
	}
}

func depthOf(v any) int {
	switch x := v.(type) {
	case map[string]any:
		d := 0
		for _, val := range x {
			if dd := depthOf(val); dd > d {
				d = dd
			}
		}
		return d + 1
	case []any:
		d := 0
		for _, it := range x {
			if dd := depthOf(it); dd > d {
				d = dd
			}
		}
		return d
	}
	return 0
}

func uniq(s []string) []string {
	out := s[:0]
	for i, x := range s {
		if i == 0 || x != s[i-1] {
			out = append(out, x)
		}
	}
	return out
}

// fixed witnesses: the findings of DESIGN.md §7 and boundary cases
// bulkCases run in the thorough tier only: the driver's oracle is quadratic in the number of paths (≈ 80 s)
func bulkCases() []caseT {
	return []caseT{{Bulk: 3400}} // 10 203 paths
}

func fixedCases() []caseT {
	userT := &TypeT{Fields: []FieldT{
		{JSON: "user", Kind: "struct", Tag: "required", Sub: &TypeT{Fields: []FieldT{{JSON: "name", Kind: "string", Tag: "required,min=3"}}}},
		{JSON: "user-id", Kind: "int", Tag: "min=5"},
		{JSON: "a", Kind: "string", Tag: "min=3"},
		{JSON: "tags", Kind: "sstring", Tag: "min=2"},
		{JSON: "dive", Kind: "sstring", Tag: "dive,min=3"},
		{JSON: "items", Kind: "sstruct", Tag: "max=1", Sub: &TypeT{Fields: []FieldT{{JSON: "name", Kind: "string", Tag: "required"}}}},
	}}
	return []caseT{
		{Body: `{"user":{"name":"xy"},"user-id":1}`, T: userT},                       // K05
		{Body: `{"":{"a":"x"}}`, T: userT},                                           // K05b
		{Body: `{"tags":["a","b"]}`, T: userT},                                       // K05c
		{Body: `{"dive":["a","bbbb"]}`, T: userT},                                    // K05c (panic)
		{Body: `{"items":[{},{}]}`, T: userT},                                        // K05c
		{Body: `{"user":{"name":"xy"},"user-id":1,"a":"q"}`, T: userT, MaxErrors: 1}, // cap
		{Body: `{}`, T: userT},
		{Body: `{"a":[[{"b":1}]]}`, T: userT},
		{Body: `{"email":"x","pass_word":"abcdefg","age":9,"user":{"name":"ab","secret":"s3cr3t"}}`, Named: "FullA", Mode: 1, Redact: []string{"pass_word", "user.secret"}},
		{Body: `{"email":"x","pass_word":"abcdefg","age":9}`, Named: "FullA", Mode: 1, MaxErrors: 2},
		{Body: `{"userName":"abc","Owner":{"name":"abc"},"kidsList":[{"name":"abc"},{"name":"abc","secret":"q1_hunter2"}]}`, Named: "FullC", Mode: 1, Redact: []string{"kidsList.1.secret"}}, // K05f
		{Body: `{"userName":"ab","apiKey":"q2_short","Owner":{"name":"abc"},"rows":[["a"]],"kidsList":[{"name":"abc"}]}`, Named: "FullC", Mode: 1, Redact: []string{"apiKey", "rows.0.0"}},   // K05e
		{Body: `{"email":"x","age":9,"nerr":2}`, Named: "FullV", Mode: 2, MaxErrors: 3},                                                                                                      // K05g
		{Body: `{"email":"x","age":9,"nerr":4}`, Named: "FullV", Mode: 3, MaxErrors: 2},
		{Body: `{"id":"x","kind":"zzz","name":"n","token":"short"}`, Named: "FullE", Mode: 0},
		{Body: `{"items":[{"tags":["ab","abcd"],"label":"x"}]}`, Named: "FullE", Mode: 0},                                                                                  // element of a promoted slice inside an array element
		{Body: " \n\t{\"user\":{\"name\":\"xy\"},\"a\":\"q\"} \n", T: userT, ViaApp: true},                                                                                 // white space around the object                                                                              // K05h
		{Body: `{"id":"x","kind":"zzz","name":"n","token":"q9_short"}`, Named: "FullE", Mode: 1, Redact: []string{"token", "id"}},                                          // K05h (full)
		{Body: `{"users":[{"name":"al","password":"q7_hunter2x"},{"name":"bo","password":"q8_s3cretxx"}]}`, Named: "FullU", Mode: 1, Redact: []string{"users.1.password"}}, // container value, unexported embedded struct
		{Body: `{"owner":{"name":"a","password":"short","pin":"12"}}`, Named: "FullU", Mode: 0},
		{Body: `{"F0":"ab","F1":"x"}`, T: &TypeT{Fields: []FieldT{{JSON: "F0", Kind: "string", Tag: "min=3", TagForm: 2}, {JSON: "F1", Kind: "string", Tag: "min=3", TagForm: 3}}}},                                                           // K05j
		{Body: `{"F0":"ab","F1":"x"}`, T: &TypeT{Fields: []FieldT{{JSON: "F0", Kind: "string", Tag: "min=3", TagForm: 2}, {JSON: "F1", Kind: "string", Tag: "min=3", TagForm: 3}}}, Mode: 1},                                                  // K05j (full)
		{Body: `{"name":"ab","F1":"x","-":"q"}`, T: &TypeT{Fields: []FieldT{{JSON: "name", Kind: "string", Tag: "min=2"}, {JSON: "F1", Kind: "string", Tag: "required", TagForm: 4}, {JSON: "-", Kind: "string", Tag: "min=3", TagForm: 5}}}}, // K05k
		{Body: `{"token":"q5_short","note":"toolong","v":{"name":"ab"}}`, Named: "FullG", Mode: 1, Redact: []string{"token"}},                                                                                                                 // generic type name with dots
		{Body: `{"id":["q3_wvxk",{"n":3,"user":"q4_wvxkjq"},{"n":4,"token":"q5_wvxkjq"}]}`, T: &TypeT{Fields: []FieldT{{JSON: "id", Kind: "sany", Tag: "omitempty,max=2"}}}, Mode: 1, Redact: []string{"id.1.user", "id.2.token"}},            // secrets below interface slots of a failing container
		{Body: `{"meta":{"auth":{"token":"q6_wvxkjq"},"a":"x"}}`, T: &TypeT{Fields: []FieldT{{JSON: "meta", Kind: "many", Tag: "max=1"}}}, Mode: 1, Redact: []string{"meta.auth.token"}},
		{Body: `{"id":"x","kind":"q7_wv\t","name":"n","token":"q8_wvxkjq\""}`, Named: "FullE", Mode: 1, Redact: []string{"kind", "token"}},                                                                                 // a redacted value that quoting escapes
		{Body: `{"user":{"name":"xy"},"user-id":1,"a":"q"}`, T: userT, Ctx: 2},               // a cancelled context changes nothing
		{Body: `{"user":{"name":"xy"},"user-id":1,"a":"q"}`, T: userT, Ctx: 3, ViaApp: true}, // … nor does one past its deadline, through the app layer
		{Body: `{"user":{"name":"xy"}}`, T: &TypeT{Fields: []FieldT{{JSON: "user", Kind: "struct", Sub: &TypeT{Fields: []FieldT{{JSON: "name", Kind: "string", Tag: "required,min=3"}}}}}}, Mode: 1, Auto: true, Interfere: 7}, // nested-only tags under Auto, after a call with a per-call schema
		{Body: `{"user":{"name":"xy"},"a":"q"}`, T: userT, Mapper: true, Redact: []string{"a"}},                                                                                                                      // mapper + redactor in partial mode
		{Body: `{"email":"x","age":9}`, Named: "FullA", Mode: 1, MaxErrors: 2, Custom: 7},                                                                                                                          // custom validator returning an Error value
		{Body: `{"EBase":"x","id":"y","note":"toolong"}`, Named: "FullS", Mode: 0},                       // K05m: a field tagged with the name of a later embedded struct
		{Body: `{"EBase":"x","id":"y"}`, Named: "FullS", Mode: 1, Redact: []string{"id"}},               // … full mode, the redaction walk still enters the embedded struct
		{Body: `{"a":"q"}`, T: userT, ViaApp: true, BOM: true}, // a byte order mark in front of a PATCH body
		{Body: `{"user":{"name":"xy"},"a":"q"}`, T: userT, Load: 1001},                       // 1001 other validations in flight on the same Validator
		{Body: `{"email":"x","age":9,"nerr":1}`, Named: "FullV", Mode: 2, Load: 1001, Pkg: true},
		{Body: `{"1":"abc","2":{"3":"x"}}`, T: &TypeT{Fields: []FieldT{{JSON: "1", Kind: "string", Tag: "email"}, {JSON: "2", Kind: "struct", Sub: &TypeT{Fields: []FieldT{{JSON: "3", Kind: "string", Tag: "min=2"}}}}}}}, // K05d
	}
}

func main() {
	a := hx.ParseArgs()
	w := hx.Out()
	defer w.Flush()
	switch a.Cmd {
	case "gen":
		r := hx.NewRand(a.Seed)
		st := hx.NewStats()
		for i, c := range fixedCases() {
			fmt.Fprintln(w, emit(fmt.Sprintf("c05-fix-%d", i), c, st))
		}
		if a.Tier == "thorough" && a.Seed%1000 == 0 {
			for i, c := range bulkCases() {
				fmt.Fprintln(w, emit(fmt.Sprintf("c05-bulk-%d", i), c, st))
			}
		}
		for i := 0; i < a.N; i++ {
			c := genCase(r, a.Tier)
			fmt.Fprintln(w, emit(fmt.Sprintf("c05-%d-%d", a.Seed, i), c, st))
		}
		st.Emit(w)
	case "replay":
		for _, line := range hx.StdinLines() {
			var c caseT
			id, err := hx.CaseFromComment(line, &c)
			if err != nil {
				fmt.Fprintf(w, "# cannot replay %q: %v\n", id, err)
				continue
			}
			fmt.Fprintln(w, emit(id, c, nil))
		}
	}
}
