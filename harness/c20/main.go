// Harness for C20 (logs are redacted and not lost). Two kinds of cases, both against the public API
// of rivaas.dev/logging only: `R` redaction (redact.go) and `B` buffering histories (buffer.go).
package main

import (
	"fmt"

	"verif/harness/hx"
)

// caseT is the concrete case; it travels as JSON in the trailing comment so `replay` can re-run it.
type caseT struct {
	R *rcaseT `json:",omitempty"`
	B *bcaseT `json:",omitempty"`
	Z *scaseT `json:",omitempty"`
	O *ocaseT `json:",omitempty"`
}

func main() {
	a := hx.ParseArgs()
	w := hx.Out()
	defer w.Flush()
	switch a.Cmd {
	case "gen":
		r := hx.NewRand(a.Seed)
		st := hx.NewStats()
		for i, c := range fixedRedact() {
			fmt.Fprintln(w, emitRedact(fmt.Sprintf("c20-rfix-%d", i), c, st))
		}
		for i, c := range fixedBuffer() {
			fmt.Fprintln(w, emitBuffer(fmt.Sprintf("c20-bfix-%d", i), c, r, st))
		}
		fmt.Fprintln(w, emitBuffer("c20-overlap-0", overlapCase(), r, st))
		for i, c := range fixedApp() {
			fmt.Fprintln(w, emitBuffer(fmt.Sprintf("c20-app-%d", i), c, r, st))
		}
		for i, c := range fixedConfig() {
			fmt.Fprintln(w, emitConfig(fmt.Sprintf("c20-ofix-%d", i), c, st))
		}
		// construction + acceptance: one tenth as many cases as the others
		for i := 0; i < a.N/10; i++ {
			fmt.Fprintln(w, emitConfig(fmt.Sprintf("c20-o-%d-%d", a.Seed, i), genConfig(r), st))
		}
		for i := 0; i < a.N; i++ {
			if i%3 == 2 {
				fmt.Fprintln(w, emitBuffer(fmt.Sprintf("c20-b-%d-%d", a.Seed, i), genBuffer(r), r, st))
			} else {
				fmt.Fprintln(w, emitRedact(fmt.Sprintf("c20-r-%d-%d", a.Seed, i), genRedact(r, true), st))
			}
		}
		// stress histories: a fixed time budget per tier, spread over several histories
		nStress, millis := 6, 400
		if a.Tier == "thorough" {
			nStress, millis = 10, 1200
		}
		if a.N == 0 {
			nStress = 0
		}
		if nStress > 0 {
			fmt.Fprintln(w, emitStress(fmt.Sprintf("c20-zvol-%d", a.Seed), scaseT{G: 1, Volume: 3000 + r.Intn(6000), Seed: 1}, st))
		}
		for i := 0; i < nStress; i++ {
			k := genStress(r, millis)
			k.Batch = i%3 == 1                // every third history goes through a BatchLogger
			k.CloseRace = k.Batch && i%6 == 4 // … every sixth closes it while the goroutines are logging
			if k.CloseRace && k.G < 2 {
				k.G = 2
			}
			k.Flaky = i%6 == 2 // … and one in six goes to a console handler on an output with temporary write errors
			fmt.Fprintln(w, emitStress(fmt.Sprintf("c20-z-%d-%d", a.Seed, i), k, st))
		}
		st.Emit(w)
	case "replay":
		for _, line := range hx.StdinLines() {
			var k caseT
			id, err := hx.CaseFromComment(line, &k)
			if err != nil {
				fmt.Fprintf(w, "# cannot replay %q: %v\n", id, err)
				continue
			}
			switch {
			case k.R != nil:
				fmt.Fprintln(w, emitRedact(id, *k.R, nil))
			case k.B != nil:
				fmt.Fprintln(w, emitBuffer(id, *k.B, nil, nil))
			case k.Z != nil:
				fmt.Fprintln(w, emitStress(id, *k.Z, nil))
			case k.O != nil:
				fmt.Fprintln(w, emitConfig(id, *k.O, nil))
			}
		}
	}
}
