// Two overlapping FlushBuffer calls (bcaseT.Overlap): worker 0 buffers two records, worker 1's FlushBuffer is parked in
// the final handler on the first replayed record, worker 2 calls FlushBuffer meanwhile. Logger.mu admits one flush at a
// time, so worker 2 waits until worker 1 is through (the machine of Model/LogBuf.lean stutters: its `begin` is the
// moment it gets its turn). If instead worker 2's call comes back while worker 1 is still parked, that is what the trace
// says: begin and done of worker 2's FlushBuffer before any record has been written.
package main

import (
	"context"
	"log/slog"
	"sync"
	"time"

	"rivaas.dev/logging"
)

type parkHandler struct {
	mu      sync.Mutex
	trace   *[]evT
	entered chan struct{}
	park    chan struct{}
}

func (h *parkHandler) Enabled(context.Context, slog.Level) bool { return true }
func (h *parkHandler) WithAttrs([]slog.Attr) slog.Handler       { return h }
func (h *parkHandler) WithGroup(string) slog.Handler            { return h }
func (h *parkHandler) Handle(_ context.Context, r slog.Record) error {
	g, seq, _, ok := parseMsg(r.Message)
	if !ok {
		return nil
	}
	select {
	case h.entered <- struct{}{}:
	default:
	}
	<-h.park
	h.mu.Lock()
	*h.trace = append(*h.trace, evT{K: 'w', G: g, I: seq, Intact: true})
	h.mu.Unlock()
	return nil
}

func overlapCase() bcaseT {
	S, F := bopT{K: "S"}, bopT{K: "F"}
	return bcaseT{Custom: true, Overlap: true, Progs: [][]bopT{{S, lg(0, 3, false), lg(1, 3, false)}, {F}, {F}},
		Sched: []stepT{{G: 0}, {G: 0}, {G: 0}, {G: 1}, {G: 2}, {G: 1}, {G: 1}, {G: 2}}}
}

func runOverlap(k bcaseT) (bcaseT, []evT, bool, map[string]int) {
	var trace []evT
	h := &parkHandler{trace: &trace, entered: make(chan struct{}, 1), park: make(chan struct{})}
	add := func(e evT) {
		h.mu.Lock()
		trace = append(trace, e)
		h.mu.Unlock()
	}
	l, err := logging.New(logging.WithCustomLogger(slog.New(h)))
	if err != nil {
		return k, nil, false, nil
	}
	add(evT{K: 'b', G: 0, I: 0})
	l.StartBuffering()
	add(evT{K: 'd', G: 0, I: 0})
	for i := 0; i < 2; i++ {
		add(evT{K: 'b', G: 0, I: i + 1})
		l.Error(msgOf(0, &logT{Seq: i, Lvl: 3}))
		add(evT{K: 'd', G: 0, I: i + 1})
	}
	doneA, doneB := make(chan struct{}), make(chan struct{})
	add(evT{K: 'b', G: 1, I: 0})
	go func() {
		_ = l.FlushBuffer()
		add(evT{K: 'd', G: 1, I: 0})
		close(doneA)
	}()
	select {
	case <-h.entered:
	case <-time.After(2 * time.Second):
		return k, trace, false, nil
	}
	go func() {
		_ = l.FlushBuffer()
		close(doneB)
	}()
	stats := map[string]int{}
	early := false
	select {
	case <-doneB:
		// came back while worker 1's FlushBuffer is parked on the first record
		early = true
		add(evT{K: 'b', G: 2, I: 0})
		add(evT{K: 'd', G: 2, I: 0})
		stats["overlapping_flush_returned_early"] = 1
	case <-time.After(150 * time.Millisecond):
		stats["overlapping_flush_waited"] = 1
	}
	close(h.park)
	<-doneA
	if !early {
		add(evT{K: 'b', G: 2, I: 0}) // it gets its turn now
		select {
		case <-doneB:
		case <-time.After(2 * time.Second):
			return k, trace, false, stats
		}
		add(evT{K: 'd', G: 2, I: 0})
	}
	_ = l.Shutdown(context.Background())
	return k, trace, true, stats
}
