// Construction and acceptance cases of C20 (kind O): a list of logging options, then a history of level-method
// calls, SetLevel and Shutdown on one goroutine. Observed: what New returns, what DebugInfo reports, which calls came
// out of the output. Model: Model/LogConfig.lean (option handling, Validate, Logger.log → shouldSample).
package main

import (
	"bytes"
	"context"
	"errors"
	"fmt"
	"io"
	"log/slog"
	"strconv"

	"rivaas.dev/logging"
	"verif/harness/hx"
)

type ooptT struct {
	K string // h l dl s dm sa o c
	N int    `json:",omitempty"`
	B bool   `json:",omitempty"`
	I int    `json:",omitempty"`
	T int    `json:",omitempty"`
}

type ocallT struct {
	K string // L V H
	L int    `json:",omitempty"`
}

type ocaseT struct {
	Opts  []ooptT
	Calls []ocallT
}

var oLevels = []slog.Level{slog.LevelDebug, slog.LevelInfo, slog.LevelWarn, slog.LevelError}
var oHandlers = []logging.HandlerType{logging.JSONHandler, logging.TextHandler, logging.ConsoleHandler, logging.HandlerType("weird")}

type oobsT struct {
	res      int // 0 ok 1 invalid 2 bad handler 3 other
	hasInfo  bool
	level    int
	src, dbg bool
	acc      []bool
	panicked bool
}

func runConfig(k ocaseT) (o oobsT) {
	defer func() {
		if p := recover(); p != nil {
			o.panicked = true
		}
	}()
	out := &bytes.Buffer{}
	opts := []logging.Option{logging.WithOutput(out)}
	custom := false
	for _, op := range k.Opts {
		switch op.K {
		case "h":
			opts = append(opts, logging.WithHandlerType(oHandlers[op.N]))
		case "l":
			opts = append(opts, logging.WithLevel(oLevels[op.N]))
		case "dl":
			opts = append(opts, logging.WithDebugLevel())
		case "s":
			opts = append(opts, logging.WithSource(op.B))
		case "dm":
			opts = append(opts, logging.WithDebugMode(op.B))
		case "sa":
			opts = append(opts, logging.WithSampling(logging.SamplingConfig{Initial: op.I, Thereafter: op.T}))
		case "o":
			if op.B {
				opts = append(opts, logging.WithOutput(nil))
			} else {
				opts = append(opts, logging.WithOutput(out))
			}
		case "c":
			custom = true
			if op.B {
				opts = append(opts, logging.WithCustomLogger(nil))
			} else {
				opts = append(opts, logging.WithCustomLogger(slog.New(slog.NewJSONHandler(io.Discard, nil))))
			}
		}
	}
	l, err := logging.New(opts...)
	switch {
	case err == nil:
		o.res = 0
	case errors.Is(err, logging.ErrInvalidHandler):
		o.res = 2
	default:
		o.res = 1
	}
	if err != nil || custom {
		return o
	}
	info := l.DebugInfo()
	o.hasInfo = true
	switch fmt.Sprint(info["level"]) {
	case "DEBUG":
		o.level = 0
	case "INFO":
		o.level = 1
	case "WARN":
		o.level = 2
	case "ERROR":
		o.level = 3
	default:
		o.level = 9
	}
	o.src, _ = info["add_source"].(bool)
	o.dbg, _ = info["debug_mode"].(bool)
	n := 0
	for _, c := range k.Calls {
		switch c.K {
		case "L":
			msg := "m" + strconv.Itoa(n) + ";"
			n++
			switch c.L {
			case 0:
				l.Debug(msg)
			case 1:
				l.Info(msg)
			case 2:
				l.Warn(msg)
			default:
				l.Error(msg)
			}
		case "V":
			_ = l.SetLevel(oLevels[c.L])
		case "H":
			_ = l.Shutdown(context.Background())
		}
	}
	data := out.Bytes()
	for i := 0; i < n; i++ {
		o.acc = append(o.acc, bytes.Contains(data, []byte("m"+strconv.Itoa(i)+";")))
	}
	return o
}

// case line: <id> O <nopts> <opt…> <ncalls> <call…> => N <res> <hasInfo> [<level> <src> <dbg> <n> <acc…>] | P
func emitConfig(id string, k ocaseT, st *hx.Stats) string {
	l := hx.NewLine(id).Tok("O").Nat(len(k.Opts))
	for _, op := range k.Opts {
		l.Tok(op.K)
		switch op.K {
		case "h", "l":
			l.Nat(op.N)
		case "s", "dm", "o", "c":
			l.Bool(op.B)
		case "sa":
			l.Tok(strconv.Itoa(op.I)).Tok(strconv.Itoa(op.T))
		}
	}
	l.Nat(len(k.Calls))
	for _, c := range k.Calls {
		l.Tok(c.K)
		if c.K != "H" {
			l.Nat(c.L)
		}
	}
	in := l.String()
	l.Sep()
	o := runConfig(k)
	if o.panicked {
		l.Tok("P")
	} else {
		l.Tok("N").Nat(o.res).Bool(o.hasInfo)
		if o.hasInfo {
			l.Nat(o.level).Bool(o.src).Bool(o.dbg).Nat(len(o.acc))
			for _, b := range o.acc {
				l.Bool(b)
			}
		}
	}
	if st != nil {
		sampled := false
		for _, op := range k.Opts {
			sampled = sampled || op.K == "sa"
		}
		st.Case(in[len(id):], sampled || len(k.Opts) >= 2)
		st.Count("config_cases")
		st.Count("config_new_res_" + strconv.Itoa(o.res))
		if sampled && o.res == 0 {
			st.Count("config_with_sampling")
		}
	}
	return l.String() + hx.Comment(caseT{O: &k})
}

func genConfig(r *hx.Rand) ocaseT {
	var k ocaseT
	for i, n := 0, r.Intn(5); i < n; i++ {
		switch x := r.Intn(24); {
		case x < 4:
			k.Opts = append(k.Opts, ooptT{K: "l", N: r.Intn(4)})
		case x < 6:
			k.Opts = append(k.Opts, ooptT{K: "dl"})
		case x < 9:
			k.Opts = append(k.Opts, ooptT{K: "s", B: r.Chance(1, 2)})
		case x < 13:
			k.Opts = append(k.Opts, ooptT{K: "dm", B: r.Chance(2, 3)})
		case x < 19:
			o := ooptT{K: "sa", I: r.Intn(5), T: r.Intn(4)}
			if r.Chance(1, 12) {
				o.I = -1 - r.Intn(2)
			}
			if r.Chance(1, 12) {
				o.T = -1
			}
			k.Opts = append(k.Opts, o)
		case x < 22:
			h := r.Intn(3)
			if r.Chance(1, 8) {
				h = 3
			}
			k.Opts = append(k.Opts, ooptT{K: "h", N: h})
		case x < 23:
			k.Opts = append(k.Opts, ooptT{K: "o", B: r.Chance(1, 2)})
		default:
			k.Opts = append(k.Opts, ooptT{K: "c", B: r.Chance(1, 3)})
		}
	}
	for i, n := 0, r.Range(3, 24); i < n; i++ {
		switch x := r.Intn(40); {
		case x < 35:
			k.Calls = append(k.Calls, ocallT{K: "L", L: hx.Pick(r, []int{0, 1, 1, 1, 2, 2, 3})})
		case x < 39:
			k.Calls = append(k.Calls, ocallT{K: "V", L: r.Intn(4)})
		default:
			k.Calls = append(k.Calls, ocallT{K: "H"})
		}
	}
	return k
}

func fixedConfig() []ocaseT {
	lg := func(l int) ocallT { return ocallT{K: "L", L: l} }
	return []ocaseT{
		{Opts: []ooptT{{K: "sa", I: 2, T: 3}, {K: "l", N: 0}}, Calls: []ocallT{lg(1), lg(1), lg(1), lg(3), lg(1), lg(1), lg(0), {K: "H"}, lg(3)}},
		{Opts: []ooptT{{K: "dm", B: true}, {K: "l", N: 2}, {K: "dm", B: false}}, Calls: []ocallT{lg(0), lg(1), lg(2)}},
		{Opts: []ooptT{{K: "sa", I: -1, T: 0}}},
		{Opts: []ooptT{{K: "h", N: 3}}},
		{Opts: []ooptT{{K: "h", N: 3}, {K: "c", B: false}}},
		{Opts: []ooptT{{K: "c", B: true}}},
		{Opts: []ooptT{{K: "o", B: true}}},
		{Opts: []ooptT{{K: "sa", I: 0, T: 0}}, Calls: []ocallT{lg(1), lg(1), lg(1)}},
		{Opts: []ooptT{{K: "sa", I: 1, T: 2}}, Calls: []ocallT{lg(1), lg(0), lg(1), {K: "V", L: 0}, lg(0), lg(1), lg(3), lg(1)}},
	}
}
