// Stress histories of C20: no conductor. G goroutines log sequence-numbered records as fast as a small
// pause allows (through the Logger's own methods or a With-derived logger) while the main goroutine
// cycles StartBuffering / FlushBuffer (and now and then SetLevel) many times; then the loggers stop, a
// final FlushBuffer runs, and the whole output is judged: per goroutine the records 0..n-1, each exactly
// once, in order. Sound on correct code for every interleaving (no timing assumption); what it finds is
// up to the scheduler — its detection power is probabilistic, its verdict is not.
package main

import (
	"bytes"
	"context"
	"log/slog"
	"regexp"
	"strconv"
	"sync"
	"sync/atomic"
	"syscall"
	"time"

	"rivaas.dev/logging"
	"verif/harness/hx"
)

type scaseT struct {
	G        int    // logging goroutines
	Millis   int    // duration of the cycling phase
	SetLevel bool   // the main goroutine also calls SetLevel now and then (same or lower level)
	Derived  []bool // goroutine g logs through l.With("w", g) obtained per call
	// Batch: the goroutines log through one logging.BatchLogger (small batch size, 1 ms ticker) and the
	// main goroutine also calls its Flush; at the end it is closed before the final FlushBuffer
	Batch bool `json:",omitempty"`
	// CloseRace (with Batch): instead of the StartBuffering / FlushBuffer cycles the main goroutine runs many
	// short trials — a fresh BatchLogger, the goroutines log through it flat out, Close is called WHILE they
	// are logging, they go on a little longer, are parked (every call has returned), Flush writes out what
	// was added after Close — and the per-goroutine order of the whole output is judged as always
	CloseRace bool `json:",omitempty"`
	// Flaky: console handler, and the output now and then takes all of a line but its last byte and reports a temporary
	// error (EAGAIN: a terminal / pipe with a write deadline). The record has reached the output — it must not come again.
	Flaky bool `json:",omitempty"`
	// Volume > 0: no concurrency at all — StartBuffering, Volume records from one goroutine, FlushBuffer
	// (a start-up that logs a lot before the banner)
	Volume int  `json:",omitempty"`
	Source bool `json:",omitempty"` // logging.WithSource(true)
	Seed   uint64
}

type runT struct{ Start, Len int }

type lockedBuf struct {
	mu sync.Mutex
	b  bytes.Buffer
}

func (w *lockedBuf) Write(p []byte) (int, error) {
	w.mu.Lock()
	defer w.mu.Unlock()
	return w.b.Write(p)
}

// flakyBuf: every `every`-th write takes everything but the last byte and fails with EAGAIN
type flakyBuf struct {
	lockedBuf
	n, every int
}

func (w *flakyBuf) Write(p []byte) (int, error) {
	w.mu.Lock()
	defer w.mu.Unlock()
	w.n++
	if w.every > 0 && w.n%w.every == 0 && len(p) > 1 {
		w.b.Write(p[:len(p)-1])
		return len(p) - 1, syscall.EAGAIN
	}
	return w.b.Write(p)
}

var msgKey = []byte(`"msg":"`)

// seqsOf extracts (g, seq) of every line written, per goroutine in output order.
func seqsOf(out []byte, g int) [][]int {
	per := make([][]int, g)
	for len(out) > 0 {
		nl := bytes.IndexByte(out, '\n')
		line := out
		if nl >= 0 {
			line, out = out[:nl], out[nl+1:]
		} else {
			out = nil
		}
		i := bytes.Index(line, msgKey)
		if i < 0 {
			continue
		}
		rest := line[i+len(msgKey):]
		j := bytes.IndexByte(rest, '"')
		if j < 0 {
			continue
		}
		w, seq, _, ok := parseMsg(string(rest[:j]))
		if !ok || w < 0 || w >= g {
			continue
		}
		per[w] = append(per[w], seq)
	}
	return per
}

// runs: maximal stretches seq, seq+1, … of a goroutine's output (0..n-1 in order = the single run (0, n))
func runsOf(seqs []int) []runT {
	var rs []runT
	for _, s := range seqs {
		if n := len(rs); n > 0 && rs[n-1].Start+rs[n-1].Len == s {
			rs[n-1].Len++
		} else {
			rs = append(rs, runT{s, 1})
		}
	}
	return rs
}

func runStress(k scaseT) (logged []int, runs [][]runT, cycles int) {
	r := hx.NewRand(k.Seed)
	if k.Flaky {
		return runFlaky(k, r)
	}
	out := &lockedBuf{}
	lopts := []logging.Option{logging.WithJSONHandler(), logging.WithOutput(out)}
	if k.Source {
		lopts = append(lopts, logging.WithSource(true))
	}
	l, err := logging.New(lopts...)
	if err != nil {
		panic(err)
	}
	if k.Volume > 0 {
		l.StartBuffering()
		c := &logT{Lvl: 2}
		for n := 0; n < k.Volume; n++ {
			c.Seq = n
			l.Warn(msgOf(0, c))
		}
		_ = l.FlushBuffer()
		out.mu.Lock()
		data := append([]byte(nil), out.b.Bytes()...)
		out.mu.Unlock()
		return []int{k.Volume}, [][]runT{runsOf(seqsOf(data, 1)[0])}, 1
	}
	if k.Batch && k.CloseRace {
		return runCloseRace(k, r, l, out)
	}
	var bl *logging.BatchLogger
	if k.Batch {
		bl = logging.NewBatchLogger(l, 2+r.Intn(6), time.Millisecond)
	}
	var stop atomic.Bool
	counts := make([]atomic.Int64, k.G)
	var wg sync.WaitGroup
	for g := 0; g < k.G; g++ {
		wg.Add(1)
		go func(g int) {
			defer wg.Done()
			derived := g < len(k.Derived) && k.Derived[g] && !k.Batch
			c := &logT{Lvl: 2, Derived: derived}
			for n := 0; !stop.Load() && n < 400000; n++ {
				c.Seq = n
				msg := msgOf(g, c)
				switch {
				case bl != nil:
					bl.Warn(msg)
				case derived:
					l.With("w", g).Log(context.Background(), slog.LevelWarn, msg)
				default:
					l.Warn(msg)
				}
				counts[g].Store(int64(n + 1))
				// a moderate rate: loggers running flat out could keep FlushBuffer replaying forever
				for t0 := time.Now(); time.Since(t0) < 3*time.Microsecond; {
				}
			}
		}(g)
	}
	total := func() int64 {
		var t int64
		for g := range counts {
			t += counts[g].Load()
		}
		return t
	}
	deadline := time.Now().Add(time.Duration(k.Millis) * time.Millisecond)
	for time.Now().Before(deadline) {
		cycles++
		l.StartBuffering()
		if k.SetLevel && r.Chance(1, 8) {
			_ = l.SetLevel([]slog.Level{slog.LevelInfo, slog.LevelDebug, slog.LevelWarn}[r.Intn(3)])
		}
		_ = l.FlushBuffer()
		if bl != nil && r.Chance(1, 2) {
			bl.Flush()
		}
		if k.SetLevel && r.Chance(1, 16) {
			_ = l.SetLevel(slog.LevelInfo)
		}
		// let a few records through before the next cycle, and do not run in lockstep with the loggers
		for seen, t0 := total(), time.Now(); total() < seen+3 && time.Since(t0) < time.Millisecond; {
		}
		for spin := r.Intn(2000); spin > 0; spin-- {
			stop.Load()
		}
	}
	stop.Store(true)
	wg.Wait()
	if bl != nil {
		// the batch is closed between StartBuffering and FlushBuffer (a component that batches on the application's
		// logger and shuts down before the startup buffer is flushed): what it held must still come out
		l.StartBuffering()
		bl.Close()
	}
	_ = l.FlushBuffer()
	_ = l.Shutdown(context.Background())
	out.mu.Lock()
	data := append([]byte(nil), out.b.Bytes()...)
	out.mu.Unlock()
	per := seqsOf(data, k.G)
	for g := 0; g < k.G; g++ {
		logged = append(logged, int(counts[g].Load()))
		runs = append(runs, runsOf(per[g]))
	}
	return logged, runs, cycles
}

// runFlaky: see scaseT.Flaky. The goroutines log through the console handler (Logger.Warn or a With logger) while the
// main goroutine cycles StartBuffering / FlushBuffer; the messages are "<g>:<seq>:<d>" — with G ≥ 2 no time stamp field
// can be mistaken for one (hours:minutes:seconds never ends in ":0" or ":1" followed by a letter… and g ≥ 24 never occurs)
func runFlaky(k scaseT, r *hx.Rand) (logged []int, runs [][]runT, cycles int) {
	out := &flakyBuf{every: 7 + r.Intn(30)}
	l, err := logging.New(logging.WithConsoleHandler(), logging.WithOutput(out))
	if err != nil {
		panic(err)
	}
	var stop atomic.Bool
	counts := make([]atomic.Int64, k.G)
	var wg sync.WaitGroup
	for g := 0; g < k.G; g++ {
		wg.Add(1)
		go func(g int) {
			defer wg.Done()
			c := &logT{Lvl: 2}
			for n := 0; !stop.Load() && n < 200000; n++ {
				c.Seq = n
				l.Warn("m" + msgOf(g+100, c) + "m")
				counts[g].Store(int64(n + 1))
				spinFor(3 * time.Microsecond)
			}
		}(g)
	}
	deadline := time.Now().Add(time.Duration(k.Millis) * time.Millisecond)
	for time.Now().Before(deadline) {
		cycles++
		l.StartBuffering()
		spinFor(time.Duration(r.Intn(40)) * time.Microsecond)
		_ = l.FlushBuffer()
		spinFor(time.Duration(r.Intn(200)) * time.Microsecond)
	}
	stop.Store(true)
	wg.Wait()
	_ = l.FlushBuffer()
	_ = l.Shutdown(context.Background())
	out.mu.Lock()
	data := append([]byte(nil), out.b.Bytes()...)
	out.mu.Unlock()
	per := make([][]int, k.G)
	for _, m := range flakyMsg.FindAllSubmatch(data, -1) {
		w, _ := strconv.Atoi(string(m[1]))
		seq, _ := strconv.Atoi(string(m[2]))
		if w-100 >= 0 && w-100 < k.G {
			per[w-100] = append(per[w-100], seq)
		}
	}
	for g := 0; g < k.G; g++ {
		logged = append(logged, int(counts[g].Load()))
		runs = append(runs, runsOf(per[g]))
	}
	return logged, runs, cycles
}

// "m<g+100>:<seq>:<d>m": cannot be confused with the time stamp of the console line
var flakyMsg = regexp.MustCompile(`m(\d+):(\d+):[01]m`)

func spinFor(d time.Duration) {
	for t0 := time.Now(); time.Since(t0) < d; {
	}
}

// runCloseRace: see scaseT.CloseRace. Correct code keeps every goroutine's records in order: before Close they
// go through the batch under its mutex, Close flushes under the same mutex, later ones join the batch again.
func runCloseRace(k scaseT, r *hx.Rand, l *logging.Logger, out *lockedBuf) (logged []int, runs [][]runT, cycles int) {
	var cur atomic.Pointer[logging.BatchLogger]
	var stop, pause atomic.Bool
	var parked atomic.Int64
	counts := make([]atomic.Int64, k.G)
	pause.Store(true)
	var wg sync.WaitGroup
	for g := 0; g < k.G; g++ {
		wg.Add(1)
		go func(g int) {
			defer wg.Done()
			c := &logT{Lvl: 2}
			n := 0
			for !stop.Load() && n < 400000 {
				if pause.Load() {
					parked.Add(1)
					for pause.Load() && !stop.Load() {
						spinFor(time.Microsecond)
					}
					parked.Add(-1)
					continue
				}
				c.Seq = n
				cur.Load().Warn(msgOf(g, c))
				n++
				counts[g].Store(int64(n))
			}
		}(g)
	}
	waitParked := func(want int64) {
		for t0 := time.Now(); parked.Load() != want && time.Since(t0) < 2*time.Second; {
			spinFor(time.Microsecond)
		}
	}
	deadline := time.Now().Add(time.Duration(k.Millis) * time.Millisecond)
	for time.Now().Before(deadline) {
		cycles++
		waitParked(int64(k.G))
		bl := logging.NewBatchLogger(l, 8+r.Intn(120), time.Millisecond)
		cur.Store(bl)
		pause.Store(false)
		spinFor(time.Duration(20+r.Intn(200)) * time.Microsecond)
		bl.Close() // while the goroutines are logging
		spinFor(time.Duration(10+r.Intn(60)) * time.Microsecond)
		pause.Store(true)
		waitParked(int64(k.G))
		bl.Flush() // what was added after Close
	}
	stop.Store(true)
	wg.Wait()
	_ = l.FlushBuffer()
	_ = l.Shutdown(context.Background())
	out.mu.Lock()
	data := append([]byte(nil), out.b.Bytes()...)
	out.mu.Unlock()
	per := seqsOf(data, k.G)
	for g := 0; g < k.G; g++ {
		logged = append(logged, int(counts[g].Load()))
		runs = append(runs, runsOf(per[g]))
	}
	return logged, runs, cycles
}

// case line: <id> Z <G> <logged_g…> => R <G> (<n> (<start> <len>)…)…
func emitStress(id string, k scaseT, st *hx.Stats) string {
	logged, runs, cycles := runStress(k)
	l := hx.NewLine(id).Tok("Z").Nat(k.G)
	total := 0
	for _, n := range logged {
		l.Nat(n)
		total += n
	}
	l.Sep()
	l.Tok("R").Nat(len(runs))
	for _, rs := range runs {
		// a broken run list can be long; the first few stretches carry the counterexample
		if len(rs) > 12 {
			rs = rs[:12]
		}
		l.Nat(len(rs))
		for _, r := range rs {
			l.Nat(r.Start).Nat(r.Len)
		}
	}
	if st != nil {
		st.Case(" Z "+strconv.Itoa(int(k.Seed)), cycles > 0 && total > 0)
		st.Count("stress_histories")
		st.Counters["stress_records"] += total
		st.Counters["stress_start_flush_cycles"] += cycles
		if k.SetLevel {
			st.Count("stress_with_setlevel")
		}
		if k.Batch {
			st.Count("stress_through_batchlogger")
		}
		if k.Batch && k.CloseRace {
			st.Count("stress_batch_close_while_logging")
			st.Counters["stress_close_trials"] += cycles
		}
		if k.Volume > 0 {
			st.Count("stress_volume")
		}
		if k.Flaky {
			st.Count("stress_console_flaky_output")
		}
	}
	return l.String() + hx.Comment(caseT{Z: &k})
}

func genStress(r *hx.Rand, millis int) scaseT {
	k := scaseT{G: hx.Pick(r, []int{1, 2, 3, 4}), Millis: millis, SetLevel: r.Chance(1, 2), Batch: r.Chance(1, 3), Source: r.Chance(1, 3), Seed: r.U64() >> 1}
	for g := 0; g < k.G; g++ {
		k.Derived = append(k.Derived, r.Chance(1, 3))
	}
	return k
}
