// Buffering half of C20: histories over {log, StartBuffering, FlushBuffer, SetLevel, Shutdown} executed
// by 1..4 worker goroutines under a conductor that lets exactly one worker run at a time.
//
// Two modes, both public API only:
//   - gated:   logging.WithCustomLogger(slog.New(gateHandler)). Every record that reaches the final
//     handler blocks there until the conductor releases it, so the conductor decides what
//     happens between two replayed records of a FlushBuffer in progress (no hook in /repo).
//   - ungated: the built-in JSON handler writing to a plain writer (never blocks); ops are atomic.
//     This mode has SetLevel (refused with a custom logger).
//
// Observation: the event trace begin/done per op and write per record reaching the output.
package main

import (
	"bytes"
	"context"
	"encoding/json"
	"errors"
	"fmt"
	"log/slog"
	"net"
	"os"
	"strconv"
	"strings"
	"time"

	"rivaas.dev/app"
	"rivaas.dev/logging"
	"verif/harness/hx"
)

type logT struct {
	Seq, Lvl      int
	Derived, Fail bool `json:",omitempty"`
	// Stale: logged through the *slog.Logger obtained with Logger() right after construction, i.e.
	// before any StartBuffering (finding K20f)
	Stale bool `json:",omitempty"`
	// OldTime (with Derived): the record is handed to the With logger's handler the way a log bridge does it — built by
	// the caller, with a timestamp of its own that goes BACKWARDS from record to record (forwarded lines of another
	// process, whole-second timestamps). Same path as a derived call otherwise (Enabled, then Handle).
	OldTime bool `json:",omitempty"`
	// ViaDefault (with Derived, in a Global history): logged through slog.Default().With("w", g)
	ViaDefault bool `json:",omitempty"`
}

type bopT struct {
	K   string // L S F V H
	L   *logT  `json:",omitempty"`
	Lvl int    `json:",omitempty"`
}

type stepT struct {
	Run bool `json:",omitempty"`
	G   int
}

type bcaseT struct {
	// App: the history runs through a real app.App — StartBuffering is the one app.New performs,
	// FlushBuffer the one App.Start performs after the banner (App.flushStartupLogs); one worker,
	// logs go through App.BaseLogger()
	App bool `json:",omitempty"`
	// Cancelled (app mode): the context handed to App.Start is already cancelled; the op ends when Start returns
	Cancelled bool `json:",omitempty"`
	Custom    bool `json:",omitempty"`
	// Source: the logger is built with logging.WithSource(true) (ungated mode)
	Source bool `json:",omitempty"`
	// Global (ungated): the Logger is registered as the process default (WithGlobalLogger); derived calls marked
	// ViaDefault go through slog.Default() instead of the Logger's own With
	Global bool `json:",omitempty"`
	// Overlap: the fixed history of overlap.go (two overlapping FlushBuffer calls), run without the conductor
	Overlap bool `json:",omitempty"`
	Progs   [][]bopT
	Sched   []stepT
}

type evT struct {
	K      byte // b d w
	G, I   int
	Intact bool
}

var slogLevels = []slog.Level{slog.LevelDebug, slog.LevelInfo, slog.LevelWarn, slog.LevelError}

type workerMsg struct {
	w    int
	gate bool // true: blocked at the gate; false: op finished
	pan  bool
}

type conductor struct {
	c       bcaseT
	l       *logging.Logger
	stale   *slog.Logger
	foreign int
	trace   []evT
	current int
	resp    chan workerMsg
	cmd     []chan int // per worker: run op i
	release []chan struct{}
	fail    map[[2]int]bool
}

func msgOf(g int, c *logT) string {
	d := 0
	if c.Derived {
		d = 1
	}
	return fmt.Sprintf("%d:%d:%d", g, c.Seq, d)
}

func parseMsg(m string) (g, seq int, derived bool, ok bool) {
	f := strings.Split(m, ":")
	if len(f) != 3 {
		return 0, 0, false, false
	}
	g, e1 := strconv.Atoi(f[0])
	seq, e2 := strconv.Atoi(f[1])
	return g, seq, f[2] == "1", e1 == nil && e2 == nil
}

// ---- gated mode: the final handler ----

type gateHandler struct {
	c    *conductor
	hasW bool
}

func (h *gateHandler) Enabled(_ context.Context, l slog.Level) bool { return l >= slog.LevelInfo }

func (h *gateHandler) Handle(_ context.Context, r slog.Record) error {
	g, seq, derived, ok := parseMsg(r.Message)
	if !ok {
		return nil
	}
	c := h.c
	w := c.current
	c.resp <- workerMsg{w: w, gate: true}
	<-c.release[w]
	if c.fail[[2]int{g, seq}] {
		return errors.New("write failed")
	}
	hasW := h.hasW
	r.Attrs(func(a slog.Attr) bool {
		if a.Key == "w" {
			hasW = true
		}
		return true
	})
	c.trace = append(c.trace, evT{K: 'w', G: g, I: seq, Intact: !derived || hasW})
	return nil
}

func (h *gateHandler) WithAttrs(as []slog.Attr) slog.Handler {
	n := &gateHandler{c: h.c, hasW: h.hasW}
	for _, a := range as {
		if a.Key == "w" {
			n.hasW = true
		}
	}
	return n
}

func (h *gateHandler) WithGroup(string) slog.Handler { return h }

// ---- ungated mode: the writer ----

type traceWriter struct{ c *conductor }

func (t traceWriter) Write(p []byte) (int, error) {
	for _, line := range bytes.Split(bytes.TrimRight(p, "\n"), []byte("\n")) {
		var m map[string]any
		if err := json.Unmarshal(line, &m); err != nil {
			continue
		}
		msg, _ := m["msg"].(string)
		if strings.HasPrefix(msg, "bystander") {
			t.c.foreign++ // a record of the other Logger in this Logger's output
		}
		g, seq, derived, ok := parseMsg(msg)
		if !ok {
			continue
		}
		if t.c.fail[[2]int{g, seq}] {
			return 0, errors.New("write failed")
		}
		_, hasW := m["w"]
		t.c.trace = append(t.c.trace, evT{K: 'w', G: g, I: seq, Intact: !derived || hasW})
	}
	return len(p), nil
}

// ---- workers ----

func (c *conductor) worker(w int) {
	for i := range c.cmd[w] {
		pan := false
		func() {
			defer func() {
				if r := recover(); r != nil {
					pan = true
				}
			}()
			op := c.c.Progs[w][i]
			c.trace = append(c.trace, evT{K: 'b', G: w, I: i})
			switch op.K {
			case "L":
				msg := msgOf(w, op.L)
				if op.L.Stale {
					c.stale.Log(context.Background(), slogLevels[op.L.Lvl], msg)
				} else if op.L.Derived && op.L.OldTime {
					h := c.l.With("w", w).Handler()
					if h.Enabled(context.Background(), slogLevels[op.L.Lvl]) {
						t := time.Unix(1700000000-int64(3600*op.L.Seq), 0)
						_ = h.Handle(context.Background(), slog.NewRecord(t, slogLevels[op.L.Lvl], msg, 0))
					}
				} else if op.L.Derived && op.L.ViaDefault && c.c.Global {
					slog.Default().With("w", w).Log(context.Background(), slogLevels[op.L.Lvl], msg)
				} else if op.L.Derived {
					c.l.With("w", w).Log(context.Background(), slogLevels[op.L.Lvl], msg)
				} else {
					switch op.L.Lvl {
					case 0:
						c.l.Debug(msg)
					case 1:
						c.l.Info(msg)
					case 2:
						c.l.Warn(msg)
					default:
						c.l.Error(msg)
					}
				}
			case "S":
				c.l.StartBuffering()
			case "F":
				_ = c.l.FlushBuffer()
			case "V":
				_ = c.l.SetLevel(slogLevels[op.Lvl])
			case "H":
				_ = c.l.Shutdown(context.Background())
			}
			c.trace = append(c.trace, evT{K: 'd', G: w, I: i})
		}()
		c.resp <- workerMsg{w: w, pan: pan}
	}
}

// Ops that take Logger.mu and therefore cannot start while a FlushBuffer is in progress: the conductor
// never schedules them then (the model stutters). The set grows when a step hangs while a flush is in
// progress (a changed tree in which, say, Shutdown takes the mutex too): the history is cut there —
// its partial trace is still judged, a prefix of a good trace is good — and later histories avoid the
// combination, so the harness never sits on a hang for longer than a few watchdog periods.
var blocksDuringFlush = map[string]bool{"S": true, "F": true, "V": true}

// hangs that could not be explained that way; after three of them no further conductor history is run
var unexplainedHangs int

const watchdog = 2 * time.Second

const (
	stIdle = iota
	stGate
	stDone
)

// runB executes the case. If k.Sched is empty the schedule is drawn from r (and recorded in the
// returned case); otherwise the recorded schedule is followed. ok=false: a worker got stuck or panicked.
func runB(k bcaseT, r *hx.Rand) (bcaseT, []evT, bool, map[string]int) {
	if k.App {
		return runApp(k)
	}
	if k.Overlap {
		return runOverlap(k)
	}
	n := len(k.Progs)
	c := &conductor{c: k, resp: make(chan workerMsg), fail: map[[2]int]bool{}}
	for w, p := range k.Progs {
		for _, op := range p {
			if op.K == "L" && op.L.Fail {
				c.fail[[2]int{w, op.L.Seq}] = true
			}
		}
	}
	var err error
	if k.Custom {
		c.l, err = logging.New(logging.WithCustomLogger(slog.New(&gateHandler{c: c})))
	} else {
		lopts := []logging.Option{logging.WithJSONHandler(), logging.WithOutput(traceWriter{c})}
		if k.Source {
			lopts = append(lopts, logging.WithSource(true))
		}
		if k.Global {
			// (histories run one at a time; the process default is put back afterwards)
			prev := slog.Default()
			defer slog.SetDefault(prev)
			lopts = append(lopts, logging.WithGlobalLogger())
		}
		c.l, err = logging.New(lopts...)
	}
	if err != nil {
		panic(err)
	}
	c.stale = c.l.Logger()
	// a bystander: a second, independent Logger that is buffering for the whole history
	var by *logging.Logger
	byOut := &lockedBuf{}
	if !k.Custom {
		by, err = logging.New(logging.WithJSONHandler(), logging.WithOutput(byOut))
		if err != nil {
			panic(err)
		}
		by.StartBuffering()
		by.Warn("bystander:0")
		by.With("w", 1).Warn("bystander:1")
	}
	status := make([]int, n)
	next := make([]int, n) // index of the op in progress (status gate) or of the next op
	for w := 0; w < n; w++ {
		c.cmd = append(c.cmd, make(chan int))
		c.release = append(c.release, make(chan struct{}))
		if len(k.Progs[w]) == 0 {
			status[w] = stDone
		}
		go c.worker(w)
	}
	flusher := func() int {
		for w := 0; w < n; w++ {
			if status[w] == stGate && k.Progs[w][next[w]].K == "F" {
				return w
			}
		}
		return -1
	}
	stats := map[string]int{}
	ok := true
	hung := false
	wait := func(w int) bool {
		select {
		case m := <-c.resp:
			if m.pan {
				return false
			}
			if m.gate {
				status[w] = stGate
			} else {
				next[w]++
				status[w] = stIdle
				if next[w] >= len(k.Progs[w]) {
					status[w] = stDone
				}
			}
			return true
		case <-time.After(watchdog):
			hung = true
			return false
		}
	}
	// one segment of worker w; reports false if the step is not executable (mirrors the model's stutter)
	seg := func(w int) bool {
		if w < 0 || w >= n || status[w] == stDone {
			return true
		}
		c.current = w
		if status[w] == stGate {
			if f := flusher(); f >= 0 && f != w {
				stats["switch_during_flush"]++
			}
			c.release[w] <- struct{}{}
			if wait(w) {
				return true
			}
			if hung {
				unexplainedHangs++
			}
			return false
		}
		op := k.Progs[w][next[w]]
		inFlush := flusher() >= 0
		if inFlush {
			if blocksDuringFlush[op.K] {
				return true // would block on Logger.mu held by the FlushBuffer in progress
			}
			stats["switch_during_flush"]++
		}
		c.cmd[w] <- next[w]
		if wait(w) {
			return true
		}
		if hung {
			if inFlush {
				blocksDuringFlush[op.K] = true // learned: this op waits for the FlushBuffer in progress
				stats["hang_explained"]++
			} else {
				unexplainedHangs++
			}
		}
		return false
	}
	run := func(w int) bool {
		for i := 0; i < 1000; i++ {
			if !seg(w) {
				return false
			}
			if w < 0 || w >= n || status[w] != stGate {
				return true
			}
		}
		return false
	}
	out := k
	if len(k.Sched) > 0 {
		for _, s := range k.Sched {
			if s.Run {
				ok = run(s.G)
			} else {
				ok = seg(s.G)
			}
			if !ok {
				break
			}
		}
	} else {
		out.Sched = nil
		for ok {
			var cand []int
			for w := 0; w < n; w++ {
				if status[w] == stDone {
					continue
				}
				if status[w] == stIdle && flusher() >= 0 && blocksDuringFlush[k.Progs[w][next[w]].K] {
					continue
				}
				cand = append(cand, w)
			}
			if len(cand) == 0 {
				break
			}
			w := hx.Pick(r, cand)
			// bias: stay on the same worker less often while a flush is in progress, to hit the window
			if f := flusher(); f >= 0 && len(cand) > 1 && w == f && r.Chance(1, 2) {
				w = hx.Pick(r, cand)
			}
			if k.Custom {
				out.Sched = append(out.Sched, stepT{G: w})
				ok = seg(w)
			} else {
				out.Sched = append(out.Sched, stepT{Run: true, G: w})
				ok = run(w)
			}
		}
	}
	trace := append([]evT(nil), c.trace...)
	if by != nil && !hung {
		by.Warn("bystander:2")
		_ = by.FlushBuffer()
		got := string(byOut.b.Bytes())
		want := []string{`"msg":"bystander:0"`, `"msg":"bystander:1","w":1`, `"msg":"bystander:2"`}
		lines := strings.Split(strings.TrimRight(got, "\n"), "\n")
		cross := len(lines) != len(want)
		for i := 0; !cross && i < len(want); i++ {
			cross = !strings.Contains(lines[i], want[i])
		}
		if cross || c.foreign > 0 {
			stats["crosstalk"]++
		}
	}
	if hung {
		// cut: the blocked goroutines are abandoned, the partial trace is the observation
		stats["hung"]++
		return out, trace, true, stats
	}
	// drain: release whatever is still blocked so that no goroutine outlives the case (not observed)
	if ok {
		for i := 0; i < 10000; i++ {
			busy := false
			for w := 0; w < n; w++ {
				if status[w] == stGate {
					busy = true
					if !seg(w) {
						busy = false
						break
					}
				}
			}
			if !busy {
				break
			}
		}
		for w := 0; w < n; w++ {
			close(c.cmd[w])
		}
	}
	return out, trace, ok, stats
}

// ---- case line ----

func emitBuffer(id string, k bcaseT, r *hx.Rand, st *hx.Stats) string {
	if unexplainedHangs >= 3 && !k.App {
		if st != nil {
			st.Count("buffer_skipped_after_hangs")
		}
		return "# " + id + " skipped: three conductor histories hung without explanation"
	}
	k2, trace, ok, stats := runB(k, r)
	if k.App {
		// the only way an app-mode case fails to run is its ephemeral port being taken meanwhile:
		// retry, and if it keeps failing discard the case (counted), never fail it
		for attempt := 0; !ok && attempt < 3; attempt++ {
			k2, trace, ok, stats = runB(k, r)
		}
		if !ok {
			if st != nil {
				st.Count("buffer_app_discarded")
			}
			return "# " + id + " discarded: the app did not start (port taken?)"
		}
	}
	l := hx.NewLine(id).Tok("B").Bool(k2.Custom).Nat(len(k2.Progs))
	nlog, hasV, hasH, hasFail, hasDerived, hasStale := 0, false, false, false, false, false
	for _, p := range k2.Progs {
		l.Nat(len(p))
		for _, op := range p {
			switch op.K {
			case "L":
				l.Tok("L").Nat(op.L.Seq).Nat(op.L.Lvl).Bool(op.L.Derived).Bool(op.L.Fail).Bool(op.L.Stale)
				hasStale = hasStale || op.L.Stale
				nlog++
				hasFail = hasFail || op.L.Fail
				hasDerived = hasDerived || op.L.Derived
			case "V":
				l.Tok("V").Nat(op.Lvl)
				hasV = true
			case "H":
				l.Tok("H")
				hasH = true
			default:
				l.Tok(op.K)
			}
		}
	}
	l.Nat(len(k2.Sched))
	for _, s := range k2.Sched {
		if s.Run {
			l.Tok("r").Nat(s.G)
		} else {
			l.Tok("s").Nat(s.G)
		}
	}
	in := l.String()
	l.Sep()
	if !ok {
		l.Tok("X")
	} else if stats["crosstalk"] > 0 {
		l.Tok("Y")
	} else {
		l.Tok("T").Nat(len(trace))
		for _, e := range trace {
			switch e.K {
			case 'b':
				l.Tok("b").Nat(e.G).Nat(e.I)
			case 'd':
				l.Tok("d").Nat(e.G).Nat(e.I)
			default:
				l.Tok("w").Nat(e.G).Nat(e.I).Bool(e.Intact)
			}
		}
	}
	if st != nil {
		// critical windows: another worker ran while a FlushBuffer was in progress, or SetLevel ran
		// between StartBuffering and FlushBuffer with a record buffered
		window := stats["switch_during_flush"] > 0 || setLevelWhileBuffered(k2, trace)
		st.Case(in[len(id):], window)
		if k2.Source {
			st.Count("buffer_with_source")
		}
		if k2.App {
			st.Count("buffer_through_app")
		} else if k2.Custom {
			st.Count("buffer_gated")
		} else {
			st.Count("buffer_ungated")
		}
		st.Count("buffer_workers_" + strconv.Itoa(len(k2.Progs)))
		if stats["switch_during_flush"] > 0 {
			st.Count("buffer_switch_during_flush")
		}
		if window && stats["switch_during_flush"] == 0 {
			st.Count("buffer_setlevel_while_buffered")
		}
		if hasV {
			st.Count("buffer_has_setlevel")
		}
		if hasH {
			st.Count("buffer_has_shutdown")
		}
		if hasFail {
			st.Count("buffer_has_failed_write")
		}
		if hasDerived {
			st.Count("buffer_has_derived_logger")
		}
		if hasStale {
			st.Count("buffer_has_stale_logger")
		}
		if k.Global {
			st.Count("buffer_process_default_logger")
		}
		if !ok {
			st.Count("buffer_panicked")
		}
		if stats["hung"] > 0 {
			st.Count("buffer_cut_by_watchdog")
		}
	}
	return l.String() + hx.Comment(caseT{B: &k2})
}

func setLevelWhileBuffered(k bcaseT, trace []evT) bool {
	buffering, buffered := false, 0
	for _, e := range trace {
		if e.K != 'b' {
			continue
		}
		switch op := k.Progs[e.G][e.I]; op.K {
		case "S":
			buffering = true
		case "F":
			buffering, buffered = false, 0
		case "L":
			if buffering {
				buffered++
			}
		case "V":
			if buffering && buffered > 0 && !k.Custom {
				return true
			}
		}
	}
	return false
}

// ---- generator ----

func genBuffer(r *hx.Rand) bcaseT {
	k := bcaseT{Custom: r.Chance(1, 2)}
	k.Source = !k.Custom && r.Chance(1, 3)
	k.Global = !k.Custom && r.Chance(1, 4)
	staleCase := r.Chance(1, 10)
	n := hx.Pick(r, []int{1, 2, 2, 3, 3, 4})
	for w := 0; w < n; w++ {
		var p []bopT
		seq := 0
		m := r.Range(1, 5)
		for i := 0; i < m; i++ {
			switch x := r.Intn(20); {
			case x < 11:
				lvl := hx.Pick(r, []int{3, 3, 3, 1, 1, 2, 0})
				lc := &logT{Seq: seq, Lvl: lvl, Derived: r.Chance(1, 3), Fail: r.Chance(1, 16)}
				if staleCase && r.Chance(1, 3) {
					lc.Stale, lc.Derived = true, false
				}
				lc.OldTime = lc.Derived && r.Chance(1, 3)
				lc.ViaDefault = lc.Derived && !lc.OldTime && k.Global && r.Chance(1, 2)
				p = append(p, bopT{K: "L", L: lc})
				seq++
			case x < 14:
				p = append(p, bopT{K: "S"})
			case x < 17:
				p = append(p, bopT{K: "F"})
			case x < 19:
				p = append(p, bopT{K: "V", Lvl: r.Intn(4)})
			default:
				p = append(p, bopT{K: "H"})
			}
		}
		k.Progs = append(k.Progs, p)
	}
	if !k.Custom && r.Chance(1, 25) {
		// an output that is down for a while and comes back: a burst of consecutive failed writes, then good ones —
		// buffered and flushed, or written directly
		var p []bopT
		seq := 0
		buffered := r.Chance(2, 3)
		if buffered {
			p = append(p, bopT{K: "S"})
		}
		for i, n := 0, r.Range(5, 9); i < n; i++ {
			p = append(p, bopT{K: "L", L: &logT{Seq: seq, Lvl: 3, Derived: r.Chance(1, 4), Fail: true}})
			seq++
		}
		for i, n := 0, r.Range(1, 3); i < n; i++ {
			p = append(p, lg(seq, 3, r.Chance(1, 4)))
			seq++
		}
		if buffered {
			p = append(p, bopT{K: "F"})
		}
		p = append(p, lg(seq, 3, false))
		k.Progs[0] = p
		return k
	}
	// most histories start buffering early and end with a flush, so that "not lost" has something to say
	if r.Chance(3, 4) {
		k.Progs[0] = append([]bopT{{K: "S"}}, k.Progs[0]...)
	}
	if r.Chance(3, 4) {
		w := r.Intn(n)
		// an aborted start-up: Shutdown runs before the buffer is flushed
		if r.Chance(1, 5) {
			k.Progs[w] = append(k.Progs[w], bopT{K: "H"})
		}
		k.Progs[w] = append(k.Progs[w], bopT{K: "F"})
	}
	return k
}

func lg(seq, lvl int, derived bool) bopT {
	return bopT{K: "L", L: &logT{Seq: seq, Lvl: lvl, Derived: derived}}
}

func fl(seq int) bopT { return bopT{K: "L", L: &logT{Seq: seq, Lvl: 3, Fail: true}} }

// fixed witnesses with their schedules
func fixedBuffer() []bcaseT {
	S, F := bopT{K: "S"}, bopT{K: "F"}
	r0 := func(n int) []stepT {
		var s []stepT
		for i := 0; i < n; i++ {
			s = append(s, stepT{Run: true, G: 0})
		}
		return s
	}
	return []bcaseT{
		// K20b: StartBuffering; log; SetLevel; FlushBuffer
		{Progs: [][]bopT{{S, lg(0, 3, false), {K: "V", Lvl: 0}, F}}, Sched: r0(4)},
		// K20d: a record logged through With(...) while buffering
		{Progs: [][]bopT{{S, lg(0, 3, true), lg(1, 3, false), F}}, Sched: r0(4)},
		{Custom: true, Progs: [][]bopT{{S, lg(0, 3, true), F}}, Sched: []stepT{{G: 0}, {G: 0}, {G: 0}, {G: 0}}},
		// K20c: worker 1 flushes; while its first replayed record sits in the handler, worker 0 logs again
		{Custom: true, Progs: [][]bopT{{S, lg(0, 3, false), lg(1, 3, false), lg(2, 3, false)}, {F}},
			Sched: []stepT{{G: 0}, {G: 0}, {G: 0}, {G: 1}, {G: 0}, {G: 0}, {G: 1}, {G: 1}, {G: 1}}},
		// K20e: the write of the first buffered record fails
		{Custom: true, Progs: [][]bopT{{S, {K: "L", L: &logT{Seq: 0, Lvl: 3, Fail: true}}, lg(1, 3, false), F}},
			Sched: []stepT{{G: 0}, {G: 0}, {G: 0}, {G: 0}, {G: 0}, {G: 0}}},
		{Progs: [][]bopT{{S, {K: "L", L: &logT{Seq: 0, Lvl: 3, Fail: true}}, lg(1, 3, false), F}}, Sched: r0(4)},
		// call-site reporting on: level methods and derived loggers mixed while buffering
		{Source: true, Progs: [][]bopT{{S, lg(0, 3, true), lg(1, 3, false), lg(2, 2, true), lg(3, 1, false), F, lg(4, 3, false)}}, Sched: r0(7)},
		// aborted start-up: StartBuffering; log; Shutdown; FlushBuffer — the buffered records must still come out
		{Progs: [][]bopT{{S, lg(0, 3, false), lg(1, 1, true), {K: "H"}, F}}, Sched: r0(5)},
		{Custom: true, Progs: [][]bopT{{S, lg(0, 3, false), {K: "H"}, F}}, Sched: []stepT{{G: 0}, {G: 0}, {G: 0}, {G: 0}, {G: 0}}},
		// K20f: a slog.Logger obtained before StartBuffering bypasses the buffer
		{Progs: [][]bopT{{S, lg(0, 3, false), {K: "L", L: &logT{Seq: 1, Lvl: 3, Stale: true}}, F}}, Sched: r0(4)},
		// the Logger is the process default: records logged through slog.Default() while buffering keep their place
		{Global: true, Progs: [][]bopT{{S, lg(0, 3, false), {K: "L", L: &logT{Seq: 1, Lvl: 3, Derived: true, ViaDefault: true}}, {K: "V", Lvl: 0}, {K: "L", L: &logT{Seq: 2, Lvl: 1, Derived: true, ViaDefault: true}}, lg(3, 3, false), F}}, Sched: r0(7)},
		// records forwarded with their own, decreasing timestamps while buffering: replayed in the order they were logged
		{Progs: [][]bopT{{S, {K: "L", L: &logT{Seq: 0, Lvl: 3, Derived: true, OldTime: true}}, {K: "L", L: &logT{Seq: 1, Lvl: 3, Derived: true, OldTime: true}}, lg(2, 3, false), {K: "L", L: &logT{Seq: 3, Lvl: 3, Derived: true, OldTime: true}}, F}}, Sched: r0(6)},
		// the output is down for six writes and comes back: the records after the burst must still come out
		{Progs: [][]bopT{{S, fl(0), fl(1), fl(2), fl(3), fl(4), fl(5), lg(6, 3, false), lg(7, 3, true), F, lg(8, 3, false)}}, Sched: r0(11)},
		{Progs: [][]bopT{{fl(0), fl(1), fl(2), fl(3), fl(4), fl(5), lg(6, 3, false)}}, Sched: r0(7)},
		// the documented use: start, log, flush on one goroutine; level filtering; shutdown
		{Progs: [][]bopT{{S, lg(0, 1, false), lg(1, 0, false), lg(2, 3, true), F, lg(3, 2, false), {K: "H"}, lg(4, 3, false), lg(5, 3, true)}}, Sched: r0(9)},
	}
}

// ---- app mode: the startup buffer of a real app.App (anchor app/server.go flushStartupLogs) ----

func runApp(k bcaseT) (out bcaseT, trace []evT, ok bool, stats map[string]int) {
	stats = map[string]int{}
	out = k
	out.Sched = nil
	c := &conductor{c: k, fail: map[[2]int]bool{}}
	defer func() {
		if r := recover(); r != nil {
			fmt.Fprintln(os.Stderr, "c20 app mode:", r)
			trace, ok = c.trace, false
		}
	}()
	// the banner goes to os.Stdout, which carries the case lines
	devnull, err := os.OpenFile(os.DevNull, os.O_WRONLY, 0)
	if err != nil {
		panic(err)
	}
	saved := os.Stdout
	os.Stdout = devnull
	defer func() { os.Stdout = saved; devnull.Close() }()

	var a *app.App
	ctx, cancel := context.WithCancel(context.Background())
	defer cancel()
	startErr := make(chan error, 1)
	ready := make(chan struct{})
	for i, op := range k.Progs[0] {
		out.Sched = append(out.Sched, stepT{Run: true, G: 0})
		c.trace = append(c.trace, evT{K: 'b', G: 0, I: i})
		switch op.K {
		case "S": // app.New creates the logger and starts buffering
			a, err = app.New(app.WithServiceName("c20"), app.WithServiceVersion("1.0.0"), app.WithHost("127.0.0.1"), app.WithPort(freePort()),
				app.WithObservability(app.WithLogging(logging.WithJSONHandler(), logging.WithOutput(traceWriter{c}))))
			if err != nil {
				panic(err)
			}
			a.OnReady(func() { close(ready) })
		case "L":
			a.BaseLogger().Log(context.Background(), slogLevels[op.L.Lvl], msgOf(0, op.L))
		case "F": // App.Start prints the banner, then flushes the startup logs, then reports ready
			if k.Cancelled {
				// a start-up that is called off: whatever Start does, the startup logs must be out when it returns
				cancel()
				go func() { startErr <- a.Start(ctx) }()
				select {
				case e := <-startErr:
					startErr <- e
				case <-time.After(20 * time.Second):
					panic("app start with a cancelled context did not return")
				}
				break
			}
			go func() { startErr <- a.Start(ctx) }()
			select {
			case <-ready:
			case e := <-startErr:
				panic(fmt.Sprint("app did not start: ", e))
			case <-time.After(20 * time.Second):
				panic("app start timed out")
			}
		}
		c.trace = append(c.trace, evT{K: 'd', G: 0, I: i})
	}
	trace = append([]evT(nil), c.trace...)
	cancel()
	select {
	case <-startErr:
	case <-time.After(20 * time.Second):
	}
	return out, trace, true, stats
}

// freePort asks the kernel for an unused loopback port (ephemeral; a clash makes Start fail, which the
// case reports as X and the check as a broken correspondence, never as a property failure)
func freePort() int {
	l, err := net.Listen("tcp", "127.0.0.1:0")
	if err != nil {
		panic(err)
	}
	defer l.Close()
	return l.Addr().(*net.TCPAddr).Port
}

// fixedApp: startup logs through a real app (one worker: S, logs, F, logs)
func fixedApp() []bcaseT {
	S, F := bopT{K: "S"}, bopT{K: "F"}
	return []bcaseT{
		{App: true, Progs: [][]bopT{{S, lg(0, 1, false), lg(1, 3, false), lg(2, 0, false), lg(3, 2, false), F, lg(4, 1, false)}}},
		{App: true, Progs: [][]bopT{{S, F, lg(0, 3, false)}}},
		{App: true, Cancelled: true, Progs: [][]bopT{{S, lg(0, 1, false), lg(1, 3, false), F, lg(2, 2, false)}}},
	}
}
