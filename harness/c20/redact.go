// Redaction half of C20: one log call through a real logging.Logger, every way an attribute can
// reach the record (call arguments as key/value pairs or slog.Attr, LogValuer, slog.Group values,
// With, WithGroup, service metadata, Logger()/With()/WithGroup() derivations, LogAttrs, the
// Logger's own Info/Warn/Error, BatchLogger, buffered-then-flushed), three handler types.
// Observation: the key-path/value pairs parsed back from the bytes the io.Writer received and, per
// input attribute, whether the distinctive core of its value occurs anywhere in those bytes.
package main

import (
	"bytes"
	"context"
	"encoding/json"
	"errors"
	"fmt"
	"log/slog"
	"strconv"
	"strings"
	"time"

	"go.opentelemetry.io/otel/trace"
	"rivaas.dev/logging"
	"verif/harness/hx"
)

// attrT is one attribute of the input. A leaf has Kind 0 (string) or 1 (int); a group has IsG.
type attrT struct {
	K    string
	IsG  bool    `json:",omitempty"`
	G    []attrT `json:",omitempty"`
	Kind int     `json:",omitempty"` // leaf: 0 string, 1 int
	S    string  `json:",omitempty"` // string value (core + decoration)
	I    int64   `json:",omitempty"` // int value
	Core string  `json:",omitempty"` // distinctive substring of the value's text
	Via  int     `json:",omitempty"` // 0: "key", value / slog.Group; 1: slog.Attr; 2: behind a LogValuer
}

type opT struct {
	IsG bool    `json:",omitempty"`
	G   string  `json:",omitempty"` // WithGroup(name)
	W   []attrT `json:",omitempty"` // With(attrs…)
}

type rcaseT struct {
	H        string // json | text | console
	User     string // "" | top | any
	UserKey  string `json:",omitempty"`
	Svc      *attrT `json:",omitempty"`
	Ver      *attrT `json:",omitempty"`
	Env      *attrT `json:",omitempty"`
	Chain    []opT
	Call     []attrT
	Buffered bool `json:",omitempty"`
	// FailFirst (with Buffered): the whole thing happens twice, the first time with the output down
	FailFirst bool `json:",omitempty"`
	// Trace: the call carries a context with a valid span: the contextHandler adds trace_id / span_id to the record (they
	// are part of the expected call attributes on the case line: last, inside the groups open at the call)
	Trace  bool `json:",omitempty"`
	Source bool `json:",omitempty"` // logging.WithSource(true): the handlers add the call site
	Entry  int  // 0 slog.Logger.Info, 1 LogAttrs, 2 Logger.Warn (no chain), 3 BatchLogger (no chain), 4 first op via Logger.With/WithGroup
	Level  int  // 0 info 1 warn 2 error
}

func (a attrT) text() string {
	if a.Kind == 1 {
		return strconv.FormatInt(a.I, 10)
	}
	return a.S
}

// logValuer hides an attribute value behind slog.LogValuer (handlers must Resolve it).
type logValuer struct{ v slog.Value }

func (l logValuer) LogValue() slog.Value { return l.v }

func (a attrT) value() slog.Value {
	var v slog.Value
	switch {
	case a.IsG:
		as := make([]slog.Attr, len(a.G))
		for i, g := range a.G {
			as[i] = g.attr()
		}
		v = slog.GroupValue(as...)
	case a.Kind == 1:
		v = slog.Int64Value(a.I)
	default:
		v = slog.StringValue(a.S)
	}
	if a.Via == 2 {
		return slog.AnyValue(logValuer{v})
	}
	return v
}

func (a attrT) attr() slog.Attr { return slog.Attr{Key: a.K, Value: a.value()} }

// args renders attributes the way user code passes them: alternating key/value, slog.Group(...) or slog.Attr.
func args(as []attrT) []any {
	var out []any
	for _, a := range as {
		switch {
		case a.Via == 0 && !a.IsG && a.K != "":
			if a.Kind == 1 {
				out = append(out, a.K, a.I)
			} else {
				out = append(out, a.K, a.S)
			}
		case a.Via == 0 && a.IsG:
			out = append(out, slog.Group(a.K, args(a.G)...))
		default:
			out = append(out, a.attr())
		}
	}
	return out
}

func attrs(as []attrT) []slog.Attr {
	out := make([]slog.Attr, len(as))
	for i, a := range as {
		out[i] = a.attr()
	}
	return out
}

type pairT struct {
	Path []string
	Val  string
}

// runRedact performs the log call on the real code and returns the bytes written.
func runRedact(c rcaseT) (out []byte, panicked bool) {
	out, _, panicked = runRedact2(c)
	return
}

// failWriter fails every write while `fail` is set (an output that is down)
type failWriter struct {
	w    *bytes.Buffer
	fail bool
}

func (f *failWriter) Write(p []byte) (int, error) {
	if f.fail {
		return 0, errors.New("output is down")
	}
	return f.w.Write(p)
}

// runRedact2 also returns `side`: text the logger handed back to its caller instead of writing it (the error of a
// FlushBuffer whose writes failed) — a caller will print or log it, so sensitive values must not be in it either
func runRedact2(c rcaseT) (out, side []byte, panicked bool) {
	var buf bytes.Buffer
	defer func() {
		if p := recover(); p != nil {
			out, panicked = buf.Bytes(), true
		}
	}()
	fw := &failWriter{w: &buf}
	opts := []logging.Option{logging.WithHandlerType(logging.HandlerType(c.H)), logging.WithOutput(fw)}
	if c.Source {
		opts = append(opts, logging.WithSource(true))
	}
	if c.Svc != nil {
		opts = append(opts, logging.WithServiceName(c.Svc.S))
	}
	if c.Ver != nil {
		opts = append(opts, logging.WithServiceVersion(c.Ver.S))
	}
	if c.Env != nil {
		opts = append(opts, logging.WithEnvironment(c.Env.S))
	}
	key := c.UserKey
	switch c.User {
	case "nil":
		opts = append(opts, logging.WithReplaceAttr(nil))
	case "top":
		opts = append(opts, logging.WithReplaceAttr(func(groups []string, a slog.Attr) slog.Attr {
			if len(groups) == 0 && a.Key == key {
				return slog.Attr{}
			}
			return a
		}))
	case "any":
		opts = append(opts, logging.WithReplaceAttr(func(_ []string, a slog.Attr) slog.Attr {
			if a.Key == key {
				return slog.Attr{}
			}
			return a
		}))
	case "prefix": // a key-renaming replacer (namespacing every key); built-in time/level/msg included
		opts = append(opts, logging.WithReplaceAttr(func(_ []string, a slog.Attr) slog.Attr {
			a.Key = key + a.Key
			return a
		}))
	}
	l, err := logging.New(opts...)
	if err != nil {
		panic(err)
	}
	if c.Buffered {
		l.StartBuffering()
	}
	level := []slog.Level{slog.LevelInfo, slog.LevelWarn, slog.LevelError}[c.Level%3]
	ctx := context.Background()
	if c.Trace {
		ctx = trace.ContextWithSpanContext(ctx, trace.NewSpanContext(trace.SpanContextConfig{
			TraceID: trace.TraceID{0x4b, 0xf9, 0x2f, 0x35, 0x77, 0xb3, 0x4d, 0xa6, 0xa3, 0xce, 0x92, 0x9d, 0x0e, 0x0e, 0x47, 0x36},
			SpanID:  trace.SpanID{0x00, 0xf0, 0x67, 0xaa, 0x0b, 0xa9, 0x02, 0xb7}, TraceFlags: trace.FlagsSampled}))
	}
	emitOnce := func() {
		sl := l.Logger()
		for i, op := range c.Chain {
			switch {
			case i == 0 && c.Entry == 4 && op.IsG:
				sl = l.WithGroup(op.G)
			case i == 0 && c.Entry == 4:
				sl = l.With(args(op.W)...)
			case op.IsG:
				sl = sl.WithGroup(op.G)
			default:
				sl = sl.With(args(op.W)...)
			}
		}
		switch c.Entry {
		case 1:
			sl.LogAttrs(ctx, level, "msg", attrs(c.Call)...)
		case 2:
			switch c.Level % 3 {
			case 0:
				l.Info("msg", args(c.Call)...)
			case 1:
				l.Warn("msg", args(c.Call)...)
			default:
				l.Error("msg", args(c.Call)...)
			}
		case 3:
			bl := logging.NewBatchLogger(l, 8, time.Hour)
			switch c.Level % 3 {
			case 0:
				bl.Info("msg", args(c.Call)...)
			case 1:
				bl.Warn("msg", args(c.Call)...)
			default:
				bl.Error("msg", args(c.Call)...)
			}
			bl.Close()
		default:
			sl.Log(ctx, level, "msg", args(c.Call)...)
		}
	}
	if c.Buffered && c.FailFirst {
		// the output is down while the startup buffer is flushed the first time: the record cannot be delivered, and
		// what FlushBuffer reports goes to the caller; then the same again with the output back
		fw.fail = true
		emitOnce()
		if err := l.FlushBuffer(); err != nil {
			side = append(side, err.Error()...)
		}
		fw.fail = false
		l.StartBuffering()
	}
	emitOnce()
	if c.Buffered {
		if err := l.FlushBuffer(); err != nil {
			side = append(side, err.Error()...)
		}
	}
	_ = l.Shutdown(context.Background())
	return buf.Bytes(), side, false
}

// ---- parsing the output back ----

var builtin = map[string]bool{"time": true, "level": true, "msg": true, "source": true,
	"app_time": true, "app_level": true, "app_msg": true, "app_source": true,
	"x-time": true, "x-level": true, "x-msg": true, "x-source": true}

func parseJSONLine(line []byte) ([]pairT, error) {
	dec := json.NewDecoder(bytes.NewReader(line))
	dec.UseNumber()
	t, err := dec.Token()
	if err != nil || t != json.Delim('{') {
		return nil, fmt.Errorf("not an object: %v", err)
	}
	var out []pairT
	var obj func(path []string, top bool) error
	obj = func(path []string, top bool) error {
		for dec.More() {
			kt, err := dec.Token()
			if err != nil {
				return err
			}
			k, ok := kt.(string)
			if !ok {
				return fmt.Errorf("key is %T", kt)
			}
			vt, err := dec.Token()
			if err != nil {
				return err
			}
			p := append(append([]string(nil), path...), k)
			switch v := vt.(type) {
			case json.Delim:
				if v != '{' {
					return fmt.Errorf("unexpected %v", v)
				}
				if top && builtin[k] { // the call site: {"function":…,"file":…,"line":…}
					n := len(out)
					if err := obj(p, false); err != nil {
						return err
					}
					out = out[:n]
					continue
				}
				if err := obj(p, false); err != nil {
					return err
				}
			case string:
				if !(top && builtin[k]) {
					out = append(out, pairT{p, v})
				}
			case json.Number:
				out = append(out, pairT{p, v.String()})
			default:
				out = append(out, pairT{p, fmt.Sprint(v)})
			}
		}
		_, err := dec.Token() // closing brace
		return err
	}
	if err := obj(nil, true); err != nil {
		return nil, err
	}
	return out, nil
}

func parseTextLine(line string) ([]pairT, error) {
	var out []pairT
	i := 0
	for i < len(line) {
		// pairs are separated by one space; slog leaves a second one behind when it elides a group that
		// contains only empty groups
		if line[i] == ' ' {
			i++
			continue
		}
		eq := strings.IndexByte(line[i:], '=')
		if eq < 0 {
			return nil, fmt.Errorf("no '=' in %q", line[i:])
		}
		key := line[i : i+eq]
		i += eq + 1
		var val string
		if i < len(line) && line[i] == '"' {
			j := i + 1
			for j < len(line) && line[j] != '"' {
				if line[j] == '\\' {
					j++
				}
				j++
			}
			if j >= len(line) {
				return nil, fmt.Errorf("unterminated quote")
			}
			u, err := strconv.Unquote(line[i : j+1])
			if err != nil {
				return nil, err
			}
			val = u
			i = j + 1
		} else {
			j := strings.IndexByte(line[i:], ' ')
			if j < 0 {
				j = len(line) - i
			}
			val = line[i : i+j]
			i += j
		}
		if i < len(line) && line[i] == ' ' {
			i++
		}
		if !builtin[key] {
			out = append(out, pairT{strings.Split(key, "."), val})
		}
	}
	return out, nil
}

// console: `key=value ` at top level, a group as `key=[k=v k2=[…]] `
func parseConsoleLine(line string) ([]pairT, error) {
	const msgMark = "\x1b[97mmsg\x1b[0m"
	i := strings.Index(line, msgMark)
	if i < 0 {
		return nil, fmt.Errorf("no message marker")
	}
	s := line[i+len(msgMark):]
	if j := strings.LastIndex(s, " \x1b[37m("); j >= 0 && strings.HasSuffix(s, ")\x1b[0m") {
		s = s[:j] // the call site, appended after the attributes
	}
	if s == "" {
		return nil, nil
	}
	if s[0] != ' ' {
		return nil, fmt.Errorf("expected a space after the message: %q", s)
	}
	s = s[1:]
	var out []pairT
	pos := 0
	var items func(path []string, nested bool) error
	items = func(path []string, nested bool) error {
		for pos < len(s) {
			if nested && s[pos] == ']' {
				return nil
			}
			eq := strings.IndexByte(s[pos:], '=')
			if eq < 0 {
				return fmt.Errorf("no '=' in %q", s[pos:])
			}
			key := s[pos : pos+eq]
			pos += eq + 1
			p := append(append([]string(nil), path...), key)
			if pos < len(s) && s[pos] == '[' {
				pos++
				if err := items(p, true); err != nil {
					return err
				}
				if pos >= len(s) || s[pos] != ']' {
					return fmt.Errorf("group not closed")
				}
				pos++
			} else {
				j := pos
				for j < len(s) && s[j] != ' ' && !(nested && s[j] == ']') {
					j++
				}
				out = append(out, pairT{p, s[pos:j]})
				pos = j
			}
			if pos < len(s) && s[pos] == ' ' {
				pos++
			} else if !nested {
				return fmt.Errorf("attribute not followed by a space at %d in %q", pos, s)
			}
		}
		return nil
	}
	if err := items(nil, false); err != nil {
		return nil, err
	}
	return out, nil
}

func parseOutput(h string, out []byte) ([]pairT, error) {
	var all []pairT
	for _, line := range strings.Split(strings.TrimRight(string(out), "\n"), "\n") {
		if line == "" {
			continue
		}
		var ps []pairT
		var err error
		switch h {
		case "json":
			ps, err = parseJSONLine([]byte(line))
		case "text":
			ps, err = parseTextLine(line)
		default:
			ps, err = parseConsoleLine(line)
		}
		if err != nil {
			return nil, err
		}
		all = append(all, ps...)
	}
	return all, nil
}

// ---- case line ----

func encAttr(l *hx.Line, a attrT) {
	if a.IsG {
		l.Tok("G").Str(a.K).Nat(len(a.G))
		for _, g := range a.G {
			encAttr(l, g)
		}
		return
	}
	l.Tok("L").Str(a.K).Str(a.text())
}

func encAttrs(l *hx.Line, as []attrT) {
	l.Nat(len(as))
	for _, a := range as {
		encAttr(l, a)
	}
}

func leaves(as []attrT, f func(a attrT, depth int), depth int) {
	for _, a := range as {
		if a.IsG {
			leaves(a.G, f, depth+1)
		} else {
			f(a, depth)
		}
	}
}

var sensitiveKeys = []string{"password", "token", "secret", "api_key", "authorization"}

func isSensitive(k string) bool {
	for _, s := range sensitiveKeys {
		if s == k {
			return true
		}
	}
	return false
}

func (c rcaseT) rootAttrs() []attrT {
	var root []attrT
	for _, p := range []*attrT{c.Svc, c.Ver, c.Env} {
		if p != nil {
			root = append(root, *p)
		}
	}
	return root
}

func emitRedact(id string, c rcaseT, st *hx.Stats) string {
	l := hx.NewLine(id).Tok("R").Tok(c.H[:1]).Bool(c.Buffered)
	switch c.User {
	case "top":
		l.Tok("T").Str(c.UserKey)
	case "any":
		l.Tok("A").Str(c.UserKey)
	case "prefix":
		l.Tok("X").Str(c.UserKey)
	default:
		l.Tok("N")
	}
	root := c.rootAttrs()
	encAttrs(l, root)
	l.Nat(len(c.Chain))
	for _, op := range c.Chain {
		if op.IsG {
			l.Tok("Q").Str(op.G)
		} else {
			l.Tok("W")
			encAttrs(l, op.W)
		}
	}
	call := c.Call
	if c.Trace {
		call = append(append([]attrT(nil), c.Call...),
			attrT{K: "trace_id", S: "4bf92f3577b34da6a3ce929d0e0e4736", Core: "4bf92f3577b34da6a3ce929d0e0e4736"},
			attrT{K: "span_id", S: "00f067aa0ba902b7", Core: "00f067aa0ba902b7"})
	}
	encAttrs(l, call)
	// input attributes in the order root, chain, call (pre-order inside a tree)
	var all []attrT
	sensNested, sens := false, false
	collect := func(as []attrT, placed bool) {
		leaves(as, func(a attrT, depth int) {
			all = append(all, a)
			if isSensitive(a.K) {
				sens = true
				if depth > 0 || placed || a.Via == 2 {
					sensNested = true
				}
			}
		}, 0)
	}
	collect(root, true)
	for _, op := range c.Chain {
		if !op.IsG {
			collect(op.W, true)
		}
	}
	inGroup := false
	for _, op := range c.Chain {
		if op.IsG && op.G != "" {
			inGroup = true
		}
	}
	collect(call, inGroup || c.Buffered || c.Entry != 0)
	l.Nat(len(all))
	for _, a := range all {
		l.Str(a.Core)
	}
	in := l.String()
	out, side, panicked := runRedact2(c)
	l.Sep()
	var perr error
	if panicked {
		l.Tok("P")
	} else {
		var ps []pairT
		ps, perr = parseOutput(c.H, out)
		if perr != nil {
			// unparsable output is an observation of its own: no pairs, and the error text as one pseudo pair
			ps = []pairT{{[]string{"!unparsable"}, perr.Error()}}
		}
		l.Tok("O").Nat(len(ps))
		for _, p := range ps {
			l.Strs(p.Path).Str(p.Val)
		}
		l.Nat(len(all))
		for _, a := range all {
			// anywhere in the output, or in what the logger handed back to its caller
			l.Bool(bytes.Contains(out, []byte(a.Core)) || bytes.Contains(side, []byte(a.Core)))
		}
	}
	if st != nil {
		st.Case(in[len(id):], sens && sensNested)
		st.Count("redact_" + c.H)
		long := false
		for _, as := range append([][]attrT{c.Call}, func() (ws [][]attrT) {
			for _, op := range c.Chain {
				ws = append(ws, op.W)
			}
			return
		}()...) {
			leaves(as, func(a attrT, _ int) { long = long || len(a.S) > 4096 }, 0)
		}
		if long {
			st.Count("redact_long_value")
		}
		st.Count("redact_entry_" + strconv.Itoa(c.Entry))
		if sens {
			st.Count("redact_has_sensitive")
		}
		if c.Buffered {
			st.Count("redact_buffered")
		}
		if c.Source {
			st.Count("redact_with_source")
		}
		if c.FailFirst {
			st.Count("redact_output_down_first")
		}
		if c.Trace {
			st.Count("redact_with_span_context")
		}
		if c.User != "" {
			st.Count("redact_user_replacer")
		}
		if c.User == "nil" {
			st.Count("redact_replaceattr_nil")
		}
		if len(c.Chain) > 0 {
			st.Count("redact_chain")
		}
		if perr != nil {
			st.Count("redact_unparsable")
		}
	}
	return l.String() + hx.Comment(caseT{R: &c})
}

// ---- generator ----

var nearMiss = []string{"Password", "passwords", "api-key", "auth", "tokens", "secret_key", "PASSWORD", "pass_word", "apikey"}
var plainKeys = []string{"user", "id", "k1", "k2", "k3", "path", "dropme", "n"}
var groupKeys = []string{"g", "h", "req", "", "password", "dropme", "secret", "a_b"}

type rgen struct {
	r       *hx.Rand
	n       int
	h       string
	allowLV bool
}

func (g *rgen) leaf() attrT {
	r := g.r
	g.n++
	a := attrT{}
	switch r.Intn(20) {
	case 0, 1, 2, 3, 4, 5, 6, 7:
		a.K = hx.Pick(r, sensitiveKeys)
	case 8, 9, 10:
		a.K = hx.Pick(r, nearMiss)
	default:
		a.K = hx.Pick(r, plainKeys)
	}
	if r.Chance(1, 5) {
		a.Kind = 1
		a.I = -int64(1000000 + g.n)
		a.Core = strconv.FormatInt(a.I, 10)
	} else {
		a.Core = "v" + strconv.Itoa(g.n) + "x"
		a.S = a.Core
		if g.h != "console" && r.Chance(1, 4) {
			a.S += hx.Pick(r, []string{" sp", "=eq", "\"q", "é", "\\b", " "})
		} else if r.Chance(1, 8) {
			// a value that merely looks sensitive (redaction is by key): must come out unchanged under a plain key
			a.S += hx.Pick(r, []string{":password", "-token", ":***REDACTED***", ".secret", ":Bearer"})
		}
		if r.Chance(1, 60) {
			// an unusually long value (a pasted certificate, a JWT bundle): several kilobytes, the distinctive core first
			a.S += strings.Repeat(hx.Pick(r, []string{"z", "k9", "Qw-"}), 1+(4200+r.Intn(5000))/3)
		}
	}
	a.Via = r.Intn(2)
	if g.allowLV && r.Chance(1, 8) {
		a.Via = 2
	}
	return a
}

func (g *rgen) attr(depth int) attrT {
	r := g.r
	if depth < 3 && r.Chance(1, 4) {
		a := attrT{IsG: true, K: hx.Pick(r, groupKeys), Via: r.Intn(2)}
		if g.allowLV && r.Chance(1, 8) {
			a.Via = 2
		}
		n := r.Range(0, 3)
		for i := 0; i < n; i++ {
			a.G = append(a.G, g.attr(depth+1))
		}
		return a
	}
	return g.leaf()
}

func (g *rgen) attrList(lo, hi int) []attrT {
	n := g.r.Range(lo, hi)
	out := make([]attrT, 0, n)
	for i := 0; i < n; i++ {
		out = append(out, g.attr(0))
	}
	return out
}

// keepGroupsAlive: Go's slog (1.25) mis-renders what follows a group whose attributes were *all*
// elided by ReplaceAttr (missing comma in JSON, stale key prefix in text). That corner is outside the
// contract assumed for the slog handlers, so such a group gets one surviving attribute.
func (g *rgen) keepGroupsAlive(as []attrT, key string) {
	var emits, hasLeaf func(a attrT) bool
	emits = func(a attrT) bool {
		if !a.IsG {
			return a.K != key
		}
		for _, c := range a.G {
			if emits(c) {
				return true
			}
		}
		return false
	}
	hasLeaf = func(a attrT) bool {
		if !a.IsG {
			return true
		}
		for _, c := range a.G {
			if hasLeaf(c) {
				return true
			}
		}
		return false
	}
	for i := range as {
		if !as[i].IsG {
			continue
		}
		g.keepGroupsAlive(as[i].G, key)
		if hasLeaf(as[i]) && !emits(as[i]) {
			g.n++
			core := "v" + strconv.Itoa(g.n) + "x"
			as[i].G = append(as[i].G, attrT{K: "kept", S: core, Core: core})
		}
	}
}

// deep: a spine of n nested groups with a sensitive attribute (and a plain one) at the bottom
func (g *rgen) deep(n int) attrT {
	a := g.leaf()
	a.K = hx.Pick(g.r, sensitiveKeys)
	b := g.leaf()
	inner := []attrT{a, b}
	var top attrT
	for i := 0; i < n; i++ {
		top = attrT{IsG: true, K: "d" + strconv.Itoa(i%3), G: inner, Via: g.r.Intn(2)}
		inner = []attrT{top}
		if g.r.Chance(1, 3) {
			inner = append(inner, g.leaf())
		}
	}
	return top
}

func genRedact(r *hx.Rand, allowLV bool) rcaseT {
	c := rcaseT{H: hx.Pick(r, []string{"json", "text", "console", "console"})}
	g := &rgen{r: r, h: c.H, allowLV: allowLV}
	if r.Chance(1, 15) {
		// unusually deep: many WithGroup names and/or many enclosing slog.Group values (4..14 in all)
		ng := r.Range(0, 8)
		for i := 0; i < ng; i++ {
			c.Chain = append(c.Chain, opT{IsG: true, G: "w" + strconv.Itoa(i%3)})
			if r.Chance(1, 4) {
				c.Chain = append(c.Chain, opT{W: []attrT{g.deep(r.Range(1, 8))}})
			}
		}
		c.Call = []attrT{g.deep(r.Range(4, 10)), g.leaf()}
		c.Entry = hx.Pick(r, []int{0, 1})
		c.Level = r.Intn(3)
		return c
	}
	switch r.Intn(6) {
	case 0:
		c.User, c.UserKey = "top", "dropme"
	case 1:
		c.User, c.UserKey = "any", "dropme"
	case 2:
		c.User, c.UserKey = "prefix", hx.Pick(r, []string{"app_", "x-"})
	case 3:
		// WithReplaceAttr(nil): an application forwarding an optional replacer that is not configured — same as none
		c.User = "nil"
	}
	meta := func(k string) *attrT {
		if !r.Chance(1, 4) {
			return nil
		}
		g.n++
		core := "v" + strconv.Itoa(g.n) + "x"
		return &attrT{K: k, S: core, Core: core}
	}
	c.Svc, c.Ver, c.Env = meta("service"), meta("version"), meta("env")
	c.Source = r.Chance(1, 6)
	nops := 0
	if r.Chance(2, 3) {
		nops = r.Range(1, 4)
	}
	for i := 0; i < nops; i++ {
		if r.Chance(1, 2) {
			c.Chain = append(c.Chain, opT{IsG: true, G: hx.Pick(r, []string{"g", "req", "", "password", "w"})})
		} else {
			c.Chain = append(c.Chain, opT{W: g.attrList(0, 3)})
		}
	}
	c.Call = g.attrList(0, 4)
	if c.User == "any" {
		for _, op := range c.Chain {
			g.keepGroupsAlive(op.W, c.UserKey)
		}
		g.keepGroupsAlive(c.Call, c.UserKey)
	}
	c.Buffered = r.Chance(1, 4)
	c.FailFirst = c.Buffered && r.Chance(1, 3)
	c.Level = r.Intn(3)
	if len(c.Chain) == 0 {
		c.Entry = hx.Pick(r, []int{0, 1, 2, 3})
	} else {
		c.Entry = hx.Pick(r, []int{0, 1, 4})
	}
	// a request context with a span (only the entry points that take a context)
	c.Trace = c.Entry != 2 && c.Entry != 3 && r.Chance(1, 5)
	return c
}

// fixed witnesses, emitted before the random cases
func fixedRedact() []rcaseT {
	pw := func(k, core string) attrT { return attrT{K: k, S: core, Core: core} }
	var out []rcaseT
	for _, h := range []string{"json", "text", "console"} {
		// K20a: direct argument
		out = append(out, rcaseT{H: h, Call: []attrT{pw("password", "v1x"), pw("user", "v2x")}})
		// a key-renaming user replacer must not get to see (and rename) the sensitive keys
		out = append(out, rcaseT{H: h, User: "prefix", UserKey: "app_", Chain: []opT{{W: []attrT{pw("token", "v1x")}}},
			Call: []attrT{pw("password", "v2x"), pw("user", "v3x"), {IsG: true, K: "g", G: []attrT{pw("secret", "v4x")}}}})
		// With, WithGroup, slog.Group value, nested groups
		out = append(out, rcaseT{H: h, Chain: []opT{{W: []attrT{pw("token", "v1x")}}, {IsG: true, G: "g"}},
			Call: []attrT{pw("secret", "v2x"), {IsG: true, K: "h", G: []attrT{pw("api_key", "v3x"), {IsG: true, K: "i", G: []attrT{pw("authorization", "v4x")}}}}}})
		// buffered then flushed through a derived logger (K20d)
		out = append(out, rcaseT{H: h, Buffered: true, Chain: []opT{{W: []attrT{pw("password", "v1x"), pw("k1", "v2x")}}}, Call: []attrT{pw("token", "v3x"), pw("k2", "v4x")}})
		// ten WithGroup names, then a group value: still redacted at depth 11
		{
			deepc := rcaseT{H: h}
			for i := 0; i < 10; i++ {
				deepc.Chain = append(deepc.Chain, opT{IsG: true, G: "w"})
			}
			deepc.Call = []attrT{{IsG: true, K: "g", G: []attrT{pw("password", "v1x"), pw("user", "v2x")}}}
			out = append(out, deepc)
		}
		// Logger.Error and BatchLogger entry points
		out = append(out, rcaseT{H: h, Entry: 2, Level: 2, Call: []attrT{pw("authorization", "v1x")}})
		out = append(out, rcaseT{H: h, Entry: 3, Call: []attrT{pw("api_key", "v1x"), {K: "n", Kind: 1, I: -1000002, Core: "-1000002"}}})
	}
	return out
}
