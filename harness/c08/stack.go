// Kind M — a history of requests through a stack of standalone observability layers
// (tracing.Middleware, metrics.Middleware, foreign writers that carry the IsObservabilityWrapped marker)
// in front of a plain http.Handler or of an app.App with the real recorder. Two provider pairs
// (tracetest.SpanRecorder + ManualReader): one for the standalone middlewares, one for the app.
// Observed per pair: spans started / ended, ended spans (name, HTTP error code), the series of
// http_requests_active (the one without attributes, the sum of the others, how many are not zero),
// http_requests_total rows (route, status, count, response-size sum); and what each client received.
package main

import (
	"bufio"
	"bytes"
	"context"
	"errors"
	"fmt"
	"io"
	"net"
	"net/http"
	"net/http/httptest"
	"os"
	"sort"
	"strconv"
	"strings"

	"go.opentelemetry.io/otel/codes"
	sdkmetric "go.opentelemetry.io/otel/sdk/metric"
	"go.opentelemetry.io/otel/sdk/metric/metricdata"
	sdktrace "go.opentelemetry.io/otel/sdk/trace"
	"go.opentelemetry.io/otel/sdk/trace/tracetest"

	"rivaas.dev/app"
	"rivaas.dev/metrics"
	"rivaas.dev/router"
	"rivaas.dev/tracing"

	"verif/harness/hx"
)

// MReq is one request of a kind-M history.
type MReq struct {
	Method string
	Path   string
	Mode   string // E explicit status+body, Q silent, O bare Write, H 103 Early Hints then explicit status+body (real server only)
	Status int
	Size   int
}

// foreign64 is someone else's marked writer that is a router.ResponseInfo.
type foreign64 struct {
	http.ResponseWriter
	status int
	size   int64
}

func (w *foreign64) WriteHeader(c int) {
	w.ResponseWriter.WriteHeader(c) // first: net/http panics on a code it rejects, nothing is recorded then
	if w.status == 0 && !(c >= 100 && c <= 199 && c != 101) {
		w.status = c
	}
}

func (w *foreign64) Write(b []byte) (int, error) {
	if w.status == 0 {
		w.status = 200
	}
	n, err := w.ResponseWriter.Write(b)
	w.size += int64(n)
	return n, err
}

func (w *foreign64) StatusCode() int {
	if w.status == 0 {
		return 200
	}
	return w.status
}
func (w *foreign64) Size() int64 { return w.size }
func (w *foreign64) Flush() {
	if f, ok := w.ResponseWriter.(http.Flusher); ok {
		if w.status == 0 {
			w.status = 200
		}
		f.Flush()
	}
}
func (w *foreign64) IsObservabilityWrapped() bool { return true }

// capWriter is a connection that accepts `left` more bytes and then fails (short write with an error).
type capWriter struct {
	http.ResponseWriter
	left int
}

func (w *capWriter) Write(b []byte) (int, error) {
	if len(b) <= w.left {
		w.left -= len(b)
		return w.ResponseWriter.Write(b)
	}
	n, _ := w.ResponseWriter.Write(b[:w.left])
	w.left = 0
	return n, io.ErrShortWrite
}

// noHijackWriter is a connection whose Hijack exists but fails (HTTP/2, a connection that was hijacked before).
type noHijackWriter struct{ http.ResponseWriter }

func (noHijackWriter) Hijack() (net.Conn, *bufio.ReadWriter, error) {
	return nil, nil, errors.New("connection cannot be hijacked")
}

// foreignBlind carries the marker and exposes nothing.
type foreignBlind struct{ http.ResponseWriter }

func (foreignBlind) IsObservabilityWrapped() bool { return true }

func mprog(w http.ResponseWriter, r *http.Request) {
	f := strings.Split(r.Header.Get("X-MProg"), ",")
	if len(f) != 3 {
		return
	}
	st, _ := strconv.Atoi(f[1])
	n, _ := strconv.Atoi(f[2])
	switch f[0] {
	case "E":
		w.WriteHeader(st)
		_, _ = w.Write(body[:n])
	case "O":
		_, _ = w.Write(body[:n])
	case "F":
		// streamed body: io.Copy from a reader without WriteTo goes through the writer's ReadFrom when it has one
		w.WriteHeader(st)
		_, _ = io.Copy(w, struct{ io.Reader }{bytes.NewReader(body[:n])})
	case "G":
		_, _ = io.Copy(w, struct{ io.Reader }{bytes.NewReader(body[:n])})
	case "S":
		// short write: the writer at the bottom accepts only half of the body and reports an error; the handler then tries
		// to turn the response into a 500 (too late: the header is out)
		if _, err := w.Write(body[:n]); err != nil {
			w.WriteHeader(http.StatusInternalServerError)
		}
	case "J":
		// a hijack that fails (the writer at the bottom cannot be hijacked): the handler answers 500 itself
		if hj, ok := w.(http.Hijacker); ok {
			if _, _, err := hj.Hijack(); err == nil {
				return
			}
		}
		w.WriteHeader(http.StatusInternalServerError)
	case "V":
		// a status code net/http rejects (it panics inside WriteHeader); a recovery layer inside answers 500
		defer func() {
			if rec := recover(); rec != nil {
				w.WriteHeader(http.StatusInternalServerError)
				_, _ = w.Write(body[:n])
			}
		}()
		w.WriteHeader(5)
	case "L":
		if f, ok := w.(http.Flusher); ok {
			f.Flush()
		} else {
			w.WriteHeader(200)
		}
		w.WriteHeader(st)
		_, _ = w.Write(body[:n])
	case "H":
		w.Header().Set("Link", "</style.css>; rel=preload")
		w.WriteHeader(http.StatusEarlyHints) // informational: the final status follows
		w.WriteHeader(st)
		_, _ = w.Write(body[:n])
	}
}

type provPair struct {
	spans  *tracetest.SpanRecorder
	tp     *sdktrace.TracerProvider
	reader *sdkmetric.ManualReader
	mp     *sdkmetric.MeterProvider
}

func newPair() provPair {
	sr := tracetest.NewSpanRecorder()
	rd := sdkmetric.NewManualReader()
	return provPair{sr, sdktrace.NewTracerProvider(sdktrace.WithSpanProcessor(sr)), rd, sdkmetric.NewMeterProvider(sdkmetric.WithReader(rd))}
}

// tele writes one provider pair's observation.
func (p provPair) tele(l *hx.Line) {
	started, ended := p.spans.Started(), p.spans.Ended()
	l.Nat(len(started)).Nat(len(ended)).Nat(len(ended))
	for _, sp := range ended {
		errCode := 0
		if sp.Status().Code == codes.Error {
			_, _ = fmt.Sscanf(sp.Status().Description, "HTTP %d", &errCode)
		}
		l.Str(sp.Name()).Nat(errCode)
	}
	var rm metricdata.ResourceMetrics
	_ = p.reader.Collect(context.Background(), &rm)
	var g0, gA int64
	nonzero := 0
	rows := map[string]*metricRow{}
	row := func(route string, status int) *metricRow {
		k := fmt.Sprintf("%s %d", route, status)
		if rows[k] == nil {
			rows[k] = &metricRow{route: route, status: status}
		}
		return rows[k]
	}
	for _, sm := range rm.ScopeMetrics {
		for _, m := range sm.Metrics {
			switch d := m.Data.(type) {
			case metricdata.Sum[int64]:
				for _, dp := range d.DataPoints {
					if m.Name == "http_requests_active" {
						if dp.Attributes.Len() == 0 {
							g0 += dp.Value
						} else {
							gA += dp.Value
						}
						if dp.Value != 0 {
							nonzero++
						}
					}
					if m.Name == "http_requests_total" {
						rt, _ := dp.Attributes.Value("http.route")
						st, _ := dp.Attributes.Value("http.status_code")
						row(rt.AsString(), int(st.AsInt64())).count += dp.Value
					}
				}
			case metricdata.Histogram[float64]:
				if m.Name == "http_response_size_bytes" {
					for _, dp := range d.DataPoints {
						rt, _ := dp.Attributes.Value("http.route")
						st, _ := dp.Attributes.Value("http.status_code")
						row(rt.AsString(), int(st.AsInt64())).size += int64(dp.Sum)
					}
				}
			case metricdata.Histogram[int64]:
				if m.Name == "http_response_size_bytes" {
					for _, dp := range d.DataPoints {
						rt, _ := dp.Attributes.Value("http.route")
						st, _ := dp.Attributes.Value("http.status_code")
						row(rt.AsString(), int(st.AsInt64())).size += dp.Sum
					}
				}
			}
		}
	}
	l.I64(g0).I64(gA).Nat(nonzero)
	keys := make([]string, 0, len(rows))
	for k := range rows {
		keys = append(keys, k)
	}
	sort.Strings(keys)
	l.Nat(len(keys))
	for _, k := range keys {
		r := rows[k]
		l.Str(r.route).Nat(r.status).I64(r.count).I64(r.size)
	}
}

var mPatterns = []string{"/s", "/p/:id", exclPrefix + "ping"}

// mPredict: what the bottom handler answers and (app) which label the router reports.
func mPredict(term string, q MReq) (status, size int, label string) {
	status, size = 200, 0
	switch q.Mode {
	case "E", "H", "F":
		status, size = q.Status, q.Size
	case "O", "G", "L":
		size = q.Size // L: the Flush committed 200, the later status does not reach the client
	case "S":
		size = q.Size / 2 // what the capped writer accepted
	case "J":
		status = 500
	case "V":
		status, size = 500, q.Size
	}
	if term != "app" {
		return status, size, ""
	}
	switch {
	case q.Path == "/s" && (q.Method == "GET" || q.Method == "POST"):
		return status, size, "/s"
	case strings.HasPrefix(q.Path, "/p/") && !strings.Contains(q.Path[3:], "/") && len(q.Path) > 3 && q.Method == "GET":
		return status, size, "/p/:id"
	case q.Path == exclPrefix+"ping" && q.Method == "GET":
		return status, size, exclPrefix + "ping"
	case strings.HasPrefix(q.Path, "/p/") && !strings.Contains(q.Path[3:], "/") && len(q.Path) > 3, q.Path == exclPrefix+"ping":
		return 405, len("Method Not Allowed\n"), "_not_found" // handleNotFoundWithObs reports the not-found sentinel also for a 405
	}
	return 404, len("Not Found\n"), "_not_found"
}

func runM(id string, cs Case) string {
	mwp, appp := newPair(), newPair()
	var h http.Handler
	if cs.Term == "app" {
		a, err := app.New(
			app.WithServiceName("c08m"),
			app.WithServiceVersion("v0.0.1"),
			app.WithoutDefaultMiddleware(),
			app.WithObservability(
				app.WithMetrics(metrics.WithMeterProvider(appp.mp), metrics.WithServerDisabled()),
				app.WithTracing(tracing.WithTracerProvider(appp.tp)),
				app.WithExcludePrefixes(exclPrefix),
			),
		)
		if err != nil {
			fmt.Fprintln(os.Stderr, "app.New:", err)
			os.Exit(1)
		}
		hf := func(c *router.Context) { mprog(c.Response, c.Request) }
		a.Router().GET("/s", hf)
		a.Router().POST("/s", hf)
		a.Router().GET("/p/:id", hf)
		a.Router().GET(exclPrefix+"ping", hf)
		h = a.Router()
	} else {
		h = http.HandlerFunc(mprog)
	}
	for i := len(cs.Stack) - 1; i >= 0; i-- {
		next := h
		switch cs.Stack[i] {
		case "T":
			tr, err := tracing.New(tracing.WithTracerProvider(mwp.tp), tracing.WithServiceName("c08m"), tracing.WithServiceVersion("v0.0.1"))
			if err != nil {
				fmt.Fprintln(os.Stderr, "tracing.New:", err)
				os.Exit(1)
			}
			h = tracing.Middleware(tr, tracing.WithExcludePrefixes(exclPrefix))(next)
		case "M":
			rec, err := metrics.New(metrics.WithMeterProvider(mwp.mp), metrics.WithServerDisabled(), metrics.WithServiceName("c08m"))
			if err != nil {
				fmt.Fprintln(os.Stderr, "metrics.New:", err)
				os.Exit(1)
			}
			h = metrics.Middleware(rec, metrics.WithExcludePrefixes(exclPrefix))(next)
		case "F1":
			h = http.HandlerFunc(func(w http.ResponseWriter, r *http.Request) { next.ServeHTTP(&foreign64{ResponseWriter: w}, r) })
		case "F0":
			h = http.HandlerFunc(func(w http.ResponseWriter, r *http.Request) { next.ServeHTTP(foreignBlind{w}, r) })
		}
	}
	var srv *httptest.Server
	if cs.Wire {
		srv = httptest.NewServer(h)
		defer srv.Close()
	}
	l := hx.NewLine(id)
	l.Tok("M").Bool(cs.Term == "app").Nat(len(cs.Stack))
	for _, s := range cs.Stack {
		l.Tok(s)
	}
	l.Nat(len(cs.MH))
	type cl struct{ status, size int }
	clients := make([]cl, len(cs.MH))
	panicked := false
	for i, q := range cs.MH {
		st, sz, label := mPredict(cs.Term, q)
		l.Str(q.Method).Str(q.Path).Bool(strings.HasPrefix(q.Path, exclPrefix)).Nat(st).Nat(sz).Str(label)
		func() {
			defer func() {
				if r := recover(); r != nil {
					panicked = true
				}
			}()
			req := httptest.NewRequest(q.Method, "http://h.test/", nil)
			req.URL.Path = q.Path
			req.Header.Set("X-MProg", fmt.Sprintf("%s,%d,%d", q.Mode, q.Status, q.Size))
			if srv != nil {
				// through a real server and client: net/http's own writer underneath (1xx responses, implicit 200)
				creq, _ := http.NewRequest(q.Method, srv.URL+"/", nil)
				creq.URL.Path = q.Path
				creq.Header = req.Header
				resp, err := srv.Client().Do(creq)
				if err != nil {
					panicked = true
					return
				}
				b, _ := io.ReadAll(resp.Body)
				_ = resp.Body.Close()
				clients[i] = cl{resp.StatusCode, len(b)}
				return
			}
			rw := httptest.NewRecorder()
			if q.Mode == "S" {
				h.ServeHTTP(&capWriter{ResponseWriter: rw, left: q.Size / 2}, req)
			} else if q.Mode == "J" {
				h.ServeHTTP(noHijackWriter{rw}, req)
			} else {
				h.ServeHTTP(rw, req)
			}
			clients[i] = cl{rw.Code, rw.Body.Len()}
		}()
	}
	if cs.Term == "app" {
		l.Strs(mPatterns)
	} else {
		l.Strs(nil)
	}
	l.Sep()
	if panicked {
		l.Tok("P")
		return l.String() + hx.Comment(cs)
	}
	mwp.tele(l)
	appp.tele(l)
	l.Nat(len(clients))
	for _, c := range clients {
		l.Nat(c.status).Nat(c.size)
	}
	return l.String() + hx.Comment(cs)
}

var mStacks = [][]string{
	{"M"}, {"T"}, {"T", "M"}, {"M", "T"}, {"F1", "M"}, {"F0", "M"}, {"F1", "T"}, {"F0", "T", "M"}, {"M", "F1", "T"}, {},
	{"T", "F1", "M"}, {"F1"}, {"F0"},
}

func genMReq(r *hx.Rand) MReq {
	q := MReq{
		Method: hx.Pick(r, []string{"GET", "GET", "GET", "POST"}),
		Path:   hx.Pick(r, []string{"/s", "/s", "/p/1", "/p/zz", "/p/1/2", "/nope", exclPrefix + "ping", exclPrefix + "other", "/"}),
		Mode:   hx.Pick(r, []string{"E", "E", "E", "Q", "O", "F", "G", "L"}),
	}
	q.Status = hx.Pick(r, []int{200, 201, 204, 301, 400, 404, 418, 500, 503})
	q.Size = r.Range(0, 300)
	if q.Status == 204 {
		q.Size = 0
	}
	return q
}

// mWitnesses: the three findings K08c / K08d / K08f on their smallest stacks.
func mWitnesses() []Case {
	e := func(st, n int) MReq { return MReq{Method: "GET", Path: "/s", Mode: "E", Status: st, Size: n} }
	return []Case{
		{Kind: "M", Term: "mux", Stack: []string{"T", "M"}, MH: []MReq{e(503, 5), e(200, 3), e(201, 0)}},
		{Kind: "M", Term: "mux", Stack: []string{"M"}, MH: []MReq{e(503, 5), e(200, 3)}},
		{Kind: "M", Term: "app", Stack: []string{"T"}, MH: []MReq{e(503, 5), {Method: "GET", Path: "/nope", Mode: "Q"}}},
		{Kind: "M", Term: "app", Stack: []string{"M"}, MH: []MReq{e(418, 9), {Method: "POST", Path: "/p/1", Mode: "Q"}}},
		// K08g: 103 Early Hints, then the final status — through a real server (app recorder / metrics / tracing middleware)
		{Kind: "M", Term: "app", Wire: true, MH: []MReq{{Method: "GET", Path: "/s", Mode: "H", Status: 404, Size: 4}, e(200, 3)}},
		{Kind: "M", Term: "mux", Wire: true, Stack: []string{"M"}, MH: []MReq{{Method: "GET", Path: "/s", Mode: "H", Status: 500, Size: 9}}},
		{Kind: "M", Term: "mux", Wire: true, Stack: []string{"T"}, MH: []MReq{{Method: "GET", Path: "/s", Mode: "H", Status: 503, Size: 0}}},
		// a streamed body (io.Copy -> ReadFrom) behind the standalone layers: the app recorder reads the outer writer
		{Kind: "M", Term: "app", Stack: []string{"T"}, MH: []MReq{{Method: "GET", Path: "/s", Mode: "F", Status: 200, Size: 2000}, {Method: "GET", Path: "/p/1", Mode: "G", Size: 300}}},
		{Kind: "M", Term: "app", Stack: []string{"M"}, MH: []MReq{{Method: "GET", Path: "/s", Mode: "G", Size: 1000}}},
		{Kind: "M", Term: "app", Wire: true, Stack: []string{"T", "M"}, MH: []MReq{{Method: "GET", Path: "/s", Mode: "F", Status: 201, Size: 4096}}},
		// K08h behind the standalone layers and through a real server
		{Kind: "M", Term: "app", Wire: true, MH: []MReq{{Method: "GET", Path: "/s", Mode: "L", Status: 500, Size: 4}}},
		{Kind: "M", Term: "app", Stack: []string{"T"}, MH: []MReq{{Method: "GET", Path: "/p/1", Mode: "L", Status: 404, Size: 9}}},
		// faults at particular points: a short write with an error, a hijack that fails, a status code net/http rejects
		{Kind: "M", Term: "app", MH: []MReq{{Method: "GET", Path: "/s", Mode: "S", Size: 16}, {Method: "GET", Path: "/s", Mode: "S", Size: 1}}},
		{Kind: "M", Term: "mux", Stack: []string{"M"}, MH: []MReq{{Method: "GET", Path: "/s", Mode: "J"}, {Method: "GET", Path: "/s", Mode: "J"}, {Method: "GET", Path: "/s", Mode: "S", Size: 40}}},
		{Kind: "M", Term: "mux", Stack: []string{"T"}, MH: []MReq{{Method: "GET", Path: "/s", Mode: "V", Size: 3}}},
		{Kind: "M", Term: "app", Stack: []string{"T"}, MH: []MReq{{Method: "GET", Path: "/s", Mode: "V", Size: 3}, {Method: "GET", Path: "/p/2", Mode: "J"}}},
		{Kind: "M", Term: "app", Stack: []string{"M", "T"}, MH: []MReq{{Method: "GET", Path: "/s", Mode: "S", Size: 300}, {Method: "GET", Path: "/s", Mode: "V", Size: 0}}},
	}
}
