// Kind O — the metrics recorder with a provider that is initialised late (OTLP: the instruments exist only after
// Recorder.Start). A history of requests through an app; the handler of request StartAt calls Metrics().Start while
// its own request is in flight. Requests that began before the start were never counted in (BeginRequest returned
// nil) and must not be counted out. Observed through an in-process OTLP/HTTP collector after ForceFlush:
// sum(http_requests_active), sum(http_requests_total).
package main

import (
	"compress/gzip"
	"context"
	"fmt"
	"io"
	"net/http"
	"net/http/httptest"
	"os"
	"sync"
	"time"

	colmetricspb "go.opentelemetry.io/proto/otlp/collector/metrics/v1"
	metricspb "go.opentelemetry.io/proto/otlp/metrics/v1"
	"google.golang.org/protobuf/proto"

	"rivaas.dev/app"
	"rivaas.dev/metrics"
	"rivaas.dev/router"

	"verif/harness/hx"
)

type fakeCollector struct {
	mu   sync.Mutex
	last *colmetricspb.ExportMetricsServiceRequest
}

func (f *fakeCollector) ServeHTTP(w http.ResponseWriter, r *http.Request) {
	var rd io.Reader = r.Body
	if r.Header.Get("Content-Encoding") == "gzip" {
		zr, err := gzip.NewReader(r.Body)
		if err != nil {
			http.Error(w, err.Error(), http.StatusBadRequest)
			return
		}
		rd = zr
	}
	raw, err := io.ReadAll(rd)
	if err != nil {
		http.Error(w, err.Error(), http.StatusBadRequest)
		return
	}
	req := &colmetricspb.ExportMetricsServiceRequest{}
	if err = proto.Unmarshal(raw, req); err != nil {
		http.Error(w, err.Error(), http.StatusBadRequest)
		return
	}
	f.mu.Lock()
	f.last = req
	f.mu.Unlock()
	resp, _ := proto.Marshal(&colmetricspb.ExportMetricsServiceResponse{})
	w.Header().Set("Content-Type", "application/x-protobuf")
	_, _ = w.Write(resp)
}

func (f *fakeCollector) sumOf(name string) (total int64, nonzero int) {
	f.mu.Lock()
	defer f.mu.Unlock()
	if f.last == nil {
		return 0, 0
	}
	for _, rm := range f.last.GetResourceMetrics() {
		for _, sm := range rm.GetScopeMetrics() {
			for _, m := range sm.GetMetrics() {
				if m.GetName() != name {
					continue
				}
				for _, dp := range m.GetSum().GetDataPoints() {
					var v int64
					switch x := dp.GetValue().(type) {
					case *metricspb.NumberDataPoint_AsInt:
						v = x.AsInt
					case *metricspb.NumberDataPoint_AsDouble:
						v = int64(x.AsDouble)
					}
					total += v
					if v != 0 {
						nonzero++
					}
				}
			}
		}
	}
	return total, nonzero
}

func runO(id string, cs Case) string {
	col := &fakeCollector{}
	srv := httptest.NewServer(col)
	defer srv.Close()
	a, err := app.New(
		app.WithServiceName("c08o"),
		app.WithServiceVersion("v0.0.1"),
		app.WithoutDefaultMiddleware(),
		app.WithObservability(app.WithMetrics(metrics.WithOTLP(srv.URL), metrics.WithExportInterval(time.Hour))),
	)
	if err != nil {
		fmt.Fprintln(os.Stderr, "app.New:", err)
		os.Exit(1)
	}
	ctx, cancel := context.WithTimeout(context.Background(), 10*time.Second)
	defer cancel()
	startErr := ""
	hf := func(c *router.Context) {
		if c.Request.Header.Get("X-Start") == "1" {
			if err := a.Metrics().Start(ctx); err != nil {
				startErr = err.Error()
			}
		}
		mprog(c.Response, c.Request)
	}
	a.Router().GET("/s", hf)
	a.Router().GET("/p/:id", hf)
	defer func() { _ = a.Metrics().Shutdown(context.Background()) }()
	l := hx.NewLine(id)
	l.Tok("O").Nat(cs.StartAt).Nat(len(cs.MH))
	for i, q := range cs.MH {
		req := httptest.NewRequest(q.Method, "http://h.test/", nil)
		req.URL.Path = q.Path
		req.Header.Set("X-MProg", fmt.Sprintf("%s,%d,%d", q.Mode, q.Status, q.Size))
		if i == cs.StartAt {
			req.Header.Set("X-Start", "1")
		}
		a.Router().ServeHTTP(httptest.NewRecorder(), req)
	}
	l.Sep()
	if startErr != "" {
		fmt.Fprintln(os.Stderr, "metrics start:", startErr)
		os.Exit(1)
	}
	if cs.StartAt < len(cs.MH) {
		if err := a.Metrics().ForceFlush(ctx); err != nil {
			fmt.Fprintln(os.Stderr, "force flush:", err)
			os.Exit(1)
		}
	}
	active, nonzero := col.sumOf("http_requests_active")
	total, _ := col.sumOf("http_requests_total")
	l.I64(active).Nat(nonzero).I64(total)
	return l.String() + hx.Comment(cs)
}
