// Harness for C08 — observability lifecycle exactly-once, bounded labels, truthful status/size.
//
// Kind R: one request through a router.Router with a counting ObservabilityRecorder and probe handlers.
// Kind A: a history of requests through an app.App with the real recorder (tracetest.SpanRecorder +
// sdk/metric ManualReader); observed: spans started/ended, http_requests_active, span names/status,
// request-count metric attributes.
//
// Configurations: compilation on/off × versioning on/off (header detection, default v1, v0 deprecated
// and past sunset with enforcement) × NoRoute set/unset × recorder installed/not. Request classes are
// chosen so that every return statement of ServeHTTP and its helpers is reached (see classes()).
package main

import (
	"bytes"
	"context"
	"fmt"
	"io"
	"log/slog"
	"net/http"
	"net/http/httptest"
	"os"
	"sort"
	"strconv"
	"strings"
	"sync"
	"sync/atomic"
	"time"

	"go.opentelemetry.io/otel/codes"
	sdkmetric "go.opentelemetry.io/otel/sdk/metric"
	"go.opentelemetry.io/otel/sdk/metric/metricdata"
	sdktrace "go.opentelemetry.io/otel/sdk/trace"
	"go.opentelemetry.io/otel/sdk/trace/tracetest"

	"rivaas.dev/app"
	"rivaas.dev/metrics"
	"rivaas.dev/middleware/recovery"
	"rivaas.dev/router"
	rroute "rivaas.dev/router/route"
	"rivaas.dev/router/version"
	"rivaas.dev/tracing"

	"verif/harness/hx"
)

// ---------------------------------------------------------------- configuration and route table

type Cfg struct {
	Obs        bool
	Compiled   bool
	Versioning bool
	NoRoute    bool
	Root       int // 0: GET "/" in the main tree; 1: GET "" in the main tree (pattern "" -> _unmatched); 2: GET "" in version v1 only
	PathVer    bool `json:",omitempty"` // with Versioning: path detection "/api/v{version}/" instead of the header
}

func (c Cfg) key() string {
	return fmt.Sprintf("%v%v%v%v%d%v", c.Obs, c.Compiled, c.Versioning, c.NoRoute, c.Root, c.PathVer)
}

const pathVerPrefix = "/api/v"

type routeDef struct {
	method, pattern, ver string
	hid                  int
	kind                 string // static | param | wild
	chain                string // "" | abort | panic
	intParam             string // name of a parameter constrained to digits
	root                 int    // root routes: registered only when Cfg.Root == root-1 (0 = always)
}

const (
	mwHid      = 90
	noRouteHid = 99
)

var table = []routeDef{
	{method: "GET", pattern: "/", hid: 1, kind: "static", root: 1},
	{method: "GET", pattern: "", hid: 15, kind: "emptyroot", root: 2},
	{method: "GET", pattern: "", ver: "v1", hid: 29, kind: "emptyroot", root: 3},
	// a static path the route compiler treats as a wildcard (last segment ends in *) and therefore skips,
	// while the per-tree static table has it: the only way into serveStaticRoute
	{method: "GET", pattern: "/star*", hid: 16, kind: "treestatic"},
	{method: "GET", pattern: "/s/a", hid: 2, kind: "static"},
	{method: "GET", pattern: "/s/b/c", hid: 3, kind: "static"},
	{method: "GET", pattern: "/d/:id", hid: 4, kind: "param"},
	{method: "GET", pattern: "/d/:id/e/:x", hid: 5, kind: "param"},
	{method: "GET", pattern: "/w/*", hid: 6, kind: "wild"},
	{method: "POST", pattern: "/only/post", hid: 7, kind: "static"},
	{method: "POST", pattern: "/op/:id", hid: 8, kind: "param"},
	{method: "GET", pattern: "/c/:n", hid: 9, kind: "param", intParam: "n"},
	{method: "GET", pattern: "/auth/x", hid: 10, kind: "static", chain: "abort"},
	{method: "GET", pattern: "/auth/:u", hid: 11, kind: "param", chain: "abort"},
	{method: "GET", pattern: "/boom", hid: 12, kind: "static", chain: "panic"},
	// a middleware that replaces c.Response for the rest of the chain (compression, accesslog, capture middleware do)
	{method: "GET", pattern: "/cap/x", hid: 17, kind: "static", chain: "capture"},
	{method: "GET", pattern: "/cap/:id", hid: 18, kind: "param", chain: "capture"},
	// patterns longer than any label / name limit an implementation might be tempted to apply
	{method: "GET", pattern: "/long/" + longSeg, hid: 30, kind: "static"},
	{method: "GET", pattern: "/lp/:id/" + longSeg, hid: 31, kind: "param"},
	{method: "GET", pattern: "/x/s", hid: 13, kind: "static"},
	{method: "GET", pattern: "/x/d/:id", hid: 14, kind: "param"},
	{method: "GET", pattern: "/vs", ver: "v1", hid: 20, kind: "static"},
	{method: "GET", pattern: "/vd/:id", ver: "v1", hid: 21, kind: "param"},
	{method: "POST", pattern: "/vp", ver: "v1", hid: 26, kind: "static"},
	{method: "GET", pattern: "/vs", ver: "v2", hid: 22, kind: "static"},
	{method: "GET", pattern: "/vd/:id", ver: "v2", hid: 23, kind: "param"},
	{method: "GET", pattern: "/v2only", ver: "v2", hid: 27, kind: "static"},
	{method: "GET", pattern: "/vs", ver: "v0", hid: 24, kind: "static"},
	{method: "GET", pattern: "/vd/:id", ver: "v0", hid: 25, kind: "param"},
	{method: "GET", pattern: "/x/vs", ver: "v1", hid: 28, kind: "static"},
}

var longSeg = strings.Repeat("l", 150)

var validVersions = []string{"v0", "v1", "v2"}

const defaultVersion = "v1"
const sunsetVersion = "v0"
const exclPrefix = "/x/"

// active reports whether the route is registered under the configuration.
func active(d routeDef, c Cfg) bool {
	if d.ver != "" && !c.Versioning {
		return false
	}
	return d.root == 0 || d.root-1 == c.Root
}

func patterns(c Cfg) []string {
	seen := map[string]bool{}
	var out []string
	if c.Root == 1 {
		seen["/"] = true // the route compiler normalises the empty pattern to "/"
		out = append(out, "/")
	}
	for _, d := range table {
		if !active(d, c) {
			continue
		}
		if !seen[d.pattern] {
			seen[d.pattern] = true
			out = append(out, d.pattern)
		}
	}
	sort.Strings(out)
	return out
}

// matchTable is the reference matcher for THIS table (static > param > wildcard per segment; the
// table has no two routes that need backtracking). It predicts the lookup facts shipped to the model.
func matchTable(c Cfg, method, path, ver string) (routeDef, bool) {
	segs := func(s string) []string {
		s = strings.Trim(s, "/")
		if s == "" {
			return nil
		}
		return strings.Split(s, "/")
	}
	ps := segs(path)
	if path != "" && (strings.Contains(path, "//") || (len(path) > 1 && strings.HasSuffix(path, "/")) || !strings.HasPrefix(path, "/")) {
		return routeDef{}, false // the generator never emits such paths for matched classes
	}
	best, bestScore := routeDef{}, -1
	for _, d := range table {
		if d.method != method || d.ver != ver || !active(d, c) {
			continue
		}
		rs := segs(d.pattern)
		score, ok := 0, true
		for i, r := range rs {
			if r == "*" {
				if i >= len(ps) {
					ok = false
				}
				score = score*3 + 0
				ps2 := ps
				_ = ps2
				break
			}
			if i >= len(ps) {
				ok = false
				break
			}
			if strings.HasPrefix(r, ":") {
				if d.intParam == r[1:] {
					if _, err := strconv.Atoi(ps[i]); err != nil || strings.TrimLeft(ps[i], "0123456789") != "" {
						ok = false
						break
					}
				}
				score = score*3 + 1
			} else if r == ps[i] {
				score = score*3 + 2
			} else {
				ok = false
				break
			}
		}
		if ok && (len(rs) == len(ps) || (len(rs) > 0 && rs[len(rs)-1] == "*" && len(ps) >= len(rs))) {
			if len(rs) == 0 && len(ps) != 0 {
				continue
			}
			if score > bestScore {
				best, bestScore = d, score
			}
		}
	}
	return best, bestScore >= 0
}

func hasTree(c Cfg, method, ver string) bool {
	for _, d := range table {
		if d.method == method && d.ver == ver && active(d, c) {
			return true
		}
	}
	return false
}

// ---------------------------------------------------------------- requests and programs

type Prog struct {
	Mode   string // E Q O T B X
	Status int
	Size   int
	Cancel bool `json:",omitempty"` // the request context is cancelled while the handler runs (before it writes)
	// mode X: panic with http.ErrAbortHandler (what httputil.ReverseProxy panics with) instead of a string
	AbortPanic bool `json:",omitempty"`
	// kind A: the handler shuts the app's tracer and metrics recorder down before it answers (a graceful-shutdown
	// timeout that elapses under a slow handler); with user-supplied providers both must keep finishing what they began
	Shut bool `json:",omitempty"`
}

func (p Prog) header() string {
	c := 0
	if p.Cancel {
		c = 1
	}
	ap := 0
	if p.AbortPanic {
		ap = 1
	}
	sh := 0
	if p.Shut {
		sh = 1
	}
	return fmt.Sprintf("%s,%d,%d,%d,%d,%d", p.Mode, p.Status, p.Size, c, ap, sh)
}

func parseProg(s string) Prog {
	f := strings.Split(s, ",")
	if len(f) != 6 {
		return Prog{Mode: "Q"}
	}
	st, _ := strconv.Atoi(f[1])
	n, _ := strconv.Atoi(f[2])
	return Prog{Mode: f[0], Status: st, Size: n, Cancel: f[3] == "1", AbortPanic: f[4] == "1", Shut: f[5] == "1"}
}

// cancel functions of the requests whose context the handler cancels, by X-Cancel-Id
var (
	cancels      sync.Map
	cancelID     atomic.Int64
	aborts       sync.Map // X-Abort-Id -> chan struct{} closed when the handler is entered
	abortNotSeen atomic.Int64
)

type Req struct {
	Outer  bool `json:",omitempty"` // the request context already carries a span of an outer tracing layer (another provider)
	Abort  bool `json:",omitempty"` // kind AW: the client aborts the request while the handler runs
	Method string
	Path   string
	Ver    string // X-API-Version header ("" = absent)
	Prog   Prog
	Class  string
}

type Case struct {
	Kind string
	C    Cfg
	Q    Req   `json:",omitempty"`
	H    []Req `json:",omitempty"`
	Conc int   `json:",omitempty"` // kind A: serve the history on this many goroutines
	Wire bool  `json:",omitempty"` // kind R: through a real HTTP server and client (what the client really received)
	// kind M (stack.go): standalone layers outermost first, what is at the bottom (mux | app), the history
	Term  string   `json:",omitempty"`
	Stack []string `json:",omitempty"`
	MH    []MReq   `json:",omitempty"`
	// kind O (otlp.go): the handler of request StartAt starts the late-initialised metrics provider
	StartAt int `json:",omitempty"`
}

// ---------------------------------------------------------------- probe handlers

type logEv struct {
	kind             string // S W H E
	live             bool
	hid              int
	pattern, version string
	label            string
	wrapped          bool
}

type caseLog struct {
	evs     []logEv
	recd    bool
	recSt   int
	recSize int64
}

var (
	cur   *caseLog
	curMu sync.Mutex
)

func logf(e logEv) {
	curMu.Lock()
	if cur != nil {
		cur.evs = append(cur.evs, e)
	}
	curMu.Unlock()
}

var body = []byte(strings.Repeat("x", 4096))

// shutHook: what a handler with Prog.Shut calls (set by runA to the shutdown of that app's tracer and recorder)
var shutHook atomic.Pointer[func()]

func runProg(c *router.Context, hid int) {
	p := parseProg(c.Request.Header.Get("X-Prog"))
	logf(logEv{kind: "H", hid: hid, pattern: c.RoutePattern(), version: c.Version()})
	if id := c.Request.Header.Get("X-Abort-Id"); id != "" {
		if ch, ok := aborts.LoadAndDelete(id); ok {
			close(ch.(chan struct{})) // tell the client side that the handler is running
			select {
			case <-c.Request.Context().Done(): // net/http noticed the closed connection
			case <-time.After(3 * time.Second):
				abortNotSeen.Add(1)
			}
		}
	}
	if p.Cancel {
		if f, ok := cancels.LoadAndDelete(c.Request.Header.Get("X-Cancel-Id")); ok {
			f.(context.CancelFunc)() // the client went away / the server cancels: mid-flight
		}
	}
	if p.Shut {
		if f := shutHook.Load(); f != nil {
			(*f)()
		}
	}
	switch p.Mode {
	case "E", "B":
		c.Response.WriteHeader(p.Status)
		_, _ = c.Response.Write(body[:p.Size])
	case "F":
		// io.Copy from a reader without WriteTo: goes through the writer's ReadFrom when it has one
		c.Response.WriteHeader(p.Status)
		_, _ = io.Copy(c.Response, struct{ io.Reader }{bytes.NewReader(body[:p.Size])})
	case "G":
		_, _ = io.Copy(c.Response, struct{ io.Reader }{bytes.NewReader(body[:p.Size])})
	case "L":
		// a streaming handler flushes first (commits an implied 200), the status it sets afterwards comes too late
		if f, ok := c.Response.(http.Flusher); ok {
			f.Flush()
		} else {
			c.Response.WriteHeader(200)
		}
		c.Response.WriteHeader(p.Status)
		_, _ = c.Response.Write(body[:p.Size])
	case "Q":
	case "O":
		_, _ = c.Response.Write(body[:p.Size])
	case "T":
		c.Response.WriteHeader(p.Status)
		c.Response.WriteHeader(500)
		_, _ = c.Response.Write(body[:p.Size])
	case "X":
		if p.AbortPanic {
			panic(http.ErrAbortHandler)
		}
		panic("probe panic")
	}
}

func handler(hid int) router.HandlerFunc { return func(c *router.Context) { runProg(c, hid) } }

// abortMW answers itself and aborts when the program says so; otherwise passes on.
// passWriter forwards everything; it is what a response-replacing middleware leaves in c.Response.
type passWriter struct{ http.ResponseWriter }

func captureMW(c *router.Context) {
	c.Response = &passWriter{c.Response}
	c.Next()
}

func abortMW(c *router.Context) {
	p := parseProg(c.Request.Header.Get("X-Prog"))
	if p.Mode == "B" {
		runProg(c, mwHid)
		c.Abort()
		return
	}
	c.Next()
}

func register(r *router.Router, c Cfg) {
	for _, d := range table {
		if !active(d, c) {
			continue
		}
		var hs []router.HandlerFunc
		switch d.chain {
		case "capture":
			hs = append(hs, captureMW)
		case "abort":
			hs = append(hs, abortMW)
		case "panic":
			hs = append(hs, recovery.New())
		}
		hs = append(hs, handler(d.hid))
		if d.ver != "" {
			var vr *router.VersionRouter
			if d.ver == sunsetVersion {
				vr = r.Version(d.ver, version.Deprecated(), version.Sunset(time.Date(2001, 1, 1, 0, 0, 0, 0, time.UTC)))
			} else {
				vr = r.Version(d.ver)
			}
			rt := vr.Handle(d.method, d.pattern, hs...)
			if d.intParam != "" {
				rt.WhereInt(d.intParam)
			}
			continue
		}
		var rt interface{ WhereInt(string) *rroute.Route }
		switch d.method {
		case "GET":
			rt = r.GET(d.pattern, hs...)
		case "POST":
			rt = r.POST(d.pattern, hs...)
		default:
			panic("unsupported method in table: " + d.method)
		}
		if d.intParam != "" {
			rt.WhereInt(d.intParam)
		}
	}
	if c.NoRoute {
		r.NoRoute(handler(noRouteHid))
	}
}

func routerOpts(c Cfg) []router.Option {
	opts := []router.Option{router.WithRouteCompilation(c.Compiled)}
	if c.Versioning {
		det := version.WithHeaderDetection("X-API-Version")
		if c.PathVer {
			det = version.WithPathDetection(pathVerPrefix + "{version}/")
		}
		opts = append(opts, router.WithVersioning(
			det,
			version.WithDefault(defaultVersion),
			version.WithValidVersions(validVersions...),
			version.WithSunsetEnforcement(),
		))
	}
	return opts
}

// ---------------------------------------------------------------- counting recorder

type recWriter struct {
	http.ResponseWriter
	status int
	size   int64
	wrote  bool
}

func (w *recWriter) WriteHeader(code int) {
	if !w.wrote {
		w.status, w.wrote = code, true
	}
	w.ResponseWriter.WriteHeader(code)
}
func (w *recWriter) Write(b []byte) (int, error) {
	if !w.wrote {
		w.status, w.wrote = 200, true
	}
	n, err := w.ResponseWriter.Write(b)
	w.size += int64(n)
	return n, err
}
func (w *recWriter) StatusCode() int {
	if w.status == 0 {
		return 200
	}
	return w.status
}
func (w *recWriter) Size() int64 { return w.size }

type state struct{ wrapped http.ResponseWriter }

type recorder struct{}

func (recorder) OnRequestStart(ctx context.Context, req *http.Request) (context.Context, any) {
	if strings.HasPrefix(req.URL.Path, exclPrefix) {
		logf(logEv{kind: "S", live: false})
		return ctx, nil
	}
	logf(logEv{kind: "S", live: true})
	return ctx, &state{}
}

func (recorder) WrapResponseWriter(w http.ResponseWriter, st any) http.ResponseWriter {
	logf(logEv{kind: "W"})
	s, ok := st.(*state)
	if !ok || s == nil {
		return w
	}
	s.wrapped = &recWriter{ResponseWriter: w}
	return s.wrapped
}

func (recorder) OnRequestEnd(_ context.Context, st any, w http.ResponseWriter, pattern string) {
	s, _ := st.(*state)
	logf(logEv{kind: "E", label: pattern, wrapped: s != nil && s.wrapped != nil && w == s.wrapped})
	curMu.Lock()
	if ri, ok := w.(router.ResponseInfo); ok && cur != nil && !cur.recd {
		cur.recd, cur.recSt, cur.recSize = true, ri.StatusCode(), ri.Size()
	}
	curMu.Unlock()
}

// ---------------------------------------------------------------- facts shipped to the model

type route struct {
	ok      bool
	hid     int
	pattern string
}

type facts struct {
	obs, live, useCompiled, hasStatic bool
	lookupStatic, matchDynamic        route
	tree, treeCompiled                bool
	treeStatic, treeRoute             route
	versionEngine, vcTree             bool
	version                           string
	vCache, vRoute                    route
	sunset, allowed, noRoute          bool
	detected, path                    string
}

// detect returns the version the engine detects and the path the version tree is searched with.
func detect(c Cfg, q Req) (string, string) {
	cand, routing := q.Ver, q.Path
	if c.PathVer {
		cand = ""
		if rest, ok := strings.CutPrefix(q.Path, pathVerPrefix); ok && rest != "" {
			seg, tail, hasSlash := strings.Cut(rest, "/")
			if seg != "" {
				cand = "v" + seg
				if hasSlash {
					routing = "/" + tail
				} else {
					routing = "/"
				}
			}
		}
	}
	for _, v := range validVersions {
		if cand == v {
			return v, routing
		}
	}
	return defaultVersion, routing
}

func predict(c Cfg, q Req) facts {
	f := facts{obs: c.Obs, live: c.Obs && !strings.HasPrefix(q.Path, exclPrefix), useCompiled: c.Compiled, hasStatic: c.Compiled,
		versionEngine: c.Versioning, noRoute: c.NoRoute, path: q.Path}
	d, ok := matchTable(c, q.Method, q.Path, "")
	rt := route{ok, d.hid, d.pattern}
	switch {
	case !ok:
	case q.Path == "":
		f.treeRoute = rt // tree.getRoute("") answers with the root node; the hashed tables do not know ""
	case c.Compiled && d.kind == "static":
		f.lookupStatic = rt
	case c.Compiled && d.kind == "emptyroot":
		f.lookupStatic = route{true, d.hid, "/"} // CompileRoute normalises "" to "/"
	case c.Compiled && d.kind == "param":
		f.matchDynamic = rt
	case c.Compiled && d.kind == "treestatic":
		f.treeStatic = rt
	default:
		f.treeRoute = rt
	}
	f.tree = hasTree(c, q.Method, "")
	f.treeCompiled = c.Compiled && f.tree
	if c.Versioning {
		var routing string
		f.detected, routing = detect(c, q)
		f.version = f.detected
		tv := ""
		if hasTree(c, q.Method, f.version) {
			tv = f.version
		} else if hasTree(c, q.Method, defaultVersion) {
			tv = defaultVersion
		}
		f.vcTree = tv != ""
		if f.vcTree {
			if vd, vok := matchTable(c, q.Method, routing, tv); vok {
				if vd.kind == "static" && routing != "" {
					f.vCache = route{true, vd.hid, vd.pattern}
				} else {
					f.vRoute = route{true, vd.hid, vd.pattern}
				}
			}
		}
		f.sunset = f.version == sunsetVersion
	}
	for _, m := range []string{"GET", "POST", "PUT", "PATCH", "DELETE", "HEAD", "OPTIONS"} {
		if _, ok := matchTable(c, m, q.Path, ""); ok {
			f.allowed = true
		}
	}
	return f
}

func (l *lineB) route(r route) {
	l.Bool(r.ok)
	if r.ok {
		l.Nat(r.hid).Str(r.pattern)
	}
}

type lineB struct{ *hx.Line }

func (l *lineB) facts(f facts) {
	l.Bool(f.obs).Bool(f.live).Bool(f.useCompiled).Bool(f.hasStatic)
	l.route(f.lookupStatic)
	l.route(f.matchDynamic)
	l.Bool(f.tree).Bool(f.treeCompiled)
	l.route(f.treeStatic)
	l.route(f.treeRoute)
	l.Bool(f.versionEngine).Bool(f.vcTree).Str(f.version)
	l.route(f.vCache)
	l.route(f.vRoute)
	l.Bool(f.sunset).Bool(f.allowed).Bool(f.noRoute).Str(f.detected).Str(f.path)
}

func (l *lineB) prog(p Prog, libSize int) {
	switch p.Mode {
	case "E", "T", "B", "F", "L":
		l.Tok(p.Mode).Nat(p.Status).Nat(p.Size)
	case "G":
		l.Tok("G").Nat(p.Size)
	case "Q":
		l.Tok("Q")
	case "O":
		l.Tok("O").Nat(p.Size)
	case "X":
		l.Tok("X").Nat(libSize) // the 500 body is written by middleware/recovery: a parameter of the model
	}
}

// ---------------------------------------------------------------- kind R

type renv struct {
	r   *router.Router
	srv *httptest.Server
}

// an outer tracing layer with its own provider (its spans are not the app's and are not counted)
var outerTracer = sdktrace.NewTracerProvider().Tracer("outer")

var wireClient = &http.Client{CheckRedirect: func(*http.Request, []*http.Request) error { return http.ErrUseLastResponse }}

// wireOK: requests a real client can send unchanged and whose body net/http does not suppress
func wireOK(q Req) bool {
	if q.Prog.Cancel {
		return false
	}
	switch q.Method {
	case "GET", "POST", "PUT", "DELETE", "PATCH":
	default:
		return false
	}
	return strings.HasPrefix(q.Path, "/") && !strings.Contains(q.Path, "//") && !strings.ContainsAny(q.Path, "%*") && len(q.Path) < 200
}

var routers = map[string]*renv{}

func getRouter(c Cfg) *renv {
	if e, ok := routers[c.key()]; ok {
		return e
	}
	r := router.MustNew(routerOpts(c)...)
	if c.Obs {
		r.SetObservabilityRecorder(recorder{})
	}
	register(r, c)
	e := &renv{r: r}
	routers[c.key()] = e
	return e
}

func newRequest(q Req) *http.Request {
	req := httptest.NewRequest(q.Method, "http://h.test/", nil)
	req.URL.Path = q.Path // exactly the path of the case (CONNECT targets and escapes are not re-parsed)
	req.Header.Set("X-Prog", q.Prog.header())
	if q.Ver != "" {
		req.Header.Set("X-API-Version", q.Ver)
	}
	if q.Outer {
		ctx, _ := outerTracer.Start(req.Context(), "outer "+q.Method) // never ended: it belongs to the outer layer
		req = req.WithContext(ctx)
	}
	if q.Prog.Cancel {
		ctx, cancel := context.WithCancel(req.Context())
		id := fmt.Sprint(cancelID.Add(1))
		cancels.Store(id, cancel)
		req.Header.Set("X-Cancel-Id", id)
		req = req.WithContext(ctx)
	}
	return req
}

func runR(id string, cs Case) string {
	e := getRouter(cs.C)
	cl := &caseLog{}
	curMu.Lock()
	cur = cl
	curMu.Unlock()
	panicked := false
	code, size := 0, 0
	if cs.Wire {
		if e.srv == nil {
			e.srv = httptest.NewServer(e.r)
		}
		req, err := http.NewRequest(cs.Q.Method, e.srv.URL+cs.Q.Path, nil)
		if err != nil {
			fmt.Fprintln(os.Stderr, "wire request:", err)
			os.Exit(1)
		}
		req.Header.Set("X-Prog", cs.Q.Prog.header())
		if cs.Q.Ver != "" {
			req.Header.Set("X-API-Version", cs.Q.Ver)
		}
		resp, err := wireClient.Do(req)
		if err != nil {
			panicked = true // the server closed the connection: a panic escaped ServeHTTP
		} else {
			b, _ := io.ReadAll(resp.Body)
			_ = resp.Body.Close()
			code, size = resp.StatusCode, len(b)
		}
	} else {
		rw := httptest.NewRecorder()
		func() {
			defer func() {
				if r := recover(); r != nil {
					panicked = true
				}
			}()
			e.r.ServeHTTP(rw, newRequest(cs.Q))
		}()
		code, size = rw.Code, rw.Body.Len()
	}
	curMu.Lock()
	cur = nil
	curMu.Unlock()
	f := predict(cs.C, cs.Q)
	l := &lineB{hx.NewLine(id)}
	l.Tok("R")
	l.facts(f)
	l.prog(cs.Q.Prog, size)
	l.Strs(patterns(cs.C))
	// the request method and the registered routes: the driver recomputes the main-tree lookup with the routing model
	// (Model/Radix.getRoute) and compares it with the predicted fact `tree.getRoute`
	l.Str(cs.Q.Method)
	var act []routeDef
	for _, d := range table {
		if active(d, cs.C) {
			act = append(act, d)
		}
	}
	l.Nat(len(act))
	for _, d := range act {
		l.Str(d.method).Str(d.ver).Str(d.pattern).Str(d.intParam)
	}
	l.Sep()
	if panicked {
		l.Tok("P")
		return l.String() + hx.Comment(cs)
	}
	l.Nat(len(cl.evs))
	for _, ev := range cl.evs {
		switch ev.kind {
		case "S":
			l.Tok("S").Bool(ev.live)
		case "W":
			l.Tok("W")
		case "H":
			l.Tok("H").Nat(ev.hid).Str(ev.pattern).Str(ev.version)
		case "E":
			l.Tok("E").Str(ev.label).Bool(ev.wrapped)
		}
	}
	l.Nat(code).Nat(size)
	l.Bool(cl.recd)
	if cl.recd {
		l.Nat(cl.recSt).I64(cl.recSize)
	}
	return l.String() + hx.Comment(cs)
}

// ---------------------------------------------------------------- kind A (real app recorder)

type aenv struct {
	a      *app.App
	spans  *tracetest.SpanRecorder
	reader *sdkmetric.ManualReader
}

func newApp(c Cfg) (*aenv, error) {
	sr := tracetest.NewSpanRecorder()
	tp := sdktrace.NewTracerProvider(sdktrace.WithSpanProcessor(sr))
	reader := sdkmetric.NewManualReader()
	mp := sdkmetric.NewMeterProvider(sdkmetric.WithReader(reader))
	a, err := app.New(
		app.WithServiceName("c08"),
		app.WithServiceVersion("v0.0.1"),
		app.WithoutDefaultMiddleware(),
		app.WithRouter(routerOpts(c)...),
		app.WithObservability(
			app.WithMetrics(metrics.WithMeterProvider(mp), metrics.WithServerDisabled()),
			app.WithTracing(tracing.WithTracerProvider(tp)),
			app.WithExcludePrefixes(exclPrefix),
		),
	)
	if err != nil {
		return nil, err
	}
	register(a.Router(), c)
	return &aenv{a: a, spans: sr, reader: reader}, nil
}

type metricRow struct {
	route  string
	status int
	count  int64
	size   int64
}

func runA(id string, cs Case) string {
	e, err := newApp(cs.C)
	l := &lineB{hx.NewLine(id)}
	if cs.Conc > 0 {
		l.Tok("AC").Nat(len(cs.H))
	} else {
		l.Tok("A").Nat(len(cs.H))
	}
	if err != nil {
		fmt.Fprintln(os.Stderr, "app.New:", err)
		os.Exit(1)
	}
	// Prog.Shut: the app's tracer and recorder are shut down while the request is in flight (user-supplied providers:
	// what was begun must still be finished, later requests are still recorded)
	shut := func() {
		ctx, cancel := context.WithTimeout(context.Background(), time.Second)
		defer cancel()
		if t := e.a.Tracing(); t != nil {
			_ = t.Shutdown(ctx)
		}
		if m := e.a.Metrics(); m != nil {
			_ = m.Shutdown(ctx)
		}
	}
	shutHook.Store(&shut)
	defer shutHook.Store(nil)
	type cl struct{ status, size int }
	results := make([]cl, len(cs.H))
	panicked := false
	serve := func(i int) {
		rw := httptest.NewRecorder()
		defer func() {
			if r := recover(); r != nil {
				panicked = true
			}
		}()
		e.a.Router().ServeHTTP(rw, newRequest(cs.H[i]))
		results[i] = cl{rw.Code, rw.Body.Len()}
	}
	if cs.Conc > 0 {
		var wg sync.WaitGroup
		ch := make(chan int)
		for g := 0; g < cs.Conc; g++ {
			wg.Add(1)
			go func() {
				defer wg.Done()
				for i := range ch {
					serve(i)
				}
			}()
		}
		for i := range cs.H {
			ch <- i
		}
		close(ch)
		wg.Wait()
	} else {
		for i := range cs.H {
			serve(i)
		}
	}
	var clients []cl
	for i, q := range cs.H {
		f := predict(cs.C, q)
		f.obs = true
		f.live = !strings.HasPrefix(q.Path, exclPrefix)
		l.facts(f)
		l.prog(q.Prog, results[i].size)
		l.Str(q.Method)
		if f.live {
			clients = append(clients, results[i])
		}
	}
	l.Strs(patterns(cs.C))
	l.Sep()
	if panicked {
		l.Tok("P")
		return l.String() + hx.Comment(cs)
	}
	started, ended := e.spans.Started(), e.spans.Ended()
	var rm metricdata.ResourceMetrics
	_ = e.reader.Collect(context.Background(), &rm)
	var active int64
	rows := map[string]*metricRow{}
	row := func(route string, status int) *metricRow {
		k := fmt.Sprintf("%s %d", route, status)
		if rows[k] == nil {
			rows[k] = &metricRow{route: route, status: status}
		}
		return rows[k]
	}
	for _, sm := range rm.ScopeMetrics {
		for _, m := range sm.Metrics {
			switch d := m.Data.(type) {
			case metricdata.Sum[int64]:
				for _, dp := range d.DataPoints {
					if m.Name == "http_requests_active" {
						active += dp.Value
					}
					if m.Name == "http_requests_total" {
						rt, _ := dp.Attributes.Value("http.route")
						st, _ := dp.Attributes.Value("http.status_code")
						row(rt.AsString(), int(st.AsInt64())).count += dp.Value
					}
				}
			case metricdata.Histogram[float64]:
				if m.Name == "http_response_size_bytes" {
					for _, dp := range d.DataPoints {
						rt, _ := dp.Attributes.Value("http.route")
						st, _ := dp.Attributes.Value("http.status_code")
						row(rt.AsString(), int(st.AsInt64())).size += int64(dp.Sum)
					}
				}
			case metricdata.Histogram[int64]:
				if m.Name == "http_response_size_bytes" {
					for _, dp := range d.DataPoints {
						rt, _ := dp.Attributes.Value("http.route")
						st, _ := dp.Attributes.Value("http.status_code")
						row(rt.AsString(), int(st.AsInt64())).size += dp.Sum
					}
				}
			}
		}
	}
	l.Nat(len(started)).Nat(len(ended)).I64(active)
	type spanRow struct {
		name string
		err  int
	}
	var sps []spanRow
	for _, sp := range ended {
		errCode := 0
		if sp.Status().Code == codes.Error {
			_, _ = fmt.Sscanf(sp.Status().Description, "HTTP %d", &errCode)
		}
		sps = append(sps, spanRow{sp.Name(), errCode})
	}
	if cs.Conc > 0 {
		// completion order is not part of a concurrent case: spans and client results as sorted multisets
		sort.Slice(sps, func(i, j int) bool {
			if sps[i].name != sps[j].name {
				return sps[i].name < sps[j].name
			}
			return sps[i].err < sps[j].err
		})
		sort.Slice(clients, func(i, j int) bool {
			if clients[i].status != clients[j].status {
				return clients[i].status < clients[j].status
			}
			return clients[i].size < clients[j].size
		})
	}
	l.Nat(len(sps))
	for i, sp := range sps {
		l.Str(sp.name).Nat(sp.err)
		if cs.Conc > 0 {
			continue
		}
		if i < len(clients) {
			l.Nat(clients[i].status).Nat(clients[i].size)
		} else {
			l.Nat(0).Nat(0)
		}
	}
	keys := make([]string, 0, len(rows))
	for k := range rows {
		keys = append(keys, k)
	}
	sort.Strings(keys)
	l.Nat(len(keys))
	for _, k := range keys {
		r := rows[k]
		l.Str(r.route).Nat(r.status).I64(r.count).I64(r.size)
	}
	if cs.Conc > 0 {
		l.Nat(len(clients))
		for _, c := range clients {
			l.Nat(c.status).Nat(c.size)
		}
	}
	return l.String() + hx.Comment(cs)
}

// ---------------------------------------------------------------- kind AW: real server, real app recorder, clients that abort

func runAW(id string, cs Case) string {
	e, err := newApp(cs.C)
	if err != nil {
		fmt.Fprintln(os.Stderr, "app.New:", err)
		os.Exit(1)
	}
	var in, out atomic.Int64
	srv := httptest.NewServer(http.HandlerFunc(func(w http.ResponseWriter, r *http.Request) {
		in.Add(1)
		defer out.Add(1)
		e.a.Router().ServeHTTP(w, r)
	}))
	defer srv.Close()
	l := &lineB{hx.NewLine(id)}
	l.Tok("AW").Nat(len(cs.H))
	live := 0
	for _, q := range cs.H {
		f := predict(cs.C, q)
		f.obs = true
		f.live = !strings.HasPrefix(q.Path, exclPrefix)
		if f.live {
			live++
		}
		l.facts(f)
		l.prog(q.Prog, 0)
		l.Str(q.Method)
		req, err := http.NewRequest(q.Method, srv.URL+q.Path, nil)
		if err != nil {
			fmt.Fprintln(os.Stderr, "wire request:", err)
			os.Exit(1)
		}
		req.Header.Set("X-Prog", q.Prog.header())
		if q.Ver != "" {
			req.Header.Set("X-API-Version", q.Ver)
		}
		if !q.Abort {
			if resp, err := wireClient.Do(req); err == nil {
				_, _ = io.Copy(io.Discard, resp.Body)
				_ = resp.Body.Close()
			}
			continue
		}
		ctx, cancel := context.WithCancel(context.Background())
		entered := make(chan struct{})
		aid := fmt.Sprint(cancelID.Add(1))
		aborts.Store(aid, entered)
		req.Header.Set("X-Abort-Id", aid)
		done := make(chan struct{})
		go func() {
			defer close(done)
			// a fresh transport: cancelling closes this request's own connection
			cl := &http.Client{Transport: &http.Transport{DisableKeepAlives: true}, CheckRedirect: wireClient.CheckRedirect}
			if resp, err := cl.Do(req.WithContext(ctx)); err == nil {
				_, _ = io.Copy(io.Discard, resp.Body)
				_ = resp.Body.Close()
			}
		}()
		select {
		case <-entered:
		case <-done: // no probe handler on this path (404/405/410): the request simply completed
		case <-time.After(3 * time.Second):
		}
		cancel()
		<-done
		aborts.Delete(aid)
	}
	// quiescence: every ServeHTTP call has returned
	for t := 0; t < 500 && out.Load() != in.Load(); t++ {
		time.Sleep(10 * time.Millisecond)
	}
	l.Strs(patterns(cs.C))
	l.Sep()
	if out.Load() != in.Load() {
		l.Tok("T")
		return l.String() + hx.Comment(cs)
	}
	started, ended := e.spans.Started(), e.spans.Ended()
	var rm metricdata.ResourceMetrics
	_ = e.reader.Collect(context.Background(), &rm)
	var active, total int64
	for _, sm := range rm.ScopeMetrics {
		for _, m := range sm.Metrics {
			if d, ok := m.Data.(metricdata.Sum[int64]); ok {
				for _, dp := range d.DataPoints {
					switch m.Name {
					case "http_requests_active":
						active += dp.Value
					case "http_requests_total":
						total += dp.Value
					}
				}
			}
		}
	}
	l.Nat(len(started)).Nat(len(ended)).I64(active).I64(total).Nat(int(in.Load()))
	_ = live
	return l.String() + hx.Comment(cs)
}

// ---------------------------------------------------------------- generator

var vals = []string{"1", "42", "abc", "a-b", "007", "x_y", "Z9"}

func genProg(r *hx.Rand, chain string) Prog {
	statuses := []int{200, 201, 202, 301, 400, 401, 403, 404, 409, 422, 500, 503}
	st, n := hx.Pick(r, statuses), hx.Pick(r, []int{0, 1, 2, 17, 100, 1023, 4096})
	switch chain {
	case "abort":
		if r.Chance(1, 2) {
			return Prog{Mode: "B", Status: hx.Pick(r, []int{401, 403, 429}), Size: n}
		}
	case "panic":
		if r.Chance(2, 3) {
			return Prog{Mode: "X", Status: 0, Size: 0, AbortPanic: r.Chance(1, 3)}
		}
	}
	switch r.Intn(11) {
	case 10:
		return Prog{Mode: "L", Status: st, Size: n}
	case 8:
		return Prog{Mode: "F", Status: st, Size: n}
	case 9:
		return Prog{Mode: "G", Status: 0, Size: n}
	case 0:
		return Prog{Mode: "Q", Status: 0, Size: 0}
	case 1:
		return Prog{Mode: "O", Status: 0, Size: n}
	case 2:
		return Prog{Mode: "T", Status: st, Size: n}
	}
	return Prog{Mode: "E", Status: st, Size: n}
}

type classGen struct {
	name string
	gen  func(r *hx.Rand) Req
}

func v(r *hx.Rand) string { return hx.Pick(r, vals) }

func verHdr(r *hx.Rand) string { return hx.Pick(r, []string{"", "v1", "v2", "v0", "v9", "V1", "v1 "}) }

// classes: one generator per family of skeleton paths (the serve path each one reaches depends on
// the configuration; predict() computes it).
func classes() []classGen {
	q := func(class, m, p, ver string) Req { return Req{Method: m, Path: p, Ver: ver, Class: class} }
	return []classGen{
		{"main-static", func(r *hx.Rand) Req { return q("main-static", "GET", hx.Pick(r, []string{"/", "/s/a", "/s/b/c"}), verHdr(r)) }},
		{"root", func(r *hx.Rand) Req { return q("root", hx.Pick(r, []string{"GET", "GET", "POST"}), "/", verHdr(r)) }},
		{"tree-static", func(r *hx.Rand) Req { return q("tree-static", hx.Pick(r, []string{"GET", "GET", "PUT"}), "/star*", verHdr(r)) }},
		{"main-param", func(r *hx.Rand) Req {
			return q("main-param", "GET", hx.Pick(r, []string{"/d/" + v(r), "/d/" + v(r) + "/e/" + v(r), "/c/" + hx.Pick(r, []string{"7", "12", "0"})}), verHdr(r))
		}},
		{"long-pattern", func(r *hx.Rand) Req {
			return q("long-pattern", "GET", hx.Pick(r, []string{"/long/" + longSeg, "/lp/" + v(r) + "/" + longSeg, "/long/" + longSeg[:149]}), verHdr(r))
		}},
		{"main-wild", func(r *hx.Rand) Req { return q("main-wild", "GET", "/w/"+v(r)+hx.Pick(r, []string{"", "/" + v(r)}), verHdr(r)) }},
		{"main-post", func(r *hx.Rand) Req { return q("main-post", "POST", hx.Pick(r, []string{"/only/post", "/op/" + v(r)}), verHdr(r)) }},
		{"abort-chain", func(r *hx.Rand) Req { return q("abort-chain", "GET", hx.Pick(r, []string{"/auth/x", "/auth/" + v(r)}), verHdr(r)) }},
		{"panic-chain", func(r *hx.Rand) Req { return q("panic-chain", "GET", "/boom", verHdr(r)) }},
		{"capture-chain", func(r *hx.Rand) Req { return q("capture-chain", "GET", hx.Pick(r, []string{"/cap/x", "/cap/" + v(r)}), verHdr(r)) }},
		{"excluded", func(r *hx.Rand) Req {
			return q("excluded", "GET", hx.Pick(r, []string{"/x/s", "/x/d/" + v(r), "/x/none", "/x/vs"}), verHdr(r))
		}},
		{"405", func(r *hx.Rand) Req {
			return q("405", hx.Pick(r, []string{"GET", "PUT", "DELETE"}), hx.Pick(r, []string{"/only/post", "/op/" + v(r)}), verHdr(r))
		}},
		{"405-no-tree", func(r *hx.Rand) Req {
			return q("405-no-tree", hx.Pick(r, []string{"PUT", "PATCH", "DELETE", "HEAD", "OPTIONS"}), hx.Pick(r, []string{"/s/a", "/d/" + v(r), "/w/" + v(r)}), verHdr(r))
		}},
		{"constraint-miss", func(r *hx.Rand) Req { return q("constraint-miss", "GET", "/c/"+hx.Pick(r, []string{"abc", "1a", "-1"}), verHdr(r)) }},
		{"404", func(r *hx.Rand) Req {
			return q("404", hx.Pick(r, []string{"GET", "POST", "GET", "PUT"}), hx.Pick(r, []string{"/nope", "/nope/" + v(r), "/s", "/s/a/b", "/d", "/d/" + v(r) + "/e"}), verHdr(r))
		}},
		{"odd-method", func(r *hx.Rand) Req {
			return q("odd-method", hx.Pick(r, []string{"TRACE", "CONNECT", "FOO", "get", "HEAD", "OPTIONS", "PATCH"}),
				hx.Pick(r, []string{"/", "/s/a", "/d/" + v(r), "/w/" + v(r), "/only/post", "/vs", "/vd/" + v(r), "/nope", "/star*"}), verHdr(r))
		}},
		// request targets that are not in origin-form: asterisk-form (OPTIONS *), authority-form (CONNECT host:port), a
		// hand-built relative URL.Path — none can match a pattern; they must leave through the 404 path like any miss
		{"non-origin-target", func(r *hx.Rand) Req {
			return q("non-origin-target", hx.Pick(r, []string{"OPTIONS", "CONNECT", "GET", "POST"}), hx.Pick(r, []string{"*", "host.example:443", "relative", "zz/y", "..", "?"}), verHdr(r))
		}},
		{"odd-path", func(r *hx.Rand) Req {
			return q("odd-path", hx.Pick(r, []string{"GET", "GET", "POST", "PUT"}), hx.Pick(r, []string{"", "/zz/", "/zz//y", "/%6eope", "/zz/" + strings.Repeat("y", 300), "/s/A", "/S/a"}), verHdr(r))
		}},
		// path-based versioning: registered, unregistered and sunset version segments (served by the default tree
		// when unregistered); with header detection these are plain misses
		{"path-ver", func(r *hx.Rand) Req {
			seg := hx.Pick(r, []string{"1", "2", "0", "17", "17-beta", "3", "99", "x", "1.0"})
			return q("path-ver", hx.Pick(r, []string{"GET", "GET", "GET", "POST"}), pathVerPrefix+seg+hx.Pick(r, []string{"/vs", "/vd/" + v(r), "/vmiss", "/v2only", "/vp", ""}), verHdr(r))
		}},
		{"ver-static", func(r *hx.Rand) Req { return q("ver-static", "GET", hx.Pick(r, []string{"/vs", "/v2only"}), verHdr(r)) }},
		{"ver-param", func(r *hx.Rand) Req { return q("ver-param", "GET", "/vd/"+v(r), verHdr(r)) }},
		{"ver-post", func(r *hx.Rand) Req { return q("ver-post", "POST", hx.Pick(r, []string{"/vp", "/vs"}), verHdr(r)) }},
		{"ver-miss", func(r *hx.Rand) Req {
			return q("ver-miss", hx.Pick(r, []string{"GET", "GET", "POST"}), hx.Pick(r, []string{"/vmiss", "/vd", "/vd/" + v(r) + "/more", "/vs/x"}), verHdr(r))
		}},
		{"ver-no-tree", func(r *hx.Rand) Req { return q("ver-no-tree", hx.Pick(r, []string{"PUT", "DELETE"}), hx.Pick(r, []string{"/vs", "/vd/" + v(r)}), verHdr(r)) }},
	}
}

func chainOf(q Req, c Cfg) string {
	if d, ok := matchTable(c, q.Method, q.Path, ""); ok {
		return d.chain
	}
	return ""
}

func genCfg(r *hx.Rand) Cfg {
	c := Cfg{Obs: r.Chance(7, 8), Compiled: r.Chance(1, 2), Versioning: r.Chance(2, 3), NoRoute: r.Chance(1, 2), Root: hx.Pick(r, []int{0, 0, 1, 2})}
	c.PathVer = c.Versioning && r.Chance(1, 3)
	return c
}

func genReq(r *hx.Rand, c Cfg) Req {
	cl := hx.Pick(r, classes())
	q := cl.gen(r)
	q.Prog = genProg(r, chainOf(q, c))
	q.Prog.Cancel = r.Chance(1, 6)
	q.Outer = r.Chance(1, 5)
	return q
}

// servePath names the return statement the model's facts lead to (for the coverage counters).
func servePath(f facts) string {
	switch {
	case f.lookupStatic.ok:
		return "serveCompiledRoute"
	case f.matchDynamic.ok:
		return "serveCompiledRouteWithParams"
	case f.tree && f.treeCompiled && f.treeStatic.ok:
		return "serveStaticRoute"
	case f.tree && f.treeRoute.ok:
		return "mainTreeTail"
	case f.versionEngine && f.vcTree:
		switch {
		case f.vCache.ok && f.sunset:
			return "versionedHandlers.sunset"
		case f.vCache.ok:
			return "versionedHandlers"
		case !f.vRoute.ok:
			return "versionedRequest.notFound." + nfKind(f)
		case f.sunset:
			return "versionedRequest.sunset"
		}
		return "versionedRequest.tail"
	}
	return "notFoundWithObs." + nfKind(f)
}

func nfKind(f facts) string {
	switch {
	case f.allowed:
		return "405"
	case f.noRoute:
		return "noRoute"
	}
	return "404"
}

func count(st *hx.Stats, c Cfg, q Req) bool {
	f := predict(c, q)
	sp := servePath(f)
	st.Count("path:" + sp)
	st.Count("class:" + q.Class)
	st.Count("prog:" + q.Prog.Mode)
	st.Count(fmt.Sprintf("cfg:obs=%v,compiled=%v,versioning=%v,noRoute=%v", c.Obs, c.Compiled, c.Versioning, c.NoRoute))
	st.Count(fmt.Sprintf("cfg:root=%d", c.Root))
	if c.PathVer {
		st.Count("cfg:path-versioning")
		if strings.HasPrefix(q.Path, pathVerPrefix) && f.version == defaultVersion && !strings.HasPrefix(q.Path, pathVerPrefix+"1/") && q.Path != pathVerPrefix+"1" {
			st.Count("unregistered-version-segment-served-by-default")
		}
	}
	if q.Prog.Cancel {
		st.Count("context-cancelled-mid-flight")
	}
	if q.Outer {
		st.Count("outer-span-in-request-context")
	}
	if q.Prog.AbortPanic {
		st.Count("panic(http.ErrAbortHandler)")
	}
	if (f.treeRoute.ok && f.treeRoute.pattern == "") || (f.vRoute.ok && f.vRoute.pattern == "") {
		st.Count("empty-pattern(_unmatched)")
	}
	if f.obs && !f.live {
		st.Count("excluded")
	}
	// non-trivial: the request reaches a return statement other than the matched-route tail
	return sp != "mainTreeTail" && sp != "serveCompiledRoute" && sp != "serveCompiledRouteWithParams"
}

func witnesses() []Case {
	on := Cfg{Obs: true, Versioning: true}
	e := Prog{Mode: "E", Status: 200, Size: 5}
	return []Case{
		// K08: the three exits that skipped OnRequestEnd before commit 91ac4e5
		{Kind: "R", C: on, Q: Req{Method: "GET", Path: "/vmiss", Ver: "v1", Prog: e, Class: "ver-miss"}},
		{Kind: "R", C: on, Q: Req{Method: "GET", Path: "/vs", Ver: "v0", Prog: e, Class: "ver-static"}},
		{Kind: "R", C: on, Q: Req{Method: "GET", Path: "/vd/7", Ver: "v0", Prog: e, Class: "ver-param"}},
		{Kind: "R", C: Cfg{Obs: true, Versioning: true, Compiled: true, NoRoute: true}, Q: Req{Method: "GET", Path: "/vmiss", Prog: e, Class: "ver-miss"}},
		{Kind: "A", C: Cfg{Obs: true}, H: []Req{
			{Method: "GET", Path: "/s/a", Prog: Prog{Mode: "E", Status: 200, Size: 5, Cancel: true}, Class: "main-static"},
			{Method: "GET", Path: "/d/7", Prog: Prog{Mode: "E", Status: 500, Size: 0, Cancel: true}, Class: "main-param"},
			{Method: "GET", Path: "/nope", Prog: e, Class: "404"},
		}},
		{Kind: "R", C: Cfg{Obs: true}, Q: Req{Method: "OPTIONS", Path: "*", Prog: e, Class: "non-origin-target"}},
		{Kind: "R", C: Cfg{Obs: true}, Q: Req{Method: "GET", Path: "/cap/7", Prog: Prog{Mode: "E", Status: 404, Size: 17}, Class: "capture-chain"}},
		{Kind: "R", C: Cfg{Obs: true}, Q: Req{Method: "GET", Path: "/boom", Prog: Prog{Mode: "X", AbortPanic: true}, Class: "panic-chain"}},
		{Kind: "A", C: Cfg{Obs: true}, H: []Req{
			{Method: "GET", Path: "/s/a", Prog: e, Outer: true, Class: "main-static"},
			{Method: "GET", Path: "/cap/7", Prog: Prog{Mode: "E", Status: 404, Size: 17}, Class: "capture-chain"},
			{Method: "GET", Path: "/boom", Prog: Prog{Mode: "X", AbortPanic: true}, Class: "panic-chain"},
		}},
		{Kind: "R", C: Cfg{Obs: true, Compiled: true, Versioning: true, NoRoute: true}, Q: Req{Method: "GET", Path: "relative", Prog: e, Class: "non-origin-target"}},
		{Kind: "R", C: Cfg{Obs: true, Versioning: true, PathVer: true}, Q: Req{Method: "GET", Path: "/api/v17/vd/7", Prog: e, Class: "path-ver"}},
		{Kind: "R", C: Cfg{Obs: true, Versioning: true, PathVer: true}, Q: Req{Method: "GET", Path: "/api/v99-beta/vs", Prog: e, Class: "path-ver"}},
		// round-4 seeded changes: ReadFrom through the wrapper, long patterns, tracer / recorder shut down mid-request
		{Kind: "R", C: Cfg{Obs: true}, Q: Req{Method: "GET", Path: "/s/a", Prog: Prog{Mode: "F", Status: 201, Size: 1023}, Class: "main-static"}},
		{Kind: "R", C: Cfg{Obs: true, Compiled: true}, Q: Req{Method: "GET", Path: "/d/7", Prog: Prog{Mode: "G", Size: 4096}, Class: "main-param"}},
		// K08h: Flush first, then a status that comes too late (app recorder; single request through the counting recorder)
		{Kind: "A", C: Cfg{Obs: true}, H: []Req{
			{Method: "GET", Path: "/s/a", Prog: Prog{Mode: "L", Status: 500, Size: 4}, Class: "main-static"},
			{Method: "GET", Path: "/d/7", Prog: Prog{Mode: "L", Status: 404, Size: 0}, Class: "main-param"},
		}},
		{Kind: "R", C: Cfg{Obs: true}, Q: Req{Method: "GET", Path: "/s/a", Prog: Prog{Mode: "L", Status: 503, Size: 17}, Class: "main-static"}},
		{Kind: "A", C: Cfg{Obs: true}, H: []Req{
			{Method: "GET", Path: "/long/" + longSeg, Prog: e, Class: "long-pattern"},
			{Method: "GET", Path: "/lp/7/" + longSeg, Prog: Prog{Mode: "F", Status: 404, Size: 100}, Class: "long-pattern"},
			{Method: "GET", Path: "/s/a", Prog: Prog{Mode: "E", Status: 200, Size: 5, Shut: true}, Class: "main-static"},
			{Method: "GET", Path: "/d/7", Prog: e, Class: "main-param"},
		}},
		{Kind: "A", C: on, H: []Req{
			{Method: "GET", Path: "/s/a", Prog: e, Class: "main-static"},
			{Method: "GET", Path: "/vmiss", Ver: "v1", Prog: e, Class: "ver-miss"},
			{Method: "GET", Path: "/vs", Ver: "v0", Prog: e, Class: "ver-static"},
			{Method: "GET", Path: "/vd/7", Ver: "v0", Prog: e, Class: "ver-param"},
			{Method: "GET", Path: "/x/s", Prog: e, Class: "excluded"},
		}},
	}
}

// caseTimeout bounds one case: a request that never completes is an observation (T), not a hang; a panic
// outside the recovered ServeHTTP call (framework code run by the harness) is an observation (P).
const caseTimeout = 20 * time.Second

func run(id string, cs Case) string {
	done := make(chan string, 1)
	go func() {
		defer func() {
			if r := recover(); r != nil {
				done <- hx.NewLine(id).Tok("X").Sep().Tok("P").String() + hx.Comment(cs)
			}
		}()
		switch cs.Kind {
		case "A":
			done <- runA(id, cs)
		case "AW":
			done <- runAW(id, cs)
		case "M":
			done <- runM(id, cs)
		case "O":
			done <- runO(id, cs)
		default:
			done <- runR(id, cs)
		}
	}()
	select {
	case line := <-done:
		return line
	case <-time.After(caseTimeout):
		curMu = sync.Mutex{} // the stuck goroutines are abandoned
		delete(routers, cs.C.key())
		return hx.NewLine(id).Tok("X").Sep().Tok("T").String() + hx.Comment(cs)
	}
}

func main() {
	slog.SetDefault(slog.New(slog.NewTextHandler(io.Discard, nil))) // middleware/recovery logs the probe panics
	a := hx.ParseArgs()
	w := hx.Out()
	defer w.Flush()
	switch a.Cmd {
	case "replay":
		for _, line := range hx.StdinLines() {
			var cs Case
			id, err := hx.CaseFromComment(line, &cs)
			if err != nil {
				fmt.Fprintln(os.Stderr, "replay:", err)
				os.Exit(1)
			}
			fmt.Fprintln(w, run(id, cs))
		}
	case "gen":
		st := hx.NewStats()
		// hx.NewRand(s+1) is hx.NewRand(s) shifted by one draw (state = seed*K + c, step = +K): reseed through
		// the mixed output so that different seeds give unrelated streams
		r := hx.NewRand(hx.NewRand(a.Seed).U64())
		for i, cs := range witnesses() {
			fmt.Fprintln(w, run(fmt.Sprintf("c08-w%d", i), cs))
			if cs.Kind == "R" {
				st.Case(fmt.Sprintf("%+v", cs), count(st, cs.C, cs.Q))
			}
		}
		// every (configuration, class) pair at least once, then random
		i := 0
		emitR := func(c Cfg, q Req) {
			cs := Case{Kind: "R", C: c, Q: q}
			if wireOK(q) && r.Chance(1, 8) {
				cs.Wire = true
				st.Count("wire(real server+client)")
			}
			st.Case(fmt.Sprintf("%+v", cs), count(st, c, q))
			fmt.Fprintln(w, run(fmt.Sprintf("c08-%d-%d", a.Seed, i), cs))
			i++
		}
		for m := 0; m < 48 && i < a.N; m++ {
			c := Cfg{Obs: m&1 == 0, Compiled: m&2 != 0, Versioning: m&4 != 0, NoRoute: m&8 != 0, Root: m / 16}
			c.PathVer = c.Versioning && m&8 != 0
			for _, cl := range classes() {
				q := cl.gen(r)
				q.Prog = genProg(r, chainOf(q, c))
				emitR(c, q)
			}
		}
		nA := a.N / 40
		for i < a.N-nA {
			c := genCfg(r)
			emitR(c, genReq(r, c))
		}
		for k := 0; k < nA; k++ {
			c := genCfg(r)
			c.Obs = true
			n := r.Range(2, 40)
			if a.Tier == "thorough" {
				n = r.Range(2, 120)
			}
			h := make([]Req, n)
			nt := false
			for j := range h {
				h[j] = genReq(r, c)
				if r.Chance(1, 25) {
					h[j].Prog.Shut = true
					st.Count("A-shutdown-mid-request")
				}
				if count(st, c, h[j]) {
					nt = true
				}
			}
			cs := Case{Kind: "A", C: c, H: h}
			if k%3 == 2 {
				cs.Conc = 8
				st.Count("A-histories-concurrent")
			}
			st.Count("A-histories")
			st.Case(fmt.Sprintf("%+v", cs), nt)
			fmt.Fprintln(w, run(fmt.Sprintf("c08-%d-a%d", a.Seed, k), cs))
		}
		nW := 3
		if a.Tier == "thorough" {
			nW = 12
		}
		if a.N < 100 {
			nW = 0
		}
		for k := 0; k < nW; k++ {
			c := genCfg(r)
			c.Obs = true
			n := r.Range(4, 10)
			h := make([]Req, n)
			for j := range h {
				for {
					h[j] = genReq(r, c)
					h[j].Prog.Cancel = false
					if wireOK(h[j]) && h[j].Prog.Mode != "X" {
						break
					}
				}
				h[j].Abort = r.Chance(1, 3)
				count(st, c, h[j])
				if h[j].Abort {
					st.Count("client-aborts-mid-flight(real server)")
				}
			}
			cs := Case{Kind: "AW", C: c, H: h}
			st.Count("AW-histories")
			st.Case(fmt.Sprintf("%+v", cs), true)
			fmt.Fprintln(w, run(fmt.Sprintf("c08-%d-w%d", a.Seed, k), cs))
		}
		// kind M: stacks of standalone layers in front of a plain handler / an app (stack.go)
		for k, cs := range mWitnesses() {
			st.Count("M-histories")
			st.Case(fmt.Sprintf("%+v", cs), true)
			fmt.Fprintln(w, run(fmt.Sprintf("c08-mw%d", k), cs))
		}
		nM := a.N / 60
		for k := 0; k < nM; k++ {
			cs := Case{Kind: "M", Term: hx.Pick(r, []string{"mux", "app", "app"}), Stack: mStacks[(k+int(a.Seed))%len(mStacks)]}
			n := r.Range(1, 12)
			cs.Wire = r.Chance(1, 3)
			for j := 0; j < n; j++ {
				q := genMReq(r)
				if cs.Wire && r.Chance(1, 3) {
					q.Mode = "H" // informational response first: only a real server handles it like production
					st.Count("M-early-hints(1xx)")
				}
				if !cs.Wire && r.Chance(1, 5) {
					q.Mode = hx.Pick(r, []string{"S", "J", "V"}) // faults: short write, failed hijack, rejected status code
					q.Method, q.Path = "GET", hx.Pick(r, []string{"/s", "/p/1"}) // a path whose handler runs
					st.Count("M-fault:" + q.Mode)
				}
				if cs.Wire && (q.Status == 204 || q.Status == 301) && q.Mode != "Q" && q.Mode != "O" {
					q.Status = 200 // the client follows redirects / net/http drops bodies on 204: not this kind's subject
				}
				cs.MH = append(cs.MH, q)
			}
			if cs.Wire {
				st.Count("M-histories-real-server")
			}
			st.Count("M-histories")
			st.Count("M-stack:" + strings.Join(cs.Stack, ">") + ">" + cs.Term)
			st.Case(fmt.Sprintf("%+v", cs), len(cs.Stack) > 0)
			fmt.Fprintln(w, run(fmt.Sprintf("c08-%d-m%d", a.Seed, k), cs))
		}
		// kind O: metrics provider started while a request is in flight (otlp.go)
		if a.N >= 100 {
			for k := 0; k < 2; k++ {
				n := r.Range(2, 6)
				cs := Case{Kind: "O", StartAt: r.Range(0, n-1)}
				for j := 0; j < n; j++ {
					q := genMReq(r)
					q.Method, q.Path = "GET", hx.Pick(r, []string{"/s", "/p/1"})
					cs.MH = append(cs.MH, q)
				}
				st.Count("O-histories(late metrics start)")
				st.Case(fmt.Sprintf("%+v", cs), true)
				fmt.Fprintln(w, run(fmt.Sprintf("c08-%d-o%d", a.Seed, k), cs))
			}
		}
		if n := abortNotSeen.Load(); n > 0 {
			st.Counters["abort-not-seen-by-server-within-3s(discarded)"] = int(n)
		}
		st.Emit(w)
	}
}
