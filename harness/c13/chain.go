// Handler-chain cases of C13's app layer (app/version_group.go, app/route_option.go): a script of operations on
// app.Version(v) and its (nested) groups — Use, Group(prefix, mw…), a route with WithBefore / WithAfter — and
// app.Use; every route is then requested and reports the order in which the numbered middleware ran.
//
//	<id> G <n> { U <g> <k> <id>* | S <parent> <child> <k> <id>* | R <g> <route> <k> <before>* <k> <after>* | A <k> <id>* }*
//	  => <n> { <route> <status> <k> <marker>* }*          (marker 0 = the handler itself)
package main

import (
	"context"
	"fmt"
	"net/http"
	"net/http/httptest"
	"strconv"

	"rivaas.dev/app"
	"rivaas.dev/router"
	"rivaas.dev/router/version"
	"verif/harness/hx"
)

type chainOpT struct {
	K      string // U use, S sub-group, R route, A app.Use
	G      int    // group (0 = app.Version("v1") itself)
	Child  int    `json:",omitempty"`
	Route  int    `json:",omitempty"`
	IDs    []int  `json:",omitempty"`
	Before []int  `json:",omitempty"`
	After  []int  `json:",omitempty"`
}

type chainCaseT struct{ Ops []chainOpT }

type chainKeyT struct{}

func chainMw(id int) app.HandlerFunc {
	return func(c *app.Context) {
		if p, ok := c.Request.Context().Value(chainKeyT{}).(*[]int); ok {
			*p = append(*p, id)
		}
		c.Next()
	}
}

func chainMws(ids []int) []app.HandlerFunc {
	var out []app.HandlerFunc
	for _, id := range ids {
		out = append(out, chainMw(id))
	}
	return out
}

func emitChain(id string, k chainCaseT, st *hx.Stats) string {
	l := hx.NewLine(id).Tok("G").Nat(len(k.Ops))
	ints := func(xs []int) {
		l.Nat(len(xs))
		for _, x := range xs {
			l.Nat(x)
		}
	}
	for _, o := range k.Ops {
		l.Tok(o.K)
		switch o.K {
		case "U":
			l.Nat(o.G)
			ints(o.IDs)
		case "S":
			l.Nat(o.G).Nat(o.Child)
			ints(o.IDs)
		case "R":
			l.Nat(o.G).Nat(o.Route)
			ints(o.Before)
			ints(o.After)
		case "A":
			ints(o.IDs)
		}
	}
	in := l.String()
	l.Sep()
	a, err := app.New(app.WithServiceName("verif-c13"), app.WithServiceVersion("v0.0.0"),
		app.WithRouter(router.WithVersioning(version.WithHeaderDetection("X-API-Version"), version.WithDefault("v1"))))
	if err != nil {
		return l.Tok("X").String() + hx.Comment(caseT{Chain: &k})
	}
	groups := map[int]*app.VersionGroup{0: a.Version("v1")}
	prefix := map[int]string{0: ""}
	type routeT struct {
		id   int
		path string
	}
	var routes []routeT
	nested, uses := 0, 0
	for _, o := range k.Ops {
		switch o.K {
		case "A":
			a.Use(chainMws(o.IDs)...)
		case "U":
			if g := groups[o.G]; g != nil {
				g.Use(chainMws(o.IDs)...)
				uses++
			}
		case "S":
			if g := groups[o.G]; g != nil {
				p := "/g" + strconv.Itoa(o.Child)
				groups[o.Child] = g.Group(p, chainMws(o.IDs)...)
				prefix[o.Child] = prefix[o.G] + p
				nested++
			}
		case "R":
			if g := groups[o.G]; g != nil {
				p := "/r" + strconv.Itoa(o.Route)
				g.GET(p, func(c *app.Context) {
					if pp, ok := c.Request.Context().Value(chainKeyT{}).(*[]int); ok {
						*pp = append(*pp, 0)
					}
					_ = c.String(http.StatusOK, "ok")
				}, app.WithBefore(chainMws(o.Before)...), app.WithAfter(chainMws(o.After)...))
				routes = append(routes, routeT{o.Route, prefix[o.G] + p})
			}
		}
	}
	l.Nat(len(routes))
	for _, rt := range routes {
		var seen []int
		req := httptest.NewRequest(http.MethodGet, rt.path, nil)
		req = req.WithContext(context.WithValue(req.Context(), chainKeyT{}, &seen))
		rec := httptest.NewRecorder()
		a.Router().ServeHTTP(rec, req)
		l.Nat(rt.id).Nat(rec.Code)
		ints(seen)
	}
	if st != nil {
		st.Case(in[len(id):], nested > 0 && uses > 0)
		st.Count("chain_cases")
		st.Count(fmt.Sprintf("chain_nested_groups_%d", min(nested, 3)))
	}
	return l.String() + hx.Comment(caseT{Chain: &k})
}

func genChainCase(r *hx.Rand) chainCaseT {
	var k chainCaseT
	next := 1 // next middleware id
	ids := func(max int) []int {
		var out []int
		for i, n := 0, r.Range(0, max); i < n; i++ {
			out = append(out, next)
			next++
		}
		return out
	}
	groups := []int{0}
	nr := 0
	for i, n := 0, r.Range(2, 9); i < n; i++ {
		g := hx.Pick(r, groups)
		switch r.Intn(8) {
		case 0, 1:
			k.Ops = append(k.Ops, chainOpT{K: "U", G: g, IDs: ids(2)})
		case 2, 3:
			c := len(groups)
			groups = append(groups, c)
			k.Ops = append(k.Ops, chainOpT{K: "S", G: g, Child: c, IDs: ids(2)})
		case 4, 5, 6:
			nr++
			k.Ops = append(k.Ops, chainOpT{K: "R", G: g, Route: nr, Before: ids(2), After: ids(2)})
		case 7:
			k.Ops = append(k.Ops, chainOpT{K: "A", IDs: ids(2)})
		}
	}
	nr++
	k.Ops = append(k.Ops, chainOpT{K: "R", G: hx.Pick(r, groups), Route: nr, Before: ids(1), After: ids(1)})
	return k
}

// fixedChainCases: two children of one parent whose list has spare capacity (an aliasing append would let the second
// child overwrite the first one's middleware); a parent Use after the child exists; app.Use after the routes
func fixedChainCases() []chainCaseT {
	return []chainCaseT{
		{Ops: []chainOpT{{K: "U", G: 0, IDs: []int{1}}, {K: "U", G: 0, IDs: []int{2}}, {K: "U", G: 0, IDs: []int{3}},
			{K: "S", G: 0, Child: 1, IDs: []int{4}}, {K: "S", G: 0, Child: 2, IDs: []int{5}},
			{K: "R", G: 1, Route: 1}, {K: "R", G: 2, Route: 2}, {K: "R", G: 0, Route: 3}}},
		{Ops: []chainOpT{{K: "U", G: 0, IDs: []int{1, 2, 3}}, {K: "S", G: 0, Child: 1, IDs: []int{4}}, {K: "U", G: 1, IDs: []int{5}},
			{K: "S", G: 1, Child: 2, IDs: []int{6}}, {K: "S", G: 1, Child: 3, IDs: []int{7}}, {K: "U", G: 0, IDs: []int{8}},
			{K: "R", G: 2, Route: 1, Before: []int{9}, After: []int{10}}, {K: "R", G: 3, Route: 2}, {K: "R", G: 1, Route: 3}, {K: "A", IDs: []int{11}}}},
	}
}
