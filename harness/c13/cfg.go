// Configuration cases of C13: a list of version options handed to version.New; what comes back through the public
// accessors (or which sentinel error) is compared with the Lean model of NewConfig / the option functions.
//
//	<id> O <n> { P <s> | H <s> | Q <s> | A <s> | C <n> | CN | D <s> | V <n> <s>* | RH | W | SE | OB | CK }*
//	  => E <kind> [<index>] | K <n> <method>* <default> <n> <valid>* <sendVersionHeader> <warning299> <enforceSunset> <observer>
package main

import (
	"errors"
	"fmt"
	"net/http"
	"strings"
	"time"

	"rivaas.dev/router/version"
	"verif/harness/hx"
)

type cfgOptT struct {
	K  string   // P H Q A (argument A), C (custom detector N), CN (nil custom), D (default A), V (valid Vs), RH, W, SE, OB, CK
	A  string   `json:",omitempty"`
	N  int      `json:",omitempty"`
	Vs []string `json:",omitempty"`
}

type cfgCaseT struct{ Opts []cfgOptT }

func (k cfgCaseT) options() []version.Option {
	var vo []version.Option
	for _, o := range k.Opts {
		switch o.K {
		case "P":
			vo = append(vo, version.WithPathDetection(o.A))
		case "H":
			vo = append(vo, version.WithHeaderDetection(o.A))
		case "Q":
			vo = append(vo, version.WithQueryDetection(o.A))
		case "A":
			vo = append(vo, version.WithAcceptDetection(o.A))
		case "C":
			name := custHeader(o.N)
			vo = append(vo, version.WithCustomDetection(func(req *http.Request) string { return req.Header.Get(name) }))
		case "CN":
			vo = append(vo, version.WithCustomDetection(nil))
		case "D":
			vo = append(vo, version.WithDefault(o.A))
		case "V":
			vo = append(vo, version.WithValidVersions(o.Vs...))
		case "RH":
			vo = append(vo, version.WithResponseHeaders())
		case "W":
			vo = append(vo, version.WithWarning299())
		case "SE":
			vo = append(vo, version.WithSunsetEnforcement())
		case "OB":
			vo = append(vo, version.WithObserver(version.OnMissing(func() {})))
		case "CK":
			vo = append(vo, version.WithClock(func() time.Time { return time.Unix(1750000000, 0) }))
		}
	}
	return vo
}

var cfgErrKinds = []struct {
	err  error
	kind string
}{
	{version.ErrEmptyPathPattern, "emptyPathPattern"}, {version.ErrEmptyHeaderName, "emptyHeaderName"},
	{version.ErrEmptyQueryParam, "emptyQueryParam"}, {version.ErrEmptyAcceptPattern, "emptyAcceptPattern"},
	{version.ErrMissingVersionPlaceholder, "missingPlaceholder"}, {version.ErrNilCustomDetector, "nilCustom"},
	{version.ErrEmptyDefaultVersion, "emptyDefault"}, {version.ErrNoValidVersions, "noValidVersions"},
	{version.ErrEmptyVersionEntry, "emptyVersionEntry"}, {version.ErrDefaultRequired, "defaultRequired"},
}

func emitCfg(id string, k cfgCaseT, st *hx.Stats) string {
	l := hx.NewLine(id).Tok("O").Nat(len(k.Opts))
	illFormed := 0
	for _, o := range k.Opts {
		l.Tok(o.K)
		switch o.K {
		case "P", "A":
			l.Str(o.A)
			if o.A == "" || !strings.Contains(o.A, "{version}") {
				illFormed++
			}
		case "H", "Q", "D":
			l.Str(o.A)
			if o.A == "" {
				illFormed++
			}
		case "C":
			l.Nat(o.N)
		case "CN":
			illFormed++
		case "V":
			l.Strs(o.Vs)
			if len(o.Vs) == 0 || contains(o.Vs, "") {
				illFormed++
			}
		}
	}
	in := l.String()
	l.Sep()
	var eng *version.Engine
	var err error
	panicked := false
	func() {
		defer func() {
			if recover() != nil {
				panicked = true
			}
		}()
		eng, err = version.New(k.options()...)
	}()
	switch {
	case panicked:
		l.Tok("P")
	case err != nil:
		kind := "other"
		for _, e := range cfgErrKinds {
			if errors.Is(err, e.err) {
				kind = e.kind
				break
			}
		}
		l.Tok("E").Tok(kind)
		if kind == "emptyVersionEntry" {
			idx := -1
			msg := err.Error()
			if i := strings.LastIndex(msg, "at index "); i >= 0 {
				_, _ = fmt.Sscanf(msg[i:], "at index %d", &idx)
			}
			l.Nat(max(idx, 0))
		}
		if st != nil {
			st.Count("config_error_" + kind)
		}
	default:
		c := eng.Config()
		var methods []string
		for _, d := range c.Detectors() {
			methods = append(methods, d.Method())
		}
		l.Tok("K").Strs(methods).Str(c.DefaultVersion()).Strs(c.ValidVersions())
		l.Bool(c.SendVersionHeader()).Bool(c.SendWarning299()).Bool(c.EnforceSunset()).Bool(c.Observer() != nil)
		if st != nil {
			st.Count("config_accepted")
			st.Count(fmt.Sprintf("config_accepted_detectors_%d", min(len(methods), 5)))
		}
	}
	if st != nil {
		// non-trivial: the list holds an ill-formed option after at least one well-formed one, or two detectors of
		// which one is custom (the order question), or a setting given twice
		st.Case(in[len(id):], illFormed > 0 && len(k.Opts) > 1 || len(k.Opts) >= 3)
		st.Count(fmt.Sprintf("config_ill_formed_options_%d", min(illFormed, 3)))
	}
	return l.String() + hx.Comment(caseT{Cfg: &k})
}

func genCfgCase(r *hx.Rand) cfgCaseT {
	var k cfgCaseT
	n := r.Range(0, 7)
	bad := r.Chance(1, 3) // otherwise every argument is well-formed
	pat := func(pool []string, badPool []string) string {
		if bad && r.Chance(1, 3) {
			return hx.Pick(r, badPool)
		}
		return hx.Pick(r, pool)
	}
	for i := 0; i < n; i++ {
		switch r.Intn(14) {
		case 0, 1:
			k.Opts = append(k.Opts, cfgOptT{K: "P", A: pat([]string{"/v{version}/", "/api/v{version}", "/{version}/", "/api/{version}", "{version}"}, []string{"", "/api/", "/v{version", "{Version}", "/v/"})})
		case 2, 3:
			k.Opts = append(k.Opts, cfgOptT{K: "H", A: pat([]string{"X-API-Version", "API-Version", "x"}, []string{""})})
		case 4, 5:
			k.Opts = append(k.Opts, cfgOptT{K: "Q", A: pat([]string{"v", "version", "api-version"}, []string{""})})
		case 6:
			k.Opts = append(k.Opts, cfgOptT{K: "A", A: pat([]string{"application/vnd.api.{version}+json", "{version}", "application/vnd.v{version}"}, []string{"", "application/json", "application/vnd.{ version }+json"})})
		case 7, 8:
			if bad && r.Chance(1, 6) {
				k.Opts = append(k.Opts, cfgOptT{K: "CN"})
			} else {
				k.Opts = append(k.Opts, cfgOptT{K: "C", N: r.Range(1, 3)})
			}
		case 9:
			k.Opts = append(k.Opts, cfgOptT{K: "D", A: pat([]string{"v1", "v2", "v3", "latest"}, []string{""})})
		case 10:
			vs := []string{}
			for j, m := 0, r.Range(1, 3); j < m; j++ {
				vs = append(vs, hx.Pick(r, []string{"v1", "v2", "v3", "2024-01-01"}))
			}
			if bad && r.Chance(1, 3) {
				if r.Chance(1, 3) {
					vs = nil
				} else {
					at := r.Intn(len(vs) + 1)
					vs = append(vs[:at:at], append([]string{""}, vs[at:]...)...)
				}
			}
			k.Opts = append(k.Opts, cfgOptT{K: "V", Vs: vs})
		case 11:
			k.Opts = append(k.Opts, cfgOptT{K: hx.Pick(r, []string{"RH", "W", "SE"})})
		case 12:
			k.Opts = append(k.Opts, cfgOptT{K: "OB"})
		case 13:
			k.Opts = append(k.Opts, cfgOptT{K: "CK"})
		}
	}
	return k
}

func fixedCfgCases() []cfgCaseT {
	return []cfgCaseT{
		{},
		{Opts: []cfgOptT{{K: "H", A: "X-V"}, {K: "P", A: "/api/"}, {K: "D", A: "v2"}}},
		{Opts: []cfgOptT{{K: "P", A: "/v{version}/"}, {K: "C", N: 1}, {K: "V", Vs: []string{"v1", "v2"}}, {K: "Q", A: "v"}, {K: "C", N: 2}, {K: "D", A: "v3"}, {K: "W"}, {K: "D", A: "v2"}}},
		{Opts: []cfgOptT{{K: "V", Vs: []string{"v1", "", "v3"}}}},
		{Opts: []cfgOptT{{K: "V"}}},
		{Opts: []cfgOptT{{K: "D", A: ""}}},
		{Opts: []cfgOptT{{K: "CN"}, {K: "P", A: ""}}},
		{Opts: []cfgOptT{{K: "A", A: "application/json"}}},
		{Opts: []cfgOptT{{K: "Q", A: "v"}, {K: "H", A: ""}}},
		{Opts: []cfgOptT{{K: "V", Vs: []string{"v1"}}, {K: "V", Vs: []string{"v2", "v3"}}, {K: "RH"}, {K: "SE"}, {K: "OB"}, {K: "CK"}}},
	}
}
